(** Inversion of [World.step]: every step either leaves the world unchanged or is one of six shapes, each
    carrying the keeper call that succeeded.  All later proofs go through [step_trans]. *)
From IBC Require Import Lib.Bytes Lib.BytesFacts Transfer.DenomLocal Transfer.Bank Transfer.Keeper Transfer.World
  Transfer.BankFacts Transfer.DenomFacts.
Local Open Scope Z_scope.

Lemma unmarshal_pd_spec pd data :
  unmarshal_pd pd = Some data ->
  ftpd_valid pd = true /\ data = mkITR (extract (pd_path pd)) (pd_amt pd) (pd_sender pd) (pd_receiver pd).
Proof. unfold unmarshal_pd. destruct (ftpd_valid pd); [|discriminate]. intro H. inversion H. auto. Qed.

Lemma ftpd_valid_spec pd :
  ftpd_valid pd = true ->
  0 < pd_amt pd /\ addr_blank (pd_sender pd) = false /\ addr_blank (pd_receiver pd) = false /\
  denom_valid (extract (pd_path pd)) = true.
Proof.
  unfold ftpd_valid. intro H. repeat (apply andb_true_iff in H; destruct H as [H ?]).
  apply Z.ltb_lt in H. repeat split; try assumption; now apply negb_true_iff.
Qed.

Lemma on_recv_any_spec (v2 : bool) k pd sc dc r k' ok :
  (if v2 then on_recv_v2 else on_recv_v1) k pd sc dc r = ROk (k', ok) ->
  (ok = false /\ k' = k) \/
  (ok = true /\ exists data, unmarshal_pd pd = Some data /\
                 on_recv_packet k data transfer_port sc transfer_port dc = ROk k').
Proof.
  assert (H1 : on_recv_v1 k pd sc dc r = ROk (k', ok) ->
               (ok = false /\ k' = k) \/
               (ok = true /\ exists data, unmarshal_pd pd = Some data /\
                 on_recv_packet k data transfer_port sc transfer_port dc = ROk k')).
  { unfold on_recv_v1. destruct (unmarshal_pd pd) as [data|] eqn:Eu.
    - destruct (on_recv_packet _ _ _ _ _ _) as [k2| |] eqn:Er; intro H; inversion H; subst; eauto.
    - intro H; inversion H; auto. }
  destruct v2; [|exact H1].
  unfold on_recv_v2. destruct (negb _); [|exact H1]. intro H; inversion H; auto.
Qed.

Lemma on_ack_any_spec (v2 : bool) k pd sc ok r k' :
  (if v2 then on_ack_v2 else on_ack_v1) k pd sc (ack_written v2 ok) r = ROk k' ->
  exists data, unmarshal_pd pd = Some data /\
    (if ok then k' = k else refund_packet_tokens k transfer_port sc data = ROk k').
Proof.
  destruct v2, ok; simpl; destruct (unmarshal_pd pd) as [data|]; try discriminate;
    unfold on_ack_keeper; intro H; exists data; split; auto; now inversion H.
Qed.

Lemma on_timeout_spec k pd sc r k' :
  on_timeout k pd sc r = ROk k' ->
  exists data, unmarshal_pd pd = Some data /\ refund_packet_tokens k transfer_port sc data = ROk k'.
Proof. unfold on_timeout. destruct (unmarshal_pd pd) as [data|]; [|discriminate]. eauto. Qed.

Lemma on_send_v2_spec k sc dc pd signer k' :
  on_send_v2 k sc dc pd signer = ROk k' ->
  ftpd_valid pd = true /\ pd_sender pd = AOk signer /\
  send_transfer k transfer_port sc (extract (pd_path pd)) (pd_amt pd) signer = ROk k'.
Proof.
  unfold on_send_v2. destruct (negb _); [discriminate|].
  destruct (unmarshal_pd pd) as [data|] eqn:Eu; [|discriminate].
  apply unmarshal_pd_spec in Eu. destruct Eu as (Hv & ->). simpl.
  destruct (pd_sender pd) as [sender| |] eqn:Es; simpl; try discriminate.
  destruct (acct_eqb sender signer) eqn:Ea; simpl; [|discriminate].
  apply acct_eqb_eq in Ea. subst.
  destruct (existsb _ _); [discriminate|]. auto.
Qed.

(** the successful send, whichever entry point: the token the keeper was handed at send time is either the
    one TokenFromCoin produced (v1) or the one parsed from the packet path (v2) *)
Lemma msg_transfer_spec k hc pc chan coin amt sender receiver alias k' pd v2 :
  msg_transfer k hc pc chan coin amt sender receiver alias = ROk (k', pd, v2) ->
  exists snd tok,
    sender = AOk snd /\ token_from_coin k coin = Some tok /\ pd = mkPD (path tok) amt sender receiver /\
    ftpd_valid pd = true /\
    (if v2 then (exists dst, pc chan = Some dst) /\
                send_transfer k transfer_port chan (extract (pd_path pd)) amt snd = ROk k'
     else hc chan = true /\ send_transfer k transfer_port chan tok amt snd = ROk k').
Proof.
  unfold msg_transfer.
  destruct ((amt <=? 0) || addr_blank sender || addr_blank receiver); [discriminate|].
  destruct (negb (send_en k)); [discriminate|].
  destruct sender as [snd| |]; simpl; try discriminate.
  destruct (token_from_coin k coin) as [tok|] eqn:Et; [|discriminate].
  destruct (ftpd_valid _) eqn:Ev; simpl; [|discriminate].
  destruct (negb (hc chan) || alias) eqn:Ea.
  - destruct (pc chan) as [dst|] eqn:Ep; [|discriminate].
    destruct (on_send_v2 _ _ _ _ _) as [k2| |] eqn:Es; try discriminate.
    intro H; inversion H; subst; clear H.
    apply on_send_v2_spec in Es. destruct Es as (_ & _ & Hs). simpl in Hs.
    exists snd, tok. repeat split; eauto.
  - apply orb_false_iff in Ea. destruct Ea as [Eh _]. apply negb_false_iff in Eh.
    destruct (send_transfer _ _ _ _ _ _) as [k2| |] eqn:Es; try discriminate.
    intro H; inversion H; subst; clear H.
    exists snd, tok. repeat split; auto.
Qed.

(** who may be debited by an operation: the account named as sender when the transaction's verified signer is
    that account or a grantee whose grant accepted the message; the signer of a v2 send (payload sender must
    equal it); the signer of a bank send *)
Definition authorizes (o : Op) (c : N) (a : Acct) : Prop :=
  match o with
  | OTransfer c' signer authz _ _ _ sender _ _ => c' = c /\ sender = AOk a /\ (signer = a \/ authz = true)
  | OSendV2 c' signer _ pd => c' = c /\ signer = a /\ pd_sender pd = AOk a
  | OBankSend c' from _ _ _ => c' = c /\ from = a
  | _ => False
  end.

Inductive Trans (w w' : World) (o : Op) : Prop :=
| T_same : w' = w -> Trans w w' o
| T_send c chan pd v2 tok snd k' :
    (match o with OTransfer c0 _ _ ch0 _ _ _ _ _ => c0 = c /\ ch0 = chan | OSendV2 c0 _ ch0 pd0 => c0 = c /\ ch0 = chan /\ pd0 = pd
                | _ => False end) ->
    authorizes o c snd -> is_user snd = true ->
    has_chan (w_links w) c chan = true ->
    ftpd_valid pd = true -> pd_sender pd = AOk snd ->
    pd_path pd = path tok ->
    (tok = extract (pd_path pd) \/
     (v2 = false /\ exists coin, token_from_coin (w_ch w c) coin = Some tok /\
                                 match o with OTransfer _ _ _ _ coin0 _ _ _ _ => coin0 = coin | _ => False end)) ->
    send_transfer (w_ch w c) transfer_port chan tok (pd_amt pd) snd = ROk k' ->
    w' = mkW (w_links w) (upd_ch (w_ch w) c k')
             (w_pk w ++ [mkPS c chan (next_seq (w_pk w) c chan) v2 pd true None]) ->
    Trans w w' o
| T_recv n relayer p c' ch' k' ok :
    o = ORecv n relayer false ->
    nth_error (w_pk w) n = Some p -> ps_recv p = None -> ps_committed p = true ->
    peer (w_links w) (ps_src p) (ps_chan p) = Some (c', ch') ->
    ((ok = false /\ k' = w_ch w c') \/
     (ok = true /\ exists data, unmarshal_pd (ps_data p) = Some data /\
                    on_recv_packet (w_ch w c') data transfer_port (ps_chan p) transfer_port ch' = ROk k')) ->
    w' = mkW (w_links w) (upd_ch (w_ch w) c' k') (upd_nth n (set_recv ok) (w_pk w)) ->
    Trans w w' o
| T_ack n relayer p ok data k' :
    o = OAck n relayer ->
    nth_error (w_pk w) n = Some p -> ps_recv p = Some ok -> ps_committed p = true ->
    unmarshal_pd (ps_data p) = Some data ->
    (if ok then k' = w_ch w (ps_src p)
     else refund_packet_tokens (w_ch w (ps_src p)) transfer_port (ps_chan p) data = ROk k') ->
    w' = mkW (w_links w) (upd_ch (w_ch w) (ps_src p) k') (upd_nth n clear_commit (w_pk w)) ->
    Trans w w' o
| T_timeout n relayer p data k' :
    o = OTimeout n relayer true ->
    nth_error (w_pk w) n = Some p -> ps_recv p = None -> ps_committed p = true ->
    unmarshal_pd (ps_data p) = Some data ->
    refund_packet_tokens (w_ch w (ps_src p)) transfer_port (ps_chan p) data = ROk k' ->
    w' = mkW (w_links w) (upd_ch (w_ch w) (ps_src p) k') (upd_nth n clear_commit (w_pk w)) ->
    Trans w w' o
| T_bank c from to coin amt b :
    o = OBankSend c from to coin amt -> is_user from = true ->
    msg_send (bank (w_ch w c)) from to coin amt = Some b ->
    w' = mkW (w_links w) (upd_ch (w_ch w) c (set_bank (w_ch w c) b)) (w_pk w) ->
    Trans w w' o
| T_params c s r :
    o = OSetParams c s r ->
    w' = mkW (w_links w) (upd_ch (w_ch w) c (set_params (w_ch w c) s r)) (w_pk w) ->
    Trans w w' o.

Lemma has_chan_of_peer_chan links c ch dst : peer_chan links c ch = Some dst -> has_chan links c ch = true.
Proof. unfold peer_chan, has_chan. destruct (peer links c ch) as [[? ?]|]; [auto|discriminate]. Qed.

Lemma tx_authorized_spec signer sender authz :
  tx_authorized signer sender authz = true ->
  exists a, sender = AOk a /\ is_user a = true /\ (signer = a \/ authz = true).
Proof.
  unfold tx_authorized. intro H. apply andb_true_iff in H. destruct H as [Hu H].
  destruct sender as [a| |]; try discriminate. exists a. split; [reflexivity|].
  apply orb_true_iff in H. destruct H as [H|H].
  - apply acct_eqb_eq in H. subst. auto.
  - apply andb_true_iff in H. destruct H. auto.
Qed.

Ltac same := solve [apply T_same; reflexivity].

Lemma step_trans w o : Trans w (step_w w o) o.
Proof.
  unfold step_w, step. destruct w as [links ch pk]. cbn [w_links w_ch w_pk]. destruct o.
  - (* OTransfer *)
    destruct (tx_authorized signer sender authz) eqn:Ea; cbn [negb]; [|same].
    destruct (msg_transfer _ _ _ _ _ _ _ _ _) as [[[k' pd] v2]| |] eqn:Em; try same.
    apply tx_authorized_spec in Ea. destruct Ea as (a & -> & Hu & Hor).
    apply msg_transfer_spec in Em. destruct Em as (snd & tok & Hs & Ht & Hpd & Hv & Hbr).
    inversion Hs; subst snd; clear Hs.
    assert (Hamt : pd_amt pd = amt) by (subst pd; reflexivity).
    assert (Hsnd : pd_sender pd = AOk a) by (subst pd; reflexivity).
    destruct v2.
    + destruct Hbr as ((dst & Hdst) & Hst).
      eapply T_send with (c := c) (chan := chan) (pd := pd) (v2 := true) (tok := extract (pd_path pd)) (snd := a) (k' := k');
        cbn [w_links w_ch w_pk fst];
        [ simpl; auto | simpl; auto | exact Hu | eapply has_chan_of_peer_chan; eauto | exact Hv | exact Hsnd
        | symmetry; apply path_extract_valid; now apply ftpd_valid_spec in Hv
        | left; reflexivity | rewrite Hamt; exact Hst | reflexivity ].
    + destruct Hbr as (Hh & Hst).
      eapply T_send with (c := c) (chan := chan) (pd := pd) (v2 := false) (tok := tok) (snd := a) (k' := k');
        cbn [w_links w_ch w_pk fst];
        [ simpl; auto | simpl; auto | exact Hu | exact Hh | exact Hv | exact Hsnd
        | subst pd; reflexivity
        | right; split; [reflexivity|]; exists coin; auto | rewrite Hamt; exact Hst | reflexivity ].
  - (* OSendV2 *)
    destruct (is_user signer) eqn:Hu; cbn [negb]; [|same].
    destruct (peer_chan links c chan) as [dst|] eqn:Ep; [|same].
    destruct (on_send_v2 _ _ _ _ _) as [k'| |] eqn:Es; try same.
    apply on_send_v2_spec in Es. destruct Es as (Hv & Hs & Hst).
    eapply T_send with (c := c) (chan := chan) (pd := pd) (v2 := true) (tok := extract (pd_path pd)) (snd := signer) (k' := k');
      cbn [w_links w_ch w_pk fst];
      [ simpl; auto | simpl; auto | exact Hu | eapply has_chan_of_peer_chan; eauto | exact Hv | exact Hs
      | symmetry; apply path_extract_valid; now apply ftpd_valid_spec in Hv
      | left; reflexivity | exact Hst | reflexivity ].
  - (* ORecv *)
    destruct (nth_error pk k) as [p|] eqn:En; [|same].
    destruct (ps_recv p) eqn:Er; [same|].
    destruct (ps_committed p) eqn:Ec; cbn [negb orb]; [|same].
    destruct elapsed; [same|].
    destruct (peer links (ps_src p) (ps_chan p)) as [[c' ch']|] eqn:Ep; [|same].
    destruct ((if ps_v2 p then on_recv_v2 else on_recv_v1) _ _ _ _ _) as [[k' ok]| |] eqn:Ev; try same.
    apply on_recv_any_spec in Ev.
    eapply T_recv with (p := p) (c' := c') (ch' := ch') (k' := k') (ok := ok); cbn [w_links w_ch w_pk fst]; eauto.
  - (* OAck *)
    destruct (nth_error pk k) as [p|] eqn:En; [|same].
    destruct (ps_recv p) as [ok|] eqn:Er; [|same].
    destruct (ps_committed p) eqn:Ec; cbn [negb]; [|same].
    destruct ((if ps_v2 p then on_ack_v2 else on_ack_v1) _ _ _ _ _) as [k'| |] eqn:Ev; try same.
    apply on_ack_any_spec in Ev. destruct Ev as (data & Hu & Hk).
    eapply T_ack with (p := p) (ok := ok) (data := data) (k' := k'); cbn [w_links w_ch w_pk fst]; eauto.
  - (* OTimeout *)
    destruct (nth_error pk k) as [p|] eqn:En; [|same].
    destruct (ps_recv p) eqn:Er; [same|].
    destruct (ps_committed p) eqn:Ec; cbn [negb orb]; [|same].
    destruct elapsed; cbn [negb]; [|same].
    destruct (on_timeout _ _ _ _) as [k'| |] eqn:Ev; try same.
    apply on_timeout_spec in Ev. destruct Ev as (data & Hu & Hk).
    eapply T_timeout with (p := p) (data := data) (k' := k'); cbn [w_links w_ch w_pk fst]; eauto.
  - (* OBankSend *)
    destruct (is_user from) eqn:Hu; cbn [negb]; [|same].
    destruct (msg_send _ _ _ _ _) as [b|] eqn:Em; [|same].
    eapply T_bank; cbn [w_links w_ch w_pk fst]; eauto.
  - (* OSetParams *)
    eapply T_params; cbn [w_links w_ch w_pk fst]; eauto.
Qed.
