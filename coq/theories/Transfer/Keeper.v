(** The ICS-20 keeper of one chain, branch by branch in the order of the Go code:
    modules/apps/transfer/keeper/relay.go (SendTransfer, OnRecvPacket, OnAcknowledgementPacket, OnTimeoutPacket,
    refundPacketTokens, EscrowCoin, UnescrowCoin, TokenFromCoin), keeper/keeper.go (SetTotalEscrowForDenom),
    keeper/msg_server.go (Transfer), ibc_module.go and v2/ibc_module.go (callbacks), types/packet.go
    (ValidateBasic, UnmarshalPacketData / PacketDataV1ToV2).  Definitions only. *)
From IBC Require Import Lib.Bytes Transfer.DenomLocal Transfer.Bank.
Local Open Scope Z_scope.

Inductive Res (A : Type) := ROk (a : A) | RErr | RPanic.
Arguments ROk {A} a.
Arguments RErr {A}.
Arguments RPanic {A}.

Definition transfer_port : bytes := B "transfer".

(** An address string inside a message or packet: decodes to an account, does not decode, or is blank. *)
Inductive AddrStr := AOk (a : Acct) | ABad (k : N) | ABlank.
Definition addr_decode (s : AddrStr) : option Acct := match s with AOk a => Some a | _ => None end.
Definition addr_blank (s : AddrStr) : bool := match s with ABlank => true | _ => false end.

(** FungibleTokenPacketData (memo always empty in this model: no forwarding, no callbacks) *)
Record PData := mkPD { pd_path : bytes; pd_amt : Z; pd_sender : AddrStr; pd_receiver : AddrStr }.
(** InternalTransferRepresentation *)
Record ITR := mkITR { it_denom : Denom; it_amt : Z; it_sender : AddrStr; it_receiver : AddrStr }.

(** transfer keeper state of one chain: bank, totalEscrowForDenom, denom store (keyed by the path whose hash is
    the real key), params *)
Record KState := mkK {
  bank : Bank;
  tesc : Coin -> Z;
  dstore : list (bytes * Denom);
  send_en : bool;
  recv_en : bool }.

Definition set_bank (k : KState) (b : Bank) : KState := mkK b (tesc k) (dstore k) (send_en k) (recv_en k).
Definition set_tesc (k : KState) (t : Coin -> Z) : KState := mkK (bank k) t (dstore k) (send_en k) (recv_en k).
Definition set_dstore (k : KState) (s : list (bytes * Denom)) : KState := mkK (bank k) (tesc k) s (send_en k) (recv_en k).
Definition set_params (k : KState) (s r : bool) : KState := mkK (bank k) (tesc k) (dstore k) s r.

Fixpoint dlookup (s : list (bytes * Denom)) (p : bytes) : option Denom :=
  match s with
  | [] => None
  | (q, d) :: s' => if bytes_eqb q p then Some d else dlookup s' p
  end.

(** keeper.go:SetTotalEscrowForDenom — panics on a negative amount *)
Definition set_total_escrow (k : KState) (d : Coin) (v : Z) : Res KState :=
  if v <? 0 then RPanic else ROk (set_tesc k (fun d' => if coin_eqb d' d then v else tesc k d')).

(** relay.go:EscrowCoin *)
Definition escrow_coin (k : KState) (sender esc : Acct) (d : Coin) (amt : Z) : Res KState :=
  match send_coins (bank k) sender esc d amt with
  | None => RErr
  | Some b => set_total_escrow (set_bank k b) d (tesc k d + amt)
  end.

(** relay.go:UnescrowCoin *)
Definition unescrow_coin (k : KState) (esc receiver : Acct) (d : Coin) (amt : Z) : Res KState :=
  match send_coins (bank k) esc receiver d amt with
  | None => RErr
  | Some b => set_total_escrow (set_bank k b) d (tesc k d - amt)
  end.

(** relay.go:SendTransfer (BankKeeper.IsSendEnabledCoins is not modelled: bank send-enabled everywhere) *)
Definition send_transfer (k : KState) (port chan : bytes) (tok : Denom) (amt : Z) (sender : Acct) : Res KState :=
  if negb (send_en k) then RErr
  else if blocked sender then RErr
  else
    let coin := ibc_denom tok in
    if has_prefix tok port chan then
      match send_coins (bank k) sender ModTransfer coin amt with      (* SendCoinsFromAccountToModule *)
      | None => RErr
      | Some b =>
          match burn_coins b coin amt with
          | None => RPanic                                             (* "cannot burn coins after a successful send" *)
          | Some b' => ROk (set_bank k b')
          end
      end
    else escrow_coin k sender (Escrow chan) coin amt.

(** types/packet.go:FungibleTokenPacketData.ValidateBasic *)
Definition ftpd_valid (pd : PData) : bool :=
  (0 <? pd_amt pd) && negb (addr_blank (pd_sender pd)) && negb (addr_blank (pd_receiver pd)) &&
  denom_valid (extract (pd_path pd)).

(** types/packet.go:UnmarshalPacketData -> PacketDataV1ToV2 (JSON decoding itself is not modelled) *)
Definition unmarshal_pd (pd : PData) : option ITR :=
  if ftpd_valid pd then Some (mkITR (extract (pd_path pd)) (pd_amt pd) (pd_sender pd) (pd_receiver pd)) else None.

(** types/packet.go:InternalTransferRepresentation.ValidateBasic *)
Definition itr_valid (d : ITR) : bool :=
  negb (addr_blank (it_sender d)) && negb (addr_blank (it_receiver d)) &&
  denom_valid (it_denom d) && (0 <? it_amt d).

(** relay.go:OnRecvPacket.  RErr = the error that becomes an error acknowledgement. *)
Definition on_recv_packet (k : KState) (data : ITR) (src_port src_chan dst_port dst_chan : bytes) : Res KState :=
  if negb (itr_valid data) then RErr
  else if negb (recv_en k) then RErr
  else match addr_decode (it_receiver data) with
  | None => RErr
  | Some receiver =>
    if blocked receiver then RErr
    else
      let tok := it_denom data in
      if has_prefix tok src_port src_chan then
        (* sender chain is not the source: remove the prefix, unescrow *)
        let tok' := mkDenom (tl (dtrace tok)) (dbase tok) in
        unescrow_coin k (Escrow dst_chan) receiver (ibc_denom tok') (it_amt data)
      else
        (* sender chain is the source: prefix with the destination hop, record the denom, mint, send *)
        let tok' := mkDenom (mkHop dst_port dst_chan :: dtrace tok) (dbase tok) in
        let k1 := match dlookup (dstore k) (path tok') with
                  | Some _ => k
                  | None => set_dstore k ((path tok', tok') :: dstore k)
                  end in
        let voucher := ibc_denom tok' in
        let b1 := mint_coins (bank k1) voucher (it_amt data) in
        match send_coins b1 ModTransfer receiver voucher (it_amt data) with
        | None => RErr
        | Some b2 => ROk (set_bank k1 b2)
        end
  end.

(** relay.go:refundPacketTokens *)
Definition refund_packet_tokens (k : KState) (src_port src_chan : bytes) (data : ITR) : Res KState :=
  match addr_decode (it_sender data) with
  | None => RErr
  | Some sender =>
    if blocked sender then RErr
    else
      let tok := it_denom data in
      let coin := ibc_denom tok in
      if has_prefix tok src_port src_chan then
        let b1 := mint_coins (bank k) coin (it_amt data) in
        match send_coins b1 ModTransfer sender coin (it_amt data) with
        | None => RPanic                              (* "unable to send coins from module to account" *)
        | Some b2 => ROk (set_bank k b2)
        end
      else unescrow_coin k (Escrow src_chan) sender coin (it_amt data)
  end.

(** the acknowledgement bytes a callback is handed: the JSON result ack, the JSON error ack, the v2 sentinel
    (channeltypesv2.ErrorAcknowledgement), anything else *)
Inductive AckVal := AvResult | AvError | AvSentinel | AvGarbage.

(** relay.go:OnAcknowledgementPacket on a decoded channeltypes.Acknowledgement ([true] = Result) *)
Definition on_ack_keeper (k : KState) (src_port src_chan : bytes) (data : ITR) (success : bool) : Res KState :=
  if success then ROk k else refund_packet_tokens k src_port src_chan data.

(** ibc_module.go:OnRecvPacket (v1).  Result: new state and whether the ack is a success; an application
    error leaves the state unchanged (core discards the cached context) and yields the error ack.
    [relayer] is ignored, as in the Go code. *)
Definition on_recv_v1 (k : KState) (pd : PData) (src_chan dst_chan : bytes) (relayer : Acct) : Res (KState * bool) :=
  match unmarshal_pd pd with
  | None => ROk (k, false)
  | Some data =>
      match on_recv_packet k data transfer_port src_chan transfer_port dst_chan with
      | ROk k' => ROk (k', true)
      | RErr => ROk (k, false)
      | RPanic => RPanic
      end
  end.

(** v2/ibc_module.go:OnRecvPacket: ports are transfer/transfer by construction of the payload; both ids must
    have the client-identifier format *)
Definition on_recv_v2 (k : KState) (pd : PData) (src_chan dst_chan : bytes) (relayer : Acct) : Res (KState * bool) :=
  if negb (is_valid_client_id src_chan && is_valid_client_id dst_chan) then ROk (k, false)
  else on_recv_v1 k pd src_chan dst_chan relayer.

(** ibc_module.go:OnAcknowledgementPacket (v1): the bytes must be the canonical JSON of an Acknowledgement *)
Definition on_ack_v1 (k : KState) (pd : PData) (src_chan : bytes) (ack : AckVal) (relayer : Acct) : Res KState :=
  match ack with
  | AvSentinel | AvGarbage => RErr
  | AvResult | AvError =>
      match unmarshal_pd pd with
      | None => RErr
      | Some data => on_ack_keeper k transfer_port src_chan data (match ack with AvResult => true | _ => false end)
      end
  end.

(** v2/ibc_module.go:OnAcknowledgementPacket: the sentinel becomes an error ack; a JSON ack must be a success *)
Definition on_ack_v2 (k : KState) (pd : PData) (src_chan : bytes) (ack : AckVal) (relayer : Acct) : Res KState :=
  match ack with
  | AvSentinel =>
      match unmarshal_pd pd with
      | None => RErr
      | Some data => on_ack_keeper k transfer_port src_chan data false
      end
  | AvGarbage => RErr
  | AvError => RErr                                   (* "cannot pass in a custom error acknowledgement with IBC v2" *)
  | AvResult =>
      match unmarshal_pd pd with
      | None => RErr
      | Some data => on_ack_keeper k transfer_port src_chan data true
      end
  end.

(** ibc_module.go / v2/ibc_module.go:OnTimeoutPacket *)
Definition on_timeout (k : KState) (pd : PData) (src_chan : bytes) (relayer : Acct) : Res KState :=
  match unmarshal_pd pd with
  | None => RErr
  | Some data => refund_packet_tokens k transfer_port src_chan data
  end.

(** relay.go:TokenFromCoin.  A bank denomination "ibc/…" that is not a known voucher (structurally: a CNat
    whose name starts with "ibc/") fails in ParseHexHash or with ErrDenomNotFound. *)
Definition token_from_coin (k : KState) (c : Coin) : option Denom :=
  match c with
  | CNat s => if is_prefix (B "ibc/") s then None else Some (mkDenom [] s)
  | CIbc p => dlookup (dstore k) p
  end.

(** v2/ibc_module.go:OnSendPacket *)
Definition on_send_v2 (k : KState) (src_chan dst_chan : bytes) (pd : PData) (signer : Acct) : Res KState :=
  if negb (is_valid_client_id src_chan && is_valid_client_id dst_chan) then RErr
  else match unmarshal_pd pd with
  | None => RErr
  | Some data =>
    match addr_decode (it_sender data) with
    | None => RErr
    | Some sender =>
      if negb (acct_eqb sender signer) then RErr                      (* sender is different from signer *)
      else if existsb (Ascii.eqb slash) (dbase (it_denom data)) then RErr
      else send_transfer k transfer_port src_chan (it_denom data) (it_amt data) signer
    end
  end.

(** keeper/msg_server.go:Transfer.  [has_chan]: a v1 channel end (transfer, chan) exists on this chain;
    [peer_chan]: the counterparty id core IBC resolves for a v2 send over [chan] (None: CounterpartyNotFound).
    Returns the new state, the packet data and whether the packet went out as IBC v2.
    types/msgs.go:ValidateBasic is folded in (positive amount, non-blank sender and receiver); the
    UnboundedSpendLimit sentinel amount and core SendPacket failures (closed channel, bad timeout) are not modelled. *)
Definition msg_transfer (k : KState) (has_chan : bytes -> bool) (peer_chan : bytes -> option bytes)
           (chan : bytes) (coin : Coin) (amt : Z) (sender receiver : AddrStr) (alias : bool)
  : Res (KState * PData * bool) :=
  if (amt <=? 0) || addr_blank sender || addr_blank receiver then RErr
  else if negb (send_en k) then RErr
  else match addr_decode sender with
  | None => RErr
  | Some snd =>
    match token_from_coin k coin with
    | None => RErr
    | Some tok =>
      let pd := mkPD (path tok) amt sender receiver in
      if negb (ftpd_valid pd) then RErr
      else if negb (has_chan chan) || alias then
        (* transferV2Packet: MsgSendPacket signed by packetData.Sender -> core -> OnSendPacket *)
        match peer_chan chan with
        | None => RErr
        | Some dst =>
            match on_send_v2 k chan dst pd snd with
            | ROk k' => ROk (k', pd, true)
            | RErr => RErr
            | RPanic => RPanic
            end
        end
      else
        (* transferV1Packet: SendTransfer then ics4Wrapper.SendPacket *)
        match send_transfer k transfer_port chan tok amt snd with
        | ROk k' => ROk (k', pd, false)
        | RErr => RErr
        | RPanic => RPanic
        end
    end
  end.

(** The three escrow adjustments of packet-forward-middleware's refund path
    (packet-forward-middleware/keeper/keeper.go:WriteAcknowledgementForForwardedPacket), as primitives:
    escrow -> refund escrow (total unchanged), escrow -> module -> burn (total down),
    mint -> refund escrow (total up). *)
Definition pfm_move_escrow (k : KState) (from_ch to_ch : bytes) (d : Coin) (amt : Z) : Res KState :=
  match send_coins (bank k) (Escrow from_ch) (Escrow to_ch) d amt with
  | None => RErr
  | Some b => ROk (set_bank k b)
  end.

Definition pfm_burn_from_escrow (k : KState) (ch : bytes) (d : Coin) (amt : Z) : Res KState :=
  match send_coins (bank k) (Escrow ch) ModTransfer d amt with
  | None => RErr
  | Some b =>
      match burn_coins b d amt with
      | None => RPanic
      | Some b' => set_total_escrow (set_bank k b') d (tesc k d - amt)
      end
  end.

Definition pfm_mint_into_escrow (k : KState) (ch : bytes) (d : Coin) (amt : Z) : Res KState :=
  let b1 := mint_coins (bank k) d amt in
  match send_coins b1 ModTransfer (Escrow ch) d amt with
  | None => RErr
  | Some b2 => set_total_escrow (set_bank k b2) d (tesc k d + amt)
  end.
