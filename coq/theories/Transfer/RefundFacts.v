(** C32: a timeout or error acknowledgement undoes exactly what the send did, once; a success
    acknowledgement changes nothing on the sending chain. *)
From IBC Require Import Lib.Bytes Lib.BytesFacts Transfer.DenomLocal Transfer.Bank Transfer.Keeper Transfer.World
  Transfer.BankFacts Transfer.DenomFacts Transfer.WorldFacts Transfer.AuthFacts Transfer.EscrowFacts Transfer.ConserveFacts.
Local Open Scope Z_scope.

Definition static_eq (p q : PState) : Prop :=
  ps_src q = ps_src p /\ ps_chan q = ps_chan p /\ ps_data q = ps_data p /\ ps_v2 q = ps_v2 p.

Lemma length_upd_nth {A} n (f : A -> A) l : List.length (upd_nth n f l) = List.length l.
Proof. revert n; induction l as [|a l IH]; intros [|n]; simpl; auto. Qed.

Lemma nth_error_upd_nth {A} n m (f : A -> A) l :
  nth_error (upd_nth n f l) m = if Nat.eqb m n then option_map f (nth_error l m) else nth_error l m.
Proof.
  revert n m; induction l as [|a l IH]; intros [|n] [|m]; simpl; auto.
  - destruct (Nat.eqb m n); reflexivity.
Qed.

(** packets are never removed or altered except for their two flags; a cleared commitment stays cleared *)
Lemma pk_stable_step w o n p :
  nth_error (w_pk w) n = Some p ->
  exists q, nth_error (w_pk (step_w w o)) n = Some q /\ static_eq p q /\
            (ps_committed p = false -> ps_committed q = false).
Proof.
  intro Hn.
  assert (Hsame : exists q, nth_error (w_pk w) n = Some q /\ static_eq p q /\ (ps_committed p = false -> ps_committed q = false)).
  { exists p. unfold static_eq. auto 10. }
  assert (Hupd : forall m f, (forall x, static_eq x (f x) /\ (ps_committed x = false -> ps_committed (f x) = false)) ->
                 exists q, nth_error (upd_nth m f (w_pk w)) n = Some q /\ static_eq p q /\ (ps_committed p = false -> ps_committed q = false)).
  { intros m f Hf. rewrite nth_error_upd_nth. destruct (Nat.eqb n m).
    - rewrite Hn. simpl. exists (f p). split; [reflexivity|apply Hf].
    - exact Hsame. }
  destruct (step_trans w o) as
    [Hs | c0 chan pd v2 tok snd k' Ho Hau Hus Hhc Hv Hsnd Hpath Htok Hst Hw
        | m relayer p0 c' ch' k' ok Ho Hm Hr Hc Hp Hk Hw
        | m relayer p0 ok data k' Ho Hm Hr Hc Hu Hk Hw
        | m relayer p0 data k' Ho Hm Hr Hc Hu Hk Hw
        | c0 from to coin amt b Ho Hus Hm Hw
        | c0 s r Ho Hw]; rewrite ?Hs, ?Hw; cbn [w_pk]; auto.
  - exists p. split; [|unfold static_eq; auto 10]. rewrite nth_error_app1; auto. apply nth_error_Some. congruence.
  - apply Hupd. intro x. unfold static_eq. simpl. auto 10.
  - apply Hupd. intro x. unfold static_eq. simpl. auto 10.
  - apply Hupd. intro x. unfold static_eq. simpl. auto 10.
Qed.

Lemma pk_stable_run w ops n p :
  nth_error (w_pk w) n = Some p ->
  exists q, nth_error (w_pk (run w ops)) n = Some q /\ static_eq p q /\
            (ps_committed p = false -> ps_committed q = false).
Proof.
  revert w p. induction ops as [|o ops IH]; intros w p Hn; simpl.
  - exists p. unfold static_eq. auto 10.
  - destruct (pk_stable_step w o n p Hn) as (q & Hq & (H1 & H2 & H3 & H4) & Hc).
    destruct (IH _ q Hq) as (q2 & Hq2 & (G1 & G2 & G3 & G4) & Hc2).
    exists q2. split; auto. split; [unfold static_eq; repeat split; congruence|auto].
Qed.

(** the change one step makes to one chain *)
Definition dbal (w w' : World) c a x : Z := bal (bank (w_ch w' c)) a x - bal (bank (w_ch w c)) a x.
Definition dsup (w w' : World) c x : Z := sup (bank (w_ch w' c)) x - sup (bank (w_ch w c)) x.
Definition dtesc (w w' : World) c x : Z := tesc (w_ch w' c) x - tesc (w_ch w c) x.

Lemma upd_delta (f : N -> KState) c0 k' c :
  upd_ch f c0 k' c = if N.eqb c c0 then k' else f c.
Proof. reflexivity. Qed.

(** C32, refund: [os] is a successful send creating packet [n]; after any further history [ops], the step [o_r]
    that processes the timeout or the (error) acknowledgement of packet [n] changes every balance, every supply
    and every tracked escrow total on every chain by exactly the opposite of what the send changed. *)
Theorem refund_exact w0 os ops o_r r :
  Good w0 -> safe_op os ->
  let n := List.length (w_pk w0) in
  let w1 := step_w w0 os in
  let w := run w1 ops in
  let w' := step_w w o_r in
  List.length (w_pk w1) = S n ->
  (o_r = OTimeout n r true \/ o_r = OAck n r) ->
  (forall q, nth_error (w_pk w) n = Some q -> ps_recv q <> Some true) ->
  w' <> w ->
  forall c a x,
    dbal w w' c a x = - dbal w0 w1 c a x /\ dsup w w' c x = - dsup w0 w1 c x /\ dtesc w w' c x = - dtesc w0 w1 c x.
Proof.
  intros HG0 Hsafe n w1 w w'.
  assert (Ew1 : step_w w0 os = w1) by reflexivity.
  assert (Ew : run w1 ops = w) by reflexivity.
  assert (Ew' : step_w w o_r = w') by reflexivity.
  clearbody w'. clearbody w. clearbody w1.
  intros Hlen Hor Hnotok Hchg c a x.
  assert (HG1 : Good w1) by (rewrite <- Ew1; apply good_step; exact HG0).
  assert (HG : Good w) by (rewrite <- Ew; apply good_run; exact HG1).
  (* the send *)
  destruct (step_trans w0 os) as
    [Hs | c0 chan pd v2 tok snd k1 Ho Hau Hus Hhc Hv Hsnd Hpath Htok Hst Hw1
        | m relayer p0 c' ch' k1 ok Ho Hm Hr Hc Hp Hk Hw1
        | m relayer p0 ok data k1 Ho Hm Hr Hc Hu Hk Hw1
        | m relayer p0 data k1 Ho Hm Hr Hc Hu Hk Hw1
        | c0 from to coin amt b Ho Hus Hm Hw1
        | c0 s r0 Ho Hw1];
    rewrite Ew1 in *;
    try (exfalso; revert Hlen; rewrite ?Hs, ?Hw1; cbn [w_pk]; rewrite ?length_upd_nth; unfold n; lia).
  set (pn := mkPS c0 chan (next_seq (w_pk w0) c0 chan) v2 pd true None) in *.
  assert (Hn1 : nth_error (w_pk w1) n = Some pn).
  { rewrite Hw1. cbn [w_pk]. unfold n. rewrite nth_error_app2 by lia. rewrite Nat.sub_diag. reflexivity. }
  destruct (pk_stable_run w1 ops n pn Hn1) as (q & Hq & (Hq1 & Hq2 & Hq3 & _) & _). rewrite Ew in Hq.
  cbn [pn ps_src ps_chan ps_data] in Hq1, Hq2, Hq3.
  destruct (send_consistent w0 c0 os tok pd chan v2 HG0 Hsafe Hv Hpath Htok) as (Hcp & Hcc).
  pose proof (send_transfer_spec _ _ _ _ _ _ _ Hst) as (_ & _ & _ & _ & HKs).
  (* the refund step *)
  assert (Hrefund : exists k', refund_packet_tokens (w_ch w c0) transfer_port chan
                      (mkITR (extract (pd_path pd)) (pd_amt pd) (pd_sender pd) (pd_receiver pd)) = ROk k' /\
                    forall c, w_ch w' c = upd_ch (w_ch w) c0 k' c).
  { destruct (step_trans w o_r) as
      [Hs2 | c1 chan1 pd1 v21 tok1 snd1 k' Ho2 Hau1 Hus1 Hhc1 Hv1 Hsnd1 Hpath1 Htok1 Hst1 Hw2
          | m relayer p0 c' ch' k' ok Ho2 Hm2 Hr2 Hc2 Hp2 Hk2 Hw2
          | m relayer p0 ok data k' Ho2 Hm2 Hr2 Hc2 Hu2 Hk2 Hw2
          | m relayer p0 data k' Ho2 Hm2 Hr2 Hc2 Hu2 Hk2 Hw2
          | c1 from to coin amt b Ho2 Hus1 Hm2 Hw2
          | c1 s r0 Ho2 Hw2]; rewrite Ew' in *.
    - contradiction.
    - destruct Hor as [-> | ->]; simpl in Ho2; contradiction.
    - destruct Hor as [-> | ->]; discriminate.
    - destruct Hor as [-> | ->]; [discriminate|]. inversion Ho2; subst m.
      rewrite Hq in Hm2. inversion Hm2; subst p0.
      destruct ok; [exfalso; eapply Hnotok; eauto|].
      apply unmarshal_pd_spec in Hu2. destruct Hu2 as (_ & ->).
      rewrite Hq1, Hq2, Hq3 in *. exists k'. split; [exact Hk2|]. intro. rewrite Hw2. reflexivity.
    - destruct Hor as [-> | ->]; [|discriminate]. inversion Ho2; subst m.
      rewrite Hq in Hm2. inversion Hm2; subst p0.
      apply unmarshal_pd_spec in Hu2. destruct Hu2 as (_ & ->).
      rewrite Hq1, Hq2, Hq3 in *. exists k'. split; [exact Hk2|]. intro. rewrite Hw2. reflexivity.
    - destruct Hor as [-> | ->]; discriminate.
    - destruct Hor as [-> | ->]; discriminate. }
  destruct Hrefund as (k' & Hk & Hw').
  apply refund_packet_tokens_spec in Hk. destruct Hk as (sender & Hsd & _ & _ & Hbr). cbv zeta in Hbr.
  cbn [it_denom it_amt it_sender] in *. rewrite Hsnd in Hsd. inversion Hsd; subst sender.
  unfold dbal, dsup, dtesc. rewrite Hw', Hw1. cbn [w_ch]. unfold upd_ch.
  destruct (N.eqb c c0) eqn:Ec; [|lia]. apply N.eqb_eq in Ec. subst c.
  rewrite Hcp, Hcc in Hbr.
  destruct (has_prefix tok transfer_port chan).
  - destruct HKs as (Hb1 & Hs1 & Ht1 & _). destruct Hbr as (Hb2 & Hs2 & Ht2 & _).
    rewrite Hb1, Hs1, Ht1, Hb2, Hs2, Ht2. simpl. lia.
  - destruct HKs as (Hb1 & Hs1 & Ht1 & _). destruct Hbr as (_ & Hb2 & Hs2 & Ht2 & _).
    rewrite Hb1, Hs1, Ht1, Hb2, Hs2, Ht2. simpl. lia.
Qed.

(** exactly once: once the commitment of packet [n] is gone, acknowledgement and timeout steps for it do nothing *)
Theorem terminal_once w n p o r el :
  nth_error (w_pk w) n = Some p -> ps_committed p = false ->
  (o = OAck n r \/ o = OTimeout n r el) -> step_w w o = w.
Proof.
  intros Hn Hc [-> | ->]; unfold step_w, step; rewrite Hn; destruct (ps_recv p); rewrite ?Hc; reflexivity.
Qed.

(** a success acknowledgement changes no balance, supply or escrow total on any chain *)
Theorem success_ack_no_change w n p r :
  nth_error (w_pk w) n = Some p -> ps_recv p = Some true ->
  forall c a x, dbal w (step_w w (OAck n r)) c a x = 0 /\ dsup w (step_w w (OAck n r)) c x = 0 /\
                dtesc w (step_w w (OAck n r)) c x = 0.
Proof.
  intros Hn Hr c a x. unfold dbal, dsup, dtesc.
  destruct (step_trans w (OAck n r)) as
    [Hs | c1 chan1 pd1 v21 tok1 snd1 k' Ho Hau1 Hus1 Hhc1 Hv1 Hsnd1 Hpath1 Htok1 Hst1 Hw
        | m relayer p0 c' ch' k' ok Ho Hm Hr0 Hc Hp Hk Hw
        | m relayer p0 ok data k' Ho Hm Hr0 Hc Hu Hk Hw
        | m relayer p0 data k' Ho Hm Hr0 Hc Hu Hk Hw
        | c1 from to coin amt b Ho Hus1 Hm Hw
        | c1 s r0 Ho Hw]; try discriminate; try (simpl in Ho; contradiction).
  - rewrite Hs. lia.
  - injection Ho as Ho. subst m. rewrite Hn in Hm. inversion Hm; subst p0. rewrite Hr in Hr0. inversion Hr0; subst ok.
    subst k'. rewrite Hw. cbn [w_ch]. unfold upd_ch. destruct (N.eqb c (ps_src p)) eqn:E; [apply N.eqb_eq in E; subst|]; lia.
Qed.
