(** Private copy (area Transfer) of the ICS-20 denomination functions of
    /repo/modules/apps/transfer/types/denom.go (ExtractDenomFromPath, Path, IBCDenom, HasPrefix, Validate),
    types/hop.go (Validate), 04-channel/types/keys.go (IsValidChannelID), 02-client/types/keys.go
    (IsValidClientID) and 24-host/validate.go (identifier validators).  Definitions only. *)
From IBC Require Import Lib.Bytes Lib.Dec.
Local Open Scope N_scope.

(** ** identifiers *)

(** \w of Go's regexp: [0-9A-Za-z_] *)
Definition is_word (c : ascii) : bool := is_alnum c || Ascii.eqb c "_"%char.

(** 1 to 20 digits that strconv.ParseUint accepts (value < 2^64) *)
Definition is_seq_digits (d : bytes) : bool :=
  all_digits d && (Nat.leb (List.length d) 20) &&
  match parse_uint64 d with Some _ => true | None => false end.

(** 04-channel/types/keys.go:IsValidChannelID = ParseChannelSequence succeeds:
    regexp ^channel-[0-9]{1,20}$ then host.ParseIdentifier(channelID, "channel-") (ParseUint 64 bit) *)
Definition is_valid_channel_id (s : bytes) : bool :=
  match strip_prefix (B "channel-") s with
  | Some d => is_seq_digits d
  | None => false
  end.

(** the part after the last '-' and the part before it (None when there is no '-') *)
Fixpoint split_last_dash (s : bytes) : option (bytes * bytes) :=
  match s with
  | [] => None
  | c :: s' =>
      match split_last_dash s' with
      | Some (t, d) => Some (c :: t, d)
      | None => if Ascii.eqb c dash then Some ([], s') else None
      end
  end.

Definition last_byte (s : bytes) : option ascii :=
  match rev s with [] => None | c :: _ => Some c end.

(** 02-client/types/keys.go:IsValidClientID = ParseClientIdentifier succeeds:
    "09-localhost", or regexp ^\w+([\w-]+\w)?-[0-9]{1,20}$ (the client type is everything before the
    last '-': non-empty, over [\w-], first and last byte in \w) and ParseUint of the last '-'-segment. *)
Definition is_valid_client_id (s : bytes) : bool :=
  if bytes_eqb s (B "09-localhost") then true
  else match split_last_dash s with
       | Some (t, d) =>
           is_seq_digits d &&
           match t, last_byte t with
           | c0 :: _, Some cl => is_word c0 && is_word cl && forallb (fun c => is_word c || Ascii.eqb c dash) t
           | _, _ => false
           end
       | None => false
       end.

(** the test ExtractDenomFromPath applies to the second element of a candidate hop *)
Definition is_hop_chan (s : bytes) : bool := is_valid_channel_id s || is_valid_client_id s.

(** 24-host/validate.go: IsValidID character class *)
Definition is_id_char (c : ascii) : bool :=
  is_alnum c || existsb (Ascii.eqb c) (B "._+-#[]<>").

Definition is_space (c : ascii) : bool :=
  let n := N_of_ascii c in (n =? 32) || ((9 <=? n) && (n <=? 13)).
(** strings.TrimSpace(s) == "" for ASCII white space (U+0085/U+00A0, multi-byte in UTF-8, are not modelled) *)
Definition is_blank (s : bytes) : bool := forallb is_space s.

(** defaultIdentifierValidator(id, min, max) *)
Definition id_valid (minl maxl : nat) (s : bytes) : bool :=
  negb (is_blank s) && negb (existsb (Ascii.eqb slash) s) &&
  Nat.leb minl (List.length s) && Nat.leb (List.length s) maxl && forallb is_id_char s.
Definition port_id_valid := id_valid 2 128.
Definition chan_id_valid := id_valid 8 64.

(** ** hops and denominations *)

Record Hop := mkHop { hport : bytes; hchan : bytes }.
Record Denom := mkDenom { dtrace : list Hop; dbase : bytes }.

Definition hop_eqb (a b : Hop) : bool := bytes_eqb (hport a) (hport b) && bytes_eqb (hchan a) (hchan b).

(** hop.go:Validate *)
Definition hop_valid (h : Hop) : bool := port_id_valid (hport h) && chan_id_valid (hchan h).

(** denom.go:Denom.Validate *)
Definition denom_valid (d : Denom) : bool := negb (is_blank (dbase d)) && forallb hop_valid (dtrace d).

(** Hop.String() ++ "/" *)
Definition hop_prefix (h : Hop) : bytes := hport h ++ slash :: hchan h ++ [slash].

(** denom.go:Denom.Path: trace hops each followed by '/', then the base; the base alone for a native denom *)
Definition path (d : Denom) : bytes := concat (map hop_prefix (dtrace d)) ++ dbase d.

Definition is_native (d : Denom) : bool := match dtrace d with [] => true | _ => false end.

(** denom.go:Denom.HasPrefix *)
Definition has_prefix (d : Denom) (port chan : bytes) : bool :=
  match dtrace d with
  | [] => false
  | h :: _ => bytes_eqb (hport h) port && bytes_eqb (hchan h) chan
  end.

(** the loop of ExtractDenomFromPath over the '/'-segments left at index i; [multi] = (length > 2) of the
    whole split.  A pair (p, c) is consumed as a hop while at least two segments are left (i < length-1),
    the whole path has more than two segments and c has the channel- or client-identifier format;
    otherwise everything left is the base. *)
Fixpoint extract_segs (multi : bool) (segs : list bytes) : list Hop * list bytes :=
  match segs with
  | p :: c :: rest =>
      if multi && is_hop_chan c
      then let (t, b) := extract_segs multi rest in (mkHop p c :: t, b)
      else ([], segs)
  | _ => ([], segs)
  end.

(** denom.go:ExtractDenomFromPath *)
Definition extract (s : bytes) : Denom :=
  let segs := split_on slash s in
  match segs with
  | [one] => mkDenom [] s                       (* denomSplit[0] == fullPath: no separator *)
  | _ => let (t, b) := extract_segs (Nat.ltb 2 (List.length segs)) segs in
         mkDenom t (join_with slash b)
  end.

(** ** bank denominations.  A voucher denomination is "ibc/" + HEX(SHA-256(path)); it is kept structural
    (identified by its path), i.e. SHA-256 is treated as injective on the paths that occur.  The harness
    reports every ibc/ denomination together with the path stored under its hash and the monitor re-checks
    the hash. *)
Inductive Coin := CNat (s : bytes) | CIbc (p : bytes).

Definition coin_eqb (a b : Coin) : bool :=
  match a, b with
  | CNat x, CNat y => bytes_eqb x y
  | CIbc x, CIbc y => bytes_eqb x y
  | _, _ => false
  end.

(** denom.go:Denom.IBCDenom *)
Definition ibc_denom (d : Denom) : Coin := if is_native d then CNat (dbase d) else CIbc (path d).

(** the path a bank denomination stands for *)
Definition cpath (c : Coin) : bytes := match c with CNat s => s | CIbc p => p end.

(** a native bank denomination whose name parses back as native: the acceptance condition of the repair
    discussed in DESIGN §8 (F5); its complement is the matcher of known finding F5a. *)
Definition native_safe (s : bytes) : bool := is_native (extract s).
