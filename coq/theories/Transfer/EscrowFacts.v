(** C31: the tracked total escrow against the balances of the escrow accounts. *)
From IBC Require Import Lib.Bytes Lib.BytesFacts Transfer.DenomLocal Transfer.Bank Transfer.Keeper Transfer.World
  Transfer.BankFacts Transfer.DenomFacts Transfer.WorldFacts Transfer.AuthFacts.
Local Open Scope Z_scope.

(** ** well-formed topology, packet-list invariant *)

Definition wf_links (links : list Link) : Prop :=
  forall c ch c' ch', peer links c ch = Some (c', ch') -> peer links c' ch' = Some (c, ch).

(** every packet of the list was sent by a user over an existing channel end with valid data *)
Definition pk_ok (links : list Link) (p : PState) : Prop :=
  has_chan links (ps_src p) (ps_chan p) = true /\ ftpd_valid (ps_data p) = true /\
  exists a, pd_sender (ps_data p) = AOk a /\ is_user a = true.
Definition PkInv (w : World) : Prop := forall p, In p (w_pk w) -> pk_ok (w_links w) p.

Lemma in_upd_nth {A} n (f : A -> A) l x : In x (upd_nth n f l) -> In x l \/ exists y, In y l /\ x = f y.
Proof.
  revert n; induction l as [|a l IH]; intros [|n]; simpl; auto.
  - intros [<-|H]; eauto.
  - intros [<-|H]; auto. destruct (IH _ H) as [H1|(y & H1 & H2)]; eauto.
Qed.

Lemma step_links w o : w_links (step_w w o) = w_links w.
Proof.
  destruct (step_trans w o) as [Hs | | | | | | ];
    try (rewrite Hs; reflexivity);
    match goal with H : step_w w o = mkW _ _ _ |- _ => rewrite H end; reflexivity.
Qed.

Lemma pkinv_step w o : PkInv w -> PkInv (step_w w o).
Proof.
  intro HI. unfold PkInv. rewrite step_links.
  destruct (step_trans w o) as
    [Hs | c0 chan pd v2 tok snd k' Ho Hau Hus Hhc Hv Hsnd Hpath Htok Hst Hw
        | n relayer p c' ch' k' ok Ho Hn Hr Hc Hp Hk Hw
        | n relayer p ok data k' Ho Hn Hr Hc Hu Hk Hw
        | n relayer p data k' Ho Hn Hr Hc Hu Hk Hw
        | c0 from to coin amt b Ho Hus Hm Hw
        | c0 s r Ho Hw]; rewrite ?Hs, ?Hw; cbn [w_pk]; auto.
  - intros q Hq. apply in_app_or in Hq. destruct Hq as [Hq|[<-|[]]]; [auto|].
    unfold pk_ok. simpl. eauto.
  - intros q Hq. apply in_upd_nth in Hq. destruct Hq as [Hq|(y & Hy & ->)]; [auto|]. apply (HI y Hy).
  - intros q Hq. apply in_upd_nth in Hq. destruct Hq as [Hq|(y & Hy & ->)]; [auto|]. apply (HI y Hy).
  - intros q Hq. apply in_upd_nth in Hq. destruct Hq as [Hq|(y & Hy & ->)]; [auto|]. apply (HI y Hy).
Qed.

Lemma pkinv_run w ops : PkInv w -> PkInv (run w ops).
Proof. revert w; induction ops as [|o ops IH]; intros w H; simpl; auto. apply IH. now apply pkinv_step. Qed.

Lemma run_links w ops : w_links (run w ops) = w_links w.
Proof. revert w; induction ops as [|o ops IH]; intros w; simpl; auto. rewrite IH. apply step_links. Qed.

(** ** sum of the escrow accounts' balances over the channels of a chain *)

Fixpoint esc_sum (b : Acct -> Coin -> Z) (chans : list bytes) (x : Coin) : Z :=
  match chans with
  | [] => 0
  | ch :: r => b (Escrow ch) x + esc_sum b r x
  end.

Definition esc_in (chans : list bytes) (a : Acct) : Z :=
  match a with
  | Escrow ch => if existsb (bytes_eqb ch) chans then 1 else 0
  | _ => 0
  end.

Lemma esc_in_range chans a : 0 <= esc_in chans a <= 1.
Proof. destruct a; simpl; try lia. destruct (existsb _ _); lia. Qed.

Lemma existsb_bytes_in ch chans : existsb (bytes_eqb ch) chans = true <-> In ch chans.
Proof.
  rewrite existsb_exists. split.
  - intros (y & Hy & E). apply bytes_eqb_eq in E. now subst.
  - intro H. exists ch. split; auto. apply bytes_eqb_refl.
Qed.

Lemma esc_in_member chans ch : In ch chans -> esc_in chans (Escrow ch) = 1.
Proof. intro H. simpl. apply existsb_bytes_in in H. now rewrite H. Qed.

Lemma sum_at_cell chans a0 d0 x :
  NoDup chans -> esc_sum (at_cell a0 d0) chans x = esc_in chans a0 * at_coin d0 x.
Proof.
  induction 1 as [|ch r Hnin Hnd IH]; simpl.
  - destruct a0; simpl; try lia.
  - rewrite IH. unfold at_cell at 1. destruct a0 as [n|ch0| |n]; simpl; try lia.
    destruct (bytes_eqb ch ch0) eqn:E.
    + apply bytes_eqb_eq in E. subst ch0. rewrite bytes_eqb_refl. simpl.
      destruct (existsb (bytes_eqb ch) r) eqn:Ex.
      * apply existsb_bytes_in in Ex. contradiction.
      * unfold at_coin. destruct (coin_eqb x d0); lia.
    + assert (E' : bytes_eqb ch0 ch = false).
      { apply bytes_eqb_neq. apply bytes_eqb_neq in E. congruence. }
      rewrite E'. simpl. lia.
Qed.

Definition eff_esc (chans : list bytes) (e : Eff) (x : Coin) : Z :=
  match e with
  | ENone => 0
  | EMove f t d amt => amt * (esc_in chans t - esc_in chans f) * at_coin d x
  | EMint t d amt => amt * esc_in chans t * at_coin d x
  | EBurn f d amt => - amt * esc_in chans f * at_coin d x
  end.

Lemma esc_sum_add b b' g chans x :
  (forall a, b' a x = b a x + g a x) -> esc_sum b' chans x = esc_sum b chans x + esc_sum g chans x.
Proof. intro H. induction chans as [|ch r IH]; simpl; [lia|]. rewrite H, IH. lia. Qed.

Lemma esc_sum_scale g c chans x : esc_sum (fun a y => c * g a y) chans x = c * esc_sum g chans x.
Proof. induction chans as [|ch r IH]; simpl; [lia|]. rewrite IH. lia. Qed.

Lemma esc_sum_ext g h chans x : (forall a, g a x = h a x) -> esc_sum g chans x = esc_sum h chans x.
Proof. intro H. induction chans as [|ch r IH]; simpl; [lia|]. rewrite H, IH. lia. Qed.

Lemma esc_sum_zero chans x : esc_sum (fun _ _ => 0) chans x = 0.
Proof. induction chans; simpl; lia. Qed.

Lemma esc_sum_eff b b' e chans x :
  NoDup chans -> (forall a y, b' a y = b a y + eff_bal e a y) ->
  esc_sum b' chans x = esc_sum b chans x + eff_esc chans e x.
Proof.
  intros Hnd H. rewrite (esc_sum_add b b' (eff_bal e)); [|intro a; apply H]. f_equal.
  destruct e.
  - rewrite (esc_sum_ext _ (fun _ _ => 0)); [|reflexivity]. apply esc_sum_zero.
  - rewrite (esc_sum_add (fun a y => amt * at_cell to d a y) _ (fun a y => - amt * at_cell from d a y));
      [|intro a; simpl; lia].
    rewrite !esc_sum_scale, !sum_at_cell by assumption. simpl. lia.
  - rewrite (esc_sum_ext _ (fun a y => amt * at_cell to d a y)); [|reflexivity].
    rewrite esc_sum_scale, sum_at_cell by assumption. simpl. lia.
  - rewrite (esc_sum_ext _ (fun a y => - amt * at_cell from d a y)); [|reflexivity].
    rewrite esc_sum_scale, sum_at_cell by assumption. simpl. lia.
Qed.

Definition chans_ok (links : list Link) (c : N) (chans : list bytes) : Prop :=
  NoDup chans /\ forall ch, has_chan links c ch = true -> In ch chans.

(** the gap between what the escrow accounts of chain [c] hold and what is tracked, for denomination [x] *)
Definition gap (w : World) (c : N) (chans : list bytes) (x : Coin) : Z :=
  esc_sum (bal (bank (w_ch w c))) chans x - tesc (w_ch w c) x.

(** operations that do not credit an escrow account from outside the escrow logic *)
Definition plain_op (w : World) (o : Op) : Prop :=
  match o with
  | ORecv n _ _ => forall p a, nth_error (w_pk w) n = Some p -> pd_receiver (ps_data p) = AOk a ->
                               match a with Escrow _ => False | _ => True end
  | OBankSend _ _ to _ _ => match to with Escrow _ => False | _ => True end
  | _ => True
  end.

Lemma user_not_escrow chans a : is_user a = true -> esc_in chans a = 0.
Proof. destruct a; simpl; try discriminate; auto. Qed.

Lemma peer_has_chan links c ch c' ch' : peer links c ch = Some (c', ch') -> has_chan links c ch = true.
Proof. unfold has_chan. now intros ->. Qed.

(** one step: the gap never shrinks; it is unchanged by plain operations *)
Lemma gap_step w o c chans x :
  wf_links (w_links w) -> PkInv w -> chans_ok (w_links w) c chans ->
  gap w c chans x <= gap (step_w w o) c chans x /\
  (plain_op w o -> gap (step_w w o) c chans x = gap w c chans x).
Proof.
  intros Hwf HI (Hnd & Hcomp). unfold gap.
  destruct (step_trans w o) as
    [Hs | c0 chan pd v2 tok snd k' Ho Hau Hus Hhc Hv Hsnd Hpath Htok Hst Hw
        | n relayer p c' ch' k' ok Ho Hn Hr Hc Hp Hk Hw
        | n relayer p ok data k' Ho Hn Hr Hc Hu Hk Hw
        | n relayer p data k' Ho Hn Hr Hc Hu Hk Hw
        | c0 from to coin amt b Ho Hus Hm Hw
        | c0 s r Ho Hw].
  - rewrite Hs. split; [lia|auto].
  - (* send *)
    rewrite Hw. cbn [w_ch]. destruct (N.eq_dec c c0) as [->|Hne]; [|rewrite upd_ch_other by assumption; split; [lia|auto]].
    rewrite upd_ch_same.
    apply send_transfer_spec in Hst. destruct Hst as (_ & _ & _ & _ & HK).
    apply ftpd_valid_spec in Hv. destruct Hv as (Hamt & _).
    destruct (has_prefix tok transfer_port chan); destruct HK as (Hb & _ & Ht & _);
      rewrite (esc_sum_eff _ _ _ chans x Hnd Hb), Ht; cbn [eff_esc];
      rewrite (user_not_escrow chans snd Hus).
    + split; [lia|intros _; lia].
    + rewrite (esc_in_member chans chan (Hcomp _ Hhc)). split; [lia|intros _; lia].
  - (* recv *)
    rewrite Hw. cbn [w_ch]. destruct (N.eq_dec c c') as [->|Hne]; [|rewrite upd_ch_other by assumption; split; [lia|auto]].
    rewrite upd_ch_same. destruct Hk as [[_ ->] | [_ (data & Hu & Hrp)]]; [split; [lia|auto]|].
    apply on_recv_packet_spec in Hrp. destruct Hrp as (receiver & Hiv & _ & Hrcv & _ & Hbr).
    apply unmarshal_pd_spec in Hu. destruct Hu as (_ & ->). simpl in *.
    apply itr_valid_amt in Hiv. simpl in Hiv.
    pose proof (esc_in_range chans receiver) as Hrange.
    assert (Hch' : In ch' chans).
    { apply Hcomp. apply Hwf in Hp. eapply peer_has_chan; eauto. }
    assert (Hplain : plain_op w o -> esc_in chans receiver = 0).
    { subst o. simpl. intro Hpl. specialize (Hpl p receiver Hn Hrcv). destruct receiver; simpl; auto; contradiction. }
    destruct (has_prefix _ _ _).
    + destruct Hbr as (_ & (Hb & _ & Ht & _) & _).
      rewrite (esc_sum_eff _ _ _ chans x Hnd Hb), Ht. cbn [eff_esc].
      rewrite (esc_in_member chans ch' Hch').
      pose proof (at_coin_range (ibc_denom (mkDenom (tl (dtrace (extract (pd_path (ps_data p))))) (dbase (extract (pd_path (ps_data p)))))) x).
      split; [nia|]. intro Hpl. rewrite (Hplain Hpl). lia.
    + destruct Hbr as ((Hb & _ & Ht & _) & _).
      rewrite (esc_sum_eff _ _ _ chans x Hnd Hb), Ht. cbn [eff_esc].
      match goal with |- context[at_coin ?d x] => pose proof (at_coin_range d x) end.
      split; [nia|]. intro Hpl. rewrite (Hplain Hpl). lia.
  - (* ack *)
    rewrite Hw. cbn [w_ch]. destruct (N.eq_dec c (ps_src p)) as [->|Hne]; [|rewrite upd_ch_other by assumption; split; [lia|auto]].
    rewrite upd_ch_same. destruct ok; [subst k'; split; [lia|auto]|].
    apply nth_error_In in Hn. destruct (HI p Hn) as (Hhc & Hv & a & Hsa & Hua).
    apply refund_packet_tokens_spec in Hk. destruct Hk as (sender & Hsd & _ & _ & Hbr).
    apply unmarshal_pd_spec in Hu. destruct Hu as (_ & ->). simpl in *.
    rewrite Hsa in Hsd. inversion Hsd; subst sender.
    apply ftpd_valid_spec in Hv. destruct Hv as (Hamt & _).
    destruct (has_prefix _ _ _).
    + destruct Hbr as (Hb & _ & Ht & _).
      rewrite (esc_sum_eff _ _ _ chans x Hnd Hb), Ht. cbn [eff_esc]. rewrite (user_not_escrow chans a Hua).
      split; [lia|intros _; lia].
    + destruct Hbr as (_ & Hb & _ & Ht & _).
      rewrite (esc_sum_eff _ _ _ chans x Hnd Hb), Ht. cbn [eff_esc]. rewrite (user_not_escrow chans a Hua).
      rewrite (esc_in_member chans (ps_chan p) (Hcomp _ Hhc)).
      split; [lia|intros _; lia].
  - (* timeout *)
    rewrite Hw. cbn [w_ch]. destruct (N.eq_dec c (ps_src p)) as [->|Hne]; [|rewrite upd_ch_other by assumption; split; [lia|auto]].
    rewrite upd_ch_same.
    apply nth_error_In in Hn. destruct (HI p Hn) as (Hhc & Hv & a & Hsa & Hua).
    apply refund_packet_tokens_spec in Hk. destruct Hk as (sender & Hsd & _ & _ & Hbr).
    apply unmarshal_pd_spec in Hu. destruct Hu as (_ & ->). simpl in *.
    rewrite Hsa in Hsd. inversion Hsd; subst sender.
    apply ftpd_valid_spec in Hv. destruct Hv as (Hamt & _).
    destruct (has_prefix _ _ _).
    + destruct Hbr as (Hb & _ & Ht & _).
      rewrite (esc_sum_eff _ _ _ chans x Hnd Hb), Ht. cbn [eff_esc]. rewrite (user_not_escrow chans a Hua).
      split; [lia|intros _; lia].
    + destruct Hbr as (_ & Hb & _ & Ht & _).
      rewrite (esc_sum_eff _ _ _ chans x Hnd Hb), Ht. cbn [eff_esc]. rewrite (user_not_escrow chans a Hua).
      rewrite (esc_in_member chans (ps_chan p) (Hcomp _ Hhc)).
      split; [lia|intros _; lia].
  - (* bank send *)
    rewrite Hw. cbn [w_ch]. destruct (N.eq_dec c c0) as [->|Hne]; [|rewrite upd_ch_other by assumption; split; [lia|auto]].
    rewrite upd_ch_same. unfold msg_send in Hm.
    destruct ((amt <=? 0) || bank_blocked to) eqn:Eg; [discriminate|].
    apply orb_false_iff in Eg. destruct Eg as [Eg _]. apply Z.leb_gt in Eg.
    apply send_coins_spec in Hm. destruct Hm as (_ & Hb & _).
    cbn [set_bank bank tesc].
    rewrite (esc_sum_eff _ _ (EMove from to coin amt) chans x Hnd Hb). cbn [eff_esc].
    rewrite (user_not_escrow chans from Hus).
    pose proof (esc_in_range chans to). pose proof (at_coin_range coin x).
    split; [nia|]. subst o. simpl. intro Hpl. destruct to; simpl in *; try lia; contradiction.
  - (* params *)
    rewrite Hw. cbn [w_ch]. destruct (N.eq_dec c c0) as [->|Hne]; [|rewrite upd_ch_other by assumption; split; [lia|auto]].
    rewrite upd_ch_same. simpl. split; [lia|auto].
Qed.

(** ** non-negative balances *)

Definition BalNonneg (w : World) : Prop := forall c a x, 0 <= bal (bank (w_ch w c)) a x.

Lemma balnonneg_step w o : BalNonneg w -> BalNonneg (step_w w o).
Proof.
  intros HB c a x.
  destruct (step_trans w o) as
    [Hs | c0 chan pd v2 tok snd k' Ho Hau Hus Hhc Hv Hsnd Hpath Htok Hst Hw
        | n relayer p c' ch' k' ok Ho Hn Hr Hc Hp Hk Hw
        | n relayer p ok data k' Ho Hn Hr Hc Hu Hk Hw
        | n relayer p data k' Ho Hn Hr Hc Hu Hk Hw
        | c0 from to coin amt b Ho Hus Hm Hw
        | c0 s r Ho Hw].
  - rewrite Hs. apply HB.
  - rewrite Hw. cbn [w_ch]. destruct (N.eq_dec c c0) as [->|Hne]; [|rewrite upd_ch_other by assumption; apply HB].
    rewrite upd_ch_same.
    apply send_transfer_spec in Hst. destruct Hst as (_ & _ & Hle & _ & HK).
    apply ftpd_valid_spec in Hv. destruct Hv as (Hamt & _).
    specialize (HB c0 a x). pose proof (HB' := Hle).
    destruct (has_prefix tok transfer_port chan); destruct HK as (Hb & _); rewrite Hb; simpl.
    + unfold at_cell. destruct (acct_eqb a snd && coin_eqb x (ibc_denom tok)) eqn:E; [|lia].
      apply andb_true_iff in E. destruct E as [E1 E2]. apply acct_eqb_eq in E1. apply coin_eqb_eq in E2. subst. lia.
    + pose proof (at_cell_range (Escrow chan) (ibc_denom tok) a x).
      unfold at_cell at 2. destruct (acct_eqb a snd && coin_eqb x (ibc_denom tok)) eqn:E; [|nia].
      apply andb_true_iff in E. destruct E as [E1 E2]. apply acct_eqb_eq in E1. apply coin_eqb_eq in E2. subst. nia.
  - rewrite Hw. cbn [w_ch]. destruct (N.eq_dec c c') as [->|Hne]; [|rewrite upd_ch_other by assumption; apply HB].
    rewrite upd_ch_same. destruct Hk as [[_ ->] | [_ (data & Hu & Hrp)]]; [apply HB|].
    apply on_recv_packet_spec in Hrp. destruct Hrp as (receiver & Hiv & _ & Hrcv & _ & Hbr).
    apply itr_valid_amt in Hiv. specialize (HB c' a x).
    destruct (has_prefix _ _ _).
    + destruct Hbr as (Hle & (Hb & _) & _). rewrite Hb. simpl.
      match goal with |- context[at_cell receiver ?d a x] => pose proof (at_cell_range receiver d a x); set (dd := d) in * end.
      unfold at_cell at 2. destruct (acct_eqb a (Escrow ch') && coin_eqb x dd) eqn:E; [|nia].
      apply andb_true_iff in E. destruct E as [E1 E2]. apply acct_eqb_eq in E1. apply coin_eqb_eq in E2. subst. nia.
    + destruct Hbr as ((Hb & _) & _). rewrite Hb. simpl.
      match goal with |- context[at_cell receiver ?d a x] => pose proof (at_cell_range receiver d a x) end. nia.
  - rewrite Hw. cbn [w_ch]. destruct (N.eq_dec c (ps_src p)) as [->|Hne]; [|rewrite upd_ch_other by assumption; apply HB].
    rewrite upd_ch_same. destruct ok; [subst k'; apply HB|].
    apply refund_packet_tokens_spec in Hk. destruct Hk as (sender & Hsd & _ & _ & Hbr).
    apply unmarshal_pd_spec in Hu. destruct Hu as (Hv & ->). simpl in *.
    apply ftpd_valid_spec in Hv. destruct Hv as (Hamt & _). specialize (HB (ps_src p) a x).
    destruct (has_prefix _ _ _).
    + destruct Hbr as (Hb & _). rewrite Hb. simpl.
      match goal with |- context[at_cell sender ?d a x] => pose proof (at_cell_range sender d a x) end. nia.
    + destruct Hbr as (Hle & Hb & _). rewrite Hb. simpl.
      match goal with |- context[at_cell sender ?d a x] => pose proof (at_cell_range sender d a x); set (dd := d) in * end.
      unfold at_cell at 2. destruct (acct_eqb a (Escrow (ps_chan p)) && coin_eqb x dd) eqn:E; [|nia].
      apply andb_true_iff in E. destruct E as [E1 E2]. apply acct_eqb_eq in E1. apply coin_eqb_eq in E2. subst. nia.
  - rewrite Hw. cbn [w_ch]. destruct (N.eq_dec c (ps_src p)) as [->|Hne]; [|rewrite upd_ch_other by assumption; apply HB].
    rewrite upd_ch_same.
    apply refund_packet_tokens_spec in Hk. destruct Hk as (sender & Hsd & _ & _ & Hbr).
    apply unmarshal_pd_spec in Hu. destruct Hu as (Hv & ->). simpl in *.
    apply ftpd_valid_spec in Hv. destruct Hv as (Hamt & _). specialize (HB (ps_src p) a x).
    destruct (has_prefix _ _ _).
    + destruct Hbr as (Hb & _). rewrite Hb. simpl.
      match goal with |- context[at_cell sender ?d a x] => pose proof (at_cell_range sender d a x) end. nia.
    + destruct Hbr as (Hle & Hb & _). rewrite Hb. simpl.
      match goal with |- context[at_cell sender ?d a x] => pose proof (at_cell_range sender d a x); set (dd := d) in * end.
      unfold at_cell at 2. destruct (acct_eqb a (Escrow (ps_chan p)) && coin_eqb x dd) eqn:E; [|nia].
      apply andb_true_iff in E. destruct E as [E1 E2]. apply acct_eqb_eq in E1. apply coin_eqb_eq in E2. subst. nia.
  - rewrite Hw. cbn [w_ch]. destruct (N.eq_dec c c0) as [->|Hne]; [|rewrite upd_ch_other by assumption; apply HB].
    rewrite upd_ch_same. unfold msg_send in Hm.
    destruct ((amt <=? 0) || bank_blocked to) eqn:Eg; [discriminate|].
    apply orb_false_iff in Eg. destruct Eg as [Eg _]. apply Z.leb_gt in Eg.
    apply send_coins_spec in Hm. destruct Hm as (Hle & Hb & _). cbn [set_bank bank].
    rewrite Hb. simpl. specialize (HB c0 a x).
    pose proof (at_cell_range to coin a x).
    unfold at_cell at 2. destruct (acct_eqb a from && coin_eqb x coin) eqn:E; [|nia].
    apply andb_true_iff in E. destruct E as [E1 E2]. apply acct_eqb_eq in E1. apply coin_eqb_eq in E2. subst. nia.
  - rewrite Hw. cbn [w_ch]. destruct (N.eq_dec c c0) as [->|Hne]; [|rewrite upd_ch_other by assumption; apply HB].
    rewrite upd_ch_same. simpl. apply HB.
Qed.

(** ** the tracked total over whole histories *)

Fixpoint plain_ops (w : World) (ops : list Op) : Prop :=
  match ops with
  | [] => True
  | o :: r => plain_op w o /\ plain_ops (step_w w o) r
  end.

Lemma esc_sum_nonneg b chans x : (forall a, 0 <= b a x) -> 0 <= esc_sum b chans x.
Proof. intro H. induction chans; simpl; [lia|]. specialize (H (Escrow a)). lia. Qed.

Lemma esc_sum_member b chans ch x : (forall a, 0 <= b a x) -> In ch chans -> b (Escrow ch) x <= esc_sum b chans x.
Proof.
  intros H. induction chans as [|c0 r IH]; simpl; [tauto|].
  intros [->|Hin].
  - pose proof (esc_sum_nonneg b r x H). lia.
  - specialize (IH Hin). specialize (H (Escrow c0)). lia.
Qed.

(** any history: the tracked total never exceeds what the escrow accounts hold (bank sends or receives into
    an escrow account only widen the gap) *)
Theorem total_escrow_bounded w ops c chans x :
  wf_links (w_links w) -> PkInv w -> chans_ok (w_links w) c chans ->
  0 <= gap w c chans x -> 0 <= gap (run w ops) c chans x.
Proof.
  revert w. induction ops as [|o ops IH]; intros w Hwf HI Hc Hg; simpl; [exact Hg|].
  apply IH.
  - now rewrite step_links.
  - now apply pkinv_step.
  - now rewrite step_links.
  - pose proof (gap_step w o c chans x Hwf HI Hc) as [H _]. lia.
Qed.

(** histories of plain operations: tracked total = combined balance of the chain's escrow accounts, exactly;
    hence it is the sum of what was escrowed minus what was released, and it is not negative *)
Theorem total_escrow_exact w ops c chans x :
  wf_links (w_links w) -> PkInv w -> chans_ok (w_links w) c chans -> BalNonneg w ->
  plain_ops w ops -> gap w c chans x = 0 ->
  tesc (w_ch (run w ops) c) x = esc_sum (bal (bank (w_ch (run w ops) c))) chans x /\
  0 <= tesc (w_ch (run w ops) c) x.
Proof.
  revert w. induction ops as [|o ops IH]; intros w Hwf HI Hc HB Hp Hg; simpl.
  - unfold gap in Hg. split; [lia|]. pose proof (esc_sum_nonneg (bal (bank (w_ch w c))) chans x (fun a => HB c a x)). lia.
  - destruct Hp as [Hp1 Hp2]. apply IH; auto.
    + now rewrite step_links.
    + now apply pkinv_step.
    + now rewrite step_links.
    + now apply balnonneg_step.
    + pose proof (gap_step w o c chans x Hwf HI Hc) as [_ H]. rewrite (H Hp1). exact Hg.
Qed.

(** SetTotalEscrowForDenom's panic: unreachable from EscrowCoin / UnescrowCoin (and the three PFM moves) in a
    state where the tracked total equals the escrow balances and balances are non-negative *)
Theorem set_total_escrow_no_panic k chans ch d amt other :
  0 <= amt -> (forall a, 0 <= bal (bank k) a d) -> In ch chans ->
  tesc k d = esc_sum (bal (bank k)) chans d ->
  escrow_coin k other (Escrow ch) d amt <> RPanic /\
  unescrow_coin k (Escrow ch) other d amt <> RPanic /\
  (pfm_burn_from_escrow k ch d amt = RPanic ->
     exists b1, send_coins (bank k) (Escrow ch) ModTransfer d amt = Some b1 /\ burn_coins b1 d amt = None) /\
  pfm_mint_into_escrow k ch d amt <> RPanic.
Proof.
  intros Ha Hb Hin Ht.
  pose proof (esc_sum_nonneg (bal (bank k)) chans d Hb) as Hs.
  pose proof (esc_sum_member (bal (bank k)) chans ch d Hb Hin) as Hm.
  assert (Hset : forall k0 v, 0 <= v -> set_total_escrow k0 d v <> RPanic).
  { intros k0 v Hv. unfold set_total_escrow. destruct (v <? 0) eqn:E; [apply Z.ltb_lt in E; lia|discriminate]. }
  repeat split.
  - unfold escrow_coin. destruct (send_coins _ _ _ _ _); [|discriminate]. apply Hset. lia.
  - unfold unescrow_coin. destruct (send_coins _ _ _ _ _) eqn:E; [|discriminate].
    apply send_coins_spec in E. destruct E as (Hle & _). apply Hset. lia.
  - unfold pfm_burn_from_escrow. destruct (send_coins _ _ _ _ _) as [b1|] eqn:E; [|discriminate].
    apply send_coins_spec in E. destruct E as (Hle & Hb1 & Hs1).
    destruct (burn_coins b1 d amt) eqn:E2.
    + intro Hp. exfalso. revert Hp. apply Hset. lia.
    + intros _. exists b1. auto.
  - unfold pfm_mint_into_escrow. destruct (send_coins _ _ _ _ _); [|discriminate]. apply Hset. lia.
Qed.
