(** C18 — BuildMerklePath never changes what the caller sees through its prefix (proofs). *)
From IBC Require Import Lib.Bytes Merkle.GoSlice.
From Coq Require Import Lia.

(** * list helpers *)
Lemma nth_error_ext_eq {A} (a b : list A) : (forall j, nth_error a j = nth_error b j) -> a = b.
Proof.
  revert b; induction a as [|x a IH]; intros [|y b] H; auto.
  - specialize (H 0%nat); discriminate.
  - specialize (H 0%nat); discriminate.
  - f_equal.
    + specialize (H 0%nat). now inversion H.
    + apply IH. intros j. exact (H (S j)).
Qed.

Lemma nth_error_firstn_if {A} (l : list A) n j :
  nth_error (firstn n l) j = if (j <? n)%nat then nth_error l j else None.
Proof.
  revert n j; induction l as [|a l IH]; intros n j.
  - rewrite firstn_nil. destruct (j <? n)%nat; destruct j; reflexivity.
  - destruct n as [|n]; [destruct j; reflexivity|].
    destruct j as [|j]; [reflexivity|]. cbn [firstn nth_error]. rewrite IH. reflexivity.
Qed.

Lemma nth_error_skipn_add {A} (l : list A) o j : nth_error (skipn o l) j = nth_error l (o + j).
Proof.
  revert l; induction o as [|o IH]; intros l; [reflexivity|].
  destruct l as [|a l]; [destruct j; reflexivity|]. cbn [skipn Nat.add nth_error]. apply IH.
Qed.

Lemma nth_error_sub {A} (l : list A) o n j :
  nth_error (sub l o n) j = if (j <? n)%nat then nth_error l (o + j) else None.
Proof. unfold sub. rewrite nth_error_firstn_if, nth_error_skipn_add. reflexivity. Qed.

Lemma length_sub {A} (l : list A) o n : (o + n <= length l)%nat -> length (sub l o n) = n.
Proof. intros H. unfold sub. rewrite firstn_length, skipn_length. lia. Qed.

Lemma nth_error_splice {A} (l : list A) o d j :
  (o + length d <= length l)%nat ->
  nth_error (splice l o d) j =
  if (j <? o)%nat then nth_error l j
  else if (j <? o + length d)%nat then nth_error d (j - o) else nth_error l j.
Proof.
  intros H. unfold splice.
  assert (Hf : length (firstn o l) = o) by (rewrite firstn_length; lia).
  destruct (Nat.ltb_spec j o) as [Hj|Hj].
  - rewrite nth_error_app1 by lia. rewrite nth_error_firstn_if.
    destruct (Nat.ltb_spec j o); [reflexivity|lia].
  - rewrite nth_error_app2 by lia. rewrite Hf.
    destruct (Nat.ltb_spec j (o + length d)) as [Hj2|Hj2].
    + rewrite nth_error_app1 by lia. reflexivity.
    + rewrite nth_error_app2 by lia. rewrite nth_error_skipn_add. f_equal. lia.
Qed.

Lemma length_splice {A} (l : list A) o d : (o + length d <= length l)%nat -> length (splice l o d) = length l.
Proof. intros H. unfold splice. rewrite !app_length, firstn_length, skipn_length. lia. Qed.

(** overwriting cells outside a window does not change the window *)
Lemma sub_splice_disjoint {A} (l : list A) o d o' n :
  (o + length d <= length l)%nat -> (o' + n <= o \/ o + length d <= o')%nat ->
  sub (splice l o d) o' n = sub l o' n.
Proof.
  intros Hl Hd. apply nth_error_ext_eq. intros j. rewrite !nth_error_sub.
  destruct (Nat.ltb_spec j n) as [Hj|Hj]; [|reflexivity].
  rewrite nth_error_splice by exact Hl.
  destruct (Nat.ltb_spec (o' + j) o); [reflexivity|].
  destruct (Nat.ltb_spec (o' + j) (o + length d)); [lia|reflexivity].
Qed.

Lemma length_upd {A} (l : list A) i x : length (upd l i x) = length l.
Proof. revert i; induction l as [|a l IH]; intros [|i]; simpl; auto. Qed.

Lemma nth_upd_eq {A} (l : list A) i x d : (i < length l)%nat -> nth i (upd l i x) d = x.
Proof. revert i; induction l as [|a l IH]; intros [|i] H; simpl in *; try lia; auto. apply IH. lia. Qed.

Lemma nth_upd_neq {A} (l : list A) i j x d : i <> j -> nth j (upd l i x) d = nth j l d.
Proof.
  revert i j; induction l as [|a l IH]; intros [|i] [|j] H; simpl; auto; try congruence.
Qed.

Lemma nth_pred_last {A} (l : list A) d : l <> [] -> nth (length l - 1) l d = last l d.
Proof.
  induction l as [|a l IH]; [congruence|]. intros _. destruct l as [|b l]; [reflexivity|].
  change (length (a :: b :: l) - 1)%nat with (S (length l)).
  change (nth (S (length l)) (a :: b :: l) d) with (nth (length l) (b :: l) d).
  change (last (a :: b :: l) d) with (last (b :: l) d).
  rewrite <- IH by discriminate. f_equal. simpl. lia.
Qed.

(** * views depend only on the arrays they read *)
Lemma bview_same_barrs h h' e : barrs h = barrs h' -> bview h e = bview h' e.
Proof. intros H. unfold bview, barr. now rewrite H. Qed.

Lemma wf_bslice_same_barrs h h' e : barrs h = barrs h' -> wf_bslice h e -> wf_bslice h' e.
Proof. intros H. unfold wf_bslice, barr. now rewrite H. Qed.

(** * append on a []byte leaves every window outside the written cells as it was *)
Lemma append_bytes_oarrs h l d ei h2 l' : append_bytes h l d ei = (h2, l') -> oarrs h2 = oarrs h.
Proof.
  unfold append_bytes. destruct (_ <=? _)%nat; intros H; inversion H; reflexivity.
Qed.

Lemma append_bytes_view_other h l d ei h2 l' e :
  append_bytes h l d ei = (h2, l') ->
  wf_bslice h l -> wf_bslice h e ->
  (s_arr e <> s_arr l \/ (s_off e + s_len e <= s_off l + s_len l)%nat \/ (s_off l + s_cap l <= s_off e)%nat) ->
  bview h2 e = bview h e.
Proof.
  unfold append_bytes. intros H (Hla & Hlc & Hll) (Hea & Hec & Hel) Hd.
  destruct (Nat.leb_spec (s_len l + length d) (s_cap l)) as [Hfit|Hnofit]; inversion H; subst h2 l'; clear H.
  - (* in place *)
    unfold bview, barr. cbn [barrs].
    destruct (Nat.eq_dec (s_arr e) (s_arr l)) as [Heq|Hne].
    + rewrite Heq. rewrite nth_upd_eq by exact Hla.
      fold (barr h (s_arr l)). apply sub_splice_disjoint; [lia|].
      destruct Hd as [Hd|[Hd|Hd]]; [congruence|left; lia|right; lia].
    + rewrite nth_upd_neq by congruence. reflexivity.
  - (* new array *)
    unfold bview, barr. cbn [barrs]. rewrite app_nth1 by exact Hea. reflexivity.
Qed.

(** the result of append shows the old visible bytes followed by the appended ones *)
Lemma append_bytes_view_result h l d ei h2 l' :
  append_bytes h l d ei = (h2, l') -> wf_bslice h l -> bview h2 l' = bview h l ++ d.
Proof.
  unfold append_bytes. intros H (Hla & Hlc & Hll).
  destruct (Nat.leb_spec (s_len l + length d) (s_cap l)) as [Hfit|Hnofit]; inversion H; subst h2 l'; clear H.
  - unfold bview, barr. cbn [barrs s_arr s_off s_len]. rewrite nth_upd_eq by exact Hla. fold (barr h (s_arr l)).
    apply nth_error_ext_eq. intros j. rewrite nth_error_sub, nth_error_splice by lia.
    destruct (Nat.ltb_spec j (s_len l + length d)) as [Hj|Hj].
    + destruct (Nat.ltb_spec (s_off l + j) (s_off l + s_len l)) as [Hj2|Hj2].
      * rewrite nth_error_app1 by (rewrite length_sub; lia). rewrite nth_error_sub.
        destruct (Nat.ltb_spec j (s_len l)); [reflexivity|lia].
      * destruct (Nat.ltb_spec (s_off l + j) (s_off l + s_len l + length d)); [|lia].
        rewrite nth_error_app2 by (rewrite length_sub; lia). rewrite length_sub by lia. f_equal. lia.
    + symmetry. apply nth_error_None. rewrite app_length, length_sub by lia. lia.
  - unfold bview at 1, barr. cbn [barrs s_arr s_off s_len]. rewrite nth_middle.
    unfold sub. cbn [skipn]. rewrite app_assoc.
    rewrite firstn_app. replace (s_len l + length d - length (bview h l ++ d))%nat with 0%nat.
    + cbn [firstn]. rewrite app_nil_r. apply firstn_all2. rewrite app_length. unfold bview. rewrite length_sub by lia. lia.
    + rewrite app_length. unfold bview. rewrite length_sub by lia. lia.
Qed.

(** * BuildMerklePath *)
Theorem bmp_panic_iff h prefix path eo ei :
  build_merkle_path h prefix path eo ei = BPanic <-> s_len prefix = 0%nat.
Proof.
  unfold build_merkle_path. destruct (Nat.eqb_spec (s_len prefix) 0) as [E|E].
  - split; auto.
  - unfold clone_outer. destruct (append_bytes _ _ _ _). split; [discriminate|contradiction].
Qed.

Lemma oelems_length h s : wf_oslice h s -> length (oelems h s) = s_len s.
Proof. intros (_ & Hc & Hl & _). unfold oelems. apply length_sub. lia. Qed.

(** The caller's visible prefix — every element's visible bytes — is the same before and after, for
    every capacity of the outer slice and of every inner slice and every growth policy, provided no
    OTHER prefix element is a window into the spare capacity of the last element. *)
Theorem bmp_prefix_unchanged h prefix path eo ei h' full :
  wf_oslice h prefix -> no_overlap h prefix ->
  build_merkle_path h prefix path eo ei = BOk h' full ->
  oview h' prefix = oview h prefix.
Proof.
  intros Hwf Hno H. pose proof (oelems_length _ _ Hwf) as Hlen.
  destruct Hwf as (Hpa & Hpc & Hpl & Hes).
  unfold build_merkle_path in H.
  destruct (Nat.eqb_spec (s_len prefix) 0) as [E|E]; [discriminate|].
  unfold clone_outer in H.
  set (h1 := mkHp (barrs h) (oarrs h ++ [oelems h prefix ++ repeat nil_slice eo])) in H.
  set (full0 := mkS (length (oarrs h)) 0 (s_len prefix) (s_len prefix + eo)) in H.
  set (es := oelems h prefix) in *.
  assert (Hne : es <> []) by (intros C; rewrite C in Hlen; simpl in Hlen; lia).
  assert (Hlast : get_outer h1 full0 (s_len prefix - 1) = last es nil_slice).
  { unfold get_outer, oarr, h1, full0. cbn [oarrs s_arr s_off]. rewrite nth_middle. cbn [Nat.add].
    rewrite app_nth1 by lia. rewrite <- Hlen. now apply nth_pred_last. }
  rewrite Hlast in H.
  destruct (append_bytes h1 (last es nil_slice) path ei) as [h2 last'] eqn:Ea.
  inversion H; subst h' full; clear H.
  (* the caller's outer array is untouched: only the clone's array is written *)
  assert (Ho : oelems (set_outer h2 full0 (s_len prefix - 1) last') prefix = es).
  { unfold oelems at 1, oarr, set_outer, full0. cbn [oarrs s_arr s_off].
    rewrite nth_upd_neq by lia. rewrite (append_bytes_oarrs _ _ _ _ _ _ Ea).
    unfold h1. cbn [oarrs]. rewrite app_nth1 by exact Hpa. reflexivity. }
  unfold oview. rewrite Ho. fold es. apply map_ext_in. intros e Hin.
  rewrite (bview_same_barrs (set_outer h2 full0 (s_len prefix - 1) last') h2 e eq_refl).
  rewrite (bview_same_barrs h h1 e eq_refl).
  assert (Hwl : wf_bslice h (last es nil_slice)).
  { rewrite Forall_forall in Hes. apply Hes. rewrite (app_removelast_last nil_slice Hne) at 2.
    apply in_or_app. right. now left. }
  apply (append_bytes_view_other _ _ _ _ _ _ e Ea).
  - exact (wf_bslice_same_barrs h h1 _ eq_refl Hwl).
  - apply (wf_bslice_same_barrs h h1 _ eq_refl). rewrite Forall_forall in Hes. now apply Hes.
  - rewrite (app_removelast_last nil_slice Hne) in Hin. apply in_app_or in Hin. destruct Hin as [Hin|[<-|[]]].
    + unfold no_overlap in Hno. fold es in Hno. rewrite Forall_forall in Hno. exact (Hno e Hin).
    + right; left. lia.
Qed.

(** the returned path shows the prefix with [path] appended to its last element *)
Theorem bmp_result_view h prefix path eo ei h' full :
  wf_oslice h prefix -> no_overlap h prefix ->
  build_merkle_path h prefix path eo ei = BOk h' full ->
  oview h' full = removelast (oview h prefix) ++ [last (oview h prefix) [] ++ path].
Proof.
  intros Hwf Hno H. pose proof (oelems_length _ _ Hwf) as Hlen.
  destruct Hwf as (Hpa & Hpc & Hpl & Hes).
  unfold build_merkle_path in H.
  destruct (Nat.eqb_spec (s_len prefix) 0) as [E|E]; [discriminate|].
  unfold clone_outer in H.
  set (h1 := mkHp (barrs h) (oarrs h ++ [oelems h prefix ++ repeat nil_slice eo])) in H.
  set (full0 := mkS (length (oarrs h)) 0 (s_len prefix) (s_len prefix + eo)) in H.
  set (es := oelems h prefix) in *.
  assert (Hne : es <> []) by (intros C; rewrite C in Hlen; simpl in Hlen; lia).
  assert (Hlast : get_outer h1 full0 (s_len prefix - 1) = last es nil_slice).
  { unfold get_outer, oarr, h1, full0. cbn [oarrs s_arr s_off]. rewrite nth_middle. cbn [Nat.add].
    rewrite app_nth1 by lia. rewrite <- Hlen. now apply nth_pred_last. }
  rewrite Hlast in H.
  destruct (append_bytes h1 (last es nil_slice) path ei) as [h2 last'] eqn:Ea.
  inversion H; subst h' full; clear H.
  assert (Hwl : wf_bslice h (last es nil_slice)).
  { rewrite Forall_forall in Hes. apply Hes. rewrite (app_removelast_last nil_slice Hne) at 2.
    apply in_or_app. right. now left. }
  (* the clone's visible elements: removelast es ++ [last'] *)
  assert (Ho : oelems (set_outer h2 full0 (s_len prefix - 1) last') full0 = removelast es ++ [last']).
  { unfold oelems, set_outer, full0. unfold oarr. cbn [oarrs s_arr s_off s_len].
    rewrite (append_bytes_oarrs _ _ _ _ _ _ Ea). unfold h1. cbn [oarrs].
    rewrite nth_upd_eq by (rewrite app_length; simpl; lia). rewrite nth_middle. cbn [Nat.add].
    apply nth_error_ext_eq. intros j. rewrite nth_error_sub. cbn [Nat.add].
    assert (Hrl : length (removelast es) = (s_len prefix - 1)%nat).
    { rewrite (app_removelast_last nil_slice Hne) in Hlen. rewrite app_length in Hlen. simpl in Hlen. lia. }
    rewrite nth_error_splice by (rewrite app_length; fold es; simpl; lia). cbn [length].
    destruct (Nat.ltb_spec j (s_len prefix)) as [Hj|Hj].
    - destruct (Nat.ltb_spec j (s_len prefix - 1)) as [Hj2|Hj2].
      + rewrite nth_error_app1 by (fold es; lia). rewrite nth_error_app1 by lia.
        fold es. rewrite (app_removelast_last nil_slice Hne) at 1. now rewrite nth_error_app1 by lia.
      + destruct (Nat.ltb_spec j (s_len prefix - 1 + 1)); [|lia].
        rewrite nth_error_app2 by lia. rewrite Hrl. reflexivity.
    - symmetry. apply nth_error_None. rewrite app_length. simpl. lia. }
  unfold oview at 1. rewrite Ho. rewrite map_app. cbn [map].
  assert (Hov : oview h prefix = map (bview h) (removelast es) ++ [bview h (last es nil_slice)]).
  { unfold oview. fold es. rewrite (app_removelast_last nil_slice Hne) at 1. now rewrite map_app. }
  rewrite Hov. rewrite removelast_last, last_last. f_equal.
  - apply map_ext_in. intros e Hin.
    rewrite (bview_same_barrs (set_outer h2 full0 (s_len prefix - 1) last') h2 e eq_refl).
    rewrite (bview_same_barrs h h1 e eq_refl).
    apply (append_bytes_view_other _ _ _ _ _ _ e Ea).
    + exact (wf_bslice_same_barrs h h1 _ eq_refl Hwl).
    + apply (wf_bslice_same_barrs h h1 _ eq_refl). rewrite Forall_forall in Hes. apply Hes.
      rewrite (app_removelast_last nil_slice Hne). apply in_or_app. now left.
    + unfold no_overlap in Hno. fold es in Hno. rewrite Forall_forall in Hno. exact (Hno e Hin).
  - f_equal. rewrite (bview_same_barrs (set_outer h2 full0 (s_len prefix - 1) last') h2 last' eq_refl).
    rewrite (append_bytes_view_result _ _ _ _ _ _ Ea (wf_bslice_same_barrs h h1 _ eq_refl Hwl)).
    now rewrite (bview_same_barrs h h1 _ eq_refl).
Qed.

(** * the model tells the variants apart (concrete heaps, evaluated) *)

(** heap: one byte array "ibc" (cap 3), outer array [ "ibc" ]; prefix = that one-element slice *)
Definition ex_h0 : heap := mkHp [B "ibc"] [[mkS 0 0 3 3]].
Definition ex_prefix : slice := mkS 0 0 1 1.

(** without slices.Clone the caller's last prefix element changes *)
Lemma bmp_noclone_changes_prefix :
  exists h' full, build_merkle_path_noclone ex_h0 ex_prefix (B "/x") 5 = BOk h' full /\
                  oview ex_h0 ex_prefix = [B "ibc"] /\ oview h' ex_prefix = [B "ibc/x"].
Proof. eexists; eexists. split; [reflexivity|]. split; reflexivity. Qed.

Lemma bmp_clone_keeps_prefix_example :
  exists h' full, build_merkle_path ex_h0 ex_prefix (B "/x") 0 5 = BOk h' full /\
                  oview h' ex_prefix = [B "ibc"] /\ oview h' full = [B "ibc/x"].
Proof. eexists; eexists. split; [reflexivity|]. split; reflexivity. Qed.

(** spare capacity in the LAST inner element: two successive results alias each other — the second
    call overwrites the bytes the first result shows (the caller's prefix is still unchanged). *)
Definition ex_h_spare : heap := mkHp [B "ibc_____"] [[mkS 0 0 3 8]].
Lemma bmp_successive_results_alias :
  exists h1 full1 h2 full2,
    build_merkle_path ex_h_spare ex_prefix (B "AAA") 0 0 = BOk h1 full1 /\
    build_merkle_path h1 ex_prefix (B "BBB") 0 0 = BOk h2 full2 /\
    oview h1 full1 = [B "ibcAAA"] /\ oview h2 full2 = [B "ibcBBB"] /\
    oview h2 full1 = [B "ibcBBB"] /\
    oview h1 ex_prefix = [B "ibc"] /\ oview h2 ex_prefix = [B "ibc"].
Proof. do 4 eexists. repeat split; reflexivity. Qed.

(** the hypothesis [no_overlap] is needed: if an earlier prefix element is a window into the spare
    capacity of the last element (both carved out of one buffer), the in-place append changes it. *)
Definition ex_h_overlap : heap := mkHp [B "abcXYZ__"] [[mkS 0 3 3 5; mkS 0 0 3 8]].
Definition ex_prefix2 : slice := mkS 0 0 2 2.
Lemma bmp_overlap_changes_prefix :
  exists h' full,
    wf_oslice ex_h_overlap ex_prefix2 /\
    build_merkle_path ex_h_overlap ex_prefix2 (B "QQ") 0 0 = BOk h' full /\
    oview ex_h_overlap ex_prefix2 = [B "XYZ"; B "abc"] /\ oview h' ex_prefix2 = [B "QQZ"; B "abc"].
Proof.
  do 2 eexists. split; [|split; [reflexivity|split; reflexivity]].
  unfold wf_oslice, wf_bslice. cbn. repeat split; try lia. repeat constructor; cbn; lia.
Qed.

(** non-vacuity of [bmp_prefix_unchanged]'s hypotheses on a heap with spare capacity everywhere *)
Definition ex_h_caps : heap := mkHp [B "ibc__"; B "--store###"] [[mkS 0 0 3 5; mkS 1 2 5 8; nil_slice]].
Definition ex_prefix3 : slice := mkS 0 0 2 3.
Lemma bmp_hyps_nonvacuous : wf_oslice ex_h_caps ex_prefix3 /\ no_overlap ex_h_caps ex_prefix3.
Proof.
  split.
  - unfold wf_oslice, wf_bslice. cbn. repeat split; try lia. repeat constructor; cbn; lia.
  - unfold no_overlap. cbn. constructor; [|constructor]. left. cbn. lia.
Qed.

Lemma bmp_overlap_refuted :
  exists h prefix path eo ei h' full,
    wf_oslice h prefix /\ build_merkle_path h prefix path eo ei = BOk h' full /\ oview h' prefix <> oview h prefix.
Proof.
  destruct bmp_overlap_changes_prefix as (h' & full & Hwf & Hb & Hv0 & Hv1).
  exists ex_h_overlap, ex_prefix2, (B "QQ"), 0%nat, 0%nat, h', full.
  split; [exact Hwf|split; [exact Hb|]]. rewrite Hv0, Hv1. discriminate.
Qed.
