(** C18 — a mini model of Go slices over a heap of backing arrays, and
    /repo/modules/core/04-channel/v2/types/merkle.go:BuildMerklePath in it (definitions only).

    A Go slice value is a header (backing array, offset of element 0 inside it, len, cap).  The heap has
    two kinds of backing arrays: arrays of bytes (for []byte) and arrays of []byte headers (for [][]byte).
    An array id is its position in the heap's list; allocation appends a new array at the end.
    [s_cap] counts from [s_off] (as Go's cap()), so the slice may touch cells [s_off, s_off + s_cap).

    append(s, d...)  — Go spec + runtime: if len(s)+len(d) <= cap(s) the cells after the visible part are
    overwritten in place and the result shares the array; otherwise a NEW array is allocated holding the
    visible part followed by d.  The growth policy (how much larger the new array is) is irrelevant to the
    property: it is the parameter [extra], over which all theorems quantify.
    slices.Clone(s) = append(s[:0:0], s...): a new OUTER array; the inner headers are copied as they are
    (shallow), so the clone's elements alias the caller's inner arrays. *)
From IBC Require Import Lib.Bytes.

Record slice := mkS { s_arr : nat; s_off : nat; s_len : nat; s_cap : nat }.
Record heap := mkHp { barrs : list (list ascii); oarrs : list (list slice) }.

Definition nil_slice : slice := mkS 0 0 0 0.
Definition zero_byte : ascii := Ascii.zero.

Definition sub {A} (l : list A) (o n : nat) : list A := firstn n (skipn o l).
(** overwrite [length d] cells of [l] starting at [o] *)
Definition splice {A} (l : list A) (o : nat) (d : list A) : list A :=
  firstn o l ++ d ++ skipn (o + length d) l.

Fixpoint upd {A} (l : list A) (i : nat) (x : A) : list A :=
  match l, i with
  | [], _ => []
  | _ :: l', O => x :: l'
  | a :: l', S i' => a :: upd l' i' x
  end.

Definition barr (h : heap) (i : nat) : list ascii := nth i (barrs h) [].
Definition oarr (h : heap) (i : nat) : list slice := nth i (oarrs h) [].

(** what a holder of the header sees *)
Definition bview (h : heap) (s : slice) : bytes := sub (barr h (s_arr s)) (s_off s) (s_len s).
Definition oelems (h : heap) (s : slice) : list slice := sub (oarr h (s_arr s)) (s_off s) (s_len s).
Definition oview (h : heap) (s : slice) : list bytes := map (bview h) (oelems h s).

(** append(s, d...) on a []byte *)
Definition append_bytes (h : heap) (s : slice) (d : bytes) (extra : nat) : heap * slice :=
  if (s_len s + length d <=? s_cap s)%nat then
    (mkHp (upd (barrs h) (s_arr s) (splice (barr h (s_arr s)) (s_off s + s_len s) d)) (oarrs h),
     mkS (s_arr s) (s_off s) (s_len s + length d) (s_cap s))
  else
    (mkHp (barrs h ++ [bview h s ++ d ++ repeat zero_byte extra]) (oarrs h),
     mkS (length (barrs h)) 0 (s_len s + length d) (s_len s + length d + extra)).

(** slices.Clone(s) on a [][]byte *)
Definition clone_outer (h : heap) (s : slice) (extra : nat) : heap * slice :=
  (mkHp (barrs h) (oarrs h ++ [oelems h s ++ repeat nil_slice extra]),
   mkS (length (oarrs h)) 0 (s_len s) (s_len s + extra)).

(** s[i] and s[i] = x on a [][]byte (i < len(s) is the caller's obligation; BuildMerklePath only uses
    i = len-1 with len > 0) *)
Definition get_outer (h : heap) (s : slice) (i : nat) : slice := nth (s_off s + i) (oarr h (s_arr s)) nil_slice.
Definition set_outer (h : heap) (s : slice) (i : nat) (x : slice) : heap :=
  mkHp (barrs h) (upd (oarrs h) (s_arr s) (splice (oarr h (s_arr s)) (s_off s + i) [x])).

Inductive BmpRes := BPanic | BOk (h : heap) (full : slice).

(** BuildMerklePath(prefix, path):
      prefixLength := len(prefix); if prefixLength == 0 { panic(...) }
      fullPath := slices.Clone(prefix)
      fullPath[prefixLength-1] = append(fullPath[prefixLength-1], path...)
      return NewMerklePath(fullPath...)          // KeyPath is the same slice header
    [path] is the CONTENT of the path argument (append reads it before writing, memmove semantics). *)
Definition build_merkle_path (h : heap) (prefix : slice) (path : bytes) (extra_outer extra_inner : nat) : BmpRes :=
  if (s_len prefix =? 0)%nat then BPanic
  else
    let '(h1, full) := clone_outer h prefix extra_outer in
    let last := get_outer h1 full (s_len prefix - 1) in
    let '(h2, last') := append_bytes h1 last path extra_inner in
    BOk (set_outer h2 full (s_len prefix - 1) last') full.

(** the variant without slices.Clone ([fullPath := prefix]) — only to show the model tells them apart *)
Definition build_merkle_path_noclone (h : heap) (prefix : slice) (path : bytes) (extra_inner : nat) : BmpRes :=
  if (s_len prefix =? 0)%nat then BPanic
  else
    let last := get_outer h prefix (s_len prefix - 1) in
    let '(h2, last') := append_bytes h last path extra_inner in
    BOk (set_outer h2 prefix (s_len prefix - 1) last') prefix.

(** Go runtime invariants of the headers the caller holds *)
Definition wf_bslice (h : heap) (s : slice) : Prop :=
  (s_arr s < length (barrs h))%nat /\ (s_off s + s_cap s <= length (barr h (s_arr s)))%nat /\ (s_len s <= s_cap s)%nat.
Definition wf_oslice (h : heap) (s : slice) : Prop :=
  (s_arr s < length (oarrs h))%nat /\ (s_off s + s_cap s <= length (oarr h (s_arr s)))%nat /\ (s_len s <= s_cap s)%nat /\
  Forall (wf_bslice h) (oelems h s).

(** the visible bytes of [e] do not lie in the spare capacity [len, cap) of [l] *)
Definition spare_disjoint (e l : slice) : Prop :=
  s_arr e <> s_arr l \/ (s_off e + s_len e <= s_off l + s_len l)%nat \/ (s_off l + s_cap l <= s_off e)%nat.
Definition spare_disjointb (e l : slice) : bool :=
  negb (s_arr e =? s_arr l)%nat || (s_off e + s_len e <=? s_off l + s_len l)%nat || (s_off l + s_cap l <=? s_off e)%nat.

(** no OTHER prefix element's visible bytes lie in the spare capacity of the last element *)
Definition no_overlap (h : heap) (prefix : slice) : Prop :=
  let es := oelems h prefix in Forall (fun e => spare_disjoint e (last es nil_slice)) (removelast es).
