(** C18 — proofs about the model in Merkle/Merkle.v. *)
From IBC Require Import Lib.Bytes Lib.BytesFacts Merkle.Merkle.
From Coq Require Import Lia ZArith.

(** Go slice lengths are [int]s: [len(x) <= MaxInt64]. *)
Definition go_len {A} (l : list A) : Prop := (Z.of_nat (length l) <= 9223372036854775807)%Z.

(** * list helpers *)
Lemma nth_error_rev_lt {A} (l : list A) i :
  (i < length l)%nat -> nth_error (rev l) i = nth_error l (length l - S i).
Proof.
  intros Hi. destruct l as [|d l']; [simpl in Hi; lia|]. remember (d :: l') as l.
  rewrite (nth_error_nth' (rev l) d) by (rewrite rev_length; exact Hi).
  rewrite (nth_error_nth' l d) by lia.
  now rewrite rev_nth.
Qed.

Lemma skipn_nth_cons {A} (l : list A) i x : nth_error l i = Some x -> skipn i l = x :: skipn (S i) l.
Proof.
  revert i; induction l as [|a l IH]; intros [|i] H; simpl in *; try discriminate.
  - now inversion H.
  - now apply IH.
Qed.

Lemma nth_error_map_Some {A} (l : list A) i s : nth_error (map Some l) i = Some (Some s) -> nth_error l i = Some s.
Proof.
  rewrite nth_error_map. destruct (nth_error l i); simpl; intros H; now inversion H.
Qed.

Lemma existsb_is_none_false {A} (l : list (option A)) :
  existsb is_none l = false -> exists ss, l = map Some ss.
Proof.
  induction l as [|[a|] l IH]; simpl; intros H.
  - now exists [].
  - destruct (IH H) as [ss ->]. now exists (a :: ss).
  - discriminate.
Qed.

Lemma existsb_is_none_map_Some {A} (ss : list A) : existsb is_none (map Some ss) = false.
Proof. induction ss; simpl; auto. Qed.

Lemma existsb_is_none_true {A} (l : list (option A)) : existsb is_none l = true <-> In None l.
Proof.
  rewrite existsb_exists. split.
  - intros [[x|] [Hin Hx]]; [discriminate|exact Hin].
  - intros Hin. now exists None.
Qed.

Lemma is_empty_true b : is_empty b = true <-> b = [].
Proof. destruct b; simpl; split; intros H; congruence. Qed.
Lemma is_empty_false b : is_empty b = false <-> b <> [].
Proof. destruct b; simpl; split; intros H; congruence. Qed.

(** * GetKey and the error-branch index expression *)
Lemma get_key_in_range path idx :
  go_len path -> (0 <= idx < Z.of_nat (length path))%Z -> get_key path idx = nth_error path (Z.to_nat idx).
Proof.
  unfold go_len, get_key, two64Z. intros Hl Hi.
  rewrite Z.mod_small by lia.
  destruct (Z.leb_spec (Z.of_nat (length path)) idx); [lia|reflexivity].
Qed.

Lemma key_at_in_range path idx :
  go_len path -> (0 <= idx < Z.of_nat (length path))%Z ->
  exists k, nth_error path (Z.to_nat idx) = Some k /\ key_at path idx = KOk k.
Proof.
  intros Hl Hi. unfold key_at. rewrite get_key_in_range by assumption.
  destruct (nth_error path (Z.to_nat idx)) as [k|] eqn:E.
  - now exists k.
  - apply nth_error_None in E. lia.
Qed.

(** The error branch of [GetKey] can never return an error: whenever GetKey fails (for an int index
    expression), the message argument [KeyPath[idx]] is itself out of range and panics. *)
Lemma key_at_never_err path idx :
  go_len path -> (- 9223372036854775808 <= idx <= 9223372036854775807)%Z -> key_at path idx <> KErr.
Proof.
  unfold go_len, key_at, get_key, index_int, two64Z. intros Hl Hi.
  destruct (Z.ltb_spec idx 0) as [Hneg|Hpos].
  - destruct (Z.leb_spec (Z.of_nat (length path)) (idx mod 18446744073709551616)) as [H|H]; [discriminate|].
    destruct (nth_error path (Z.to_nat (idx mod 18446744073709551616))); discriminate.
  - rewrite Z.mod_small by lia.
    destruct (Z.leb_spec (Z.of_nat (length path)) idx) as [H|H].
    + assert (E : nth_error path (Z.to_nat idx) = None) by (apply nth_error_None; lia).
      rewrite E. discriminate.
    + destruct (nth_error path (Z.to_nat idx)); discriminate.
Qed.

Lemma key_at_out_of_range path idx :
  go_len path -> (- 9223372036854775808 <= idx < 0)%Z \/ (Z.of_nat (length path) <= idx <= 9223372036854775807)%Z ->
  key_at path idx = KPanic.
Proof.
  unfold go_len, key_at, get_key, index_int, two64Z. intros Hl Hi.
  destruct (Z.ltb_spec idx 0) as [Hneg|Hpos].
  - assert (Hm : (idx mod 18446744073709551616 = idx + 18446744073709551616)%Z).
    { symmetry. apply (Z.mod_unique _ _ (-1)); lia. }
    rewrite Hm.
    destruct (Z.leb_spec (Z.of_nat (length path)) (idx + 18446744073709551616)); [reflexivity|lia].
  - rewrite Z.mod_small by lia.
    destruct (Z.leb_spec (Z.of_nat (length path)) idx) as [H|H]; [|lia].
    assert (E : nth_error path (Z.to_nat idx) = None) by (apply nth_error_None; lia).
    now rewrite E.
Qed.

Section MerkleFacts.
  Variable spec : Type.
  Variable proof : Type.
  Variable calculate : proof -> option bytes.
  Variable is_exist : proof -> bool.
  Variable is_nonexist : proof -> bool.
  Variable ep_verify : spec -> proof -> bytes -> bytes -> bytes -> bool.
  Variable np_verify : spec -> proof -> bytes -> bytes -> bool.

  (** What a level of the commitment structure holds: [committed s r k v] — under proof spec [s] the
      tree with root [r] holds value [v] at key [k]; [absent s r k] — it holds nothing at [k]. *)
  Variable committed : spec -> bytes -> bytes -> bytes -> Prop.
  Variable absent : spec -> bytes -> bytes -> Prop.

  (** Soundness of the ics23 per-level verifier (a dependency; assumed, not proved). *)
  Hypothesis ics23_sound :
    (forall s p r k v, ep_verify s p r k v = true -> committed s r k v) /\
    (forall s p r k, np_verify s p r k = true -> absent s r k).

  Notation validate_args := (validate_args spec proof).
  Notation chained := (chained spec proof calculate is_exist ep_verify).
  Notation verify_chained := (verify_chained spec proof calculate is_exist ep_verify).
  Notation verify_membership := (verify_membership spec proof calculate is_exist ep_verify).
  Notation verify_non_membership := (verify_non_membership spec proof calculate is_exist is_nonexist ep_verify np_verify).
  Notation tm_verify_membership := (tm_verify_membership spec proof calculate is_exist ep_verify).
  Notation tm_verify_non_membership := (tm_verify_non_membership spec proof calculate is_exist is_nonexist ep_verify np_verify).

  (** [Chain root levels v]: [levels] lists (spec, key) from the LEAF level up to the root level;
      [v] is committed at the first level under some subroot, which is committed at the next level, …,
      and the last subroot is [root].  With no level at all the chain degenerates to [v = root]. *)
  Inductive Chain (root : bytes) : list (spec * bytes) -> bytes -> Prop :=
  | Chain_nil : Chain root [] root
  | Chain_cons s k levels v sub :
      committed s sub k v -> Chain root levels sub -> Chain root ((s, k) :: levels) v.

  (** * validateVerificationArgs: every guard *)
  Lemma validate_args_ok_iff proofs keys specs root :
    validate_args proofs keys specs root = Ok <->
    exists ps h ss, proofs = Some ps /\ root = RHash h /\ h <> [] /\
                    length specs = length ps /\ length keys = length specs /\ specs = map Some ss.
  Proof.
    unfold Merkle.validate_args. split.
    - destruct proofs as [ps|]; [|discriminate]. destruct root as [| |h]; try discriminate.
      destruct (is_empty h) eqn:Eh; [discriminate|].
      destruct (Nat.eqb_spec (length specs) (length ps)) as [E1|]; [|discriminate]. cbn [negb].
      destruct (Nat.eqb_spec (length keys) (length specs)) as [E2|]; [|discriminate]. cbn [negb].
      destruct (existsb is_none specs) eqn:Ex; [discriminate|]. intros _.
      destruct (existsb_is_none_false _ Ex) as [ss Hss].
      exists ps, h, ss. repeat split; auto. now apply is_empty_false.
    - intros (ps & h & ss & -> & -> & Hh & E1 & E2 & Hss).
      apply is_empty_false in Hh. rewrite Hh.
      rewrite (proj2 (Nat.eqb_eq _ _) E1), (proj2 (Nat.eqb_eq _ _) E2). cbn [negb].
      subst specs. now rewrite existsb_is_none_map_Some.
  Qed.

  Lemma validate_nil_proofs keys specs root : validate_args None keys specs root = Err.
  Proof. reflexivity. Qed.
  Lemma validate_nil_root ps keys specs : validate_args (Some ps) keys specs RNil = Err.
  Proof. reflexivity. Qed.
  Lemma validate_empty_root ps keys specs : validate_args (Some ps) keys specs (RHash []) = Err.
  Proof. reflexivity. Qed.
  Lemma validate_nilptr_root ps keys specs : validate_args (Some ps) keys specs RNilPtr = Panic.
  Proof. reflexivity. Qed.
  Lemma validate_specs_len ps keys specs h :
    length specs <> length ps -> validate_args (Some ps) keys specs (RHash h) = Err.
  Proof.
    intros H. unfold Merkle.validate_args. destruct (is_empty h); [reflexivity|].
    destruct (Nat.eqb_spec (length specs) (length ps)); [contradiction|reflexivity].
  Qed.
  Lemma validate_path_len ps keys specs h :
    length keys <> length specs -> validate_args (Some ps) keys specs (RHash h) = Err.
  Proof.
    intros H. unfold Merkle.validate_args. destruct (is_empty h); [reflexivity|].
    destruct (Nat.eqb_spec (length specs) (length ps)); [|reflexivity]. cbn [negb].
    destruct (Nat.eqb_spec (length keys) (length specs)); [contradiction|reflexivity].
  Qed.
  Lemma validate_nil_spec ps keys specs h :
    In None specs -> validate_args (Some ps) keys specs (RHash h) = Err.
  Proof.
    intros H. unfold Merkle.validate_args. destruct (is_empty h); [reflexivity|].
    destruct (negb _); [reflexivity|]. destruct (negb _); [reflexivity|].
    now rewrite (proj2 (existsb_is_none_true specs) H).
  Qed.

  (** validation never answers anything but Ok / Err / Panic-for-nil-pointer-root *)
  Lemma validate_panic_iff proofs keys specs root :
    validate_args proofs keys specs root = Panic <-> (exists ps, proofs = Some ps) /\ root = RNilPtr.
  Proof.
    unfold Merkle.validate_args. split.
    - destruct proofs as [ps|]; [|discriminate]. destruct root as [| |h]; try discriminate.
      + intros _. split; [now exists ps|reflexivity].
      + destruct (is_empty h); [discriminate|]. destruct (negb _); [discriminate|].
        destruct (negb _); [discriminate|]. destruct (existsb _ _); discriminate.
    - intros [[ps ->] ->]. reflexivity.
  Qed.

  (** a failed validation is the result of both verification functions *)
  Lemma membership_validation_fails specs root keys value proofs :
    validate_args proofs keys specs root <> Ok ->
    verify_membership specs root (Some keys) value proofs = validate_args proofs keys specs root.
  Proof.
    intros H. unfold Merkle.verify_membership.
    destruct (validate_args proofs keys specs root); [contradiction|reflexivity|reflexivity].
  Qed.
  Lemma non_membership_validation_fails specs root keys proofs :
    validate_args proofs keys specs root <> Ok ->
    verify_non_membership specs root (Some keys) proofs = validate_args proofs keys specs root.
  Proof.
    intros H. unfold Merkle.verify_non_membership.
    destruct (validate_args proofs keys specs root); [contradiction|reflexivity|reflexivity].
  Qed.

  Lemma membership_wrong_path_type specs root value proofs : verify_membership specs root None value proofs = Err.
  Proof. reflexivity. Qed.
  Lemma non_membership_wrong_path_type specs root proofs : verify_non_membership specs root None proofs = Err.
  Proof. reflexivity. Qed.

  Lemma membership_empty_value specs root keys proofs :
    verify_membership specs root (Some keys) [] proofs <> Ok.
  Proof.
    unfold Merkle.verify_membership. destruct (validate_args proofs keys specs root); simpl; discriminate.
  Qed.

  (** * the chained loop *)
  Lemma chained_ok ss keys root :
    go_len keys -> length ss = length keys ->
    forall rest i value,
      (i + length rest = length keys)%nat ->
      chained (map Some ss) keys root rest i value = Ok ->
      Chain root (combine (skipn i ss) (skipn i (rev keys))) value.
  Proof.
    intros Hgl Hlen. induction rest as [|op rest IH]; intros i value Hi H; cbn [Merkle.chained] in H; cbn [length] in Hi.
    - destruct (bytes_eqb root value) eqn:E; [|discriminate]. apply bytes_eqb_eq in E. subst value.
      rewrite skipn_all2 by lia. simpl. constructor.
    - destruct op as [p|]; [|discriminate].
      destruct (calculate p) as [subroot|]; [|discriminate].
      destruct (key_at_in_range keys (Z.of_nat (length keys) - 1 - Z.of_nat i) Hgl ltac:(lia)) as (k & Hk & Hka).
      rewrite Hka in H.
      destruct (is_exist p); [|discriminate]. cbn [negb] in H.
      destruct (nth_error (map Some ss) i) as [[s|]|] eqn:Es; try discriminate.
      apply nth_error_map_Some in Es.
      destruct (ep_verify s p subroot k value) eqn:Ev; [|discriminate].
      assert (Hrk : nth_error (rev keys) i = Some k).
      { rewrite nth_error_rev_lt by lia. rewrite <- Hk. f_equal. lia. }
      rewrite (skipn_nth_cons _ _ _ Es), (skipn_nth_cons _ _ _ Hrk). cbn [combine].
      apply Chain_cons with (sub := subroot).
      + exact (proj1 ics23_sound _ _ _ _ _ Ev).
      + apply IH; [lia|exact H].
  Qed.

  (** after validation the loop never panics unless it meets a nil proof entry *)
  Lemma chained_panic ss keys root :
    go_len keys -> length ss = length keys ->
    forall rest i value,
      (i + length rest = length keys)%nat ->
      chained (map Some ss) keys root rest i value = Panic -> In None rest.
  Proof.
    intros Hgl Hlen. induction rest as [|op rest IH]; intros i value Hi H; cbn [Merkle.chained] in H; cbn [length] in Hi.
    - destruct (bytes_eqb root value); discriminate.
    - destruct op as [p|]; [|now left]. right.
      destruct (calculate p) as [subroot|]; [|discriminate].
      destruct (key_at_in_range keys (Z.of_nat (length keys) - 1 - Z.of_nat i) Hgl ltac:(lia)) as (k & Hk & Hka).
      rewrite Hka in H.
      destruct (is_exist p); [|discriminate]. cbn [negb] in H.
      destruct (nth_error (map Some ss) i) as [[s|]|] eqn:Es.
      + destruct (ep_verify s p subroot k value); [|discriminate]. apply (IH (S i) subroot); [lia|exact H].
      + rewrite nth_error_map in Es. destruct (nth_error ss i); discriminate.
      + apply nth_error_None in Es. rewrite map_length in Es. lia.
  Qed.

  (** * VerifyMembership *)
  Theorem membership_sound specs root path value proofs :
    (forall keys, path = Some keys -> go_len keys) ->
    verify_membership specs root path value proofs = Ok ->
    exists keys h ps ss,
      path = Some keys /\ root = RHash h /\ h <> [] /\ proofs = Some ps /\ specs = map Some ss /\
      value <> [] /\ length ss = length ps /\ length keys = length ps /\
      Chain h (combine ss (rev keys)) value.
  Proof.
    intros Hgl H. unfold Merkle.verify_membership in H.
    destruct path as [keys|]; [|discriminate].
    destruct (validate_args proofs keys specs root) eqn:Ev; try discriminate.
    apply validate_args_ok_iff in Ev. destruct Ev as (ps & h & ss & -> & -> & Hh & E1 & E2 & ->).
    destruct (is_empty value) eqn:Evalue; [discriminate|]. apply is_empty_false in Evalue.
    rewrite map_length in E1, E2.
    exists keys, h, ps, ss. repeat split; auto; try lia.
    unfold Merkle.verify_chained in H. simpl in H.
    apply (chained_ok ss keys h (Hgl keys eq_refl) ltac:(lia) ps 0 value ltac:(simpl; lia)) in H.
    exact H.
  Qed.

  (** the degenerate chain: no levels at all — accepted iff value = root (all three lists empty) *)
  Lemma membership_no_levels h value :
    verify_membership [] (RHash h) (Some []) value (Some []) = Ok <-> h <> [] /\ value = h.
  Proof.
    unfold Merkle.verify_membership, Merkle.validate_args, Merkle.verify_chained. simpl.
    destruct h as [|c h]; simpl.
    - split; [discriminate|intros [H _]; congruence].
    - destruct value as [|d value]; simpl.
      + split; [discriminate|intros [_ H]; discriminate].
      + destruct (Ascii.eqb c d && bytes_eqb h value) eqn:E.
        * split; auto. intros _. split; [discriminate|].
          change (bytes_eqb (c :: h) (d :: value) = true) in E. apply bytes_eqb_eq in E. congruence.
        * split; [discriminate|]. intros [_ Heq]. inversion Heq; subst.
          change (bytes_eqb (c :: h) (c :: h) = false) in E. rewrite bytes_eqb_refl in E. discriminate.
  Qed.

  Theorem membership_panic specs root path value proofs :
    (forall keys, path = Some keys -> go_len keys) ->
    verify_membership specs root path value proofs = Panic ->
    exists ps, proofs = Some ps /\ (root = RNilPtr \/ In None ps).
  Proof.
    intros Hgl H. unfold Merkle.verify_membership in H.
    destruct path as [keys|]; [|discriminate].
    destruct (validate_args proofs keys specs root) eqn:Ev; try discriminate.
    - apply validate_args_ok_iff in Ev. destruct Ev as (ps & h & ss & -> & -> & Hh & E1 & E2 & ->).
      destruct (is_empty value); [discriminate|]. rewrite map_length in E1, E2.
      exists ps. split; [reflexivity|right].
      unfold Merkle.verify_chained in H. simpl in H.
      exact (chained_panic ss keys h (Hgl keys eq_refl) ltac:(lia) ps 0 value ltac:(simpl; lia) H).
    - apply validate_panic_iff in Ev. destruct Ev as [[ps ->] ->]. exists ps. auto.
  Qed.

  Corollary membership_no_panic specs root path value proofs :
    (forall keys, path = Some keys -> go_len keys) ->
    root <> RNilPtr -> (forall ps, proofs = Some ps -> ~ In None ps) ->
    verify_membership specs root path value proofs <> Panic.
  Proof.
    intros Hgl Hr Hp H. destruct (membership_panic _ _ _ _ _ Hgl H) as (ps & Hps & [Hroot|Hin]).
    - contradiction.
    - exact (Hp ps Hps Hin).
  Qed.

  (** * VerifyNonMembership *)
  Theorem non_membership_sound specs root path proofs :
    (forall keys, path = Some keys -> go_len keys) ->
    verify_non_membership specs root path proofs = Ok ->
    exists keys h ps ss s0 ss' klast kinit sub,
      path = Some keys /\ root = RHash h /\ h <> [] /\ proofs = Some ps /\ specs = map Some ss /\
      length ss = length ps /\ length keys = length ps /\
      ss = s0 :: ss' /\ keys = kinit ++ [klast] /\
      absent s0 sub klast /\ Chain h (combine ss' (rev kinit)) sub.
  Proof.
    intros Hgl H. unfold Merkle.verify_non_membership in H.
    destruct path as [keys|]; [|discriminate].
    destruct (validate_args proofs keys specs root) eqn:Ev; try discriminate.
    apply validate_args_ok_iff in Ev. destruct Ev as (ps & h & ss & -> & -> & Hh & E1 & E2 & ->).
    rewrite map_length in E1, E2.
    destruct ps as [|[p0|] ps']; try discriminate.
    destruct (calculate p0) as [sub|]; [|discriminate].
    assert (Hk1 : (0 < length keys)%nat) by (simpl in E1; lia).
    destruct (key_at_in_range keys (Z.of_nat (length keys) - 1) (Hgl keys eq_refl) ltac:(lia)) as (k & Hk & Hka).
    rewrite Hka in H.
    destruct (is_nonexist p0); [|discriminate]. cbn [negb] in H.
    destruct ss as [|s0 ss']; [simpl in E1; lia|]. cbn [map nth_error] in H.
    destruct (np_verify s0 p0 sub k) eqn:Enp; [|discriminate].
    destruct (exists_last (l := keys) ltac:(intros ->; simpl in Hk1; lia)) as (kinit & klast & Hkeys).
    assert (klast = k).
    { subst keys. rewrite app_length in Hk. simpl in Hk.
      replace (Z.to_nat (Z.of_nat (length kinit + 1) - 1)) with (length kinit) in Hk by lia.
      rewrite nth_error_app2 in Hk by lia. rewrite Nat.sub_diag in Hk. simpl in Hk. congruence. }
    subst klast.
    exists keys, h, (Some p0 :: ps'), (s0 :: ss'), s0, ss', k, kinit, sub.
    repeat split; auto; try lia.
    - exact (proj2 ics23_sound _ _ _ _ Enp).
    - unfold Merkle.verify_chained in H. cbn [skipn] in H.
      pose proof (chained_ok (s0 :: ss') keys h (Hgl keys eq_refl) ltac:(cbn [length] in E1, E2 |- *; lia) ps' 1 sub
                             ltac:(cbn [length] in E1, E2 |- *; lia) H) as HC.
      cbn [skipn] in HC. subst keys. rewrite rev_app_distr in HC. simpl in HC. exact HC.
  Qed.

  Theorem non_membership_panic specs root path proofs :
    (forall keys, path = Some keys -> go_len keys) ->
    verify_non_membership specs root path proofs = Panic ->
    exists ps, proofs = Some ps /\
      (root = RNilPtr \/ In None ps \/
       (ps = [] /\ specs = [] /\ path = Some [] /\ exists h, root = RHash h /\ h <> [])).
  Proof using Type.
    clear ics23_sound. intros Hgl H. unfold Merkle.verify_non_membership in H.
    destruct path as [keys|]; [|discriminate].
    destruct (validate_args proofs keys specs root) eqn:Ev; try discriminate.
    - apply validate_args_ok_iff in Ev. destruct Ev as (ps & h & ss & -> & -> & Hh & E1 & E2 & ->).
      rewrite map_length in E1, E2. exists ps. split; [reflexivity|].
      destruct ps as [|[p0|] ps'].
      + right; right. destruct ss; [|simpl in E1; lia]. destruct keys; [|simpl in E2; lia].
        repeat split; auto. now exists h.
      + right; left.
        destruct (calculate p0) as [sub|]; [|discriminate].
        assert (Hk1 : (0 < length keys)%nat) by (simpl in E1; lia).
        destruct (key_at_in_range keys (Z.of_nat (length keys) - 1) (Hgl keys eq_refl) ltac:(lia)) as (k & Hk & Hka).
        rewrite Hka in H.
        destruct (is_nonexist p0); [|discriminate]. cbn [negb] in H.
        destruct ss as [|s0 ss']; [simpl in E1; lia|]. cbn [map nth_error] in H.
        destruct (np_verify s0 p0 sub k); [|discriminate].
        unfold Merkle.verify_chained in H. cbn [skipn] in H. right.
        exact (chained_panic (s0 :: ss') keys h (Hgl keys eq_refl) ltac:(cbn [length] in E1, E2 |- *; lia) ps' 1 sub
                             ltac:(cbn [length] in E1, E2 |- *; lia) H).
      + right; left. now left.
    - apply validate_panic_iff in Ev. destruct Ev as [[ps ->] ->]. exists ps. auto.
  Qed.

  (** exactly when, for well-formed pointers: the empty non-nil proof list with no specs and no keys *)
  Theorem non_membership_panic_iff specs root path proofs :
    (forall keys, path = Some keys -> go_len keys) ->
    root <> RNilPtr -> (forall ps, proofs = Some ps -> ~ In None ps) ->
    (verify_non_membership specs root path proofs = Panic <->
     proofs = Some [] /\ specs = [] /\ path = Some [] /\ exists h, root = RHash h /\ h <> []).
  Proof using Type.
    intros Hgl Hr Hp. split.
    - intros H. destruct (non_membership_panic _ _ _ _ Hgl H) as (ps & -> & [Hroot|[Hin|(-> & -> & -> & Hh)]]).
      + contradiction.
      + exfalso. exact (Hp ps eq_refl Hin).
      + auto.
    - intros (-> & -> & -> & h & -> & Hh). apply is_empty_false in Hh.
      unfold Merkle.verify_non_membership, Merkle.validate_args. rewrite Hh. reflexivity.
  Qed.

  Corollary non_membership_no_panic_guarded specs root path proofs :
    (forall keys, path = Some keys -> go_len keys) ->
    root <> RNilPtr -> (forall ps, proofs = Some ps -> ~ In None ps) ->
    specs <> [] ->
    verify_non_membership specs root path proofs <> Panic.
  Proof using Type.
    intros Hgl Hr Hp Hs H. apply (non_membership_panic_iff _ _ _ _ Hgl Hr Hp) in H.
    destruct H as (_ & Hspecs & _). contradiction.
  Qed.

  (** * 07-tendermint argument handling: the panic shapes are unreachable from the client *)
  Lemma decoded_no_nil l ps : decoded_proofs proof l = Some ps -> ~ In None ps /\ ps <> [].
  Proof.
    destruct l as [|p l]; simpl; [discriminate|]. intros H. inversion H; subst. split; [|discriminate].
    intros [Hc|Hin]; [discriminate|]. apply in_map_iff in Hin. destruct Hin as (x & Hx & _). discriminate.
  Qed.

  Lemma decoded_length l ps : decoded_proofs proof l = Some ps -> length ps = length l.
  Proof.
    destruct l as [|p l]; [discriminate|]. unfold decoded_proofs. intros H. inversion H.
    change (length (map Some (p :: l)) = length (p :: l)). apply map_length.
  Qed.

  Theorem tm_verify_membership_no_panic hok dok decoded path cons_root specs value :
    (forall keys, path = Some keys -> go_len keys) ->
    tm_verify_membership hok dok decoded path cons_root specs value <> Panic.
  Proof.
    intros Hgl. unfold Merkle.tm_verify_membership.
    destruct (negb hok); [discriminate|]. destruct (negb dok); [discriminate|].
    destruct decoded as [l|]; [|discriminate]. destruct path as [keys|]; [|discriminate].
    destruct cons_root as [h|]; [|discriminate].
    apply membership_no_panic.
    - intros keys' E. inversion E; subst. now apply Hgl.
    - discriminate.
    - intros ps E. exact (proj1 (decoded_no_nil _ _ E)).
  Qed.

  Theorem tm_verify_non_membership_no_panic hok dok decoded path cons_root specs :
    (forall keys, path = Some keys -> go_len keys) ->
    tm_verify_non_membership hok dok decoded path cons_root specs <> Panic.
  Proof using Type.
    intros Hgl. unfold Merkle.tm_verify_non_membership.
    destruct (negb hok); [discriminate|]. destruct (negb dok); [discriminate|].
    destruct decoded as [l|]; [|discriminate]. destruct path as [keys|]; [|discriminate].
    destruct cons_root as [h|]; [|discriminate].
    intros H.
    apply non_membership_panic_iff in H.
    - destruct H as (E & _). destruct (decoded_no_nil _ _ E) as [_ Hne]. now apply Hne.
    - intros keys' E. inversion E; subst. now apply Hgl.
    - discriminate.
    - intros ps E. exact (proj1 (decoded_no_nil _ _ E)).
  Qed.

  Theorem tm_verify_membership_sound hok dok decoded path cons_root specs value :
    (forall keys, path = Some keys -> go_len keys) ->
    tm_verify_membership hok dok decoded path cons_root specs value = Ok ->
    hok = true /\ dok = true /\
    exists keys h l ss, path = Some keys /\ cons_root = Some h /\ decoded = Some l /\ specs = map Some ss /\
      value <> [] /\ length ss = length l /\ length keys = length l /\
      Chain h (combine ss (rev keys)) value.
  Proof.
    intros Hgl. unfold Merkle.tm_verify_membership.
    destruct hok; [|discriminate]. destruct dok; [|discriminate]. cbn [negb].
    destruct decoded as [l|]; [|discriminate]. destruct path as [keys|]; [|discriminate].
    destruct cons_root as [h|]; [|discriminate]. intros H.
    apply membership_sound in H; [|intros keys' E; inversion E; subst; now apply Hgl].
    destruct H as (keys' & h' & ps & ss & E1 & E2 & Hh & E3 & -> & Hv & L1 & L2 & HC).
    inversion E1; inversion E2; subst keys' h'.
    repeat split. exists keys, h, l, ss. repeat split; auto.
    - rewrite L1. now apply decoded_length.
    - rewrite L2. now apply decoded_length.
  Qed.

  (** * "exactly the committed value": with a functional commitment relation two accepted membership
        verifications under the same specs, root and path prove the same value. *)
  Lemma Chain_functional :
    (forall s r k v v', committed s r k v -> committed s r k v' -> v = v') ->
    forall root levels v v', Chain root levels v -> Chain root levels v' -> v = v'.
  Proof.
    intros Hf root levels. induction levels as [|[s k] levels IH]; intros v v' H1 H2.
    - inversion H1; inversion H2; congruence.
    - inversion H1 as [|s1 k1 l1 v1 sub1 Hc1 Hr1]; inversion H2 as [|s2 k2 l2 v2 sub2 Hc2 Hr2]; subst.
      assert (sub1 = sub2) by (eapply IH; eauto). subst sub2. eapply Hf; eauto.
  Qed.

  Theorem membership_value_unique specs root path value value' proofs proofs' :
    (forall s r k v v', committed s r k v -> committed s r k v' -> v = v') ->
    (forall keys, path = Some keys -> go_len keys) ->
    verify_membership specs root path value proofs = Ok ->
    verify_membership specs root path value' proofs' = Ok ->
    value = value'.
  Proof.
    intros Hf Hgl H1 H2.
    apply (membership_sound _ _ _ _ _ Hgl) in H1. apply (membership_sound _ _ _ _ _ Hgl) in H2.
    destruct H1 as (keys & h & ps & ss & Ep & Er & _ & _ & Es & _ & _ & _ & HC1).
    destruct H2 as (keys' & h' & ps' & ss' & Ep' & Er' & _ & _ & Es' & _ & _ & _ & HC2).
    assert (keys' = keys) by congruence. assert (h' = h) by congruence. subst keys' h'.
    assert (ss' = ss).
    { subst specs. clear -Es'. revert ss' Es'. induction ss as [|a ss IH]; intros [|b ss'] E; simpl in E; try discriminate; auto.
      inversion E. f_equal. now apply IH. }
    subst ss'. exact (Chain_functional Hf _ _ _ _ HC1 HC2).
  Qed.

  (** a membership proof and a non-membership proof for the same root and path cannot both be accepted
      when the two relations exclude each other *)
  Theorem membership_excludes_non_membership specs root path value proofs proofs' :
    (forall s r k v v', committed s r k v -> committed s r k v' -> v = v') ->
    (forall s r k v, committed s r k v -> absent s r k -> False) ->
    (forall keys, path = Some keys -> go_len keys) ->
    verify_membership specs root path value proofs = Ok ->
    verify_non_membership specs root path proofs' = Ok -> False.
  Proof.
    intros Hf Hex Hgl H1 H2.
    apply (membership_sound _ _ _ _ _ Hgl) in H1. apply (non_membership_sound _ _ _ _ Hgl) in H2.
    destruct H1 as (keys & h & ps & ss & Ep & Er & _ & _ & Es & _ & L1 & L2 & HC1).
    destruct H2 as (keys' & h' & ps' & ss2 & s0 & ss' & klast & kinit & sub & Ep' & Er' & _ & _ & Es' & _ & _ & Ess & Ekeys & Habs & HC2).
    assert (keys' = keys) by congruence. assert (h' = h) by congruence. subst keys' h'.
    assert (ss2 = ss).
    { subst specs. clear -Es'. revert ss2 Es'. induction ss as [|a ss IH]; intros [|b ss2] E; simpl in E; try discriminate; auto.
      inversion E. f_equal. now apply IH. }
    subst ss2. subst ss keys. rewrite rev_app_distr in HC1. simpl in HC1.
    inversion HC1 as [|s1 k1 l1 v1 sub1 Hc1 Hr1]; subst.
    assert (sub1 = sub) by (eapply Chain_functional; eauto). subst sub1.
    exact (Hex _ _ _ _ Hc1 Habs).
  Qed.
End MerkleFacts.

(** * ApplyPrefix *)
Lemma apply_prefix_spec prefix path :
  match prefix with
  | PNil => apply_prefix prefix path = AErr
  | PNilPtr => apply_prefix prefix path = APanic
  | PBytes b => (b = [] /\ apply_prefix prefix path = AErr) \/ (b <> [] /\ apply_prefix prefix path = AOk (b :: path))
  end.
Proof.
  destruct prefix as [| |b]; simpl; auto. destruct b; simpl; [left|right]; split; auto; discriminate.
Qed.

Lemma apply_prefix_ok_iff prefix path keys :
  apply_prefix prefix path = AOk keys <-> exists b, prefix = PBytes b /\ b <> [] /\ keys = b :: path.
Proof.
  split.
  - destruct prefix as [| |b]; simpl; try discriminate. destruct b as [|c b]; simpl; [discriminate|].
    intros H. inversion H. exists (c :: b). repeat split; auto. discriminate.
  - intros (b & -> & Hb & ->). simpl. destruct b; [contradiction|reflexivity].
Qed.

(** * concrete witnesses (trivial verifier instance) *)
Definition triv_calc (p : bytes) : option bytes := Some p.
Definition triv_true5 (_ : unit) (_ _ _ _ : bytes) := true.
Definition triv_true4 (_ : unit) (_ _ _ : bytes) := true.
Definition triv_t (_ : bytes) := true.

(** VerifyNonMembership with an empty non-nil proof list, no specs, an empty MerklePath and a non-empty
    root passes validateVerificationArgs and then evaluates [p.Proofs[0]]: index out of range. *)
Lemma non_membership_panic_witness :
  verify_non_membership unit bytes triv_calc triv_t triv_t triv_true5 triv_true4 [] (RHash (B "r")) (Some []) (Some []) = Panic.
Proof. reflexivity. Qed.

(** * non-vacuity: a concrete two-level verifier whose soundness hypothesis holds, and an accepted proof *)
Definition toy_proof := (bytes * bytes * bytes)%type.   (* key, value, root it calculates *)
Definition toy_calc (p : toy_proof) : option bytes := Some (snd p).
Definition toy_ep (_ : unit) (p : toy_proof) (r k v : bytes) : bool :=
  bytes_eqb r (snd p) && bytes_eqb k (fst (fst p)) && bytes_eqb v (snd (fst p)).
Definition toy_np (_ : unit) (_ : toy_proof) (_ _ : bytes) : bool := false.
Definition toy_committed (s : unit) (r k v : bytes) : Prop := exists p, toy_ep s p r k v = true.
Definition toy_absent (_ : unit) (_ _ : bytes) : Prop := False.

Definition nv_membership_accepts : Prop :=
  ((forall s p r k v, toy_ep s p r k v = true -> toy_committed s r k v) /\
   (forall s p r k, toy_np s p r k = true -> toy_absent s r k)) /\
  go_len [B "store"; B "key"] /\
  verify_membership unit toy_proof toy_calc (fun _ => true) toy_ep
    [Some tt; Some tt] (RHash (B "R")) (Some [B "store"; B "key"]) (B "val")
    (Some [Some (B "key", B "val", B "S"); Some (B "store", B "S", B "R")]) = Ok.

Lemma nv_membership_accepts_holds : nv_membership_accepts.
Proof.
  split; [split|split].
  - intros s p r k v H. now exists p.
  - discriminate.
  - unfold go_len. simpl. lia.
  - reflexivity.
Qed.
