(** C18 — model of the ibc-go Merkle proof layer (definitions only; proofs in MerkleFacts.v).

    Go code modelled, branch by branch in the order the code checks:
      /repo/modules/core/23-commitment/types/merkle.go
          ApplyPrefix, MerkleProof.VerifyMembership, MerkleProof.VerifyNonMembership,
          verifyChainedMembershipProof, validateVerificationArgs
      /repo/modules/core/23-commitment/types/v2/merkle.go   MerklePath.GetKey
      /repo/modules/light-clients/07-tendermint/client_state.go
          ClientState.verifyMembership / verifyNonMembership (argument handling only)

    The per-level ics23 verifier (github.com/cosmos/ics23/go, a dependency, not /repo code) is abstract:
    Section variables [calculate], [is_exist], [is_nonexist], [ep_verify], [np_verify].

    Go shapes kept apart because the code distinguishes them:
      - [proofs : option (list (option proof))]: [None] is a nil slice ([proof.GetProofs() == nil]),
        [Some []] an empty non-nil slice; an entry [None] is a nil [*ics23.CommitmentProof]
        (CommitmentProof.Calculate dereferences its receiver: nil-pointer panic;
         GetExist/GetNonexist are nil-safe generated getters but are only reached after Calculate).
      - [root : Root]: [RNil] nil interface, [RNilPtr] a nil [*MerkleRoot] inside the interface
        ([root == nil] is false and the value-receiver method Empty() panics), [RHash h] a MerkleRoot.
      - [path : option (list bytes)]: [None] = the exported.Path is not a v2.MerklePath.
      - [specs : list (option spec)]: [None] entry = nil [*ics23.ProofSpec].                       *)
From IBC Require Import Lib.Bytes.

Inductive Outcome := Ok | Err | Panic.

Definition outcome_eqb (a b : Outcome) : bool :=
  match a, b with Ok, Ok | Err, Err | Panic, Panic => true | _, _ => false end.

Inductive Root := RNil | RNilPtr | RHash (h : bytes).
Inductive Prefix := PNil | PNilPtr | PBytes (b : bytes).

Definition is_empty (b : bytes) : bool := match b with [] => true | _ => false end.
Definition is_none {A} (o : option A) : bool := match o with None => true | Some _ => false end.

Definition two64Z : Z := 18446744073709551616%Z.

(** v2.MerklePath.GetKey(i uint64): [i >= uint64(len(KeyPath))] -> error, else KeyPath[i].
    The callers pass [uint64(<int expression>)]; the int expression is the [Z] argument and the
    conversion to uint64 (two's complement wrap of negative ints) is explicit. *)
Definition get_key (path : list bytes) (idx : Z) : option bytes :=
  let u := (idx mod two64Z)%Z in
  if (Z.of_nat (length path) <=? u)%Z then None else nth_error path (Z.to_nat u).

(** Go slice indexing [KeyPath[idx]] with an int index: out of range (including negative) panics. *)
Definition index_int (path : list bytes) (idx : Z) : option bytes :=
  if (idx <? 0)%Z then None else nth_error path (Z.to_nat idx).

Inductive KeyRes := KOk (k : bytes) | KErr | KPanic.

(** [key, err := keys.GetKey(uint64(idx)); if err != nil { return Wrapf(..., keys.KeyPath[idx], err) }]
    — the error branch evaluates [keys.KeyPath[idx]] for the message, which panics when out of range. *)
Definition key_at (path : list bytes) (idx : Z) : KeyRes :=
  match get_key path idx with
  | Some k => KOk k
  | None => match index_int path idx with Some _ => KErr | None => KPanic end
  end.

Section Merkle.
  Variable spec : Type.
  Variable proof : Type.
  (** CommitmentProof.Calculate(): [None] = error *)
  Variable calculate : proof -> option bytes.
  (** GetExist() != nil, GetNonexist() != nil *)
  Variable is_exist : proof -> bool.
  Variable is_nonexist : proof -> bool.
  (** ExistenceProof.Verify(spec, root, key, value) == nil *)
  Variable ep_verify : spec -> proof -> bytes -> bytes -> bytes -> bool.
  (** NonExistenceProof.Verify(spec, root, key) == nil *)
  Variable np_verify : spec -> proof -> bytes -> bytes -> bool.

  (** merkle.go:validateVerificationArgs — [Ok] = returns nil *)
  Definition validate_args (proofs : option (list (option proof))) (path : list bytes)
             (specs : list (option spec)) (root : Root) : Outcome :=
    match proofs with
    | None => Err                                   (* proof.GetProofs() == nil *)
    | Some ps =>
        match root with
        | RNil => Err                               (* root == nil *)
        | RNilPtr => Panic                          (* Empty() on a nil pointer-to-MerkleRoot: value method on nil pointer *)
        | RHash h =>
            if is_empty h then Err                  (* root.Empty() *)
            else if negb (length specs =? length ps)%nat then Err
            else if negb (length path =? length specs)%nat then Err
            else if existsb is_none specs then Err  (* spec == nil *)
            else Ok
        end
    end.

  (** merkle.go:verifyChainedMembershipProof, the loop body from index [i] on; [rest] = proofs[i:].
      On entry of each iteration and at loop exit [subroot == value] (initialised so, and the body
      ends with [value = subroot]), hence one variable.  [specs[i]]: out of range panics; a nil spec is
      rejected by ics23 itself (v0.11.0 LeafOp.CheckAgainstSpec: "op and spec must be non-nil") — both are
      excluded by validateVerificationArgs, see MerkleFacts.chained_panic. *)
  Fixpoint chained (specs : list (option spec)) (path : list bytes) (root : bytes)
           (rest : list (option proof)) (i : nat) (value : bytes) : Outcome :=
    match rest with
    | [] => if bytes_eqb root value then Ok else Err          (* bytes.Equal(root, subroot) *)
    | op :: rest' =>
        match op with
        | None => Panic                                        (* proofs[i].Calculate() on nil *)
        | Some p =>
            match calculate p with
            | None => Err
            | Some subroot =>
                match key_at path (Z.of_nat (length path) - 1 - Z.of_nat i) with
                | KPanic => Panic
                | KErr => Err
                | KOk key =>
                    if negb (is_exist p) then Err             (* proofs[i].GetExist() == nil *)
                    else match nth_error specs i with
                         | None => Panic                       (* specs[i] out of range *)
                         | Some None => Err                    (* nil spec: ics23 returns an error *)
                         | Some (Some s) =>
                             if ep_verify s p subroot key value
                             then chained specs path root rest' (S i) subroot
                             else Err
                         end
                end
            end
        end
    end.

  Definition verify_chained (root : bytes) (specs : list (option spec)) (proofs : list (option proof))
             (path : list bytes) (value : bytes) (index : nat) : Outcome :=
    chained specs path root (skipn index proofs) index value.

  Definition root_hash (r : Root) : bytes := match r with RHash h => h | _ => [] end.

  (** merkle.go:MerkleProof.VerifyMembership *)
  Definition verify_membership (specs : list (option spec)) (root : Root) (path : option (list bytes))
             (value : bytes) (proofs : option (list (option proof))) : Outcome :=
    match path with
    | None => Err                                              (* path.(v2.MerklePath) fails *)
    | Some keys =>
        match validate_args proofs keys specs root with
        | Ok =>
            if is_empty value then Err
            else match proofs with
                 | Some ps => verify_chained (root_hash root) specs ps keys value 0
                 | None => Err                                 (* excluded by validate_args *)
                 end
        | o => o
        end
    end.

  (** merkle.go:MerkleProof.VerifyNonMembership *)
  Definition verify_non_membership (specs : list (option spec)) (root : Root) (path : option (list bytes))
             (proofs : option (list (option proof))) : Outcome :=
    match path with
    | None => Err
    | Some keys =>
        match validate_args proofs keys specs root with
        | Ok =>
            match proofs with
            | None => Err                                      (* excluded by validate_args *)
            | Some [] => Panic                                 (* p.Proofs[0]: index out of range *)
            | Some (None :: _) => Panic                        (* p.Proofs[0].Calculate() on nil *)
            | Some ((Some p0 :: _) as ps) =>
                match calculate p0 with
                | None => Err
                | Some subroot =>
                    match key_at keys (Z.of_nat (length keys) - 1) with
                    | KPanic => Panic
                    | KErr => Err
                    | KOk key =>
                        if negb (is_nonexist p0) then Err      (* GetNonexist() == nil *)
                        else match nth_error specs 0 with
                             | None => Panic                   (* specs[0] out of range *)
                             | Some None => Err                (* nil spec: ics23 returns an error *)
                             | Some (Some s0) =>
                                 if np_verify s0 p0 subroot key
                                 then verify_chained (root_hash root) specs ps keys subroot 1
                                 else Err
                             end
                    end
                end
            end
        | o => o
        end
    end.

  (** 07-tendermint/client_state.go:verifyMembership / verifyNonMembership, argument handling.
      [height_ok]: not (cs.LatestHeight < height); [delay_ok]: verifyDelayPeriodPassed == nil (C19);
      [decoded]: cdc.Unmarshal(proof, &merkleProof) — [None] = error, [Some l] the decoded entries
      (gogoproto yields a nil Proofs slice for zero entries and never a nil entry);
      [path]: type assertion; [cons_root]: GetConsensusState(height) — found => a MerkleRoot value. *)
  Definition decoded_proofs (l : list proof) : option (list (option proof)) :=
    match l with [] => None | _ => Some (map Some l) end.

  Definition tm_verify_membership (height_ok delay_ok : bool) (decoded : option (list proof))
             (path : option (list bytes)) (cons_root : option bytes)
             (specs : list (option spec)) (value : bytes) : Outcome :=
    if negb height_ok then Err
    else if negb delay_ok then Err
    else match decoded with
         | None => Err
         | Some l =>
             match path with
             | None => Err
             | Some keys =>
                 match cons_root with
                 | None => Err
                 | Some h => verify_membership specs (RHash h) (Some keys) value (decoded_proofs l)
                 end
             end
         end.

  Definition tm_verify_non_membership (height_ok delay_ok : bool) (decoded : option (list proof))
             (path : option (list bytes)) (cons_root : option bytes)
             (specs : list (option spec)) : Outcome :=
    if negb height_ok then Err
    else if negb delay_ok then Err
    else match decoded with
         | None => Err
         | Some l =>
             match path with
             | None => Err
             | Some keys =>
                 match cons_root with
                 | None => Err
                 | Some h => verify_non_membership specs (RHash h) (Some keys) (decoded_proofs l)
                 end
             end
         end.
End Merkle.

(** merkle.go:ApplyPrefix — [prefix == nil || prefix.Empty()] -> error; otherwise
    [append([][]byte{prefix.Bytes()}, path.KeyPath...)] (a fresh outer slice). *)
Inductive ApplyRes := AOk (keys : list bytes) | AErr | APanic.

Definition apply_prefix (prefix : Prefix) (path : list bytes) : ApplyRes :=
  match prefix with
  | PNil => AErr
  | PNilPtr => APanic                       (* Empty() on a nil pointer-to-MerklePrefix: value method on nil pointer *)
  | PBytes b => if is_empty b then AErr else AOk (b :: path)
  end.
