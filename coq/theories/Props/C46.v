(** C46 — Privileged and client-scoped operations require the right signer.
    Statements only; proofs live in Sys/AuthFacts.v.  Every theorem is quantified over the bech32 decoder
    [acc] (sdk.AccAddressFromBech32, unmodelled) with the single hypothesis that it never yields the empty
    address, and over all contexts (signer text, authority configuration, stored creator, registered
    counterparty, relayer list, allowed-client list, routed client type, and the outcome [body] of everything
    the handler does after its gate). *)
From IBC Require Import Lib.Bytes Lib.CorrLib Sys.Auth Sys.AuthFacts.

Section C46.
  Variable acc : bytes -> option bytes.
  Hypothesis acc_nonempty : forall s a, acc s = Some a -> a <> [].

  (** Client recovery, IBC software upgrade scheduling, client/connection/transfer/ICA parameter updates, the
      four rate-limit admin messages and wasm store/remove/migrate succeed only when the signer text equals
      the effective authority (consensus-params authority when set, else the keeper's). *)
  Theorem C46_authority_only op c :
    authority_op op = true -> handler acc op c = Ok -> signer c = expected_authority (env c).
  Proof. exact (authority_only acc op c). Qed.

  (** Counterparty registration: only the stored creator, and only while nothing is registered. *)
  Theorem C46_register_creator_only c :
    handler acc RegisterCounterparty c = Ok ->
    (creator c <> [] /\ acc (signer c) = Some (creator c)) /\ cp_set c = false.
  Proof. exact (register_ok acc acc_nonempty c). Qed.

  (** ... and at most once per client over any history of client-scoped operations. *)
  Theorem C46_register_once e s id sg s' :
    hstep acc e s (HRegister id sg) = (Ok, s') ->
    forall ops sg', fst (hstep acc e (snd (hrun acc e s' ops)) (HRegister id sg')) <> Ok.
  Proof. exact (register_once acc acc_nonempty e s id sg s'). Qed.

  (** Config update: authority or creator; with no creator, authority only. *)
  Theorem C46_config_authority_or_creator c :
    handler acc UpdateClientConfig c = Ok ->
    (signer c = expected_authority (env c) \/ (creator c <> [] /\ acc (signer c) = Some (creator c))) /\
    (creator c = [] -> signer c = expected_authority (env c)).
  Proof.
    exact (fun H => conj (config_ok acc acc_nonempty c H) (fun HC => config_no_creator acc acc_nonempty c HC H)).
  Qed.

  (** Creator deletion: a creator exists and the signer is the authority or that creator. *)
  Theorem C46_delete_authority_or_creator c :
    handler acc DeleteClientCreator c = Ok ->
    creator c <> [] /\
    (signer c = expected_authority (env c) \/ (creator c <> [] /\ acc (signer c) = Some (creator c))).
  Proof. exact (delete_ok acc acc_nonempty c). Qed.

  (** Non-empty relayer list: v2 recv/ack/timeout and client update succeed only for a listed relayer. *)
  Theorem C46_relayer_allow_list op c :
    relayer_op op = true -> relayers c <> [] -> handler acc op c = Ok ->
    exists r a, In r (relayers c) /\ acc r = Some a /\ acc (signer c) = Some a.
  Proof. exact (relayer_listed acc op c). Qed.

  (** A client whose type is not on the allowed list (and the list is not the wildcard) cannot be created,
      updated, recovered, used to verify v1/v2 packets, and reports no usable status. *)
  Theorem C46_allowed_clients op c :
    routed_op op = true -> handler acc op c = Ok ->
    exists t, ctype c = Some t /\ (allowed c = [allow_all] \/ In t (allowed c)).
  Proof. exact (routed_needs_allowed acc op c). Qed.

  (** Over histories: every accepted client-scoped step was signed by the class the property names. *)
  Theorem C46_history_gates e s op o s' :
    hstep acc e s op = (o, s') -> o = Ok ->
    match op with
    | HCreate sg ct _ => st_allowed s = [allow_all] \/ In ct (st_allowed s)
    | HRegister id sg => c_creator (get s id) <> [] /\ acc sg = Some (c_creator (get s id)) /\ c_cp (get s id) = false
    | HConfig id sg _ | HDeleteCreator id sg =>
        sg = expected_authority e \/ (c_creator (get s id) <> [] /\ acc sg = Some (c_creator (get s id)))
    | HUpdate id sg ct _ =>
        (c_relayers (get s id) <> [] -> exists r a, In r (c_relayers (get s id)) /\ acc r = Some a /\ acc sg = Some a) /\
        (st_allowed s = [allow_all] \/ In ct (st_allowed s))
    | HParams sg _ => sg = expected_authority e
    end.
  Proof. exact (hstep_gates acc acc_nonempty e s op o s'). Qed.

  (** The creator of an existing client is the decoded signer of its CreateClient and changes only by deletion. *)
  Theorem C46_creator_stable e s op id :
    id < next s ->
    c_creator (get (snd (hstep acc e s op)) id) = c_creator (get s id) \/
    c_creator (get (snd (hstep acc e s op)) id) = [].
  Proof. exact (hstep_creator_stable acc e s op id). Qed.
End C46.

Print Assumptions C46_authority_only.
Print Assumptions C46_register_creator_only.
Print Assumptions C46_register_once.
Print Assumptions C46_config_authority_or_creator.
Print Assumptions C46_delete_authority_or_creator.
Print Assumptions C46_relayer_allow_list.
Print Assumptions C46_allowed_clients.
Print Assumptions C46_history_gates.
Print Assumptions C46_creator_stable.

(** non-vacuity: a concrete decoder without empty addresses; the authority, the creator and a listed relayer
    are accepted where the theorems allow it, a stranger is refused, and a second registration is refused. *)
Example C46_nonvacuous :
  let t := [(B "auth", B "A"); (B "alice", B "a"); (B "bob", B "b"); (B "eve", B "e")] in
  let acc := table_acc t in
  let e := mkEnv (B "auth") [] in
  let cx sg cr cp rs al := mkCtx e sg cr cp rs al (Some (B "07-tendermint")) true true true in
  (forall s a, acc s = Some a -> a <> []) /\
  handler acc ClientParams (cx (B "auth") [] false [] [allow_all]) = Ok /\
  handler acc ClientParams (cx (B "eve") [] false [] [allow_all]) = Err /\
  handler acc RegisterCounterparty (cx (B "alice") (B "a") false [] [allow_all]) = Ok /\
  handler acc RegisterCounterparty (cx (B "alice") (B "a") true [] [allow_all]) = Err /\
  handler acc RegisterCounterparty (cx (B "auth") (B "a") false [] [allow_all]) = Err /\
  handler acc UpdateClientConfig (cx (B "alice") (B "a") false [] [allow_all]) = Ok /\
  handler acc UpdateClientConfig (cx (B "alice") [] false [] [allow_all]) = Err /\
  handler acc RecvV2 (cx (B "bob") (B "a") true [B "bob"] [allow_all]) = Ok /\
  handler acc RecvV2 (cx (B "eve") (B "a") true [B "bob"] [allow_all]) = Err /\
  handler acc UpdateClient (cx (B "bob") (B "a") true [] [B "06-solomachine"]) = Err /\
  fst (hrun acc e (mkSt [] 0 [allow_all])
        [HCreate (B "alice") (B "07-tendermint") true; HRegister 0 (B "alice"); HRegister 0 (B "alice")])
    = [Ok; Ok; Err].
Proof.
  cbv zeta. split.
  - apply table_acc_nonempty. reflexivity.
  - vm_compute. repeat split; reflexivity.
Qed.
