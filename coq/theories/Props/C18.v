(** C18 — Merkle proofs verify exactly the committed key/value under the root.
    Statements only, closed by [exact]; proofs live in Merkle/MerkleFacts.v and Merkle/GoSliceFacts.v.
    The ics23 per-level verifier is a dependency of /repo, not /repo code: it is abstract (Section variables)
    and its soundness is the Section hypothesis [ics23_sound].  After [End] every theorem is universally
    quantified over all of them; the [Print Assumptions] at the end of the file are on the closed theorems. *)
From IBC Require Import Lib.Bytes Merkle.Merkle Merkle.MerkleFacts Merkle.GoSlice Merkle.GoSliceFacts.

Section C18.
  Variable spec : Type.
  Variable proof : Type.
  Variable calculate : proof -> option bytes.
  Variable is_exist : proof -> bool.
  Variable is_nonexist : proof -> bool.
  Variable ep_verify : spec -> proof -> bytes -> bytes -> bytes -> bool.
  Variable np_verify : spec -> proof -> bytes -> bytes -> bool.
  Variable committed : spec -> bytes -> bytes -> bytes -> Prop.
  Variable absent : spec -> bytes -> bytes -> Prop.
  Hypothesis ics23_sound :
    (forall s p r k v, ep_verify s p r k v = true -> committed s r k v) /\
    (forall s p r k, np_verify s p r k = true -> absent s r k).

  Notation validate_args := (validate_args spec proof).
  Notation verify_membership := (verify_membership spec proof calculate is_exist ep_verify).
  Notation verify_non_membership := (verify_non_membership spec proof calculate is_exist is_nonexist ep_verify np_verify).
  Notation tm_verify_membership := (tm_verify_membership spec proof calculate is_exist ep_verify).
  Notation tm_verify_non_membership := (tm_verify_non_membership spec proof calculate is_exist is_nonexist ep_verify np_verify).
  Notation Chain := (Chain spec committed).

  (** VerifyMembership = nil  ==>  the path is a MerklePath, the root non-empty, the value non-empty,
      #specs = #proofs = #keys, no spec is nil, and the value is committed at the LAST key under a subroot
      that is committed at the key before it, ..., up to the root, level i under specs[i]
      ([combine ss (rev keys)]: keys consumed in reverse order).  With zero levels the chain is [value = root]. *)
  Theorem C18_membership_sound specs root path value proofs :
    (forall keys, path = Some keys -> go_len keys) ->
    verify_membership specs root path value proofs = Ok ->
    exists keys h ps ss,
      path = Some keys /\ root = RHash h /\ h <> [] /\ proofs = Some ps /\ specs = map Some ss /\
      value <> [] /\ length ss = length ps /\ length keys = length ps /\
      Chain h (combine ss (rev keys)) value.
  Proof. exact (membership_sound spec proof calculate is_exist ep_verify np_verify committed absent ics23_sound specs root path value proofs). Qed.

  (** the degenerate chain kept visible: empty non-nil proofs, no specs, empty path — accepted iff value = root *)
  Theorem C18_membership_no_levels h value :
    verify_membership [] (RHash h) (Some []) value (Some []) = Ok <-> h <> [] /\ value = h.
  Proof. exact (membership_no_levels spec proof calculate is_exist ep_verify h value). Qed.

  (** VerifyNonMembership = nil  ==>  the LAST key is absent (under specs[0]) in the tree with subroot [sub],
      and [sub] is chained by memberships through the remaining keys (reversed) up to the root. *)
  Theorem C18_non_membership_sound specs root path proofs :
    (forall keys, path = Some keys -> go_len keys) ->
    verify_non_membership specs root path proofs = Ok ->
    exists keys h ps ss s0 ss' klast kinit sub,
      path = Some keys /\ root = RHash h /\ h <> [] /\ proofs = Some ps /\ specs = map Some ss /\
      length ss = length ps /\ length keys = length ps /\
      ss = s0 :: ss' /\ keys = kinit ++ [klast] /\
      absent s0 sub klast /\ Chain h (combine ss' (rev kinit)) sub.
  Proof. exact (non_membership_sound spec proof calculate is_exist is_nonexist ep_verify np_verify committed absent ics23_sound specs root path proofs). Qed.

  (** validateVerificationArgs: exactly when it passes, and each guard on its own *)
  Theorem C18_validate_args_ok_iff proofs keys specs root :
    validate_args proofs keys specs root = Ok <->
    exists ps h ss, proofs = Some ps /\ root = RHash h /\ h <> [] /\
                    length specs = length ps /\ length keys = length specs /\ specs = map Some ss.
  Proof. exact (validate_args_ok_iff spec proof proofs keys specs root). Qed.

  Theorem C18_validate_guards :
    (forall keys specs root, validate_args None keys specs root = Err) /\
    (forall ps keys specs, validate_args (Some ps) keys specs RNil = Err) /\
    (forall ps keys specs, validate_args (Some ps) keys specs (RHash []) = Err) /\
    (forall ps keys specs h, length specs <> length ps -> validate_args (Some ps) keys specs (RHash h) = Err) /\
    (forall ps keys specs h, length keys <> length specs -> validate_args (Some ps) keys specs (RHash h) = Err) /\
    (forall ps keys specs h, In None specs -> validate_args (Some ps) keys specs (RHash h) = Err) /\
    (forall proofs keys specs root,
        validate_args proofs keys specs root = Panic <-> (exists ps, proofs = Some ps) /\ root = RNilPtr).
  Proof.
    exact (conj (validate_nil_proofs spec proof) (conj (validate_nil_root spec proof) (conj (validate_empty_root spec proof)
          (conj (validate_specs_len spec proof) (conj (validate_path_len spec proof) (conj (validate_nil_spec spec proof)
          (validate_panic_iff spec proof))))))).
  Qed.

  (** a failed validation IS the result of both verification functions; a path of another type and an
      empty value are rejected *)
  Theorem C18_validation_failure_is_the_result :
    (forall specs root keys value proofs, validate_args proofs keys specs root <> Ok ->
        verify_membership specs root (Some keys) value proofs = validate_args proofs keys specs root) /\
    (forall specs root keys proofs, validate_args proofs keys specs root <> Ok ->
        verify_non_membership specs root (Some keys) proofs = validate_args proofs keys specs root) /\
    (forall specs root value proofs, verify_membership specs root None value proofs = Err) /\
    (forall specs root proofs, verify_non_membership specs root None proofs = Err) /\
    (forall specs root keys proofs, verify_membership specs root (Some keys) [] proofs <> Ok).
  Proof.
    exact (conj (membership_validation_fails spec proof calculate is_exist ep_verify)
          (conj (non_membership_validation_fails spec proof calculate is_exist is_nonexist ep_verify np_verify)
          (conj (membership_wrong_path_type spec proof calculate is_exist ep_verify)
          (conj (non_membership_wrong_path_type spec proof calculate is_exist is_nonexist ep_verify np_verify)
                (membership_empty_value spec proof calculate is_exist ep_verify))))).
  Qed.

  (** VerifyMembership panics only on a nil *MerkleRoot or a nil proof entry *)
  Theorem C18_membership_panic_only_if specs root path value proofs :
    (forall keys, path = Some keys -> go_len keys) ->
    verify_membership specs root path value proofs = Panic ->
    exists ps, proofs = Some ps /\ (root = RNilPtr \/ In None ps).
  Proof. exact (membership_panic spec proof calculate is_exist ep_verify specs root path value proofs). Qed.

  (** "VerifyNonMembership never panics on well-formed pointers" is FALSE of the code: an empty non-nil proof
      list with no specs and an empty MerklePath passes validateVerificationArgs and then [p.Proofs[0]] is out
      of range — for every verifier. *)
  Theorem C18_nonmembership_panic_refuted :
    exists specs root path proofs, verify_non_membership specs root path proofs = Panic.
  Proof. exact (ex_intro _ [] (ex_intro _ (RHash (B "r")) (ex_intro _ (Some []) (ex_intro _ (Some []) eq_refl)))). Qed.

  (** ... and that is the only such shape: *)
  Theorem C18_nonmembership_panic_iff specs root path proofs :
    (forall keys, path = Some keys -> go_len keys) ->
    root <> RNilPtr -> (forall ps, proofs = Some ps -> ~ In None ps) ->
    (verify_non_membership specs root path proofs = Panic <->
     proofs = Some [] /\ specs = [] /\ path = Some [] /\ exists h, root = RHash h /\ h <> []).
  Proof. exact (non_membership_panic_iff spec proof calculate is_exist is_nonexist ep_verify np_verify specs root path proofs). Qed.

  Theorem C18_nonmembership_no_panic_guarded specs root path proofs :
    (forall keys, path = Some keys -> go_len keys) ->
    root <> RNilPtr -> (forall ps, proofs = Some ps -> ~ In None ps) -> specs <> [] ->
    verify_non_membership specs root path proofs <> Panic.
  Proof. exact (non_membership_no_panic_guarded spec proof calculate is_exist is_nonexist ep_verify np_verify specs root path proofs). Qed.

  (** 07-tendermint argument handling: a decoded proof is nil when it has no entries and never holds a nil
      entry, the consensus root is a MerkleRoot value — neither function can panic; acceptance gives the chain
      under the stored consensus root *)
  Theorem C18_tm_client_never_panics hok dok decoded path cons_root specs value :
    (forall keys, path = Some keys -> go_len keys) ->
    tm_verify_membership hok dok decoded path cons_root specs value <> Panic /\
    tm_verify_non_membership hok dok decoded path cons_root specs <> Panic.
  Proof.
    exact (fun Hgl => conj
      (tm_verify_membership_no_panic spec proof calculate is_exist ep_verify hok dok decoded path cons_root specs value Hgl)
      (tm_verify_non_membership_no_panic spec proof calculate is_exist is_nonexist ep_verify np_verify hok dok decoded path cons_root specs Hgl)).
  Qed.

  Theorem C18_tm_membership_sound hok dok decoded path cons_root specs value :
    (forall keys, path = Some keys -> go_len keys) ->
    tm_verify_membership hok dok decoded path cons_root specs value = Ok ->
    hok = true /\ dok = true /\
    exists keys h l ss, path = Some keys /\ cons_root = Some h /\ decoded = Some l /\ specs = map Some ss /\
      value <> [] /\ length ss = length l /\ length keys = length l /\
      Chain h (combine ss (rev keys)) value.
  Proof. exact (tm_verify_membership_sound spec proof calculate is_exist ep_verify np_verify committed absent ics23_sound hok dok decoded path cons_root specs value). Qed.

  (** "exactly the given value": if a level commits at most one value per key, two accepted membership
      verifications under the same specs, root and path (any proofs) have the same value; and an accepted
      membership excludes an accepted non-membership for the same root and path. *)
  Theorem C18_membership_value_unique specs root path value value' proofs proofs' :
    (forall s r k v v', committed s r k v -> committed s r k v' -> v = v') ->
    (forall keys, path = Some keys -> go_len keys) ->
    verify_membership specs root path value proofs = Ok ->
    verify_membership specs root path value' proofs' = Ok ->
    value = value'.
  Proof. exact (membership_value_unique spec proof calculate is_exist ep_verify np_verify committed absent ics23_sound specs root path value value' proofs proofs'). Qed.

  Theorem C18_membership_excludes_non_membership specs root path value proofs proofs' :
    (forall s r k v v', committed s r k v -> committed s r k v' -> v = v') ->
    (forall s r k v, committed s r k v -> absent s r k -> False) ->
    (forall keys, path = Some keys -> go_len keys) ->
    verify_membership specs root path value proofs = Ok ->
    verify_non_membership specs root path proofs' = Ok -> False.
  Proof. exact (membership_excludes_non_membership spec proof calculate is_exist is_nonexist ep_verify np_verify committed absent ics23_sound specs root path value proofs proofs'). Qed.
End C18.

(** [keys.GetKey(uint64(idx))] followed by the error branch that formats [keys.KeyPath[idx]]: for an int
    index expression the branch can never return an error — whenever GetKey fails, KeyPath[idx] is out of
    range and panics; inside [0, len) GetKey succeeds with KeyPath[idx]. *)
Theorem C18_getkey_error_branch path idx :
  go_len path -> (- 9223372036854775808 <= idx <= 9223372036854775807)%Z ->
  key_at path idx <> KErr /\
  ((0 <= idx < Z.of_nat (length path))%Z -> exists k, nth_error path (Z.to_nat idx) = Some k /\ key_at path idx = KOk k).
Proof. exact (fun Hl Hi => conj (key_at_never_err path idx Hl Hi) (key_at_in_range path idx Hl)). Qed.

(** ApplyPrefix: nil or empty prefix -> error; otherwise the prefix is prepended *)
Theorem C18_apply_prefix prefix path keys :
  apply_prefix prefix path = AOk keys <-> exists b, prefix = PBytes b /\ b <> [] /\ keys = b :: path.
Proof. exact (apply_prefix_ok_iff prefix path keys). Qed.

Theorem C18_apply_prefix_branches prefix path :
  match prefix with
  | PNil => apply_prefix prefix path = AErr
  | PNilPtr => apply_prefix prefix path = APanic
  | PBytes b => (b = [] /\ apply_prefix prefix path = AErr) \/ (b <> [] /\ apply_prefix prefix path = AOk (b :: path))
  end.
Proof. exact (apply_prefix_spec prefix path). Qed.

(** BuildMerklePath in the Go-slice heap model: panics iff the prefix is empty; otherwise what the caller sees
    through its prefix header — every element's visible bytes — is unchanged, for every capacity of the outer
    slice, every capacity of every inner slice and every growth policy of append/Clone, provided no OTHER
    prefix element is a window into the spare capacity of the last element; and the result shows the prefix
    with [path] appended to its last element. *)
Theorem C18_bmp_panic_iff h prefix path eo ei :
  build_merkle_path h prefix path eo ei = BPanic <-> s_len prefix = 0%nat.
Proof. exact (bmp_panic_iff h prefix path eo ei). Qed.

Theorem C18_bmp_prefix_unchanged_guarded h prefix path eo ei h' full :
  wf_oslice h prefix -> no_overlap h prefix ->
  build_merkle_path h prefix path eo ei = BOk h' full ->
  oview h' prefix = oview h prefix /\
  oview h' full = removelast (oview h prefix) ++ [last (oview h prefix) [] ++ path].
Proof.
  exact (fun Hwf Hno H => conj (bmp_prefix_unchanged h prefix path eo ei h' full Hwf Hno H)
                               (bmp_result_view h prefix path eo ei h' full Hwf Hno H)).
Qed.

(** The unguarded statement ("for every well-formed heap") is FALSE of the code: when an earlier prefix element
    and the last element are windows into one buffer and the earlier one lies in the last one's spare capacity,
    the in-place append overwrites the earlier element's visible bytes. *)
Theorem C18_bmp_overlap_refuted :
  exists h prefix path eo ei h' full,
    wf_oslice h prefix /\ build_merkle_path h prefix path eo ei = BOk h' full /\ oview h' prefix <> oview h prefix.
Proof. exact bmp_overlap_refuted. Qed.

(** the model distinguishes the variant without slices.Clone: there the caller's last element changes *)
Theorem C18_bmp_noclone_refuted :
  exists h' full, build_merkle_path_noclone ex_h0 ex_prefix (B "/x") 5 = BOk h' full /\
                  oview ex_h0 ex_prefix = [B "ibc"] /\ oview h' ex_prefix = [B "ibc/x"].
Proof. exact bmp_noclone_changes_prefix. Qed.

(** recorded, not a violation of the property text: with spare capacity in the last inner element two
    successive results alias each other (the second call overwrites what the first result shows) *)
Theorem C18_bmp_successive_results_alias :
  exists h1 full1 h2 full2,
    build_merkle_path ex_h_spare ex_prefix (B "AAA") 0 0 = BOk h1 full1 /\
    build_merkle_path h1 ex_prefix (B "BBB") 0 0 = BOk h2 full2 /\
    oview h1 full1 = [B "ibcAAA"] /\ oview h2 full2 = [B "ibcBBB"] /\
    oview h2 full1 = [B "ibcBBB"] /\
    oview h1 ex_prefix = [B "ibc"] /\ oview h2 ex_prefix = [B "ibc"].
Proof. exact bmp_successive_results_alias. Qed.

Print Assumptions C18_membership_sound.
Print Assumptions C18_membership_no_levels.
Print Assumptions C18_non_membership_sound.
Print Assumptions C18_validate_args_ok_iff.
Print Assumptions C18_validate_guards.
Print Assumptions C18_validation_failure_is_the_result.
Print Assumptions C18_membership_panic_only_if.
Print Assumptions C18_nonmembership_panic_refuted.
Print Assumptions C18_nonmembership_panic_iff.
Print Assumptions C18_nonmembership_no_panic_guarded.
Print Assumptions C18_tm_client_never_panics.
Print Assumptions C18_tm_membership_sound.
Print Assumptions C18_membership_value_unique.
Print Assumptions C18_membership_excludes_non_membership.
Print Assumptions C18_getkey_error_branch.
Print Assumptions C18_apply_prefix.
Print Assumptions C18_apply_prefix_branches.
Print Assumptions C18_bmp_panic_iff.
Print Assumptions C18_bmp_prefix_unchanged_guarded.
Print Assumptions C18_bmp_overlap_refuted.
Print Assumptions C18_bmp_noclone_refuted.
Print Assumptions C18_bmp_successive_results_alias.

(** non-vacuity: a concrete two-level verifier instance meets the hypotheses and is accepted; the heap
    hypotheses of the BuildMerklePath theorem are met by a heap with spare capacity everywhere *)
Example C18_nonvacuous :
  nv_membership_accepts /\ (wf_oslice ex_h_caps ex_prefix3 /\ no_overlap ex_h_caps ex_prefix3).
Proof. exact (conj nv_membership_accepts_holds bmp_hyps_nonvacuous). Qed.
