(** C27 — Localhost verification is equivalent to reading the chain's own store.
    Model: Clients/Localhost.v (the definitions Corr/Clients.v evaluates on every `lh_*` record), of the code
    as it is after the /repo commit "fix: localhost client rejects proof heights above the chain's own height".
    Only statements closed by [exact]; proofs live in Clients/LocalhostFacts.v. *)
From IBC Require Import Lib.Bytes Lib.BytesFacts Core.Height Clients.WasmStore Clients.Localhost Clients.LocalhostFacts.

(** VerifyMembership returns nil exactly when the proof height is not above the chain's own height, the proof
    is the sentinel [0x01], the path is a MerklePath of exactly two keys, the second key is non-empty, and the
    chain's own IBC store holds exactly the given value at that key (for all stores, heights, proofs, paths, values). *)
Theorem C27_membership_iff c h proof path value :
  verify_membership c h proof path value = Ok <->
  h_gt h (self_height c) = false /\ proof = sentinel_proof /\
  exists k0 key, path = PMerkle [k0; key] /\ key <> [] /\ kv_get (ibc_store c) key = Some value.
Proof. exact (verify_membership_ok c h proof path value). Qed.
Print Assumptions C27_membership_iff.

(** VerifyNonMembership returns nil exactly when height, sentinel and path are as above and the key is absent. *)
Theorem C27_non_membership_iff c h proof path :
  verify_non_membership c h proof path = Ok <->
  h_gt h (self_height c) = false /\ proof = sentinel_proof /\
  exists k0 key, path = PMerkle [k0; key] /\ key <> [] /\ kv_get (ibc_store c) key = None.
Proof. exact (verify_non_membership_ok c h proof path). Qed.
Print Assumptions C27_non_membership_iff.

(** The property's statement: with the sentinel proof, an admissible height and a two-element path, the two
    verdicts are exactly the two store lookups; and the two are never both accepted. *)
Theorem C27_equivalent_to_own_store c h k0 key value :
  h_gt h (self_height c) = false -> key <> [] ->
  (verify_membership c h sentinel_proof (PMerkle [k0; key]) value = Ok <-> kv_get (ibc_store c) key = Some value) /\
  (verify_non_membership c h sentinel_proof (PMerkle [k0; key]) = Ok <-> kv_get (ibc_store c) key = None).
Proof. exact (membership_store_equiv c h k0 key value). Qed.
Print Assumptions C27_equivalent_to_own_store.

Theorem C27_never_both c h proof path value :
  ~ (verify_membership c h proof path value = Ok /\ verify_non_membership c h proof path = Ok).
Proof. exact (membership_exclusive c h proof path value). Qed.
Print Assumptions C27_never_both.

(** The only panic is the underlying store's refusal of an empty key (path [k0; ""]). *)
Theorem C27_panic_only_on_empty_key c h proof path value :
  (verify_membership c h proof path value = Panic \/ verify_non_membership c h proof path = Panic) ->
  exists k0, path = PMerkle [k0; []].
Proof. exact (panic_only_empty_key c h proof path value). Qed.
Print Assumptions C27_panic_only_on_empty_key.

(** Create (keeper, client type 09-localhost), update, upgrade and recover — through the 02-client keeper or
    called on the module directly, whatever the allow-list, the router and the message contents — are refused. *)
Theorem C27_client_operations_refused allowed registered op : client_op allowed registered op = Err.
Proof. exact (client_op_refused allowed registered op). Qed.
Print Assumptions C27_client_operations_refused.

(** non-vacuity *)
Example C27_nonvacuous :
  let c := mkCtx (mkH 1 10) [(B "k", B "v"); (B "e", [])] in
  verify_membership c (mkH 1 10) sentinel_proof (PMerkle [B "ibc"; B "k"]) (B "v") = Ok /\
  verify_membership c (mkH 1 11) sentinel_proof (PMerkle [B "ibc"; B "k"]) (B "v") = Err /\
  verify_membership c (mkH 1 3) sentinel_proof (PMerkle [B "ibc"; B "e"]) [] = Ok /\
  verify_non_membership c (mkH 0 99) sentinel_proof (PMerkle [B "ibc"; B "x"]) = Ok /\
  verify_non_membership c (mkH 1 3) sentinel_proof (PMerkle [B "ibc"; B "e"]) = Err /\
  verify_non_membership c (mkH 1 3) (B "x") (PMerkle [B "ibc"; B "x"]) = Err.
Proof. vm_compute. auto 10. Qed.
