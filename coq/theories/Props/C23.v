(** C23 — Tendermint updates keep consensus timestamps increasing with height.
    Only statements closed by [exact]; proofs live in TmStore/ClientFacts.v (and StoreFacts.v for the neighbour
    lookups).  Model: TmStore/Client.v, replayed by Corr/TmStore.v.  Verification is an arbitrary oracle. *)
From IBC Require Import Lib.Bytes Lib.Dec Lib.BE64 Core.Height Core.HeightFacts
  TmStore.KV TmStore.KVFacts TmStore.Store TmStore.KeysFacts TmStore.StoreFacts TmStore.Client TmStore.ClientFacts.
Local Open Scope N_scope.

Local Notation HO := (ClientSt -> ConsState -> Hdr -> Ctx -> bool).
Local Notation MO := (ClientSt -> ConsState -> ConsState -> Misb -> Ctx -> bool).
Local Notation UO := (ClientSt -> ConsState -> Upg -> bool).

(** CheckForMisbehaviour on a header for a height without consensus state is exactly the comparison with the
    TRUE stored neighbours (greatest stored height below, least stored height above): no misbehaviour iff the
    header time is strictly between their timestamps. *)
Theorem C23_check_is_exact s hd :
  MetaInv s -> h64 (hd_height hd) -> get_cons s (hd_height hd) = None ->
  (check_misb_header s hd = false <->
   (forall h' c', is_prev s (hd_height hd) h' -> get_cons s h' = Some c' -> (c_ts c' < hd_ts hd)%Z) /\
   (forall h' c', is_next s (hd_height hd) h' -> get_cons s h' = Some c' -> (hd_ts hd < c_ts c')%Z)).
Proof. exact (check_misb_header_new_spec s hd). Qed.
Print Assumptions C23_check_is_exact.

(** An accepted update for a new height either freezes the client, or its time is strictly between the
    timestamps of its stored neighbours and exactly the header's consensus state is stored for that height. *)
Theorem C23_update_stores_only_between_neighbours (ho : HO) (mo : MO) (uo : UO) s c cl hd :
  Inv s -> h64 (hd_height hd) -> get_client s = Some cl -> status s c = Active -> verify_header ho s cl hd c = true ->
  get_cons s (hd_height hd) = None ->
  step ho mo uo s c (OUpdate (MHeader hd)) = (Ok, freeze s cl) \/
  ((forall h' c', is_prev s (hd_height hd) h' -> get_cons s h' = Some c' -> (c_ts c' < hd_ts hd)%Z) /\
   (forall h' c', is_next s (hd_height hd) h' -> get_cons s h' = Some c' -> (hd_ts hd < c_ts c')%Z) /\
   exists s', update_state s cl hd c = ROk s' /\ step ho mo uo s c (OUpdate (MHeader hd)) = (Ok, s') /\
              get_cons s' (hd_height hd) = Some (hdr_cons hd)).
Proof. exact (update_new_height_cases ho mo uo s c cl hd). Qed.
Print Assumptions C23_update_stores_only_between_neighbours.

(** An update whose time is not strictly between its neighbours' timestamps freezes the client instead; the
    consensus states are untouched (C20_freeze_changes_only_the_flag). *)
Theorem C23_bad_time_freezes (ho : HO) (mo : MO) (uo : UO) s c cl hd :
  Inv s -> h64 (hd_height hd) -> get_client s = Some cl -> status s c = Active -> verify_header ho s cl hd c = true ->
  get_cons s (hd_height hd) = None ->
  ((exists h' c', is_prev s (hd_height hd) h' /\ get_cons s h' = Some c' /\ (hd_ts hd <= c_ts c')%Z) \/
   (exists h' c', is_next s (hd_height hd) h' /\ get_cons s h' = Some c' /\ (c_ts c' <= hd_ts hd)%Z)) ->
  step ho mo uo s c (OUpdate (MHeader hd)) = (Ok, freeze s cl) /\
  (forall h, get_cons (freeze s cl) h = get_cons s h).
Proof.
  exact (fun I Hh G St V GN Bad => conj (bad_time_header_freezes ho mo uo s c cl hd I Hh G St V GN Bad)
                                        (proj2 (proj2 (freeze_frame s cl)))).
Qed.
Print Assumptions C23_bad_time_freezes.

(** Over all histories of updates (any order of heights, any header times, duplicates, conflicts),
    misbehaviour, prunes: "timestamps strictly increase with height" ([TsMono]) is an invariant; it holds after
    CreateClient.  (Recovery and upgrade copy a governance-approved / proven consensus state without comparing
    timestamps and are outside this property: [plain_ops].) *)
Theorem C23_timestamps_monotone_over_histories (ho : HO) (mo : MO) (uo : UO) ops s :
  Inv s -> ops_wf ops -> plain_ops ops -> TsMono s -> TsMono (run ho mo uo s ops).
Proof. exact (run_tsmono ho mo uo ops s). Qed.
Print Assumptions C23_timestamps_monotone_over_histories.

Theorem C23_monotone_initially c cl cs : TsMono (initialize [] c cl cs).
Proof. exact (TsMono_initialize c cl cs). Qed.
Print Assumptions C23_monotone_initially.

(** non-vacuity: a gap-filling header with a time beyond its next neighbour freezes; one in between is stored *)
Example C23_nonvacuous :
  let yes := fun (_ : ClientSt) (_ : ConsState) (_ : Hdr) (_ : Ctx) => true in
  let mo := fun (_ : ClientSt) (_ _ : ConsState) (_ : Misb) (_ : Ctx) => true in
  let uo := fun (_ : ClientSt) (_ : ConsState) (_ : Upg) => true in
  let c := mkCtx 1000 (mkH 0 7) in
  let s0 := initialize [] c (mkClient (mkH 1 5) false 500) (mkCons 900 (B "r5") (B "v")) in
  let s1 := run yes mo uo s0 [(c, OUpdate (MHeader (mkHdr (mkH 1 20) (mkH 1 5) 950 (B "a") (B "v") 0)))] in
  let bad := snd (step yes mo uo s1 c (OUpdate (MHeader (mkHdr (mkH 1 10) (mkH 1 5) 950 (B "g") (B "v") 0)))) in
  let good := snd (step yes mo uo s1 c (OUpdate (MHeader (mkHdr (mkH 1 10) (mkH 1 5) 949 (B "g") (B "v") 0)))) in
  option_map cl_frozen (get_client bad) = Some true /\ get_cons bad (mkH 1 10) = None /\
  option_map cl_frozen (get_client good) = Some false /\ get_cons good (mkH 1 10) = Some (mkCons 949 (B "g") (B "v")).
Proof. vm_compute. repeat split; reflexivity. Qed.
