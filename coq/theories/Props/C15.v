(** C15 — Generated identifiers are unique and parse back to their parts.
    This file contains only statements closed by [exact]; the proofs are in Keys/IdentFacts.v (model: Keys/Ident.v). *)
From IBC Require Import Lib.Bytes Lib.Dec Keys.Ident Keys.IdentFacts.
Local Open Scope N_scope.

(** Formatting and then parsing returns the same client type and sequence, for every client type accepted by
    ValidateClientType (what a light client module can be registered under) and every 64-bit sequence; the
    formatted identifier passes IsValidClientID and the host ClientIdentifierValidator. *)
Theorem C15_client_format_parse t s :
  validate_client_type t = true -> s < two64 ->
  parse_client_identifier (format_client_identifier t s) = Some (t, s) /\
  is_valid_client_id (format_client_identifier t s) = true /\
  client_identifier_validator (format_client_identifier t s) = true.
Proof. exact (client_format_parse_roundtrip t s). Qed.
Print Assumptions C15_client_format_parse.

Theorem C15_channel_format_parse s :
  s < two64 ->
  parse_channel_sequence (format_channel_identifier s) = Some s /\
  is_valid_channel_id (format_channel_identifier s) = true /\
  channel_identifier_validator (format_channel_identifier s) = true.
Proof. exact (channel_format_parse_roundtrip s). Qed.
Print Assumptions C15_channel_format_parse.

Theorem C15_connection_format_parse s :
  s < two64 ->
  parse_connection_sequence (format_connection_identifier s) = Some s /\
  is_valid_connection_id (format_connection_identifier s) = true /\
  connection_identifier_validator (format_connection_identifier s) = true.
Proof. exact (connection_format_parse_roundtrip s). Qed.
Print Assumptions C15_connection_format_parse.

(** Parsing never accepts an identifier whose sequence does not fit in 64 bits (any input string). *)
Theorem C15_parse_bound :
  (forall id t s, parse_client_identifier id = Some (t, s) -> s < two64) /\
  (forall id s, parse_channel_sequence id = Some s -> s < two64) /\
  (forall id s, parse_connection_sequence id = Some s -> s < two64).
Proof. exact (conj parse_client_bound (conj parse_channel_bound parse_connection_bound)). Qed.
Print Assumptions C15_parse_bound.

(** an accepted client identifier other than the localhost sentinel is [type-digits] with 1..20 digits whose
    value is the returned sequence *)
Theorem C15_parse_accepts_shape id t s :
  parse_client_identifier id = Some (t, s) -> id <> localhost_client_id ->
  exists d, id = t ++ dash :: d /\ digits_1_20 d = true /\ parse_uint64 d = Some s /\ client_type_shape t = true.
Proof. exact (parse_client_accepts id t s). Qed.
Print Assumptions C15_parse_accepts_shape.

(** Over any history of creation attempts — committed or reverted, of any mix of kinds, any client types — the
    identifiers of the objects created are pairwise distinct per kind, as long as no counter wraps at 2^64. *)
Theorem C15_ids_never_reused c ops :
  no_wrap c (length ops) -> NoDup (committed (run_trace c ops)).
Proof. exact (ids_unique c ops). Qed.
Print Assumptions C15_ids_never_reused.

(** A committed creation carries the current counter in its identifier and advances exactly its own counter by
    one; a reverted creation leaves all counters unchanged. *)
Theorem C15_counters_step c op :
  seq_of (op_kind op) c + 1 < two64 ->
  let '(k, id, ok, c') := step c op in
  k = op_kind op /\ ok = op_commits op /\
  (exists t, id = fmt k t (seq_of k c)) /\
  (ok = false -> c' = c) /\
  (ok = true -> seq_of k c' = seq_of k c + 1 /\ forall k', k' <> k -> seq_of k' c' = seq_of k' c).
Proof. exact (counters_step c op). Qed.
Print Assumptions C15_counters_step.

(** Every identifier handed out passes the chain's identifier validation. *)
Theorem C15_generated_ids_valid c op :
  (forall k, seq_of k c < two64) ->
  (forall t b, op = CreateClient t b -> validate_client_type t = true) ->
  let '(k, id, _, _) := step c op in
  match k with
  | KClient => client_identifier_validator id = true /\ is_valid_client_id id = true
  | KConnection => connection_identifier_validator id = true /\ is_valid_connection_id id = true
  | KChannel => channel_identifier_validator id = true /\ is_valid_channel_id id = true
  end.
Proof. exact (generated_ids_valid c op). Qed.
Print Assumptions C15_generated_ids_valid.

(** non-vacuity: the hypotheses are met by the registered client types and 20-digit sequences; a history with
    reverted attempts re-issues the reverted identifier but never a committed one *)
Example C15_nonvacuous :
  validate_client_type (B "07-tendermint") = true /\
  validate_client_type (B "08-wasm") = true /\
  validate_client_type (B "7-") = false /\
  parse_client_identifier (B "07-tendermint-18446744073709551615") = Some (B "07-tendermint", 18446744073709551615) /\
  parse_client_identifier (B "07-tendermint-18446744073709551616") = None /\
  parse_channel_sequence (B "channel-018446744073709551615") = None /\
  run_trace (mkC 5 0 0) [CreateClient (B "07-tendermint") false; CreateClient (B "08-wasm") true; CreateChannel true; CreateClient (B "08-wasm") true]
  = [(KClient, B "07-tendermint-5", false); (KClient, B "08-wasm-5", true); (KChannel, B "channel-0", true); (KClient, B "08-wasm-6", true)].
Proof. vm_compute. repeat split. Qed.
