(** C47 — stateless validation and decoders never panic.
    Only statements closed by [exact]; models in Codec/NoPanic{Base,Json,Msgs}.v (Go's partial operations
    — index, slice, nil dereference, Must*, explicit panic — are explicit [Panic] outcomes), proofs in the
    *Facts.v files.  [safe r] = the call returned normally (value or error): r is neither [Panic] nor [Fuel].
    Where the faithful model CAN panic the theorem is [_refuted] (concrete witness, replayed on the real code
    by the harness) together with the strongest true [_guarded] / [_panic_iff] statement. *)
From IBC Require Import Lib.Bytes Lib.Dec Core.Height
  Codec.NoPanicBase Codec.NoPanicBaseFacts Codec.NoPanicJson Codec.NoPanicJsonFacts
  Codec.NoPanicMsgs Codec.NoPanicMsgsFacts.
Local Open Scope N_scope.

Theorem C47_safe_means_no_panic {A} (r : res A) : safe r -> r <> Panic /\ r <> Fuel.
Proof. exact (safe_not_panic r). Qed.
Print Assumptions C47_safe_means_no_panic.

(** 24-host identifier validators and parsers (all inputs; ParseIdentifier for every prefix) *)
Theorem C47_host_validators id minl maxl :
  safe (default_identifier_validator id minl maxl) /\
  (default_identifier_validator id minl maxl = Ok tt <->
   go_blank id = false /\ contains [slash] id = false /\ minl <= nlen id /\ nlen id <= maxl /\ is_valid_id id = true).
Proof. exact (conj (default_identifier_validator_safe id minl maxl) (default_identifier_validator_ok id minl maxl)). Qed.
Print Assumptions C47_host_validators.

Theorem C47_host_parsers s pfx :
  safe (parse_identifier s pfx) /\ (forall n, parse_identifier s pfx = Ok n -> n < two64) /\
  safe (parse_client_state_path s) /\ safe (parse_connection_path s) /\ safe (parse_channel_path s) /\
  safe (parse_channel_sequence s) /\ safe (parse_connection_sequence s).
Proof.
  exact (conj (parse_identifier_safe s pfx) (conj (parse_identifier_bound s pfx)
        (conj (parse_client_state_path_safe s) (conj (parse_connection_path_safe s) (conj (parse_channel_path_safe s)
        (conj (parse_channel_sequence_safe s) (parse_connection_sequence_safe s))))))).
Qed.
Print Assumptions C47_host_parsers.

(** Must* functions panic by design, exactly on the inputs their non-Must counterpart rejects *)
Theorem C47_must_panics_by_design s :
  (must_parse_client_state_path s = Panic <-> parse_client_state_path s = Err) /\
  (must_parse_connection_path s = Panic <-> parse_connection_path s = Err) /\
  (must_parse_channel_path s = Panic <-> parse_channel_path s = Err).
Proof.
  exact (conj (must_panics_iff _ (parse_client_state_path_safe s))
        (conj (must_panics_iff _ (parse_connection_path_safe s)) (must_panics_iff _ (parse_channel_path_safe s)))).
Qed.
Print Assumptions C47_must_panics_by_design.

(** heights, client identifiers, client types *)
Theorem C47_height_and_client_ids s n :
  safe (parse_height_x s) /\
  parse_height_x s = match parse_height s with Some h => Ok h | None => Err end /\
  safe (parse_client_identifier s) /\ (exists b, is_valid_client_id s = Ok b) /\
  (exists b, is_valid_channel_id s = Ok b) /\ safe (set_revision_number s n) /\ safe (validate_client_type s).
Proof.
  exact (conj (parse_height_x_safe s) (conj (parse_height_x_eq s) (conj (parse_client_identifier_safe s)
        (conj (is_valid_client_id_total s) (conj (is_valid_channel_id_total s)
        (conj (set_revision_number_safe s n) (validate_client_type_safe s))))))).
Qed.
Print Assumptions C47_height_and_client_ids.

(** ParseChainID is total (fix d71d2e9; before it, a revision >= 2^64 accepted by IsRevisionFormat reached an
    explicit panic — the former witness "a-18446744073709551616" now parses to revision 0) *)
Theorem C47_parse_chain_id c :
  (exists n, parse_chain_id c = Ok n /\ n < two64) /\ safe (parse_chain_id c) /\
  (is_revision_format c = false -> parse_chain_id c = Ok 0) /\
  (parse_chain_id chain_id_witness = Ok 0 /\ is_revision_format chain_id_witness = true).
Proof.
  exact (conj (parse_chain_id_total c) (conj (parse_chain_id_safe c)
        (conj (parse_chain_id_not_revision c) parse_chain_id_witness))).
Qed.
Print Assumptions C47_parse_chain_id.

(** ICS-20 denominations and transfer messages *)
Theorem C47_denoms p d port chan :
  (exists dn, extract_denom_from_path p = Ok dn) /\ safe (denom_validate d) /\
  safe (denom_has_prefix d port chan) /\ safe (validate_ibc_denom p) /\ safe (parse_hex_hash p).
Proof.
  exact (conj (extract_denom_from_path_total p) (conj (denom_validate_safe d) (conj (denom_has_prefix_safe d port chan)
        (conj (validate_ibc_denom_safe p) (parse_hex_hash_safe p))))).
Qed.
Print Assumptions C47_denoms.

Theorem C47_transfer_validate_basic m denom amt sender receiver :
  safe (msg_transfer_validate_basic m) /\ safe (ftpd_validate_basic denom amt sender receiver) /\
  (ftpd_validate_basic denom amt sender receiver = Ok tt <->
   exists z dn, amt = Some z /\ (0 < z)%Z /\ go_blank sender = false /\ go_blank receiver = false /\
                extract_denom_from_path denom = Ok dn /\ denom_validate dn = Ok tt).
Proof.
  exact (conj (msg_transfer_validate_basic_safe m) (conj (ftpd_validate_basic_safe denom amt sender receiver)
        (ftpd_validate_basic_ok denom amt sender receiver))).
Qed.
Print Assumptions C47_transfer_validate_basic.

(** packet-forward-middleware metadata: every decoded memo, every nesting depth *)
Theorem C47_forward_metadata memo p fuel fd md :
  safe (fst (get_packet_metadata memo p)) /\
  get_forward_metadata fuel fd <> Panic /\
  ((depth_m fd < fuel)%nat -> get_forward_metadata fuel fd <> Fuel) /\
  safe (forward_metadata_validate md) /\
  (snd (get_packet_metadata memo p) = false <-> as_obj (get_custom_packet_data memo p (B "forward")) = None).
Proof.
  exact (conj (get_packet_metadata_safe memo p) (conj (get_forward_metadata_not_panic fuel fd)
        (conj (get_forward_metadata_fuel fuel fd) (conj (forward_metadata_validate_safe md) (get_packet_metadata_flag memo p))))).
Qed.
Print Assumptions C47_forward_metadata.

(** callbacks: GetCallbackData on every decoded memo; returned gas limits respect maxGas / remainingGas *)
Theorem C47_callback_data prov memo p remaining maxgas key :
  safe (fst (get_callback_data prov memo p remaining maxgas key)) /\
  (forall cb, fst (get_callback_data prov memo p remaining maxgas key) = Ok cb ->
     cb_commit_gas cb <= maxgas /\ cb_exec_gas cb <= remaining /\ cb_exec_gas cb <= cb_commit_gas cb /\
     go_blank (cb_addr cb) = false).
Proof.
  exact (conj (get_callback_data_safe prov memo p remaining maxgas key)
              (get_callback_data_gas prov memo p remaining maxgas key)).
Qed.
Print Assumptions C47_callback_data.

(** ICA metadata validators: connectionHops[0] is unguarded inside the functions *)
Theorem C47_ica_metadata_refuted : exists ctrl gc hops md, validate_ica_metadata ctrl gc hops md = Panic.
Proof. exact validate_ica_metadata_refuted. Qed.
Print Assumptions C47_ica_metadata_refuted.

Theorem C47_ica_metadata_guarded ctrl gc hops md :
  (hops <> [] -> safe (validate_ica_metadata ctrl gc hops md)) /\
  (validate_ica_metadata ctrl gc hops md = Panic <->
   hops = [] /\ is_supported_encoding (ica_encoding md) = true /\ is_supported_tx_type (ica_tx_type md) = true) /\
  safe (validate_account_address (ica_address md)).
Proof.
  exact (conj (validate_ica_metadata_guarded ctrl gc hops md) (conj (validate_ica_metadata_panic_iff ctrl gc hops md)
        (validate_account_address_safe (ica_address md)))).
Qed.
Print Assumptions C47_ica_metadata_guarded.

(** acknowledgement oneof: panics only on a typed-nil wrapper, which no decoder produces *)
Theorem C47_ack_validate_basic r :
  (exists r0, ack_validate_basic r0 = Panic) /\
  (ack_decodable r = true -> safe (ack_validate_basic r)) /\
  (ack_validate_basic r = Ok tt <->
   (exists w, r = RResult (Some w) /\ w <> []) \/ (exists e, r = RError (Some e) /\ go_blank e = false)).
Proof. exact (conj ack_validate_basic_refuted (conj (ack_validate_basic_guarded r) (ack_validate_basic_ok r))). Qed.
Print Assumptions C47_ack_validate_basic.

(** channel v1 and v2 messages: all ten v1 messages, all four v2 messages, every field content *)
Theorem C47_channel_msgs m1 u m2 :
  safe (msg_v1_validate_basic m1) /\ safe (msg_v2_validate_basic u m2).
Proof. exact (conj (msg_v1_validate_basic_safe m1) (msg_v2_validate_basic_safe u m2)). Qed.
Print Assumptions C47_channel_msgs.

(** client messages: no panic as soon as the light-client methods reached through the Any fields
    (ClientState.Validate, ConsensusState.ValidateBasic, ClientMessage.ValidateBasic, Plan.ValidateBasic) do not
    panic; a MsgCreateClient without client_state / consensus_state is rejected with an error (fix e3d0037;
    before it the size check dereferenced the nil Any). *)
Theorem C47_client_msgs m :
  (msg_client_externals_safe m = true -> safe (msg_client_validate_basic m)) /\
  (msg_client_validate_basic m = Panic -> msg_client_externals_safe m = false) /\
  (forall sg cst, msg_client_validate_basic (CreateClient sg AnyNil cst) = Err) /\
  (forall n t v, v = Ok tt \/ v = Err ->
     msg_client_validate_basic (CreateClient true (AnyVal n (CVal (mkCS t v))) AnyNil) = Err).
Proof.
  exact (conj (msg_client_validate_basic_safe m) (conj (msg_client_validate_basic_panic_external m)
        (conj create_client_nil_client_state_errs create_client_nil_consensus_state_errs))).
Qed.
Print Assumptions C47_client_msgs.

(** 06-solomachine Misbehaviour.ValidateBasic (a ClientMessage reached from MsgUpdateClient): never panics;
    a missing signature is an error (fix 6331512) *)
Theorem C47_solo_misbehaviour seq s1 s2 :
  safe (solo_misbehaviour_validate_basic seq s1 s2) /\
  solo_misbehaviour_validate_basic seq None s2 <> Ok tt /\ solo_misbehaviour_validate_basic seq s1 None <> Ok tt.
Proof.
  exact (conj (solo_misbehaviour_validate_basic_safe seq s1 s2)
        (conj (proj1 (solo_misbehaviour_nil_sig_errs seq s2)) (proj1 (proj2 (solo_misbehaviour_nil_sig_errs seq s1))))).
Qed.
Print Assumptions C47_solo_misbehaviour.

(** non-vacuity: concrete messages / memos that validate Ok, and ones that Err *)
Example C47_nonvacuous :
  msg_transfer_validate_basic
    (mkMsgTransfer (B "transfer") (B "channel-0") (B "uatom") (Some 5%Z) (B "alice") (B "bob") [] false) = Ok tt /\
  msg_transfer_validate_basic
    (mkMsgTransfer (B "transfer") (B "channel-0") (B "uatom") None (B "alice") (B "bob") [] false) = Err /\
  msg_v1_validate_basic (ChanOpenInit (B "transfer") ok_chan true) = Ok tt /\
  msg_v1_validate_basic (ChanOpenInit (B "transfer") (mkChan 1 1 (mkCp (B "transfer") []) []) true) = Err /\
  get_packet_metadata (B "x") (PObj (hop1 (JNum (mkNum false 1 8)))) = (Err, true) /\
  parse_chain_id (B "cosmoshub-4") = Ok 4 /\ parse_chain_id chain_id_witness = Ok 0 /\
  msg_client_validate_basic (CreateClient true AnyNil AnyNil) = Err /\
  assert_str None = Panic.
Proof. vm_compute. repeat split; reflexivity. Qed.
