(** C11 — Each received packet gets at most one immutable acknowledgement. *)
From IBC Require Import Core.ChainExamples.
From IBC Require Import Lib.Bytes Core.Height Core.Chain Core.ChainFacts Core.ChainInv Core.ChainThms.
Local Open Scope N_scope.

(** once written (synchronously by core or through the asynchronous path) an acknowledgement commitment is
    never changed or removed by any history: v1 and v2 *)
Theorem C11_ack_immutable {A} (c : Chain A) hist :
  (forall k a, ackc1 c k = Some a -> ackc1 (run c hist) k = Some a) /\
  (forall k a, ackc2 c k = Some a -> ackc2 (run c hist) k = Some a).
Proof. exact (ack_write_once c hist). Qed.
Print Assumptions C11_ack_immutable.

(** a second write is refused (so "at most one"): v1 WriteAcknowledgement and v2 writeAcknowledgement succeed
    only where no acknowledgement is stored; v2 additionally needs the receipt *)
Theorem C11_write_needs_empty_slot {A} (c : Chain A) :
  (forall p bz c', write_ack1 c p bz = (c', Ok) -> ackc1 c (p_dp p, p_dc p, p_seq p) = None /\ bz <> 0) /\
  (forall q acks c', write_ack2 c q acks = (c', Ok) ->
     ackc2 c (q_dst q, q_seq q) = None /\ rcpt2 c (q_dst q, q_seq q) = true).
Proof.
  exact (conj (fun p bz c' H => let '(conj a (conj b _)) := write_ack1_ok c p bz c' H in conj a b)
              (fun q acks c' H => let '(conj _ (conj _ (conj _ (conj a (conj b _))))) := write_ack2_ok c q acks c' H in conj a b)).
Qed.
Print Assumptions C11_write_needs_empty_slot.

(** in every reachable state a v2 acknowledgement exists only for a packet with a receipt *)
Theorem C11_v2_ack_needs_receipt {A} (c : Chain A) hist k a :
  Inv c -> ackc2 (run c hist) k = Some a -> rcpt2 (run c hist) k = true.
Proof. exact (ack2_needs_receipt c hist k a). Qed.
Print Assumptions C11_v2_ack_needs_receipt.

(** an asynchronously acknowledged v2 packet stays retrievable across every step except the asynchronous
    write of its acknowledgement, which removes it ... *)
Theorem C11_async_packet_kept {A} (e : Env A) c o c' out k q :
  step e c o = (c', out) -> asyn2 c k = Some q -> rcpt2 c k = true ->
  asyn2 c' k = Some q \/ (exists acks, o = OAsyncAck2 (fst k) (snd k) acks /\ out = Ok /\ asyn2 c' k = None).
Proof. exact (async_packet_kept e c o c' out k q). Qed.
Print Assumptions C11_async_packet_kept.

(** ... and that write stores the acknowledgement; repeated or premature writes find no stored packet *)
Theorem C11_async_write {A} (c : Chain A) id seq acks c' :
  async_ack2 c id seq acks = (c', Ok) ->
  exists q, asyn2 c (id, seq) = Some q /\ asyn2 c' (id, seq) = None /\
    (forall k, k <> (id, seq) -> asyn2 c' k = asyn2 c k) /\
    ackc2 c (q_dst q, q_seq q) = None /\ ackc2 c' (q_dst q, q_seq q) = Some acks /\ rcpt2 c (q_dst q, q_seq q) = true.
Proof. exact (async_ack2_ok c id seq acks c'). Qed.
Print Assumptions C11_async_write.

(** non-vacuity: a concrete state satisfies the invariant and a concrete 13-step history (duplicates, a failing
    application, an ORDERED timeout, multi-payload v2 receives) produces exactly the expected callbacks *)
Example C11_nonvacuous : Inv ex_chain /\ rkeys (events (run ex_chain ex_hist)) <> [] /\ tkeys (events (run ex_chain ex_hist)) <> [].
Proof. exact (conj ex_inv ex_nonempty). Qed.
