(** C37 — Interchain-account hosts only execute authorized, atomic transactions.
    Only statements closed by [exact]; proofs live in IcaGmp/IcaHostFacts.v, the model in IcaGmp/IcaHost.v.
    Messages are (type_url, signers, step) with [step : HostState -> Ok HostState | Err | Panic] arbitrary. *)
From IBC Require Import Lib.Bytes IcaGmp.Gmp IcaGmp.IcaHost IcaGmp.IcaHostFacts.
Local Open Scope N_scope.

(** The allow-list rule of ContainsMsgType: "*" is a wildcard only as the single entry. *)
Theorem C37_allow_list_rule allow url :
  contains_msg_type allow url = true <-> allow = [star] \/ In url allow.
Proof. exact (contains_msg_type_spec allow url). Qed.
Print Assumptions C37_allow_list_rule.

(** Any state change caused by a packet: the acknowledgement is a success, every message type is on the
    allow list, every signer of every message is the interchain account registered for (first
    connection hop of the destination channel, packet source port), and the new state is exactly the
    fold of all message steps. *)
Theorem C37_state_change_requires_authorization (A : Type) h p :
  fst (host_recv A h p) <> h ->
  snd (host_recv A h p) = ROk /\
  exists msgs conn hops,
    hp_data p = Some (1, Some msgs) /\
    assoc2 (h_channels h) (hp_dst_port p) (hp_dst_chan p) = Some (conn :: hops, true) /\
    authorized A h conn (hp_src_port p) msgs /\
    run_msgs msgs h = MOk (fst (host_recv A h p)).
Proof. exact (host_recv_change A h p). Qed.
Print Assumptions C37_state_change_requires_authorization.

Theorem C37_success_characterised (A : Type) h p h' :
  host_recv A h p = (h', ROk) ->
  h_enabled h = true /\
  exists msgs conn hops,
    hp_data p = Some (1, Some msgs) /\
    assoc2 (h_channels h) (hp_dst_port p) (hp_dst_chan p) = Some (conn :: hops, true) /\
    authorized A h conn (hp_src_port p) msgs /\
    run_msgs msgs h = MOk h'.
Proof. exact (host_recv_ok A h p h'). Qed.
Print Assumptions C37_success_characterised.

(** All or nothing: an error acknowledgement (or a panic) commits nothing -- in particular when the k-th
    message fails or panics after the first k-1 succeeded, for every k and arbitrary message steps. *)
Theorem C37_atomic (A : Type) :
  (forall h p, snd (host_recv A h p) <> ROk -> fst (host_recv A h p) = h) /\
  (forall h p l1 m l2 ty,
     hp_data p = Some (ty, Some (l1 ++ m :: l2)) ->
     (run_msgs l1 h = MErr \/ run_msgs l1 h = MPanic \/
      exists h1, run_msgs l1 h = MOk h1 /\ forall h2, m_step m h1 <> MOk h2) ->
     fst (host_recv A h p) = h /\ snd (host_recv A h p) <> ROk).
Proof. exact (conj (host_recv_atomic A) (host_recv_failing_position A)). Qed.
Print Assumptions C37_atomic.

(** What the code does with zero-signer messages: the signer loop is empty, so a message without
    signers authenticates exactly when its type is allowed; and an empty message list executes as a
    successful no-op. *)
Theorem C37_zero_signer_messages (A : Type) :
  (forall allow ica (m : Msg (HostState A)),
     m_signers m = Some [] -> ica_auth_msg A allow ica m = contains_msg_type allow (m_url m)) /\
  (forall h p conn hops ica,
     h_enabled h = true -> hp_data p = Some (1, Some []) ->
     assoc2 (h_channels h) (hp_dst_port p) (hp_dst_chan p) = Some (conn :: hops, true) ->
     assoc2 (h_accounts h) conn (hp_src_port p) = Some ica ->
     host_recv A h p = (h, ROk)).
Proof. exact (conj (ica_auth_zero_signers A) (host_recv_empty_list A)). Qed.
Print Assumptions C37_zero_signer_messages.

(** non-vacuity: a two-message packet signed by the registered account executes both steps; with a
    foreign signer in second position nothing executes *)
Example C37_nonvacuous :
  let ica := B "ica" in
  let h := mkH true [star] [((B "connection-0", B "icacontroller-o"), ica)]
               [((B "icahost", B "channel-0"), ([B "connection-0"], true))] 10 in
  let step := fun (s : HostState N) => MOk (mkH (h_enabled s) (h_allow s) (h_accounts s) (h_channels s) (h_app s + 1)) in
  let good := mkMsg (B "/cosmos.bank.v1beta1.MsgSend") (Some [ica]) step in
  let bad := mkMsg (B "/cosmos.bank.v1beta1.MsgSend") (Some [B "mallory"]) step in
  let pkt ms := mkHP (B "icacontroller-o") (B "icahost") (B "channel-0") (Some (1, Some ms)) in
  snd (host_recv N h (pkt [good; good])) = ROk /\ h_app (fst (host_recv N h (pkt [good; good]))) = 12 /\
  snd (host_recv N h (pkt [good; bad])) = RErr /\ h_app (fst (host_recv N h (pkt [good; bad]))) = 10.
Proof. vm_compute. repeat split; congruence. Qed.
