(** C14 — Ordered-channel timeouts close the channel for further packet flow. *)
From IBC Require Import Core.ChainExamples.
From IBC Require Import Lib.Bytes Core.Height Core.Chain Core.ChainFacts Core.ChainInv Core.ChainThms.
Local Open Scope N_scope.

(** after a timeout callback (by MsgTimeout or MsgTimeoutOnClose) on a channel, in every later state of any
    history the end still exists and, if ORDERED, is CLOSED *)
Theorem C14_ordered_timeout_closes {A} (c : Chain A) hist p ch s :
  Inv c -> In (EvTimeout1 p ch s) (events (run c hist)) ->
  exists en, chans (run c hist) (p, ch) = Some en /\ (c_ord en = ORDERED -> c_state en = ST_CLOSED).
Proof. exact (ordered_timeout_closes c hist p ch s). Qed.
Print Assumptions C14_ordered_timeout_closes.

(** CLOSED is absorbing for the packet handlers *)
Theorem C14_closed_forever {A} (c : Chain A) hist k en :
  chans c k = Some en -> c_state en = ST_CLOSED ->
  exists en', chans (run c hist) k = Some en' /\ c_state en' = ST_CLOSED /\ c_ord en' = c_ord en.
Proof. exact (closed_is_forever c hist k en). Qed.
Print Assumptions C14_closed_forever.

(** on a CLOSED end no packet can be sent, received, acknowledged, or have an acknowledgement written
    (MsgTimeout / MsgTimeoutOnClose do not check the channel state, so other in-flight packets can still be
    timed out: see timeout1_tao in Core/Chain.v, which has no such guard) *)
Theorem C14_closed_blocks_packet_flow {A} (e : Env A) c p ch en :
  chans c (p, ch) = Some en -> c_state en = ST_CLOSED ->
  (forall th tmo data, snd (fst (send1 e c p ch th tmo data)) <> Ok) /\
  (forall pk ph r, p_dp pk = p -> p_dc pk = ch -> snd (msg_recv1 e c pk ph r) <> Ok) /\
  (forall pk a ph r, p_sp pk = p -> p_sc pk = ch -> snd (msg_ack1 e c pk a ph r) <> Ok) /\
  (forall pk a, p_dp pk = p -> p_dc pk = ch -> snd (async_ack1 c pk a) <> Ok).
Proof. exact (closed_blocks_packet_flow e c p ch en). Qed.
Print Assumptions C14_closed_blocks_packet_flow.

(** non-vacuity: a concrete state satisfies the invariant and a concrete 13-step history (duplicates, a failing
    application, an ORDERED timeout, multi-payload v2 receives) produces exactly the expected callbacks *)
Example C14_nonvacuous : Inv ex_chain /\ rkeys (events (run ex_chain ex_hist)) <> [] /\ tkeys (events (run ex_chain ex_hist)) <> [].
Proof. exact (conj ex_inv ex_nonempty). Qed.
