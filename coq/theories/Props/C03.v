(** C03 — At most one terminal outcome per sent packet. *)
From IBC Require Import Core.ChainExamples.
From IBC Require Import Lib.Bytes Core.Height Core.Chain Core.ChainFacts Core.ChainInv Core.ChainThms.
Local Open Scope N_scope.

(** Acknowledgement and timeout callbacks share one key per packet ((port, channel, sequence) for v1,
    (id, sequence, payload index) for v2): the list of those keys over any history has no duplicates, i.e. the
    sender sees at most one of {acknowledgement, timeout}, at most once. *)
Theorem C03_one_terminal_outcome {A} (c : Chain A) hist : Inv c -> NoDup (tkeys (events (run c hist))).
Proof. exact (terminal_at_most_once c hist). Qed.
Print Assumptions C03_one_terminal_outcome.

(** after either, the commitment is gone (and its sequence lies below the send counter, so it is never re-created) *)
Theorem C03_commitment_gone {A} (c : Chain A) hist k :
  Inv c -> In k (tkeys (events (run c hist))) -> finished (run c hist) k.
Proof. exact (terminal_implies_finished c hist k). Qed.
Print Assumptions C03_commitment_gone.

(** any further acknowledgement / timeout / timeout-on-close relay for that packet is not Ok; by
    C01_noop_changes_nothing it leaves the state untouched *)
Theorem C03_further_relays_not_ok {A} (e : Env A) c :
  (forall p, finished c (T1 (p_sp p) (p_sc p) (p_seq p)) ->
     (forall a ph r, snd (msg_ack1 e c p a ph r) <> Ok) /\
     (forall ph nsr r, snd (msg_timeout1 e c p ph nsr r) <> Ok) /\
     (forall ph nsr r, snd (msg_timeout_on_close1 e c p ph nsr r) <> Ok)) /\
  (forall q, com2 c (q_src q, q_seq q) = None ->
     (forall acks ph r, snd (msg_ack2 e c q acks ph r) <> Ok) /\ (forall ph r, snd (msg_timeout2 e c q ph r) <> Ok)).
Proof. exact (conj (after_terminal1_not_ok e c) (after_terminal2_not_ok e c)). Qed.
Print Assumptions C03_further_relays_not_ok.

Theorem C03_failed_relay_changes_nothing {A} (e : Env A) c o c' out : step e c o = (c', out) -> out <> Ok -> c' = c.
Proof. exact (step_not_ok_same e c o c' out). Qed.
Print Assumptions C03_failed_relay_changes_nothing.

(** non-vacuity: a concrete state satisfies the invariant and a concrete 13-step history (duplicates, a failing
    application, an ORDERED timeout, multi-payload v2 receives) produces exactly the expected callbacks *)
Example C03_nonvacuous : Inv ex_chain /\ rkeys (events (run ex_chain ex_hist)) <> [] /\ tkeys (events (run ex_chain ex_hist)) <> [].
Proof. exact (conj ex_inv ex_nonempty). Qed.
