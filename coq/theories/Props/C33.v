(** C33 — Vouchers can always return over their channel as the original token.
    Only statements closed by [exact]; proofs live in Denom/DenomFacts.v and Denom/TransferFacts.v.

    Full statement of the property: for EVERY base denomination the origin chain accepts (any SDK-valid denom,
    any '/' segments) the voucher can be sent back and the origin releases the native token. That statement
    is FALSE of the code (F5b): [C33_refuted]. What holds is the same statement guarded by [base_shape_safe]
    (equivalently: the one-hop voucher path parses back to the same (trace, base)): [C33_return], [C33_roundtrip]. *)
From IBC Require Import Lib.Bytes Lib.Sha256 Denom.Ident Denom.Denom Denom.DenomFacts Denom.Transfer Denom.TransferFacts.
Local Open Scope Z_scope.

(** denom_safe for a base behind a hop = "the path of hop·base parses back to the same (trace, base)"; for a hop
    whose channel identifier is in ibc-go format this is exactly the shape test: no '/' at all, or a second
    segment that is neither a channel nor a client identifier. *)
Theorem C33_safe_characterisation (hop : Hop) (base : bytes) :
  ~ In slash (h_port hop) -> ~ In slash (h_chan hop) -> is_hop_id (h_chan hop) = true ->
  (base_safe hop base = true <-> base_shape_safe base = true) /\
  (base_safe hop base = true <-> extract (path (mkDenom base [hop])) = mkDenom base [hop]).
Proof.
  exact (fun Hp Hc Hid => conj (conj (base_shape_safe_complete hop base Hp Hc Hid) (base_shape_safe_sound hop base Hp Hc Hid))
                               (denom_safe_eq (mkDenom base [hop]))).
Qed.
Print Assumptions C33_safe_characterisation.

(** every base without '/' is safe *)
Theorem C33_slashfree_safe (base : bytes) : ~ In slash base -> base_shape_safe base = true.
Proof. exact (slashfree_shape_safe base). Qed.
Print Assumptions C33_slashfree_safe.

(** The return leg from ANY state: B holds [back] of the voucher of a safe base received over (transfer, cb),
    A's escrow of (transfer, ca) covers it. Then B's MsgTransfer is accepted and burns the voucher, the packet
    denomination is "transfer/cb/base", and A's OnRecvPacket answers with a success acknowledgement and moves
    exactly [back] of [base] from escrow(transfer, ca) to the receiver. *)
Theorem C33_return (ca cb base : bytes) (back : Z) (A Bc : Chain) :
  good_chan cb -> base_shape_safe base = true -> sdk_valid_denom base = true -> is_blank base = false ->
  0 < back ->
  get_denom (c_denoms Bc) (denom_hash (the_voucher cb base)) = Some (the_voucher cb base) ->
  back <= bal (c_bank Bc) userB (ibc_denom (the_voucher cb base)) ->
  back <= bal (c_bank A) (EscrowOf transfer_port ca) base ->
  exists B' A',
    msg_transfer Bc cb userB (ibc_denom (the_voucher cb base)) back = Some (B', path (the_voucher cb base)) /\
    burn_from (c_bank Bc) userB (ibc_denom (the_voucher cb base)) back = Some (c_bank B') /\
    on_recv A transfer_port cb transfer_port ca (path (the_voucher cb base)) back userA = (A', true) /\
    send_coins (c_bank A) (EscrowOf transfer_port ca) userA base back = Some (c_bank A').
Proof. exact (return_leg ca cb base back A Bc). Qed.
Print Assumptions C33_return.

(** The whole trip A -> B -> A, the function the correspondence evaluates against the real chains: for every safe
    base the origin accepts, every amount and every partial return, both legs succeed and the balances are the
    expected ones (origin holder and escrow restored up to the part not returned, voucher gone likewise). *)
Theorem C33_roundtrip (ca cb base : bytes) (funds amt back : Z) :
  good_chan cb -> base_shape_safe base = true ->
  validate_ibc_denom base = true -> strip_prefix (B "ibc/") base = None ->
  0 < back <= amt -> amt <= funds ->
  roundtrip ca cb base funds amt back =
    mkTrip true true (ibc_denom (the_voucher cb base)) true true (back - amt) (amt - back) (amt - back).
Proof. exact (roundtrip_safe ca cb base funds amt back). Qed.
Print Assumptions C33_roundtrip.

(** F5b: the unguarded statement is false. `foo/channel-5`: the return MsgTransfer is rejected;
    `foo/channel-5/bar`: the return is relayed, the origin answers with an error acknowledgement, the voucher
    stays on B and the escrow stays locked on A. *)
Theorem C33_refuted :
  (exists ca cb base funds amt back,
     good_chan cb /\ validate_ibc_denom base = true /\ strip_prefix (B "ibc/") base = None /\
     0 < back <= amt /\ amt <= funds /\
     t_recv1 (roundtrip ca cb base funds amt back) = true /\
     t_recv2 (roundtrip ca cb base funds amt back) = false) /\
  (let t := roundtrip (B "channel-0") (B "channel-1") (B "foo/channel-5") 100 40 40 in
   validate_ibc_denom (B "foo/channel-5") = true /\ t_send1 t = true /\ t_recv1 t = true /\
   t_send2 t = false /\ (t_a_user t, t_a_escrow t, t_b_user t) = (-40, 40, 40)) /\
  (let t := roundtrip (B "channel-0") (B "channel-1") (B "foo/channel-5/bar") 100 40 40 in
   validate_ibc_denom (B "foo/channel-5/bar") = true /\ t_send1 t = true /\ t_recv1 t = true /\
   t_send2 t = true /\ t_recv2 t = false /\ (t_a_user t, t_a_escrow t, t_b_user t) = (-40, 40, 40)).
Proof. exact (conj roundtrip_refuted_ex roundtrip_refuted). Qed.
Print Assumptions C33_refuted.

(** non-vacuity: the guard admits slash-containing bases; the hypotheses of the theorems are met *)
Example C33_nonvacuous :
  base_shape_safe (B "uatom") = true /\ base_shape_safe (B "gamm/pool/1") = true /\
  base_shape_safe (B "factory/cosmos1xyz/sub") = true /\
  base_shape_safe (B "foo/channel-5") = false /\ base_shape_safe (B "foo/channel-5/bar") = false /\
  base_shape_safe (B "x/07-tendermint-3/y") = false.
Proof. exact safe_examples. Qed.
Example C33_nonvacuous_trip :
  good_chan (B "channel-7") /\
  roundtrip (B "channel-3") (B "channel-7") (B "gamm/pool/1") 100 40 25 =
    mkTrip true true (B "ibc/" ++ hex_upper (sha256 (B "transfer/channel-7/gamm/pool/1"))) true true (-15) 15 15.
Proof. split; [apply good_chan_of_validator; reflexivity|vm_compute; reflexivity]. Qed.
