(** C29 — Wasm client recovery never writes the substitute's store.
    Model: Clients/WasmStore.v (the same [step]/[run] that Corr/WasmStore.v evaluates on every harness history).
    Only statements closed by [exact]; proofs live in Clients/WasmStoreFacts.v. *)
From IBC Require Import Lib.Bytes Lib.BytesFacts Lib.BE64 Clients.WasmStore Clients.WasmStoreFacts.

(** Over every list of get/has/set/delete/iterator/reverse-iterator operations with arbitrary keys and
    values (including nil values and the operations that panic in the underlying store) the substitute
    store is the initial one after every single operation and at the end. *)
Theorem C29_substitute_never_changes st ops :
  Forall (fun r => subst (fst r) = subst st) (run st ops) /\ subst (final st ops) = subst st.
Proof. exact (conj (run_subst st ops) (final_subst st ops)). Qed.
Print Assumptions C29_substitute_never_changes.

(** A write or delete reaches the subject store iff the key carries the subject/ prefix, and it acts
    on the stripped key: (1) the positive direction with the exact post-state and what a later read sees,
    (2) any operation after which the subject store differs is such a Set/Delete with exactly that effect,
    (3) keys whose prefix is not subject/ (substitute/, unprefixed, mixed) never write. *)
Theorem C29_writes_land_in_subject_iff_subject_prefix :
  (forall st k v, k <> [] ->
     step st (OSet (subject_prefix ++ k) (Some v)) = (with_subj st (kv_set (subj st) k v), RUnit) /\
     kv_get (kv_set (subj st) k v) k = Some v /\
     (forall k0, k0 <> k -> kv_get (kv_set (subj st) k v) k0 = kv_get (subj st) k0)) /\
  (forall st k,
     step st (ODel (subject_prefix ++ k)) = (with_subj st (kv_del (subj st) k), RUnit) /\
     kv_get (kv_del (subj st) k) k = None /\
     (forall k0, k0 <> k -> kv_get (kv_del (subj st) k) k0 = kv_get (subj st) k0)) /\
  (forall st op, subj (fst (step st op)) <> subj st ->
     exists k, (exists v, op = OSet (subject_prefix ++ k) (Some v) /\ k <> [] /\
                          subj (fst (step st op)) = kv_set (subj st) k v)
               \/ (op = ODel (subject_prefix ++ k) /\ subj (fst (step st op)) = kv_del (subj st) k)) /\
  (forall st k v, fst (split_prefix k) <> PSubject ->
     step st (OSet k v) = (st, RUnit) /\ step st (ODel k) = (st, RUnit)).
Proof.
  exact (conj (fun st k v Hk => conj (step_set_subject st k v Hk)
                 (conj (kv_get_set_same (subj st) k v) (fun k0 => kv_get_set_other (subj st) k v k0)))
        (conj (fun st k => conj (step_del_subject st k)
                 (conj (kv_get_del_same (subj st) k) (fun k0 => kv_get_del_other (subj st) k k0)))
        (conj step_subj_changed step_write_not_subject))).
Qed.
Print Assumptions C29_writes_land_in_subject_iff_subject_prefix.

(** Reads are routed by the prefix: subject/k reads the subject store at k, substitute/k the substitute
    store at k, and a range whose two ends carry the same prefix iterates that store over the stripped
    range (ascending / descending), the result containing exactly the entries with start <= key < end. *)
Theorem C29_reads_routed_by_prefix st :
  (forall k, step st (OGet (subject_prefix ++ k)) = (st, RGet (kv_get (subj st) k))) /\
  (forall k, step st (OGet (substitute_prefix ++ k)) = (st, RGet (kv_get (subst st) k))) /\
  (forall k, step st (OHas (subject_prefix ++ k)) =
             (st, RHas (match kv_get (subj st) k with Some _ => true | None => false end))) /\
  (forall k, step st (OHas (substitute_prefix ++ k)) =
             (st, RHas (match kv_get (subst st) k with Some _ => true | None => false end))) /\
  (forall s e, step st (OIter (subject_prefix ++ s) (subject_prefix ++ e)) = (st, RIter (kv_iter (subj st) s e)) /\
               step st (ORIter (subject_prefix ++ s) (subject_prefix ++ e)) = (st, RIter (kv_riter (subj st) s e))) /\
  (forall s e, step st (OIter (substitute_prefix ++ s) (substitute_prefix ++ e)) = (st, RIter (kv_iter (subst st) s e)) /\
               step st (ORIter (substitute_prefix ++ s) (substitute_prefix ++ e)) = (st, RIter (kv_riter (subst st) s e))) /\
  (forall m s e k v, (In (k, v) (kv_iter m s e) <-> In (k, v) m /\ bytes_cmp s k <> Gt /\ bytes_cmp k e = Lt) /\
                     (In (k, v) (kv_riter m s e) <-> In (k, v) (kv_iter m s e))).
Proof.
  exact (conj (step_get_subject st) (conj (step_get_substitute st) (conj (step_has_subject st)
        (conj (step_has_substitute st) (conj (step_iter_subject st) (conj (step_iter_substitute st)
        (fun m s e k v => conj (kv_iter_in m s e k v) (kv_riter_in m s e k v)))))))).
Qed.
Print Assumptions C29_reads_routed_by_prefix.

(** Keys that carry neither prefix read as absent and write nothing; iteration ranges whose ends do not
    carry one and the same prefix (unprefixed, or subject/ on one end and substitute/ on the other) read
    as empty; conversely a non-empty iteration result implies both ends carry the same store prefix. *)
Theorem C29_inconsistent_prefix_reads_empty st :
  (forall k, unprefixed k ->
     step st (OGet k) = (st, RGet None) /\ step st (OHas k) = (st, RHas false) /\
     (forall v, step st (OSet k v) = (st, RUnit)) /\ step st (ODel k) = (st, RUnit)) /\
  (forall s e, fst (split_prefix s) <> fst (split_prefix e) \/ fst (split_prefix s) = PNone ->
     step st (OIter s e) = (st, RIter []) /\ step st (ORIter s e) = (st, RIter [])) /\
  (forall s e l, (step st (OIter s e) = (st, RIter l) \/ step st (ORIter s e) = (st, RIter l)) -> l <> [] ->
     exists s' e', (s = subject_prefix ++ s' /\ e = subject_prefix ++ e') \/
                   (s = substitute_prefix ++ s' /\ e = substitute_prefix ++ e')) /\
  (forall k, fst (split_prefix k) = PNone <-> unprefixed k).
Proof.
  exact (conj (step_unprefixed_key st) (conj (step_inconsistent_range st)
        (conj (step_iter_nonempty st) split_none_iff))).
Qed.
Print Assumptions C29_inconsistent_prefix_reads_empty.

(** Reads never panic and never change either store; the only panics are Set on subject/ with an empty
    stripped key or a nil value (the underlying store's AssertValidKey/AssertValidValue), and they change nothing. *)
Theorem C29_reads_pure_and_panics_harmless st op :
  match op with OSet _ _ | ODel _ => True | _ => fst (step st op) = st /\ snd (step st op) <> RPanic end /\
  (snd (step st op) = RPanic ->
   fst (step st op) = st /\ exists k v, op = OSet (subject_prefix ++ k) v /\ (k = [] \/ v = None)).
Proof. exact (conj (step_read_pure st op) (step_panic st op)). Qed.
Print Assumptions C29_reads_pure_and_panics_harmless.

(** non-vacuity: a concrete history with writes to all key classes; the substitute store is intact, the
    subject store received exactly the subject/-prefixed write, and the inconsistent ranges read empty
    even though the subject store holds a key in [0x00,0x01) (the shape of the fixed finding F7). *)
Example C29_nonvacuous :
  let st := mkSt [(hx "000361", B "s")] [(B "k", B "v")] in
  let ops := [OSet (B "subject/a") (Some (B "1")); OSet (B "substitute/k") (Some (B "2")); OSet (B "a") (Some (B "3"));
              OSet (B "substitute/subject/a") (Some (B "4")); ODel (B "substitute/k");
              OIter (B "foo") (B "bar"); OIter (B "subject/") (B "substitute/z"); OGet (B "substitute/k");
              OIter (B "subject/") (B "subject/z")] in
  final st ops = mkSt [(hx "000361", B "s"); (B "a", B "1")] [(B "k", B "v")] /\
  map snd (run st ops) = [RUnit; RUnit; RUnit; RUnit; RUnit; RIter []; RIter []; RGet (Some (B "v"));
                          RIter [(hx "000361", B "s"); (B "a", B "1")]].
Proof. vm_compute. auto. Qed.
