(** C32 — failed transfers refund exactly the sent amount, exactly once.  Statements only; proofs in
    Transfer/RefundFacts.v (exactness, once) and Transfer/RefundLive.v (the refund cannot fail).  [dbal w w' c a x] etc. = change of balance / supply / tracked escrow between two worlds. *)
From IBC Require Import Lib.Bytes Transfer.DenomLocal Transfer.Bank Transfer.Keeper Transfer.World
  Transfer.BankFacts Transfer.WorldFacts Transfer.AuthFacts Transfer.EscrowFacts Transfer.ConserveFacts
  Transfer.RefundFacts Transfer.Examples Transfer.RefundLive.
Local Open Scope Z_scope.

(** [os] is a successful send (MsgTransfer v1 / alias, or a direct v2 send) creating packet n, of a native or a
    voucher denomination; [ops] is any later history on any number of chains; [o_r] processes the timeout of
    packet n or its acknowledgement while the packet was not successfully received, and goes through.  Then on
    every chain, for every account and denomination, the refund step changes balance, supply and tracked escrow
    by exactly the opposite of what the send changed: the sender is back to the pre-send balance of the original
    denomination, every other account and the supply are back, nothing else moves.
    Guard [safe_op]: a native denomination parses back as native (complement = finding F5a). *)
Theorem C32_refund_exact w0 os ops o_r r :
  Good w0 -> safe_op os ->
  let n := List.length (w_pk w0) in
  let w1 := step_w w0 os in
  let w := run w1 ops in
  let w' := step_w w o_r in
  List.length (w_pk w1) = S n ->
  (o_r = OTimeout n r true \/ o_r = OAck n r) ->
  (forall q, nth_error (w_pk w) n = Some q -> ps_recv q <> Some true) ->
  w' <> w ->
  forall c a x,
    dbal w w' c a x = - dbal w0 w1 c a x /\ dsup w w' c x = - dsup w0 w1 c x /\ dtesc w w' c x = - dtesc w0 w1 c x.
Proof. exact (refund_exact w0 os ops o_r r). Qed.
Print Assumptions C32_refund_exact.

(** The refund goes through: in every world reached from a fresh one (nothing transferred yet, supplies >= 0) by
    safe, plain operations — any number of chains, any topology — the step processing the timeout of an in-flight,
    not received packet, or the acknowledgement of an in-flight packet whose receive produced an error ack, returns
    Ok and clears the commitment.  It either mints (the module account holds what was just minted) or unescrows an
    amount that escrow(channel) holds because the packet's amount is one of the non-negative summands of the
    conservation identity (C30); the tracked total covers it as well (C31), so SetTotalEscrowForDenom does not panic.
    Together with C32_refund_exact ([w' <> w] is now a consequence) the sender is refunded exactly. *)
Theorem C32_refund_cannot_fail w0 ops n p r o :
  links_ok (w_links w0) -> Fresh w0 -> (forall c x, 0 <= sup (bank (w_ch w0 c)) x) -> ok_ops w0 ops ->
  let w := run w0 ops in
  nth_error (w_pk w) n = Some p -> ps_committed p = true ->
  ((o = OTimeout n r true /\ ps_recv p = None) \/ (o = OAck n r /\ ps_recv p = Some false)) ->
  snd (fst (step w o)) = OOk /\
  exists q, nth_error (w_pk (step_w w o)) n = Some q /\ ps_committed q = false.
Proof. exact (refund_cannot_fail_fresh w0 ops n p r o). Qed.
Print Assumptions C32_refund_cannot_fail.

(** the same from any world satisfying the invariants ([Sound] = Good, Conserve, non-negative balances and
    supplies, tracked total = escrow balances), which every safe, plain step preserves *)
Theorem C32_refund_cannot_fail_inv w chans n p r o :
  Sound w chans -> nth_error (w_pk w) n = Some p -> ps_committed p = true ->
  ((o = OTimeout n r true /\ ps_recv p = None) \/ (o = OAck n r /\ ps_recv p = Some false)) ->
  snd (fst (step w o)) = OOk /\
  exists q, nth_error (w_pk (step_w w o)) n = Some q /\ ps_committed q = false.
Proof. exact (refund_cannot_fail w chans n p r o). Qed.
Print Assumptions C32_refund_cannot_fail_inv.

Theorem C32_sound_preserved w chans o :
  Sound w chans -> safe_op o -> plain_op w o -> Sound (step_w w o) chans.
Proof. exact (sound_step w chans o). Qed.
Print Assumptions C32_sound_preserved.

(** exactly once: after the terminal outcome, further acknowledgements / timeouts of the packet are no-ops,
    in every later world (the cleared commitment never comes back) *)
Theorem C32_exactly_once w n p o r el :
  nth_error (w_pk w) n = Some p -> ps_committed p = false ->
  (o = OAck n r \/ o = OTimeout n r el) -> step_w w o = w.
Proof. exact (terminal_once w n p o r el). Qed.
Print Assumptions C32_exactly_once.

Theorem C32_commitment_stays_cleared w ops n p :
  nth_error (w_pk w) n = Some p ->
  exists q, nth_error (w_pk (run w ops)) n = Some q /\ static_eq p q /\
            (ps_committed p = false -> ps_committed q = false).
Proof. exact (pk_stable_run w ops n p). Qed.
Print Assumptions C32_commitment_stays_cleared.

(** a success acknowledgement changes no balance, supply or escrow total on any chain *)
Theorem C32_success_ack_changes_nothing w n p r :
  nth_error (w_pk w) n = Some p -> ps_recv p = Some true ->
  forall c a x, dbal w (step_w w (OAck n r)) c a x = 0 /\ dsup w (step_w w (OAck n r)) c x = 0 /\
                dtesc w (step_w w (OAck n r)) c x = 0.
Proof. exact (success_ack_no_change w n p r). Qed.
Print Assumptions C32_success_ack_changes_nothing.

(** The unguarded statement is false of the code (finding F5a, the numbers of the real replay scaled to 1000/100):
    the sender has 1000 transfer/channel-1/stake, sends 100 over (transfer, channel-1): 900 left, escrow 100.
    The timeout is processed, yet the sender still has 900, the escrow keeps 100, and the sender is minted 100 of
    the voucher ibc/hash("transfer/channel-1/stake"). *)
Theorem C32_refuted :
  let w1 := step_w ex_world send_f5a in
  let w2 := step_w w1 (OTimeout 0 (User 3) true) in
  w2 <> w1 /\
  bal (bank (w_ch ex_world 0%N)) u0 (CNat f5a_name) = 1000 /\
  bal (bank (w_ch w1 0%N)) u0 (CNat f5a_name) = 900 /\
  bal (bank (w_ch w1 0%N)) (Escrow (B "channel-1")) (CNat f5a_name) = 100 /\
  bal (bank (w_ch w2 0%N)) u0 (CNat f5a_name) = 900 /\
  bal (bank (w_ch w2 0%N)) (Escrow (B "channel-1")) (CNat f5a_name) = 100 /\
  bal (bank (w_ch w2 0%N)) u0 (CIbc f5a_name) = 100 /\
  sup (bank (w_ch w2 0%N)) (CIbc f5a_name) = 100 /\
  tesc (w_ch w2 0%N) (CNat f5a_name) = 100.
Proof. exact f5a_refund_not_exact. Qed.
Print Assumptions C32_refuted.

(** non-vacuity: in the example history packet 3 (100 uatom, native) is sent and timed out, packet 2 (a voucher)
    gets an error ack: balances return *)
Example C32_nonvacuous :
  Good ex_world /\ safe_op send_uatom /\
  bal (bank (w_ch (run ex_world ex_ops) 0%N)) u0 (CNat (B "uatom")) = 900 /\
  bal (bank (w_ch (run ex_world (firstn 10 ex_ops)) 0%N)) u0 (CNat (B "uatom")) = 800 /\
  bal (bank (w_ch (run ex_world (firstn 6 ex_ops)) 2%N)) (User 9) (CIbc (B "transfer/channel-4/transfer/channel-2/uatom")) = 25 /\
  sup (bank (w_ch (run ex_world (firstn 6 ex_ops)) 2%N)) (CIbc (B "transfer/channel-4/transfer/channel-2/uatom")) = 25 /\
  bal (bank (w_ch (run ex_world ex_ops) 2%N)) (User 9) (CIbc (B "transfer/channel-4/transfer/channel-2/uatom")) = 40 /\
  sup (bank (w_ch (run ex_world ex_ops) 2%N)) (CIbc (B "transfer/channel-4/transfer/channel-2/uatom")) = 40.
Proof. split; [exact ex_good|]. split; [reflexivity|]. vm_compute. auto 10. Qed.

(** non-vacuity of the liveness theorem: the example world and the first ten operations of the example history meet
    its hypotheses and leave packet 3 in flight *)
Example C32_liveness_nonvacuous :
  links_ok (w_links ex_world) /\ Fresh ex_world /\ (forall c x, 0 <= sup (bank (w_ch ex_world c)) x) /\
  ok_ops ex_world (firstn 10 ex_ops) /\
  exists p, nth_error (w_pk (run ex_world (firstn 10 ex_ops))) 3 = Some p /\ ps_committed p = true /\ ps_recv p = None.
Proof. exact (conj ex_links_ok (conj ex_fresh (conj ex_sup_nonneg (conj ex_prefix_ok ex_packet3_in_flight)))). Qed.
