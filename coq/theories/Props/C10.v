(** C10 — IBC v2 multi-payload receives are all-or-nothing. *)
From IBC Require Import Core.ChainExamples.
From IBC Require Import Lib.Bytes Core.Height Core.Chain Core.ChainFacts Core.ChainInv Core.ChainV2Thms.
Local Open Scope N_scope.

(** For any number of payloads and arbitrary per-payload application callbacks ([e_recv2], threading the
    application state): the receipt is written; if some payload fails no application state persists and the
    acknowledgement is exactly the single sentinel; otherwise all payloads' state changes persist, no app
    acknowledgement equals the sentinel, and either the only payload went asynchronous (packet stored, no
    acknowledgement written) or the acknowledgement holds one app acknowledgement per payload in order. *)
Theorem C10_all_or_nothing {A} (e : Env A) c q ph r c' :
  msg_recv2 e c q ph r = (c', Ok) ->
  let res := snd (thread_payloads e q r (app c) (q_pay q)) in
  rcpt2 c' (q_dst q, q_seq q) = true /\
  if any_failure res
  then app c' = app c /\ ackc2 c' (q_dst q, q_seq q) = Some [sentinel] /\ asyn2 c' (q_dst q, q_seq q) = asyn2 c (q_dst q, q_seq q)
  else app c' = fst (thread_payloads e q r (app c) (q_pay q)) /\ Forall (fun x => snd x <> sentinel) res /\
       if any_async res
       then (length (q_pay q) <= 1)%nat /\ asyn2 c' (q_dst q, q_seq q) = Some q /\
            ackc2 c' (q_dst q, q_seq q) = ackc2 c (q_dst q, q_seq q)
       else ackc2 c' (q_dst q, q_seq q) = Some (map snd res) /\ length (map snd res) = length (q_pay q).
Proof. exact (recv2_all_or_nothing e c q ph r c'). Qed.
Print Assumptions C10_all_or_nothing.

(** an acknowledgement list that is written is valid: the sentinel only as the single element *)
Theorem C10_written_ack_valid {A} (c : Chain A) q acks c' :
  write_ack2 c q acks = (c', Ok) ->
  ack2_valid acks = true /\ (ack2_success acks = true -> length acks = length (q_pay q)).
Proof. exact (fun H => let '(conj a (conj b _)) := write_ack2_ok c q acks c' H in conj a b). Qed.
Print Assumptions C10_written_ack_valid.

(** non-vacuity: a concrete state satisfies the invariant and a concrete 13-step history (duplicates, a failing
    application, an ORDERED timeout, multi-payload v2 receives) produces exactly the expected callbacks *)
Example C10_nonvacuous : Inv ex_chain /\ rkeys (events (run ex_chain ex_hist)) <> [] /\ tkeys (events (run ex_chain ex_hist)) <> [].
Proof. exact (conj ex_inv ex_nonempty). Qed.
