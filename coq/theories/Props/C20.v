(** C20 — Tendermint consensus states are never overwritten.
    Only statements closed by [exact]; proofs live in TmStore/ClientFacts.v.  Model: TmStore/Client.v
    (02-client keeper UpdateClient: status gate, VerifyClientMessage, CheckForMisbehaviour before UpdateState;
    07-tendermint UpdateState with pruning and the duplicate check; recover; upgrade; prune-all), replayed by
    Corr/TmStore.v.  Header / misbehaviour / upgrade-proof verification are arbitrary oracles [ho], [mo], [uo]. *)
From IBC Require Import Lib.Bytes Lib.Dec Lib.BE64 Core.Height Core.HeightFacts
  TmStore.KV TmStore.KVFacts TmStore.Store TmStore.KeysFacts TmStore.StoreFacts TmStore.Client TmStore.ClientFacts.
Local Open Scope N_scope.

Local Notation HO := (ClientSt -> ConsState -> Hdr -> Ctx -> bool).
Local Notation MO := (ClientSt -> ConsState -> ConsState -> Misb -> Ctx -> bool).
Local Notation UO := (ClientSt -> ConsState -> Upg -> bool).

(** One operation (update with any header — duplicate, conflicting, past height —, misbehaviour, recovery,
    upgrade, prune, prune-all): a stored consensus state keeps its value, or it is gone and it was expired
    (its timestamp + trusting period <= block time) at that moment. *)
Theorem C20_step_never_overwrites (ho : HO) (mo : MO) (uo : UO) s c o h cs :
  Inv s -> ctx_wf c -> op_wf o -> h64 h -> get_cons s h = Some cs ->
  get_cons (snd (step ho mo uo s c o)) h = Some cs \/
  (get_cons (snd (step ho mo uo s c o)) h = None /\
   exists cl, get_client s = Some cl /\ expired (cl_tp cl) (c_ts cs) (now c) = true).
Proof. exact (step_cons_preserved ho mo uo s c o h cs). Qed.
Print Assumptions C20_step_never_overwrites.

(** All operation lists: the consensus state stored for a height is still there unchanged at the end, or there
    is a step of the history before which it was still stored unchanged and which removed it, and at that step
    it was expired. *)
Theorem C20_never_overwritten (ho : HO) (mo : MO) (uo : UO) ops s h cs :
  Inv s -> ops_wf ops -> h64 h -> get_cons s h = Some cs ->
  get_cons (run ho mo uo s ops) h = Some cs \/
  exists ops1 c o ops2 cl, ops = ops1 ++ (c, o) :: ops2 /\
    get_cons (run ho mo uo s ops1) h = Some cs /\ get_cons (snd (step ho mo uo (run ho mo uo s ops1) c o)) h = None /\
    get_client (run ho mo uo s ops1) = Some cl /\ expired (cl_tp cl) (c_ts cs) (now c) = true.
Proof. exact (run_cons_preserved ho mo uo ops s h cs). Qed.
Print Assumptions C20_never_overwritten.

(** Resubmitting a stored header is a no-op for that height: the message succeeds, the resulting store is the
    pruning step's result, and the height's consensus state, processed time, processed height and iteration
    entry are all exactly as before (the pruned height, if any, is a different one). *)
Theorem C20_duplicate_header_is_noop (ho : HO) (mo : MO) (uo : UO) s c cl hd :
  Inv s -> h64 (hd_height hd) -> get_client s = Some cl -> status s c = Active ->
  verify_header ho s cl hd c = true ->
  get_cons s (hd_height hd) = Some (hdr_cons hd) ->
  exists s1, prune_oldest s (cl_tp cl) (now c) = ROk s1 /\ step ho mo uo s c (OUpdate (MHeader hd)) = (Ok, s1) /\
    (forall K, kv_get s1 (hkey K (hd_height hd)) = kv_get s (hkey K (hd_height hd))) /\
    get_client s1 = Some cl.
Proof. exact (duplicate_header_noop ho mo uo s c cl hd). Qed.
Print Assumptions C20_duplicate_header_is_noop.

(** A verified header for a stored height with a different consensus state freezes the client instead of
    overwriting: the result is exactly "client state with FrozenHeight set" ... *)
Theorem C20_conflicting_header_freezes (ho : HO) (mo : MO) (uo : UO) s c cl hd cs :
  get_client s = Some cl -> status s c = Active -> verify_header ho s cl hd c = true ->
  get_cons s (hd_height hd) = Some cs -> cs <> hdr_cons hd ->
  step ho mo uo s c (OUpdate (MHeader hd)) = (Ok, freeze s cl).
Proof. exact (conflicting_header_freezes ho mo uo s c cl hd cs). Qed.
Print Assumptions C20_conflicting_header_freezes.

(** ... and freezing changes nothing but the client state's frozen flag. *)
Theorem C20_freeze_changes_only_the_flag s cl :
  get_client (freeze s cl) = Some (mkClient (cl_latest cl) true (cl_tp cl)) /\
  (forall k, k <> client_key -> kv_get (freeze s cl) k = kv_get s k) /\
  (forall h, get_cons (freeze s cl) h = get_cons s h).
Proof. exact (freeze_frame s cl). Qed.
Print Assumptions C20_freeze_changes_only_the_flag.

(** A Misbehaviour message (valid or not) leaves the store untouched or freezes the client; it never writes a
    consensus state. *)
Theorem C20_misbehaviour_only_freezes (ho : HO) (mo : MO) (uo : UO) s c mb :
  snd (step ho mo uo s c (OUpdate (MMisb mb))) = s \/
  exists cl, get_client s = Some cl /\ snd (step ho mo uo s c (OUpdate (MMisb mb))) = freeze s cl.
Proof. exact (misbehaviour_msg_effect ho mo uo s c mb). Qed.
Print Assumptions C20_misbehaviour_only_freezes.

(** non-vacuity: duplicate = no-op, conflict = frozen, on a concrete client *)
Example C20_nonvacuous :
  let yes := fun (_ : ClientSt) (_ : ConsState) (_ : Hdr) (_ : Ctx) => true in
  let mo := fun (_ : ClientSt) (_ _ : ConsState) (_ : Misb) (_ : Ctx) => true in
  let uo := fun (_ : ClientSt) (_ : ConsState) (_ : Upg) => true in
  let c := mkCtx 1000 (mkH 0 7) in
  let s0 := initialize [] c (mkClient (mkH 1 5) false 500) (mkCons 900 (B "r5") (B "v")) in
  let s1 := run yes mo uo s0 [(c, OUpdate (MHeader (mkHdr (mkH 1 9) (mkH 1 5) 950 (B "a") (B "v") 0)))] in
  get_cons s1 (mkH 1 9) = Some (mkCons 950 (B "a") (B "v")) /\
  step yes mo uo s1 (mkCtx 1001 (mkH 0 8)) (OUpdate (MHeader (mkHdr (mkH 1 9) (mkH 1 5) 950 (B "a") (B "v") 0))) = (Ok, s1) /\
  option_map cl_frozen (get_client (snd (step yes mo uo s1 c (OUpdate (MHeader (mkHdr (mkH 1 9) (mkH 1 5) 950 (B "X") (B "v") 0)))))) = Some true /\
  get_cons (snd (step yes mo uo s1 c (OUpdate (MHeader (mkHdr (mkH 1 9) (mkH 1 5) 950 (B "X") (B "v") 0))))) (mkH 1 9) = Some (mkCons 950 (B "a") (B "v")).
Proof. vm_compute. repeat split; reflexivity. Qed.
