(** C08 — Sends allocate consecutive sequences and respect send-time guards. *)
From IBC Require Import Core.ChainExamples.
From IBC Require Import Lib.Bytes Core.Height Core.Chain Core.ChainFacts Core.ChainInv Core.ChainThms.
Local Open Scope N_scope.

(** One counter per channel id / client id (hostv2.NextSequenceSendKey), shared by v1 sends on the channel and
    v2 sends on its alias.  In any step: a successful send on [id] returns the counter's value and moves it to
    exactly value + 1; every other step (including every failed send) leaves it as it is.  By induction the
    successful sends on an id return n0, n0+1, n0+2, ... in order, whatever is interleaved. *)
Theorem C08_send_allocates_next {A} (e : Env A) c o c' id n :
  nsend c id = Some n -> step e c o = (c', Ok) ->
  match o with
  | OSend1 port chan th tmo data =>
      if chan =? id then snd (send1 e c port chan th tmo data) = n /\ nsend c' id = Some (n + 1)
      else nsend c' id = Some n
  | OSend2 src tmo pay sg =>
      if src =? id then snd (msg_send2 e c src tmo pay sg) = n /\ nsend c' id = Some (n + 1)
      else nsend c' id = Some n
  | _ => nsend c' id = Some n
  end.
Proof. exact (send_allocates_next e c o c' id n). Qed.
Print Assumptions C08_send_allocates_next.

(** a successful v1 send passed every guard and wrote exactly: the counter and one commitment at its own key *)
Theorem C08_send1_guards_and_effect {A} (e : Env A) c port chan th tmo data c' seq :
  send1 e c port chan th tmo data = (c', Ok, seq) ->
  exists ch k lts,
    chans c (port, chan) = Some ch /\ c_state ch = ST_OPEN /\ nsend c chan = Some seq /\
    seq <> 0 /\ timeout_is_valid (mkT th tmo) = true /\ data <> 0 /\
    conns c (c_conn ch) = Some k /\ e_active e (k_client k) = true /\
    h_is_zero (e_latest e (k_client k)) = false /\
    e_ts e (k_client k) (e_latest e (k_client k)) = Some lts /\
    elapsed (mkT th tmo) (e_latest e (k_client k)) lts = false /\
    c' = set_com1 (set_nsend c (upd N.eqb (nsend c) chan (Some (seq + 1))))
           (upd k3_eqb (com1 c) (port, chan, seq)
              (Some (commit1 (mkP1 seq port chan (c_cp_port ch) (c_cp_chan ch) data th tmo)))).
Proof. exact (send1_ok e c port chan th tmo data c' seq). Qed.
Print Assumptions C08_send1_guards_and_effect.

(** v2: counterparty registered, timeout (seconds, as int64) strictly after block time and at most
    MaxTimeoutDelta ahead, client (alias-resolved) Active with non-zero height, and the latest consensus
    time in whole seconds strictly before the timeout *)
Theorem C08_send2_guards_and_effect {A} (e : Env A) c src tmo pay c' seq dst :
  send2_tao e c src tmo pay = (c', Ok, seq, dst) ->
  cparty c src = Some dst /\ nsend c src = Some seq /\
  (Z.of_N (self_t c) < to_int64 tmo * 1000000000)%Z /\
  (to_int64 tmo * 1000000000 <= Z.of_N (self_t c) + max_timeout_delta_ns)%Z /\
  packet2_valid (mkP2 seq src dst tmo pay) = true /\
  e_active e (base_client c src) = true /\ h_is_zero (e_latest e (base_client c src)) = false /\
  (exists lts, e_ts e (base_client c src) (e_latest e (base_client c src)) = Some lts /\ ns_to_s lts < tmo) /\
  c' = set_com2 (set_nsend c (upd N.eqb (nsend c) src (Some (seq + 1))))
         (upd ks_eqb (com2 c) (src, seq) (Some (commit2 (mkP2 seq src dst tmo pay)))).
Proof. exact (send2_tao_ok e c src tmo pay c' seq dst). Qed.
Print Assumptions C08_send2_guards_and_effect.

(** a rejected send changes nothing *)
Theorem C08_rejected_send_changes_nothing {A} (e : Env A) c o c' out : step e c o = (c', out) -> out <> Ok -> c' = c.
Proof. exact (step_not_ok_same e c o c' out). Qed.
Print Assumptions C08_rejected_send_changes_nothing.

(** every commitment in a reachable state lies strictly below its id's counter (so sequences start at the
    initial counter value, 1 after a handshake, and never collide) *)
Theorem C08_commitments_below_counter {A} (c : Chain A) hist :
  Inv c ->
  (forall p ch s v, com1 (run c hist) (p, ch, s) = Some v -> exists n, nsend (run c hist) ch = Some n /\ s < n) /\
  (forall id s v, com2 (run c hist) (id, s) = Some v -> exists n, nsend (run c hist) id = Some n /\ s < n).
Proof. exact (fun I => let J := inv_run c hist I in conj (i_com1 _ J) (i_com2 _ J)). Qed.
Print Assumptions C08_commitments_below_counter.

(** non-vacuity: a concrete state satisfies the invariant and a concrete 13-step history (duplicates, a failing
    application, an ORDERED timeout, multi-payload v2 receives) produces exactly the expected callbacks *)
Example C08_nonvacuous : Inv ex_chain /\ rkeys (events (run ex_chain ex_hist)) <> [] /\ tkeys (events (run ex_chain ex_hist)) <> [].
Proof. exact (conj ex_inv ex_nonempty). Qed.
