(** C25 — Client recovery and upgrade are gated and touch only the subject.
    Statements only; proofs are in TmVerify/WorldFacts.v (model: TmVerify/World.v, re-computed on every
    `tmverify` harness history). *)
From IBC Require Import Lib.Bytes Lib.Dec Core.Height Core.HeightFacts TmVerify.Util TmVerify.World TmVerify.WorldFacts TmVerify.Writes.
Local Open Scope N_scope.

(** RecoverClient returns Ok only if subject and substitute are both tendermint clients, the subject is not
    Active, the substitute is Active, the substitute's latest height is strictly greater, and the parameters
    match; the new world differs from the old one exactly by the recovered subject. *)
Theorem C25_recover_gates w a b w' :
  recover_client w a b = (w', Ok) ->
  exists c s e pt ph,
    get_client w a = Some (Tm c) /\ get_client w b = Some (Tm s) /\
    status (w_now w) c <> Active /\ status (w_now w) s = Active /\
    lex_lt (c_latest c) (c_latest s) /\ is_matching c s = true /\
    hlookup (c_latest s) (c_cons s) = Some e /\ cs_ptime e = Some pt /\ cs_pheight e = Some ph /\
    w' = set_client w a (recovered c s e).
Proof. exact (recover_ok_inv w a b w'). Qed.
Print Assumptions C25_recover_gates.

(** IsMatchingClientState compares exactly trust level, unbonding period, max clock drift, proof specs and
    upgrade path (latest height, frozen height, trusting period, chain id and the deprecated flags are
    overwritten before the comparison). *)
Theorem C25_matching_fields a b :
  is_matching a b = true <->
  c_tl_num a = c_tl_num b /\ c_tl_den a = c_tl_den b /\ c_unbonding a = c_unbonding b /\
  c_drift a = c_drift b /\ c_specs a = c_specs b /\ c_upath a = c_upath b.
Proof. exact (is_matching_iff a b). Qed.
Print Assumptions C25_matching_fields.

(** Post-state of a successful recovery: unfrozen, substitute's latest height, the substitute's latest
    consensus state with its metadata copied, every other consensus state of the subject untouched, chain id
    and trusting period taken from the substitute, all other parameters kept, the subject is Active again;
    no other client (in particular the substitute) and nothing else in the world changes. *)
Theorem C25_recover_post w a b w' :
  recover_client w a b = (w', Ok) ->
  exists c s e c',
    get_client w a = Some (Tm c) /\ get_client w b = Some (Tm s) /\ a <> b /\
    get_client w' a = Some (Tm c') /\
    c_frozen c' = zero_height /\ c_latest c' = c_latest s /\
    hlookup (c_latest s) (c_cons s) = Some e /\ hlookup (c_latest s) (c_cons c') = Some e /\
    (forall h, h <> c_latest s -> hlookup h (c_cons c') = hlookup h (c_cons c)) /\
    c_chain c' = c_chain s /\ c_trusting c' = c_trusting s /\
    c_tl_num c' = c_tl_num c /\ c_tl_den c' = c_tl_den c /\ c_unbonding c' = c_unbonding c /\
    c_drift c' = c_drift c /\ c_specs c' = c_specs c /\ c_upath c' = c_upath c /\
    status (w_now w') c' = Active /\
    (forall cid, cid <> a -> get_client w' cid = get_client w cid) /\
    w_now w' = w_now w /\ w_self w' = w_self w.
Proof. exact (recover_post w a b w'). Qed.
Print Assumptions C25_recover_post.

(** UpgradeClient returns Ok only if the client is Active, the upgraded height is strictly greater, an upgrade
    path is set, and both proofs verify — under the paths constructed from the client's own upgrade path and
    latest height, against the root of its latest consensus state, for the zeroed upgraded client and the
    upgraded consensus state — for every proof verifier [vmem] and encoders. *)
Theorem C25_upgrade_gates vmem enc_client enc_cons w cid u w' :
  upgrade_client vmem enc_client enc_cons w cid u = (w', Ok) ->
  exists c e t,
    get_client w cid = Some (Tm c) /\ status (w_now w) c = Active /\
    lex_lt (c_latest c) (c_latest (u_client u)) /\ c_upath c <> [] /\
    hlookup (c_latest c) (c_cons c) = Some e /\
    vmem (c_specs c) (u_proof_client u) (cs_root e)
         (upgrade_path (c_upath c) (c_latest c) key_upgraded_client) (enc_client (zero_custom (u_client u))) = true /\
    vmem (c_specs c) (u_proof_cons u) (cs_root e)
         (upgrade_path (c_upath c) (c_latest c) key_upgraded_cons) (enc_cons (u_cons u)) = true /\
    (if (c_unbonding (u_client u) <? c_unbonding c)%Z
     then calc_new_trusting (c_trusting c) (c_unbonding c) (c_unbonding (u_client u)) = Some t
     else t = c_trusting c) /\
    validate_client (upgraded w c u t) = Some true /\
    w' = set_client w cid (upgraded w c u t).
Proof. exact (upgrade_ok_inv vmem enc_client enc_cons w cid u w'). Qed.
Print Assumptions C25_upgrade_gates.

(** Post-state of a successful upgrade: trust level and clock drift are the client's own, the trusting period
    is the client's own (scaled by calculateNewTrustingPeriod exactly when the unbonding period shrinks),
    chain id / unbonding / latest height / proof specs / upgrade path come from the committed client, the
    client is unfrozen, the new consensus state is (committed timestamp, sentinel root, committed next
    validators hash) with fresh metadata, older consensus states are untouched; no other client changes. *)
Theorem C25_upgrade_post vmem enc_client enc_cons w cid u w' :
  upgrade_client vmem enc_client enc_cons w cid u = (w', Ok) ->
  exists c c' t,
    get_client w cid = Some (Tm c) /\ get_client w' cid = Some (Tm c') /\
    c_tl_num c' = c_tl_num c /\ c_tl_den c' = c_tl_den c /\ c_drift c' = c_drift c /\
    c_trusting c' = t /\
    (if (c_unbonding (u_client u) <? c_unbonding c)%Z
     then calc_new_trusting (c_trusting c) (c_unbonding c) (c_unbonding (u_client u)) = Some t
     else t = c_trusting c) /\
    c_chain c' = c_chain (u_client u) /\ c_unbonding c' = c_unbonding (u_client u) /\
    c_latest c' = c_latest (u_client u) /\ c_specs c' = c_specs (u_client u) /\
    c_upath c' = c_upath (u_client u) /\ c_frozen c' = zero_height /\
    hlookup (c_latest c') (c_cons c') =
      Some (mkCS (cs_ts (u_cons u)) sentinel_root (cs_nvh (u_cons u)) (Some (w_now w)) (Some (w_self w))) /\
    (forall h, h <> c_latest c' -> hlookup h (c_cons c') = hlookup h (c_cons c)) /\
    (forall cid', cid' <> cid -> get_client w' cid' = get_client w cid') /\
    w_now w' = w_now w /\ w_self w' = w_self w.
Proof. exact (upgrade_post vmem enc_client enc_cons w cid u w'). Qed.
Print Assumptions C25_upgrade_post.

(** calculateNewTrustingPeriod (LegacyDec, 18 decimals, banker's rounding, truncation) is the exact floor of
    trusting * newUnbonding / oldUnbonding whenever the old unbonding period is below 2*10^18 ns (63 years). *)
Theorem C25_new_trusting_is_floor t ou nu :
  (0 < t < two63Z)%Z -> (0 < nu)%Z -> (nu < ou)%Z -> (ou < 2 * dec_prec)%Z ->
  calc_new_trusting t ou nu = Some (t * nu / ou)%Z.
Proof. exact (calc_new_trusting_floor t ou nu). Qed.
Print Assumptions C25_new_trusting_is_floor.

(** No operation of any kind changes a client other than its target (the subject of a recovery, the client
    being updated or upgraded) — for single operations and for whole histories, any verifier. *)
Theorem C25_no_other_client_changes vmem vnon enc_client enc_cons :
  (forall w o cid, op_target o <> Some cid ->
     get_client (fst (step vmem vnon enc_client enc_cons w o)) cid = get_client w cid) /\
  (forall ops w cid, (forall o, In o ops -> op_target o <> Some cid) ->
     get_client (run vmem vnon enc_client enc_cons w ops) cid = get_client w cid).
Proof.
  exact (conj (step_frame vmem vnon enc_client enc_cons)
              (fun ops w cid => run_frame vmem vnon enc_client enc_cons ops w cid)).
Qed.
Print Assumptions C25_no_other_client_changes.

(** Store writes of CheckSubstituteAndUpdateState (the model of the Set/Delete calls it issues on its two client
    stores, re-computed against write-tracing stores on every recovery the harness runs): nothing is ever written
    or deleted in the substitute's namespace; a successful call writes exactly the consensus state at the
    substitute's latest height, its processed time, processed height and iteration key, and the client state, all in
    the subject's namespace; and every successful 02-client recovery goes through such a successful call. *)
Theorem C25_recovery_writes_subject_namespace_only :
  (forall c s, Forall in_subject (snd (check_substitute_writes c s))) /\
  (forall c s ws, check_substitute_writes c s = (Ok, ws) ->
     is_matching c s = true /\ (exists e, hlookup (c_latest s) (c_cons s) = Some e) /\
     ws = [(NSubject, WSet, KCons (c_latest s)); (NSubject, WSet, KPTime (c_latest s));
           (NSubject, WSet, KPHeight (c_latest s)); (NSubject, WSet, KIter (c_latest s));
           (NSubject, WSet, KClientState)]) /\
  (forall w a b w', recover_client w a b = (w', Ok) ->
     exists c s, get_client w a = Some (Tm c) /\ get_client w b = Some (Tm s) /\
                 fst (check_substitute_writes c s) = Ok).
Proof. exact (conj check_substitute_writes_subject_only (conj check_substitute_writes_ok recover_ok_writes)). Qed.
Print Assumptions C25_recovery_writes_subject_namespace_only.

(** non-vacuity: a frozen subject is recovered from an active substitute; an upgrade with a shrinking
    unbonding period scales the trusting period (14d * 7d / 21d). *)
Example C25_nonvacuous :
  let e1 := mkCS 1000 (B "r1") (B "n1") (Some 5%Z) (Some (mkH 1 3)) in
  let e2 := mkCS 2000 (B "r2") (B "n2") (Some 6%Z) (Some (mkH 1 4)) in
  let subj := mkClient (B "chain-1") 1 3 500 900 10 (mkH 0 1) (mkH 1 7) (B "sp") [B "upgrade"; B "k"] [(mkH 1 7, e1)] in
  let subst := mkClient (B "other-1") 1 3 700 900 10 (mkH 0 0) (mkH 1 9) (B "sp") [B "upgrade"; B "k"] [(mkH 1 9, e2)] in
  let w := mkW 2100 (mkH 1 20) [(1, Tm subj); (2, Tm subst)] in
  snd (recover_client w 1 2) = Ok /\
  get_client (fst (recover_client w 1 2)) 2 = Some (Tm subst) /\
  snd (recover_client w 2 1) = Err /\
  calc_new_trusting 1209600000000000 1814400000000000 604800000000000 = Some 403200000000000%Z /\
  upgrade_path [B "upgrade"; B "k"] (mkH 1 9) key_upgraded_client = [B "upgrade"; B "k/9/upgradedClient"] /\
  let uc := mkClient (B "chain-2") 9 9 9 450 9 (mkH 0 5) (mkH 2 1) (B "sp") [B "upgrade"; B "k"] [] in
  snd (upgrade_client (fun _ _ _ _ _ => true) (fun _ => []) (fun _ => []) w 2
        (mkUR uc (mkCS 2050 [] (B "n3") None None) [] [])) = Ok.
Proof. vm_compute. repeat split. Qed.
