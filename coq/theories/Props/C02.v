(** C02 — Ordered channels deliver and acknowledge strictly in sequence. *)
From IBC Require Import Core.ChainExamples.
From IBC Require Import Lib.Bytes Core.Height Core.Chain Core.ChainFacts Core.ChainInv Core.ChainThms Core.ChainOrd.
Local Open Scope N_scope.

(** Over any history and any environment (light clients, applications, adversarial relayer): on an ORDERED
    channel the receive callbacks that ran during the history are exactly the sequences nr, nr+1, nr+2, ...
    (nr = nextSequenceRecv at the start; 1 after the handshake) in this order — no gap, no repeat, no
    reordering — and nextSequenceRecv advanced by exactly their number.  The same holds for the
    acknowledgement callbacks on the sending side and nextSequenceAck. *)
Theorem C02_ordered_in_sequence {A} (c : Chain A) hist k en nr na :
  chans c k = Some en -> c_ord en = ORDERED -> nrecv c k = Some nr -> nack c k = Some na ->
  exists mr ma,
    oseq k (events (run c hist)) = oseq k (events c) ++ seqN nr mr /\ nrecv (run c hist) k = Some (nr + N.of_nat mr) /\
    aseq k (events (run c hist)) = aseq k (events c) ++ seqN na ma /\ nack (run c hist) k = Some (na + N.of_nat ma).
Proof. exact (ordered_in_sequence c hist k en nr na). Qed.
Print Assumptions C02_ordered_in_sequence.

(** a packet whose predecessor has not been received cannot be received: it is refused and changes nothing *)
Theorem C02_gap_refused {A} (e : Env A) c p ph r en nr :
  chans c (p_dp p, p_dc p) = Some en -> c_ord en = ORDERED -> nrecv c (p_dp p, p_dc p) = Some nr -> p_seq p <> nr ->
  snd (msg_recv1 e c p ph r) <> Ok /\ (nr < p_seq p -> fst (msg_recv1 e c p ph r) = c).
Proof. exact (ordered_gap_refused e c p ph r en nr). Qed.
Print Assumptions C02_gap_refused.

(** one step moves each ordered counter by at most one and runs at most one callback for it *)
Theorem C02_step {A} (e : Env A) c o c' k en :
  chans c k = Some en -> c_ord en = ORDERED -> step e c o = (c', Ok) -> ord_step c c' k.
Proof. exact (step_ord e c o c' k en). Qed.
Print Assumptions C02_step.

Example C02_nonvacuous :
  chans ex_chain (1, 20) = Some ex_chan_o /\ c_ord ex_chan_o = ORDERED /\ nrecv ex_chain (1, 20) = Some 1 /\ nack ex_chain (1, 20) = Some 1.
Proof. vm_compute. auto. Qed.
