(** C31 — the tracked total escrow equals the net IBC escrow movements.  Statements only; proofs in
    Transfer/EscrowFacts.v.  [gap w c chans x] = (sum over the chain's channels of balance(escrow(ch), x)) - tracked
    total of x on chain c; [chans] is any duplicate-free list containing the chain's channel ids. *)
From IBC Require Import Lib.Bytes Transfer.DenomLocal Transfer.Bank Transfer.Keeper Transfer.World
  Transfer.BankFacts Transfer.WorldFacts Transfer.AuthFacts Transfer.EscrowFacts Transfer.ConserveFacts Transfer.Examples.
Local Open Scope Z_scope.

(** One step, any operation: the tracked total moves exactly with the escrow accounts' combined balance
    (escrowed - released), except that a bank send or a packet receiver crediting an escrow account from outside
    raises only the balance side. *)
Theorem C31_step w o c chans x :
  wf_links (w_links w) -> PkInv w -> chans_ok (w_links w) c chans ->
  gap w c chans x <= gap (step_w w o) c chans x /\
  (plain_op w o -> gap (step_w w o) c chans x = gap w c chans x).
Proof. exact (gap_step w o c chans x). Qed.
Print Assumptions C31_step.

(** Any history: the tracked total never exceeds the combined escrow balance. *)
Theorem C31_never_exceeds_escrow_balances w ops c chans x :
  wf_links (w_links w) -> PkInv w -> chans_ok (w_links w) c chans ->
  0 <= gap w c chans x -> 0 <= gap (run w ops) c chans x.
Proof. exact (total_escrow_bounded w ops c chans x). Qed.
Print Assumptions C31_never_exceeds_escrow_balances.

(** Histories without outside credits: tracked total = combined escrow balance = amounts escrowed minus amounts
    released, and it is never negative. *)
Theorem C31_total_is_net_escrowed w ops c chans x :
  wf_links (w_links w) -> PkInv w -> chans_ok (w_links w) c chans -> BalNonneg w ->
  plain_ops w ops -> gap w c chans x = 0 ->
  tesc (w_ch (run w ops) c) x = esc_sum (bal (bank (w_ch (run w ops) c))) chans x /\
  0 <= tesc (w_ch (run w ops) c) x.
Proof. exact (total_escrow_exact w ops c chans x). Qed.
Print Assumptions C31_total_is_net_escrowed.

(** SetTotalEscrowForDenom is never reached with a negative amount from EscrowCoin, UnescrowCoin or the three
    packet-forward refund moves in such a state: its panic is dead code.  (The PFM burn move can only fail in the
    bank, not in SetTotalEscrowForDenom.) *)
Theorem C31_set_total_escrow_panic_dead k chans ch d amt other :
  0 <= amt -> (forall a, 0 <= bal (bank k) a d) -> In ch chans ->
  tesc k d = esc_sum (bal (bank k)) chans d ->
  escrow_coin k other (Escrow ch) d amt <> RPanic /\
  unescrow_coin k (Escrow ch) other d amt <> RPanic /\
  (pfm_burn_from_escrow k ch d amt = RPanic ->
     exists b1, send_coins (bank k) (Escrow ch) ModTransfer d amt = Some b1 /\ burn_coins b1 d amt = None) /\
  pfm_mint_into_escrow k ch d amt <> RPanic.
Proof. exact (set_total_escrow_no_panic k chans ch d amt other). Qed.
Print Assumptions C31_set_total_escrow_panic_dead.

(** the invariants used above are preserved by every step *)
Theorem C31_invariants_preserved w o :
  (PkInv w -> PkInv (step_w w o)) /\ (BalNonneg w -> BalNonneg (step_w w o)) /\ w_links (step_w w o) = w_links w.
Proof. exact (conj (pkinv_step w o) (conj (balnonneg_step w o) (step_links w o))). Qed.
Print Assumptions C31_invariants_preserved.

(** non-vacuity: the example world and chain 0's channel list meet the hypotheses; after the example history the
    tracked total of uatom on chain 0 is 100 = what escrow(channel-1) holds *)
Example C31_nonvacuous :
  chans_ok (w_links ex_world) 0%N [B "channel-1"; B "channel-6"] /\
  gap ex_world 0%N [B "channel-1"; B "channel-6"] (CNat (B "uatom")) = 0 /\
  tesc (w_ch (run ex_world ex_ops) 0%N) (CNat (B "uatom")) = 100 /\
  gap (run ex_world (ex_ops ++ [OBankSend 0 (User 1) (Escrow (B "channel-6")) (CNat (B "uatom")) 7])) 0%N
      [B "channel-1"; B "channel-6"] (CNat (B "uatom")) = 7.
Proof. split; [exact ex_chans_ok|]. vm_compute. auto. Qed.
