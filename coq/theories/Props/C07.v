(** C07 — Packet and acknowledgement commitments bind every committed field.
    Only statements closed by [exact]; proofs in Keys/CommitFacts.v (model: Keys/Commit.v).

    The hash function [H] is universally quantified, with the single hypothesis that its output has 32 bytes.  Each
    theorem concludes "all committed fields are equal, or here are two different byte strings with the same hash"
    ([collision H] exhibits them) — no collision-resistance axiom.  [sha256_length] shows the executable SHA-256 used
    by the correspondence meets the hypothesis. *)
From IBC Require Import Lib.Bytes Lib.Dec Lib.BE64 Lib.Sha256 Keys.Commit Keys.CommitFacts Keys.Sha256Len.
Local Open Scope N_scope.

Section C07.
  Variable H : bytes -> bytes.
  Hypothesis H_len : forall x, length (H x) = 32%nat.

  (** v1: fixed-length preimage (8+8+8+32 bytes), injective in timeout timestamp, revision number, revision height
      and the data hash *)
  Theorem C07_v1_preimage_fixed_length ts rn rh data : length (preimage_v1 H ts rn rh data) = 56%nat.
  Proof. exact (preimage_v1_length H H_len ts rn rh data). Qed.

  Theorem C07_v1_preimage_injective ts rn rh data ts' rn' rh' data' :
    ts < two64 -> rn < two64 -> rh < two64 -> ts' < two64 -> rn' < two64 -> rh' < two64 ->
    preimage_v1 H ts rn rh data = preimage_v1 H ts' rn' rh' data' ->
    ts = ts' /\ rn = rn' /\ rh = rh' /\ H data = H data'.
  Proof. exact (preimage_v1_inj H ts rn rh data ts' rn' rh' data'). Qed.

  Theorem C07_v1_packet_commitment_binds ts rn rh data ts' rn' rh' data' :
    ts < two64 -> rn < two64 -> rh < two64 -> ts' < two64 -> rn' < two64 -> rh' < two64 ->
    commit_packet_v1 H ts rn rh data = commit_packet_v1 H ts' rn' rh' data' ->
    (ts = ts' /\ rn = rn' /\ rh = rh' /\ data = data') \/ collision H.
  Proof. exact (commit_packet_v1_binds H ts rn rh data ts' rn' rh' data'). Qed.

  Theorem C07_v1_ack_commitment_binds d d' : commit_ack_v1 H d = commit_ack_v1 H d' -> d = d' \/ collision H.
  Proof. exact (commit_ack_v1_binds H d d'). Qed.

  (** v2: destination client, timeout, and every payload's source port, destination port, version, encoding and
      value, in payload order and number *)
  Theorem C07_v2_payload_hash_binds p q : hash_payload H p = hash_payload H q -> p = q \/ collision H.
  Proof. exact (hash_payload_binds H H_len p q). Qed.

  Theorem C07_v2_packet_commitment_binds dest ts ps dest' ts' ps' :
    ts < two64 -> ts' < two64 ->
    commit_packet_v2 H dest ts ps = commit_packet_v2 H dest' ts' ps' ->
    (dest = dest' /\ ts = ts' /\ ps = ps') \/ collision H.
  Proof. exact (commit_packet_v2_binds H H_len dest ts ps dest' ts' ps'). Qed.

  (** v2 acknowledgements: the list of application acknowledgements, with order and count *)
  Theorem C07_v2_ack_commitment_binds acks acks' :
    commit_ack_v2 H acks = commit_ack_v2 H acks' -> acks = acks' \/ collision H.
  Proof. exact (commit_ack_v2_binds H H_len acks acks'). Qed.

  (** pairs differing only in field boundaries ("ab","c" vs "a","bc") have different payload hashes *)
  Theorem C07_field_boundaries (a b a' b' v e x : bytes) :
    a ++ b = a' ++ b' -> a <> a' ->
    hash_payload H (mkPayload a b v e x) <> hash_payload H (mkPayload a' b' v e x) \/ collision H.
  Proof. exact (field_boundary_v2 H H_len a b a' b' v e x). Qed.

  (** a v1 preimage (56 bytes) is never a v2 preimage (97 bytes) *)
  Theorem C07_v1_v2_preimages_disjoint ts rn rh data dest ts2 ps :
    preimage_v1 H ts rn rh data <> preimage_v2 H dest ts2 ps.
  Proof. exact (preimage_v1_v2_disjoint H H_len ts rn rh data dest ts2 ps). Qed.

  (** the model's byte layout is the specification's formula *)
  Theorem C07_layout_is_spec_formula :
    (forall ts rn rh data, commit_packet_v1 H ts rn rh data = H (be64 ts ++ be64 rn ++ be64 rh ++ H data)) /\
    (forall dest ts ps,
       commit_packet_v2 H dest ts ps =
       H ([ascii_of_N 2] ++ H dest ++ H (be64 ts) ++
          H (concat (map (fun p => H (H (src_port p) ++ H (dst_port p) ++ H (version p) ++ H (encoding p) ++ H (value p))) ps)))) /\
    (forall acks, commit_ack_v2 H acks = H ([ascii_of_N 2] ++ concat (map H acks))).
  Proof. exact (conj (layout_v1 H) (conj (layout_v2 H) (layout_ack_v2 H))). Qed.
End C07.

Print Assumptions C07_v1_preimage_fixed_length.
Print Assumptions C07_v1_preimage_injective.
Print Assumptions C07_v1_packet_commitment_binds.
Print Assumptions C07_v1_ack_commitment_binds.
Print Assumptions C07_v2_payload_hash_binds.
Print Assumptions C07_v2_packet_commitment_binds.
Print Assumptions C07_v2_ack_commitment_binds.
Print Assumptions C07_field_boundaries.
Print Assumptions C07_v1_v2_preimages_disjoint.
Print Assumptions C07_layout_is_spec_formula.

(** the instance the correspondence computes with satisfies the hypothesis *)
Theorem C07_sha256_output_is_32_bytes msg : length (sha256 msg) = 32%nat.
Proof. exact (sha256_length msg). Qed.
Print Assumptions C07_sha256_output_is_32_bytes.

(** non-vacuity: the theorems instantiate to SHA-256; concrete commitments are computed *)
Example C07_nonvacuous :
  (forall acks acks', commit_ack_v2 sha256 acks = commit_ack_v2 sha256 acks' -> acks = acks' \/ collision sha256) /\
  commit_ack_v1 sha256 (B "abc") = hx "ba7816bf8f01cfea414140de5dae2223b00361a396177a9cb410ff61f20015ad" /\
  length (commit_packet_v2 sha256 (B "07-tendermint-0") 100 [mkPayload (B "ab") (B "c") [] [] []]) = 32%nat /\
  commit_packet_v2 sha256 (B "07-tendermint-0") 100 [mkPayload (B "ab") (B "c") [] [] []] <>
  commit_packet_v2 sha256 (B "07-tendermint-0") 100 [mkPayload (B "a") (B "bc") [] [] []].
Proof.
  split; [exact (commit_ack_v2_binds sha256 sha256_length)|]. vm_compute. repeat split. discriminate.
Qed.
