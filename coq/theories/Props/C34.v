(** C34 — Denomination paths round-trip and determine voucher names.
    Only statements closed by [exact]; proofs live in Denom/DenomFacts.v. *)
From IBC Require Import Lib.Bytes Lib.Sha256 Denom.Ident Denom.Denom Denom.DenomFacts.

(** Every denomination path that ICS-20 accepts (Denom.Validate of the parse) serializes back to the same string. *)
Theorem C34_path_roundtrip (s : bytes) (d : Denom) :
  extract_res s = Ok d -> denom_validate d = true -> path d = s.
Proof. exact (path_extract_res s d). Qed.
Print Assumptions C34_path_roundtrip.

(** For every string whatsoever: the path of the parse is the string, except when the hop heuristic consumed
    every segment — then the base is empty (which Validate rejects) and the path gained a trailing '/'. *)
Theorem C34_path_roundtrip_all_strings (s : bytes) :
  path (extract s) = s \/
  (d_base (extract s) = [] /\ d_trace (extract s) <> [] /\ path (extract s) = s ++ [slash]).
Proof. exact (path_extract_cases s). Qed.
Print Assumptions C34_path_roundtrip_all_strings.

(** ExtractDenomFromPath is total and never panics (denomSplit[0] always exists). *)
Theorem C34_extract_total (s : bytes) : extract_res s = Ok (extract s) /\ extract_res s <> Panic.
Proof. exact (conj (extract_total s) (extract_no_panic s)). Qed.
Print Assumptions C34_extract_total.

(** The voucher denomination is 'ibc/' + upper-case hex of the hash of the path (or the base when there is no
    trace): two denominations with the same path and a trace have the same voucher name, whatever the split;
    for an accepted parse the name is computed from the input string alone. Any hash function. *)
Theorem C34_voucher_name_depends_on_path_only (H : bytes -> bytes) :
  (forall d, d_trace d <> [] -> ibc_denom_with H d = B "ibc/" ++ hex_upper (H (path d))) /\
  (forall d, d_trace d = [] -> ibc_denom_with H d = d_base d /\ path d = d_base d) /\
  (forall d d', d_trace d <> [] -> d_trace d' <> [] -> path d = path d' -> ibc_denom_with H d = ibc_denom_with H d') /\
  (forall s, denom_validate (extract s) = true ->
     ibc_denom_with H (extract s) = if is_native (extract s) then s else B "ibc/" ++ hex_upper (H s)) /\
  (forall s port chan, denom_validate (extract s) = true ->
     ibc_denom_with H (mkDenom (d_base (extract s)) (mkHop port chan :: d_trace (extract s))) =
     B "ibc/" ++ hex_upper (H (port ++ slash :: chan ++ slash :: s))).
Proof.
  exact (conj (ibc_denom_traced H) (conj (ibc_denom_native H) (conj (ibc_denom_path_only H)
        (conj (ibc_denom_extract H) (voucher_name H))))).
Qed.
Print Assumptions C34_voucher_name_depends_on_path_only.

(** The escrow pre-image is injective on pairs whose port has no '/', so equal escrow addresses mean equal
    (port, channel) or an exhibited collision of the 20-byte truncated hash. Any hash function. *)
Theorem C34_escrow_preimage_injective (p c p' c' : bytes) :
  ~ In slash p -> ~ In slash p' -> escrow_preimage p c = escrow_preimage p' c' -> p = p' /\ c = c'.
Proof. exact (escrow_preimage_inj p c p' c'). Qed.
Print Assumptions C34_escrow_preimage_injective.

Theorem C34_distinct_pairs_distinct_escrow (H : bytes -> bytes) (p c p' c' : bytes) :
  port_identifier_validator p = true -> port_identifier_validator p' = true ->
  escrow_address_with H p c = escrow_address_with H p' c' ->
  (p = p' /\ c = c') \/ exists a b : bytes, a <> b /\ firstn 20 (H a) = firstn 20 (H b).
Proof. exact (escrow_address_inj_valid H p c p' c'). Qed.
Print Assumptions C34_distinct_pairs_distinct_escrow.

(** SetDenom records a denomination under DenomKey || hash(full path) and GetDenom with that hash finds it;
    every entry of a store built by SetDenom sits under the hash of exactly its own path. *)
Theorem C34_set_denom_keyed_by_path_hash (H : bytes -> bytes) :
  (forall d, denom_store_key_with H d = ascii_of_N 3 :: H (path d)) /\
  (forall st d, get_denom (set_denom_with H st d) (H (path d)) = Some d) /\
  (forall st d k, k <> H (path d) -> get_denom (set_denom_with H st d) k = get_denom st k) /\
  (forall ds k d, In (k, d) (store_of H ds) -> k = H (path d)).
Proof. exact (conj (set_denom_key H) (conj (get_set_denom H) (conj (get_set_denom_other H) (store_keys H)))). Qed.
Print Assumptions C34_set_denom_keyed_by_path_hash.

(** non-vacuity: accepted multi-hop and slash-containing paths round-trip; the consumed-all case exists *)
Example C34_nonvacuous :
  denom_validate (extract (B "transfer/channel-0/transfer/07-tendermint-3/gamm/pool/1")) = true /\
  length (d_trace (extract (B "transfer/channel-0/transfer/07-tendermint-3/gamm/pool/1"))) = 2%nat /\
  path (extract (B "transfer/channel-0/transfer/07-tendermint-3/gamm/pool/1")) = B "transfer/channel-0/transfer/07-tendermint-3/gamm/pool/1" /\
  path (extract (B "transfer/channel-0/foo/channel-5")) = B "transfer/channel-0/foo/channel-5/" /\
  denom_validate (extract (B "transfer/channel-0/foo/channel-5")) = false /\
  ibc_denom (extract (B "transfer/channel-0/uatom")) = B "ibc/27394FB092D2ECCD56123C74F36E4C1F926001CEADA9CA97EA622B25F41E5EB2".
Proof. vm_compute. repeat split. Qed.
