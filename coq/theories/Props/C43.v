(** C43 — Packet forwarding is all-or-nothing and conserves tokens.
    Statements only; proofs in PfmRl/PfmFacts.v (per chain) and PfmRl/PfmRoute.v (whole routes), model in
    PfmRl/Pfm.v (the definitions Corr/PfmRl.v replays against real chains: [rstep]/[rrun] operation by operation and
    [route_run] route by route).

    Full statement: for every line of chains c0 .. cn (any n), every route along it, every outcome vector (per hop:
    any number of timeouts, answered by retries while the forward's retry budget lasts; delivery answered by a
    success or an error acknowledgement as the receiving chain's code decides) and every [denom_safe] token, at
    quiescence either (final receiver + amt, origin sender - amt, every intermediate chain's bank state = plain
    ICS-20 receive + send, override accounts unchanged) or (every chain's balances, supplies, total escrows as
    before); no in-flight record is created anywhere; the forwarded denomination is the one ICS-20 credited.
    This is [C43_route_all_or_nothing] below, proved about [route_run] itself by induction over the nesting of the
    forward memo ([deliver_spec] in PfmRoute.v), with the per-chain theorems as steps.  Its hypotheses ([route_pre])
    are the line topology, the denomination guard [denom_ok] (necessary: [C43_refund_refuted_without_guard]),
    non-negative balances, and freshness of the sequence numbers the route will use. *)
From IBC Require Import Lib.Bytes PfmRl.Pfm PfmRl.PfmFacts PfmRl.PfmRoute.
Local Open Scope Z_scope.

(** The forwarded denomination is the one ICS-20 credited on the intermediate chain: structured form, and at the
    level of strings for an arbitrary hash function H (SHA-256 in the correspondence). *)
Theorem C43_forwarded_denom_is_credited :
  (forall dst_ch src_ch d, pfm_denom dst_ch src_ch d = recv_denom dst_ch src_ch d) /\
  (forall (H : bytes -> bytes) port ch cport cch tr base,
     s_pfm_denom H port ch cport cch tr base = s_recv_denom H port ch cport cch tr base).
Proof. exact (conj pfm_denom_is_credited s_pfm_denom_is_credited). Qed.
Print Assumptions C43_forwarded_denom_is_credited.

(** Intermediate chain, for ANY state, token (native, voucher, unwinding or not), amount, retry budget, number of
    retried timeouts j, and each terminal event: error ack or final timeout => balances, supplies, total escrows and
    in-flight records are back to their starting values and an error ack is written for the previous hop (the three
    refund branches); success => override account unchanged, no in-flight record, bank state = ICS-20 receive into
    the override account followed by ICS-20 send from it, success ack written.
    Hypotheses: forward channel differs from the channel the packet came in on (line topology); [denom_ok]; bank
    balances are non-negative; no stale in-flight record above the channel's next sequence. *)
Theorem C43_intermediate_chain dst_of cs p r ch retries next cs1 :
  k_memo p = MFwd r ch retries next -> k_dst_ch p <> ch -> denom_ok p ->
  (forall a d, 0 <= bal cs a d) -> (forall s', (nseq cs ch <= s')%N -> infl cs ch s' = None) ->
  pfm_on_recv dst_of cs p = (cs1, None) ->
  forall j, Z.of_nat j <= Z.of_N retries ->
  exists csj sj,
    let fpj := fwd_packet dst_of p r ch sj next in
    let csd := set_com csj (upd_nn (com csj) ch sj None) in
    retries_then dst_of j cs1 (fwd_packet dst_of p r ch (nseq cs ch) next) = Some (csj, fpj) /\
    com csj ch sj = Some fpj /\
    (exists cs2, pfm_on_ack csd fpj false = Some cs2 /\ ledger_eq cs2 cs /\ ackd cs2 (k_dst_ch p) (k_seq p) = Some false) /\
    (Z.of_N retries - Z.of_nat j <= 0 ->
     exists cs2, pfm_on_timeout dst_of csd fpj = Some cs2 /\ ledger_eq cs2 cs /\ ackd cs2 (k_dst_ch p) (k_seq p) = Some false) /\
    (exists cs2 css, pfm_on_ack csd fpj true = Some cs2 /\ fwd_bse cs p ch = Some css /\ bse_eq cs2 css /\
       (forall d, bal cs2 (AOverride (k_dst_ch p) (k_sender p)) d = bal cs (AOverride (k_dst_ch p) (k_sender p)) d) /\
       (forall c s', infl cs2 c s' = infl cs c s') /\ ackd cs2 (k_dst_ch p) (k_seq p) = Some true).
Proof. exact (intermediate_chain dst_of cs p r ch retries next cs1). Qed.
Print Assumptions C43_intermediate_chain.

(** The guard on the denomination is necessary: without it the second refund branch burns a token that was
    unescrowed from the refund channel (witness evaluated in the model; such a token cannot sit in that escrow in a
    world produced by ICS-20, so this is not a reachable defect). *)
Theorem C43_refund_refuted_without_guard :
  exists cs p cs1 fp cs2,
    ~ denom_ok p /\ k_dst_ch p <> 2%N /\
    pfm_on_recv (fun _ => 9%N) cs p = (cs1, None) /\ com cs1 2 1 = Some fp /\
    pfm_on_ack (set_com cs1 (upd_nn (com cs1) 2 1 None)) fp false = Some cs2 /\
    bal cs (AEscrow 1) (mkD [1%N] 1%N) = 100 /\ bal cs2 (AEscrow 1) (mkD [1%N] 1%N) = 90 /\
    sup cs (mkD [1%N] 1%N) = 100 /\ sup cs2 (mkD [1%N] 1%N) = 90.
Proof. exact forward_refund_refuted_without_guard. Qed.
Print Assumptions C43_refund_refuted_without_guard.

(** Origin chain: error ack or timeout refunds the sender in full (every balance, supply, total escrow back);
    success leaves the sender debited by exactly the amount. *)
Theorem C43_origin_chain cs dst_ch sender ch d x recv memo cs1 s :
  (forall a d, 0 <= bal cs a d) -> infl cs ch (nseq cs ch) = None ->
  do_transfer cs dst_ch sender ch d x recv memo = Some (cs1, s) ->
  let pkt := mkP ch dst_ch s d x sender recv memo in
  let csd := set_com cs1 (upd_nn (com cs1) ch s None) in
  s = nseq cs ch /\ com cs1 ch s = Some pkt /\
  (exists cs2, pfm_on_ack csd pkt false = Some cs2 /\ ledger_eq cs2 cs) /\
  (exists cs2, pfm_on_timeout (fun _ => dst_ch) csd pkt = Some cs2 /\ ledger_eq cs2 cs) /\
  pfm_on_ack csd pkt true = Some csd /\
  (sender <> AEscrow ch -> bal csd sender d = bal cs sender d - x).
Proof. exact (origin_refund_restores cs dst_ch sender ch d x recv memo cs1 s). Qed.
Print Assumptions C43_origin_chain.

(** Final chain: a successful receive credits the receiver with the amount in the denomination ICS-20 credits; a
    receive answered by an error acknowledgement (any hop) leaves that chain untouched. *)
Theorem C43_final_chain :
  (forall dst_of cs p a cs1,
     k_memo p = MNone -> k_recv p = Some a -> pfm_on_recv dst_of cs p = (cs1, Some true) ->
     bal cs1 a (recv_denom (k_dst_ch p) (k_src_ch p) (k_denom p)) =
       bal cs a (recv_denom (k_dst_ch p) (k_src_ch p) (k_denom p)) + (if acct_eqb a (AEscrow (k_dst_ch p)) then 0 else k_amt p)
     \/ has_prefix (k_denom p) (k_src_ch p) = false /\
        bal cs1 a (add_hop (k_dst_ch p) (k_denom p)) = bal cs a (add_hop (k_dst_ch p) (k_denom p)) + k_amt p) /\
  (forall dst_of cs p cs1, pfm_on_recv dst_of cs p = (cs1, Some false) -> cs1 = cs).
Proof. exact (conj final_receive_credits receive_error_unchanged). Qed.
Print Assumptions C43_final_chain.

(** Whole routes, any length, any outcome vector.  [route_run] = the origin's MsgTransfer followed by depth-first
    relaying ([relay]) with [h_timeouts] timeouts per hop ([hs] must cover every hop).  Conclusions:
    chains off the route are untouched; no chain's in-flight records change; and either every chain on the route has
    its ledger (balances, supplies, total escrows, in-flight) exactly as before — nothing —, or — all — the origin's
    bank state is that of a plain ICS-20 send (sender debited by [amt]) and [down_ok] holds: every forwarding chain's
    bank state is ICS-20 receive into the override account + ICS-20 send from it, its override account holds what it
    held before, and the final receiver holds [amt] more of the denomination ICS-20 credits on the last chain. *)
Theorem C43_route_all_or_nothing peer w c sender ch d amt recv memo hs :
  (forall a d', 0 <= bal (w c) a d') -> infl (w c) ch (nseq (w c) ch) = None -> sender <> AEscrow ch ->
  route_pre peer w [c] c ch (nseq (w c) ch) d memo recv ->
  (S (depth memo) <= length hs)%nat ->
  let w' := route_run peer w c sender ch d amt recv memo hs in
  let rc := route_chains peer c ch memo in
  (forall x, x <> c -> ~ In x rc -> w' x = w x) /\
  (forall e c' s, infl (w' e) c' s = infl (w e) c' s) /\
  ((forall e, e = c \/ In e rc -> ledger_eq (w' e) (w e))
   \/ ((exists css, ics_send (w c) sender ch d amt = Some css /\ bse_eq (w' c) css) /\
       bal (w' c) sender d = bal (w c) sender d - amt /\
       down_ok peer w w' c ch d amt sender recv memo)).
Proof. exact (route_all_or_nothing peer w c sender ch d amt recv memo hs). Qed.
Print Assumptions C43_route_all_or_nothing.

(** ... in particular no in-flight record is left anywhere if there was none *)
Theorem C43_route_leaves_no_inflight peer w c sender ch d amt recv memo hs :
  (forall a d', 0 <= bal (w c) a d') -> infl (w c) ch (nseq (w c) ch) = None -> sender <> AEscrow ch ->
  route_pre peer w [c] c ch (nseq (w c) ch) d memo recv -> (S (depth memo) <= length hs)%nat ->
  (forall e c' s, infl (w e) c' s = None) ->
  forall e c' s, infl (route_run peer w c sender ch d amt recv memo hs e) c' s = None.
Proof. exact (route_leaves_no_inflight peer w c sender ch d amt recv memo hs). Qed.
Print Assumptions C43_route_leaves_no_inflight.

(** The same composition evaluated by the kernel on a line of four chains, for the origin's native token (winding),
    its voucher on the way back (unwinding) and a middle chain's token (unwinding then winding), for every vector of
    timeouts per hop in {0,1,2}, retries per forward hop in {0,1,2}, valid/invalid final receiver and existing/missing
    forward channel (a cross-check of the general theorem on concrete worlds; both outcomes occur). *)
Theorem C43_routes_line4_evaluated : forward_cases_ok = true /\ unwind_cases_ok = true /\ mixed_cases_ok = true.
Proof. exact routes_bounded_all_or_nothing. Qed.
Print Assumptions C43_routes_line4_evaluated.

(** non-vacuity of [C43_route_all_or_nothing]: its hypotheses hold for a three-hop forward (one retry allowed on the
    second hop, outcome vector 0/1/0 timeouts) on the four-chain line *)
Example C43_route_hypotheses_nonvacuous :
  (forall a d', 0 <= bal (line_world 0%N) a d') /\
  infl (line_world 0%N) 0%N (nseq (line_world 0%N) 0%N) = None /\
  AUser 1 <> AEscrow 0 /\
  route_pre line_peer line_world [0%N] 0%N 0%N (nseq (line_world 0%N) 0%N) native line_memo None /\
  (S (depth line_memo) <= length [mkH 0; mkH 1; mkH 0])%nat.
Proof. exact line_route_instance. Qed.

(** non-vacuity: a three-hop forward delivers, debits the sender, and leaves escrow/voucher supply on the way *)
Example C43_nonvacuous :
  let w' := route_run line_peer line_world 0 (AUser 1) 0 native 100 None (MFwd None 2 0 (MFwd (Some (AUser 2)) 4 0 MNone)) [mkH 0; mkH 0; mkH 0] in
  bal (w' 3%N) (AUser 2) (mkD [5%N; 3%N; 1%N] 1) = 100 /\ bal (w' 0%N) (AUser 1) native = 900 /\
  bal (w' 1%N) (AEscrow 2) (mkD [1%N] 1) = 100 /\ sup (w' 2%N) (mkD [3%N; 1%N] 1) = 100.
Proof. exact route_success_delivers. Qed.
