(** C30 — ICS-20 conserves tokens across chains.  Statements only; proofs in Transfer/ConserveFacts.v.
    Model: Transfer/World.v (N chains, any topology of transfer channels, v1 and v2-over-alias sends, relays in any
    order, error acks, timeouts; core-IBC guarantees are the guards of [step]).
    [Conserve w] (Appendix C): for chains A, B joined by channel ends (cA, cB) and every well-formed denomination x
    on A:  balance_A(escrow(cA), x) = supply_B(voucher of x over cB) + amount in flight A->B + amount in flight B->A,
    where "in flight" = commitment present and not successfully received (this includes error-acknowledged packets
    whose refund is still to come). *)
From IBC Require Import Lib.Bytes Transfer.DenomLocal Transfer.Bank Transfer.Keeper Transfer.World
  Transfer.BankFacts Transfer.WorldFacts Transfer.AuthFacts Transfer.EscrowFacts Transfer.ConserveFacts Transfer.Examples.
Local Open Scope Z_scope.

(** Conservation is an invariant of every step, for any number of chains: guarded by [safe_op] (a native
    denomination handed to MsgTransfer parses back as native — the complement is known finding F5a) and [plain_op]
    (no bank send or packet receiver credits an escrow account from outside; such credits only add to the escrow side). *)
Theorem C30_conservation_step w o :
  Good w -> Conserve w -> safe_op o -> plain_op w o -> Conserve (step_w w o) /\ Good (step_w w o).
Proof. exact (fun HG HC Hs Hp => conj (conserve_step w o HG HC Hs Hp) (good_step w o HG)). Qed.
Print Assumptions C30_conservation_step.

(** ... hence of every history from a world in which nothing has been transferred yet. *)
Theorem C30_conservation_guarded w ops :
  links_ok (w_links w) -> Fresh w -> ok_ops w ops -> Conserve (run w ops).
Proof. exact (fun HL HF Hok => conserve_run w ops (fresh_good w HL HF) (fresh_conserve w HF) Hok). Qed.
Print Assumptions C30_conservation_guarded.

(** IBC never changes the total supply of a native denomination — no guard needed. *)
Theorem C30_native_supply_unchanged w ops c s :
  sup (bank (w_ch (run w ops) c)) (CNat s) = sup (bank (w_ch w c)) (CNat s).
Proof. exact (native_supply_run w ops c s). Qed.
Print Assumptions C30_native_supply_unchanged.

(** Every step changes the bank of every chain by at most one move (sums to zero), or one mint / burn of a
    voucher denomination matched by the same change of its supply: no account gains what was not debited. *)
Theorem C30_step_is_one_move_mint_or_burn w o c :
  exists e, eff_voucher_only e /\ 0 <= eff_amt e /\
    (forall a x, bal (bank (w_ch (step_w w o) c)) a x = bal (bank (w_ch w c)) a x + eff_bal e a x) /\
    (forall x, sup (bank (w_ch (step_w w o) c)) x = sup (bank (w_ch w c)) x + eff_sup e x).
Proof. exact (step_bank_effect w o c). Qed.
Print Assumptions C30_step_is_one_move_mint_or_burn.

(** The unguarded statement is false of the code (finding F5a): native "transfer/channel-1/stake" sent over
    (transfer, channel-1) and timed out leaves 100 vouchers of chain 1's "stake" on chain 0 with nothing escrowed. *)
Theorem C30_refuted :
  exists w ops, links_ok (w_links w) /\ Fresh w /\ ~ Conserve (run w ops).
Proof. exact (ex_intro _ ex_world (ex_intro _ f5a_ops (conj ex_links_ok (conj ex_fresh f5a_breaks_conservation)))). Qed.
Print Assumptions C30_refuted.

(** non-vacuity: the example world meets the hypotheses, the multi-hop history (send, receive, forward by alias,
    error ack, refund, timeout) is admissible and every one of its steps succeeds *)
Example C30_nonvacuous :
  links_ok (w_links ex_world) /\ Fresh ex_world /\ ok_ops ex_world ex_ops /\
  bal (bank (w_ch (run ex_world ex_ops) 0%N)) (Escrow (B "channel-1")) (CNat (B "uatom")) = 100 /\
  sup (bank (w_ch (run ex_world ex_ops) 1%N)) (CIbc (B "transfer/channel-2/uatom")) = 100 /\
  bal (bank (w_ch (run ex_world ex_ops) 1%N)) (Escrow (B "channel-3")) (CIbc (B "transfer/channel-2/uatom")) = 40 /\
  bal (bank (w_ch (run ex_world ex_ops) 2%N)) (User 9) (CIbc (B "transfer/channel-4/transfer/channel-2/uatom")) = 40.
Proof. split; [exact ex_links_ok|]. split; [exact ex_fresh|]. split; [exact ex_ops_ok|]. vm_compute. auto. Qed.
