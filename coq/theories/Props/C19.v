(** C19 — Packet delay periods are enforced with exact block-delay arithmetic.
    Only statements closed by [exact]; proofs live in TmStore/DelayFacts.v.
    Models: TmStore/Delay.v ([block_delay] = 03-connection/keeper/verify.go:getBlockDelay,
    [verify_delay] = 07-tendermint/client_state.go:verifyDelayPeriodPassed), the same definitions that
    Corr/TmStore.v re-computes on every harness record. *)
From IBC Require Import Lib.Bytes Lib.Dec Core.Height Core.HeightFacts TmStore.Delay TmStore.DelayFacts.
Local Open Scope N_scope.

(** The block delay is exactly ceil(d / p) for every pair of 64-bit inputs: it equals (d + p - 1) / p over the
    natural numbers (no wrap-around, no rounding) ... *)
Theorem C19_block_delay_is_ceiling d p :
  d < two64 -> p < two64 -> p <> 0 -> block_delay d p = (d + p - 1) / p.
Proof. exact (fun Hd _ Hp => block_delay_formula d p Hd Hp). Qed.
Print Assumptions C19_block_delay_is_ceiling.

(** ... equivalently it is the least number of blocks n with n * p >= d ... *)
Theorem C19_block_delay_least d p n :
  d < two64 -> p < two64 -> p <> 0 -> (block_delay d p <= n <-> d <= n * p).
Proof. exact (fun Hd _ Hp => block_delay_least d p n Hd Hp). Qed.
Print Assumptions C19_block_delay_least.

(** ... it is zero when the max-expected-time-per-block parameter is zero, and always fits in 64 bits. *)
Theorem C19_block_delay_zero_and_fits :
  (forall d, block_delay d 0 = 0) /\ (forall d p, d < two64 -> block_delay d p < two64).
Proof. exact (conj block_delay_zero_param block_delay_fits). Qed.
Print Assumptions C19_block_delay_zero_and_fits.

(** verifyDelayPeriodPassed accepts iff both delays have passed, the sums taken over the integers
    (processedTime + delayTime <= now; processedHeight + delayBlocks representable and <= self height in the
    lexicographic height order), both bounds inclusive; a delay of zero skips its check. *)
Theorem C19_delay_period_exact ptime pheight now self dt db :
  now < two64 -> ht self < two64 -> dt < two64 -> db < two64 ->
  (forall pt, ptime = Some pt -> pt < two64) -> (forall ph, pheight = Some ph -> ht ph < two64) ->
  (verify_delay ptime pheight now self dt db = DelayOk <->
   (dt = 0 \/ exists pt, ptime = Some pt /\ pt + dt <= now) /\
   (db = 0 \/ exists ph, pheight = Some ph /\ ht ph + db < two64 /\ h_gte self (mkH (rev ph) (ht ph + db)) = true)).
Proof. exact (verify_delay_ok ptime pheight now self dt db). Qed.
Print Assumptions C19_delay_period_exact.

(** Within one revision the block condition is the inclusive integer comparison processed + delay <= current. *)
Theorem C19_block_delay_period_same_revision r p s db :
  p < two64 -> s < two64 -> db < two64 -> db <> 0 ->
  (delay_block_check (Some (mkH r p)) (mkH r s) db = DelayOk <-> p + db <= s).
Proof. exact (delay_block_check_same_rev r p s db). Qed.
Print Assumptions C19_block_delay_period_same_revision.

(** A needed but missing processed time / processed height is an error, never an acceptance. *)
Theorem C19_missing_metadata_is_error :
  (forall pheight now self dt db, dt <> 0 -> verify_delay None pheight now self dt db = ErrNoProcessedTime) /\
  (forall ptime now self dt db, db <> 0 -> delay_time_check ptime now dt = DelayOk ->
     verify_delay ptime None now self dt db = ErrNoProcessedHeight).
Proof. exact (conj verify_delay_missing_time verify_delay_missing_height). Qed.
Print Assumptions C19_missing_metadata_is_error.

(** non-vacuity and regression witnesses of the two fixed defects (float64 ceiling, wrapping sums) *)
Example C19_nonvacuous :
  block_delay 9007199254740993 2 = 4503599627370497 /\
  block_delay 9007199254740993 1 = 9007199254740993 /\
  block_delay 18446744073709551615 1 = 18446744073709551615 /\
  block_delay 4611686018427387904 3 = 1537228672809129302 /\
  verify_delay (Some 18446744073709551610) None 3 (mkH 1 100) 10 0 = ErrDelayNotPassed /\
  verify_delay (Some 5) (Some (mkH 1 18446744073709551610)) 100 (mkH 1 3) 0 10 = ErrDelayNotPassed /\
  verify_delay (Some 100) (Some (mkH 1 7)) 150 (mkH 1 10) 50 3 = DelayOk /\
  verify_delay (Some 100) (Some (mkH 1 7)) 149 (mkH 1 10) 50 3 = ErrDelayNotPassed /\
  verify_delay (Some 100) (Some (mkH 1 7)) 150 (mkH 1 9) 50 3 = ErrDelayNotPassed.
Proof. vm_compute. repeat split. Qed.
