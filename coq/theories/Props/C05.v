(** C05 — Receipt only of proven, unaltered, unexpired counterparty packets. *)
From IBC Require Import Core.ChainExamples.
From IBC Require Import Lib.Bytes Core.Height Core.Chain Core.World Core.WorldFacts Core.ChainFacts Core.ChainInv Core.ChainThms
  Core.WorldInv Core.WorldInv2 Core.WorldInv3 Core.WorldThm Core.WorldV2 Core.WorldC05.
Local Open Scope N_scope.

(** v1: a successful receive has passed every guard: channel OPEN and its counterparty is the packet's source,
    connection OPEN, the chain's own height and time strictly before the packet's timeout, and the light
    client verified, at the proof height, the commitment to exactly this packet's data and timeout under the
    commitment key of (source port, source channel, sequence).  (The client being Active is part of what
    [e_vmem] stands for: 02-client's VerifyMembership checks the status first; see C05_world_recv below.) *)
Theorem C05_recv1_guards {A} (e : Env A) c p ph c' :
  recv1_tao e c p ph = (c', Ok) ->
  exists ch k,
    chans c (p_dp p, p_dc p) = Some ch /\ c_state ch = ST_OPEN /\
    p_sp p = c_cp_port ch /\ p_sc p = c_cp_chan ch /\
    conns c (c_conn ch) = Some k /\ k_open k = true /\
    elapsed (timeout1 p) (self_h c) (self_t c) = false /\
    e_vmem e (k_client k) ph (KCommit1 (p_sp p) (p_sc p) (p_seq p)) (VCommit1 (commit1 p)) = true /\
    ((c_ord ch = UNORDERED /\ rcpt1 c (p_dp p, p_dc p, p_seq p) = false /\
      c' = set_rcpt1 c (upd k3_eqb (rcpt1 c) (p_dp p, p_dc p, p_seq p) true)) \/
     (c_ord ch = ORDERED /\ nrecv c (p_dp p, p_dc p) = Some (p_seq p) /\
      c' = set_nrecv c (upd k2_eqb (nrecv c) (p_dp p, p_dc p) (Some (p_seq p + 1))))).
Proof. exact (recv1_tao_ok e c p ph c'). Qed.
Print Assumptions C05_recv1_guards.

(** v2: counterparty client id equals the packet's source, own time (whole seconds) strictly before the
    timeout, no receipt yet, commitment to exactly this packet verified through the (alias-resolved) client *)
Theorem C05_recv2_guards {A} (e : Env A) c q ph c' :
  recv2_tao e c q ph = (c', Ok) ->
  cparty c (q_dst q) = Some (q_src q) /\ ns_to_s (self_t c) < q_tt q /\
  rcpt2 c (q_dst q, q_seq q) = false /\
  e_vmem e (base_client c (q_dst q)) ph (KCommit2 (q_src q) (q_seq q)) (VCommit2 (commit2 q)) = true /\
  c' = set_rcpt2 c (upd ks_eqb (rcpt2 c) (q_dst q, q_seq q) true).
Proof. exact (recv2_tao_ok e c q ph c'). Qed.
Print Assumptions C05_recv2_guards.

(** the message handlers succeed only if those TAO checks did *)
Theorem C05_msg_recv1 {A} (e : Env A) c p ph r c' :
  msg_recv1 e c p ph r = (c', Ok) -> exists c1, recv1_tao e c p ph = (c1, Ok) /\ packet1_valid p = true.
Proof. exact (fun H => let '(ex_intro _ c1 (conj a (conj b _))) := msg_recv1_ok e c p ph r c' H in ex_intro _ c1 (conj a b)). Qed.
Print Assumptions C05_msg_recv1.

(** any alteration that makes a guard fail leaves the state exactly as it was *)
Theorem C05_failed_receive_changes_nothing {A} (e : Env A) c o c' out : step e c o = (c', out) -> out <> Ok -> c' = c.
Proof. exact (step_not_ok_same e c o c' out). Qed.
Print Assumptions C05_failed_receive_changes_nothing.

(** with honest Tendermint-like clients (Core/World.v) "verified" means: the client is Active, has a consensus
    state at the proof height (not above its latest height), the proof was taken from exactly the committed
    counterparty state version that consensus state commits to, for exactly the requested key, and that
    version holds exactly the claimed value *)
Theorem C05_honest_membership other me pf lh id ph k v :
  id <> lh -> honest_vmem other me pf lh id ph k v = true ->
  exists t ver snap v',
    consulted me id ph = Some (t, ver) /\ pf = PHonest ver k /\
    assocN ver (w_vers other) = Some snap /\ lookup snap k = Some v' /\ pval_eqb v v' = true.
Proof. exact (honest_membership other me pf lh id ph k v). Qed.
Print Assumptions C05_honest_membership.

Theorem C05_consulted_client_active me id ph t ver :
  consulted me id ph = Some (t, ver) ->
  exists cl, find_client me id = Some cl /\ client_active (self_t (w_chain me)) cl = true /\
    h_lt (cl_latest cl) ph = false /\ assocH ph (cl_cons cl) = Some (t, ver).
Proof. exact (consulted_spec me id ph t ver). Qed.
Print Assumptions C05_consulted_client_active.

(** *** end to end, in the two-chain world of Core/World.v with honest Tendermint-like clients, for every history of
    blocks (any messages, proofs, proof heights, client updates, freezes): every MsgRecvPacket accepted over a remote
    client carries exactly the commitment (= every committed field, C07) that an accepted send once stored on the
    other chain under the packet's source key, and the packet had not expired at the receiving block.  [g_ever] /
    [h_ever] hold exactly the commitments written by accepted sends ([C05_ever_sent_is_a_send]). *)
Theorem C05_end_to_end x l :
  WI x -> good_steps x l ->
  let y := irun x l in
  (forall r, In r (g_rlog (gb y)) -> r_client r <> w_lh (iw y) ->
     g_ever (ga y) (r_src r) = Some (r_com r) /\ elapsed (Tmo (r_com r)) (r_h r) (r_t r) = false) /\
  (forall r, In r (g_rlog (ga y)) -> r_client r <> w_lh (iw y) ->
     g_ever (gb y) (r_src r) = Some (r_com r) /\ elapsed (Tmo (r_com r)) (r_h r) (r_t r) = false).
Proof. exact (recv_only_sent x l). Qed.
Print Assumptions C05_end_to_end.

Theorem C05_end_to_end_v2 x l :
  WI2 x -> good_steps2 x l ->
  let y := irun2 x l in
  (forall r, In r (h_rlog (hb y)) -> r2_client r <> w_lh (iw (iw1 y)) ->
     h_ever (ha y) (r2_src r) = Some (r2_com r) /\ ns_to_s (r2_t r) < Tmo2 (r2_com r)) /\
  (forall r, In r (h_rlog (ha y)) -> r2_client r <> w_lh (iw (iw1 y)) ->
     h_ever (hb y) (r2_src r) = Some (r2_com r) /\ ns_to_s (r2_t r) < Tmo2 (r2_com r)).
Proof. exact (recv2_only_sent x l). Qed.
Print Assumptions C05_end_to_end_v2.

Theorem C05_ever_sent_is_a_send g g2 pre o h t out :
  (forall k v, g_ever (gupd g pre o h t out) k = Some v -> g_ever g k = Some v \/
     exists port chan th tmo data seq ch, out = Ok /\ packet_of o = Some (OSend1 port chan th tmo data) /\
       nsend pre chan = Some seq /\ chans pre (port, chan) = Some ch /\ k = (port, chan, seq) /\
       v = commit1 (mkP1 seq port chan (c_cp_port ch) (c_cp_chan ch) data th tmo)) /\
  (forall k v, h_ever (gupd2 g2 pre o h t out) k = Some v -> h_ever g2 k = Some v \/
     exists src tmo pay sg seq dst, out = Ok /\ packet_of o = Some (OSend2 src tmo pay sg) /\
       nsend pre src = Some seq /\ cparty pre src = Some dst /\ k = (src, seq) /\ v = commit2 (mkP2 seq src dst tmo pay)).
Proof. exact (conj (gupd_ever g pre o h t out) (gupd2_ever g2 pre o h t out)). Qed.
Print Assumptions C05_ever_sent_is_a_send.

(** non-vacuity of the end-to-end theorem: send on A, A's next block, client update on B, MsgRecvPacket on B with
    the honest membership proof of version 11 at proof height 1-12: accepted and logged over client 8 *)
Example C05_end_to_end_nonvacuous :
  WI (mkIW exw ghost0 ghost0) /\ good_steps (mkIW exw ghost0 ghost0) exr_steps /\
  map r_dst (g_rlog (gb (irun (mkIW exw ghost0 ghost0) exr_steps))) = [(1, 20, 1)].
Proof. exact (conj exw_wi (conj exr_good (proj1 exr_received))). Qed.

(** non-vacuity: a concrete state satisfies the invariant and a concrete 13-step history (duplicates, a failing
    application, an ORDERED timeout, multi-payload v2 receives) produces exactly the expected callbacks *)
Example C05_nonvacuous : Inv ex_chain /\ rkeys (events (run ex_chain ex_hist)) <> [] /\ tkeys (events (run ex_chain ex_hist)) <> [].
Proof. exact (conj ex_inv ex_nonempty). Qed.
