(** C05 — Receipt only of proven, unaltered, unexpired counterparty packets. *)
From IBC Require Import Core.ChainExamples.
From IBC Require Import Lib.Bytes Core.Height Core.Chain Core.World Core.WorldFacts Core.ChainFacts Core.ChainInv Core.ChainThms.
Local Open Scope N_scope.

(** v1: a successful receive has passed every guard: channel OPEN and its counterparty is the packet's source,
    connection OPEN, the chain's own height and time strictly before the packet's timeout, and the light
    client verified, at the proof height, the commitment to exactly this packet's data and timeout under the
    commitment key of (source port, source channel, sequence).  (The client being Active is part of what
    [e_vmem] stands for: 02-client's VerifyMembership checks the status first; see C05_world_recv below.) *)
Theorem C05_recv1_guards {A} (e : Env A) c p ph c' :
  recv1_tao e c p ph = (c', Ok) ->
  exists ch k,
    chans c (p_dp p, p_dc p) = Some ch /\ c_state ch = ST_OPEN /\
    p_sp p = c_cp_port ch /\ p_sc p = c_cp_chan ch /\
    conns c (c_conn ch) = Some k /\ k_open k = true /\
    elapsed (timeout1 p) (self_h c) (self_t c) = false /\
    e_vmem e (k_client k) ph (KCommit1 (p_sp p) (p_sc p) (p_seq p)) (VCommit1 (commit1 p)) = true /\
    ((c_ord ch = UNORDERED /\ rcpt1 c (p_dp p, p_dc p, p_seq p) = false /\
      c' = set_rcpt1 c (upd k3_eqb (rcpt1 c) (p_dp p, p_dc p, p_seq p) true)) \/
     (c_ord ch = ORDERED /\ nrecv c (p_dp p, p_dc p) = Some (p_seq p) /\
      c' = set_nrecv c (upd k2_eqb (nrecv c) (p_dp p, p_dc p) (Some (p_seq p + 1))))).
Proof. exact (recv1_tao_ok e c p ph c'). Qed.
Print Assumptions C05_recv1_guards.

(** v2: counterparty client id equals the packet's source, own time (whole seconds) strictly before the
    timeout, no receipt yet, commitment to exactly this packet verified through the (alias-resolved) client *)
Theorem C05_recv2_guards {A} (e : Env A) c q ph c' :
  recv2_tao e c q ph = (c', Ok) ->
  cparty c (q_dst q) = Some (q_src q) /\ ns_to_s (self_t c) < q_tt q /\
  rcpt2 c (q_dst q, q_seq q) = false /\
  e_vmem e (base_client c (q_dst q)) ph (KCommit2 (q_src q) (q_seq q)) (VCommit2 (commit2 q)) = true /\
  c' = set_rcpt2 c (upd ks_eqb (rcpt2 c) (q_dst q, q_seq q) true).
Proof. exact (recv2_tao_ok e c q ph c'). Qed.
Print Assumptions C05_recv2_guards.

(** the message handlers succeed only if those TAO checks did *)
Theorem C05_msg_recv1 {A} (e : Env A) c p ph r c' :
  msg_recv1 e c p ph r = (c', Ok) -> exists c1, recv1_tao e c p ph = (c1, Ok) /\ packet1_valid p = true.
Proof. exact (fun H => let '(ex_intro _ c1 (conj a (conj b _))) := msg_recv1_ok e c p ph r c' H in ex_intro _ c1 (conj a b)). Qed.
Print Assumptions C05_msg_recv1.

(** any alteration that makes a guard fail leaves the state exactly as it was *)
Theorem C05_failed_receive_changes_nothing {A} (e : Env A) c o c' out : step e c o = (c', out) -> out <> Ok -> c' = c.
Proof. exact (step_not_ok_same e c o c' out). Qed.
Print Assumptions C05_failed_receive_changes_nothing.

(** with honest Tendermint-like clients (Core/World.v) "verified" means: the client is Active, has a consensus
    state at the proof height (not above its latest height), the proof was taken from exactly the committed
    counterparty state version that consensus state commits to, for exactly the requested key, and that
    version holds exactly the claimed value *)
Theorem C05_honest_membership other me pf lh id ph k v :
  id <> lh -> honest_vmem other me pf lh id ph k v = true ->
  exists t ver snap v',
    consulted me id ph = Some (t, ver) /\ pf = PHonest ver k /\
    assocN ver (w_vers other) = Some snap /\ lookup snap k = Some v' /\ pval_eqb v v' = true.
Proof. exact (honest_membership other me pf lh id ph k v). Qed.
Print Assumptions C05_honest_membership.

Theorem C05_consulted_client_active me id ph t ver :
  consulted me id ph = Some (t, ver) ->
  exists cl, find_client me id = Some cl /\ client_active (self_t (w_chain me)) cl = true /\
    h_lt (cl_latest cl) ph = false /\ assocH ph (cl_cons cl) = Some (t, ver).
Proof. exact (consulted_spec me id ph t ver). Qed.
Print Assumptions C05_consulted_client_active.

(** non-vacuity: a concrete state satisfies the invariant and a concrete 13-step history (duplicates, a failing
    application, an ORDERED timeout, multi-payload v2 receives) produces exactly the expected callbacks *)
Example C05_nonvacuous : Inv ex_chain /\ rkeys (events (run ex_chain ex_hist)) <> [] /\ tkeys (events (run ex_chain ex_hist)) <> [].
Proof. exact (conj ex_inv ex_nonempty). Qed.
