(** C24 — Tendermint headers and misbehaviour are accepted only when verified.
    Partial: the CometBFT light-client logic is re-modelled from the dependency source (cometbft v0.40.0) and
    signature verification, vote encoding, validator-set / header hashing and address derivation are abstract
    (universally quantified functions).  Statements only; proofs are in TmVerify/LightFacts.v; the model
    (TmVerify/Light.v) is re-computed on every `tmverify` harness record with these functions instantiated by the
    recorded results of the real ones. *)
From IBC Require Import Lib.Bytes Lib.Dec Core.Height Core.HeightFacts TmVerify.Util TmVerify.World TmVerify.WorldFacts TmVerify.Light TmVerify.LightFacts.
Local Open Scope Z_scope.

(** verifyHeader returns nil only if: the trusted validators hash to the trusted consensus state's
    NextValidatorsHash; same revision; height strictly above the trusted height; the trusted state is within the
    trusting period; header time after the trusted time and before now + max clock drift; the header is for the
    client's chain, its validator set hashes to its ValidatorsHash, the commit is for this header (block id =
    header hash, same height); validators of its own set at distinct positions, with BlockIDFlagCommit signatures
    that verify over exactly vote_bytes(chain id, commit height, round, block id, signature timestamp), hold more
    than 2/3 of the set's total power; adjacent: ValidatorsHash = trusted NextValidatorsHash; non-adjacent:
    distinct trusted validators with verifying signatures hold more than the needed power the code computes
    from the trust level. *)
Theorem C24_header_accepted_only_if_verified
        (sig_ok : bytes -> bytes -> bytes -> bool) (vote_bytes : VoteMsg -> bytes)
        (vals_hash : list Validator -> bytes) (header_hash : Header -> bytes) (pk_addr : bytes -> bytes) cl now th :
  verify_header sig_ok vote_bytes vals_hash header_hash pk_addr cl now th = Ok ->
  exists cs tvals vals hh,
    hlookup (th_trusted th) (c_cons cl) = Some cs /\
    valset_from_proto pk_addr (th_tvals th) = Some tvals /\ vals_hash tvals = cs_nvh cs /\
    valset_from_proto pk_addr (th_vals th) = Some vals /\
    header_height (th_hdr th) = Some hh /\ rev hh = rev (th_trusted th) /\ lex_lt (th_trusted th) hh /\
    now < cs_ts cs + c_trusting cl /\
    cs_ts cs < hd_time (th_hdr th) /\ hd_time (th_hdr th) < now + c_drift cl /\
    hd_chain (th_hdr th) = c_chain cl /\
    int64_of_uint64 (ht (th_trusted th)) < hd_height (th_hdr th) /\
    hd_vals (th_hdr th) = vals_hash vals /\
    header_hash (th_hdr th) = bi_hash (cm_bid (th_commit th)) /\
    cm_height (th_commit th) = hd_height (th_hdr th) /\
    (exists total picked,
       total_power vals = Some total /\
       subseq picked (combine vals (cm_sigs (th_commit th))) /\
       Forall (good_pair sig_ok vote_bytes pk_addr (c_chain cl) (th_commit th)) picked /\
       2 * total < 3 * power_sum picked) /\
    (adjacent th -> hd_vals (th_hdr th) = cs_nvh cs) /\
    (~ adjacent th ->
       exists total needed picked,
         total_power tvals = Some total /\ trust_needed total (c_tl_num cl) (c_tl_den cl) = Some needed /\
         Forall (good_tr sig_ok vote_bytes pk_addr (c_chain cl) (th_commit th) tvals) picked /\
         NoDup (map (fun p => fst (fst p)) picked) /\
         subseq (map snd picked) (cm_sigs (th_commit th)) /\ needed < power_sum3 picked).
Proof. exact (verify_header_accept sig_ok vote_bytes vals_hash header_hash pk_addr cl now th). Qed.
Print Assumptions C24_header_accepted_only_if_verified.

(** For a client state that passed ClientState.Validate (which since fix 73282cb requires numerator and
    denominator <= MaxInt64) an accepted non-adjacent header carries verifying signatures of distinct trusted
    validators whose total power S satisfies S * den > total * num: at least the trust level of the trusted set. *)
Theorem C24_trusted_power_at_least_trust_level
        (sig_ok : bytes -> bytes -> bytes -> bool) (vote_bytes : VoteMsg -> bytes)
        (vals_hash : list Validator -> bytes) (header_hash : Header -> bytes) (pk_addr : bytes -> bytes) cl now th :
  verify_header sig_ok vote_bytes vals_hash header_hash pk_addr cl now th = Ok ->
  validate_client cl = Some true -> ~ adjacent th ->
  exists tvals total picked,
    valset_from_proto pk_addr (th_tvals th) = Some tvals /\ total_power tvals = Some total /\
    Forall (good_tr sig_ok vote_bytes pk_addr (c_chain cl) (th_commit th) tvals) picked /\
    NoDup (map (fun p => fst (fst p)) picked) /\
    subseq (map snd picked) (cm_sigs (th_commit th)) /\
    total * Z.of_N (c_tl_num cl) < power_sum3 picked * Z.of_N (c_tl_den cl).
Proof.
  exact (fun A V NA => verify_header_trust_level sig_ok vote_bytes vals_hash header_hash pk_addr cl now th A
                         (validate_client_tl_fits cl V) NA).
Qed.
Print Assumptions C24_trusted_power_at_least_trust_level.

(** The trust level of a client never changes after creation: if every client's trust level fits int64 (as
    Validate guarantees at creation) it still does after any history of updates, misbehaviour, recoveries and
    upgrades — so the hypothesis above holds for every reachable client state. *)
Theorem C24_trust_level_fits_preserved vmem vnon enc_client enc_cons ops w :
  all_tl_fit w -> all_tl_fit (run vmem vnon enc_client enc_cons w ops).
Proof. exact (run_tl_fit vmem vnon enc_client enc_cons ops w). Qed.
Print Assumptions C24_trust_level_fits_preserved.

(** The arithmetic fact behind it: when numerator and denominator fit int64 the needed power is the trust level. *)
Theorem C24_trust_level_guarded total num den needed S :
  trust_needed total num den = Some needed -> 0 <= total ->
  Z.of_N num < two63Z -> Z.of_N den < two63Z -> needed < S ->
  total * Z.of_N num < S * Z.of_N den.
Proof. exact (trust_needed_guarded total num den needed S). Qed.
Print Assumptions C24_trust_level_guarded.

(** The verifier alone does not guarantee it: with trust level 2^62 / (3 * 2^62) — accepted by
    light.ValidateTrustLevel, rejected by ClientState.Validate only since fix 73282cb (finding F9) —
    int64(denominator) is negative, the needed power is -1 and a commit without any verifying signature passes
    VerifyCommitLightTrusting against a trusted set of total power 1.  The harness keeps the case as a
    regression: creating such a client must fail. *)
Theorem C24_trust_level_without_validate_refuted :
  exists (sig_ok : bytes -> bytes -> bytes -> bool) vals c num den,
    valid_trust_level num den = true /\ trust_level_fits num den = false /\
    (forall pk m s, sig_ok pk m s = false) /\
    fst (verify_commit_light_trusting sig_ok (fun _ => []) (fun _ => []) (B "chain-1") vals c num den []) = true.
Proof. exact trust_level_without_validate_refuted. Qed.
Print Assumptions C24_trust_level_without_validate_refuted.

(** VerifyCommitLight (used for updates and by Misbehaviour.ValidateBasic): more than 2/3 of the set's own power,
    tallied without overflow (total <= MaxInt64/8), counted by position. *)
Theorem C24_commit_light_two_thirds
        (sig_ok : bytes -> bytes -> bytes -> bool) (vote_bytes : VoteMsg -> bytes) (pk_addr : bytes -> bytes)
        chain vals bid height c cache cache' :
  cache_good sig_ok pk_addr cache -> (forall v, In v vals -> 0 <= v_power v) ->
  verify_commit_light sig_ok vote_bytes pk_addr chain vals bid height c cache = (true, cache') ->
  exists total picked,
    total_power vals = Some total /\
    height = cm_height c /\ blockid_eqb bid (cm_bid c) = true /\
    subseq picked (combine vals (cm_sigs c)) /\ Forall (good_pair sig_ok vote_bytes pk_addr chain c) picked /\
    2 * total < 3 * power_sum picked /\ cache_good sig_ok pk_addr cache'.
Proof. exact (verify_commit_light_sound sig_ok vote_bytes pk_addr chain vals bid height c cache cache'). Qed.
Print Assumptions C24_commit_light_two_thirds.

(** checkMisbehaviourHeader returns nil only if the trusted validators hash to the stored trusted consensus
    state's NextValidatorsHash, that state is younger than the trusting period, and distinct trusted validators
    with verifying signatures hold more than the needed power. *)
Theorem C24_misbehaviour_header_checked
        (sig_ok : bytes -> bytes -> bytes -> bool) (vote_bytes : VoteMsg -> bytes)
        (vals_hash : list Validator -> bytes) (pk_addr : bytes -> bytes) cl cs th now :
  check_misbehaviour_header sig_ok vote_bytes vals_hash pk_addr cl cs th now = Ok ->
  exists tvals chain total needed picked,
    valset_from_proto pk_addr (th_tvals th) = Some tvals /\ vals_hash tvals = cs_nvh cs /\
    now - cs_ts cs < c_trusting cl /\
    total_power tvals = Some total /\ trust_needed total (c_tl_num cl) (c_tl_den cl) = Some needed /\
    Forall (good_tr sig_ok vote_bytes pk_addr chain (th_commit th) tvals) picked /\
    NoDup (map (fun p => fst (fst p)) picked) /\
    subseq (map snd picked) (cm_sigs (th_commit th)) /\ needed < power_sum3 picked.
Proof. exact (check_misbehaviour_header_accept sig_ok vote_bytes vals_hash pk_addr cl cs th now). Qed.
Print Assumptions C24_misbehaviour_header_checked.

(** A misbehaviour submission freezes the client only if both headers pass these checks against consensus
    states stored at their trusted heights. *)
Theorem C24_misbehaviour_freezes_only_if_both_pass
        (sig_ok : bytes -> bytes -> bytes -> bool) (vote_bytes : VoteMsg -> bytes)
        (vals_hash : list Validator -> bytes) (pk_addr : bytes -> bytes) cl now h1 h2 :
  misbehaviour_freezes sig_ok vote_bytes vals_hash pk_addr cl now h1 h2 = true ->
  exists cs1 cs2,
    hlookup (th_trusted h1) (c_cons cl) = Some cs1 /\ hlookup (th_trusted h2) (c_cons cl) = Some cs2 /\
    check_misbehaviour_header sig_ok vote_bytes vals_hash pk_addr cl cs1 h1 now = Ok /\
    check_misbehaviour_header sig_ok vote_bytes vals_hash pk_addr cl cs2 h2 now = Ok.
Proof. exact (misbehaviour_freezes_only_if_both_pass sig_ok vote_bytes vals_hash pk_addr cl now h1 h2). Qed.
Print Assumptions C24_misbehaviour_freezes_only_if_both_pass.

(** Mutating a signed field changes the sign bytes: the vote a signature is checked against fixes chain id,
    height, round, block id and timestamp; and two accepted headers differing in any header field either are
    checked against different votes throughout, or exhibit a collision of the header hash. *)
Theorem C24_signed_fields_bind_sign_bytes
        (sig_ok : bytes -> bytes -> bytes -> bool) (vote_bytes : VoteMsg -> bytes)
        (vals_hash : list Validator -> bytes) (header_hash : Header -> bytes) (pk_addr : bytes -> bytes) :
  (forall ch c s ch' c' s', sign_msg ch c s = sign_msg ch' c' s' ->
     ch = ch' /\ cm_height c = cm_height c' /\ cm_round c = cm_round c' /\ cm_bid c = cm_bid c' /\ s_ts s = s_ts s') /\
  (forall cl now th cl' now' th',
     verify_header sig_ok vote_bytes vals_hash header_hash pk_addr cl now th = Ok ->
     verify_header sig_ok vote_bytes vals_hash header_hash pk_addr cl' now' th' = Ok ->
     th_hdr th <> th_hdr th' ->
     (th_hdr th <> th_hdr th' /\ header_hash (th_hdr th) = header_hash (th_hdr th')) \/
     (forall s s', sign_msg (c_chain cl) (th_commit th) s <> sign_msg (c_chain cl') (th_commit th') s')) /\
  (forall m m', m <> m' -> vote_bytes m = vote_bytes m' -> exists a b, a <> b /\ vote_bytes a = vote_bytes b).
Proof.
  exact (conj sign_msg_inj
        (conj (changed_header_changes_sign_bytes sig_ok vote_bytes vals_hash header_hash pk_addr)
              (vote_bytes_distinct vote_bytes))).
Qed.
Print Assumptions C24_signed_fields_bind_sign_bytes.

(** non-vacuity: a two-validator set, both signatures valid: accepted; one signature invalid: rejected;
    exactly 2/3 of the power: rejected. *)
Example C24_nonvacuous :
  let a1 := B "aaaaaaaaaaaaaaaaaaaa" in let a2 := B "bbbbbbbbbbbbbbbbbbbb" in
  let v1 := mkVal a1 (B "k1") 2 in let v2 := mkVal a2 (B "k2") 1 in
  let c := mkCommit 5 0 (mkBID (B "h") 1 (B "p")) [mkSig flag_commit a1 7 (B "s1"); mkSig flag_commit a2 8 (B "s2")] in
  let good := fun pk m s => (bytes_eqb pk (B "k1") && bytes_eqb s (B "s1")) || (bytes_eqb pk (B "k2") && bytes_eqb s (B "s2")) in
  let only1 := fun pk m s => bytes_eqb pk (B "k1") && bytes_eqb s (B "s1") in
  fst (verify_commit_light good (fun m => vm_chain m) (fun pk => pk) (B "c-1") [v1; v2] (mkBID (B "h") 1 (B "p")) 5 c []) = true /\
  fst (verify_commit_light only1 (fun m => vm_chain m) (fun pk => pk) (B "c-1") [v1; v2] (mkBID (B "h") 1 (B "p")) 5 c []) = false /\
  total_power [v1; v2] = Some 3.
Proof. vm_compute. repeat split. Qed.
