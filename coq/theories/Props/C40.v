(** C40 — Callbacks are gas-bounded and cannot break the packet lifecycle.
    Only statements closed by [exact]; proofs live in IcaGmp/CallbacksFacts.v, the model in IcaGmp/Callbacks.v.
    The contract keeper's executor is an arbitrary function [f : state -> gas limit -> ExecRes]. *)
From IBC Require Import Lib.Bytes Lib.Dec IcaGmp.Callbacks IcaGmp.CallbacksFacts.
Local Open Scope N_scope.

(** commit = if user = 0 \/ user > max then max else user;  exec = min(remaining, commit) *)
Theorem C40_gas_limits f remaining maxg exec commit :
  compute_limits f remaining maxg = Some (exec, commit) ->
  exists user, user_gas_limit f = Some user /\ user < two64 /\
               commit = commit_gas_limit user maxg /\ exec = N.min remaining commit /\
               exec <= remaining /\ exec <= commit /\ commit <= maxg.
Proof. exact (compute_limits_spec f remaining maxg exec commit). Qed.
Print Assumptions C40_gas_limits.

Theorem C40_commit_limit user maxg :
  commit_gas_limit user maxg = (if (user =? 0) || (maxg <? user) then maxg else user) /\
  (user = 0 \/ maxg < user -> commit_gas_limit user maxg = maxg) /\
  (user <> 0 -> user <= maxg -> commit_gas_limit user maxg = user) /\
  commit_gas_limit user maxg <= maxg.
Proof. exact (commit_gas_limit_spec user maxg). Qed.
Print Assumptions C40_commit_limit.

(** Whatever the contract does, the transaction is charged min(consumed, exec) and the outer meter
    never panics because of the callback. *)
Theorem C40_outer_gas_charged (S : Type) (f : S -> N -> ExecRes S) outer t exec commit st :
  outer_ok outer exec ->
  let r := process_callback outer t exec commit st f in
  pc_outer S r = mkMeter (m_limit outer) (m_consumed outer + N.min (xr_used (f st exec)) exec) /\
  (forall g o, r <> PCPanic (PvOuterGas g) o) /\
  N.min (xr_used (f st exec)) exec <= exec.
Proof. exact (pc_charge S f outer t exec commit st). Qed.
Print Assumptions C40_outer_gas_charged.

(** Through the middleware: a callback never uses more gas than min(remaining, min(user', max)). *)
Theorem C40_gas_bound (S : Type) (maxg : N) (f : S -> N -> ExecRes S) t outer st gf exec commit oi pr :
  meter_ok outer -> compute_limits gf (gas_remaining outer) maxg = Some (exec, commit) ->
  let r := after_app S maxg t outer st (CbWanted gf) f oi pr in
  let o' := match r with MwRet _ _ o => o | MwPanic _ o => o end in
  m_limit o' = m_limit outer /\
  m_consumed o' = m_consumed outer + N.min (xr_used (f st exec)) exec /\
  m_consumed o' - m_consumed outer <= N.min (gas_remaining outer) commit /\ commit <= maxg.
Proof. exact (after_app_gas_bound S maxg f t outer st gf exec commit oi pr). Qed.
Print Assumptions C40_gas_bound.

(** Acknowledgement, timeout, receive and async write-ack callbacks, executor respecting its meter:
    ProcessCallback returns nil with the callback's state, or an error value with the callback's
    state discarded (error, panic, out of gas with exec >= commit), or -- only when it ran out of
    gas with exec < commit -- the OutOfGas retry panic. *)
Theorem C40_process_callback_outcomes (S : Type) (f : S -> N -> ExecRes S) outer t exec commit st :
  outer_ok outer exec -> t <> CbSend -> meter_respecting S f ->
  let used := xr_used (f st exec) in
  let o' := mkMeter (m_limit outer) (m_consumed outer + N.min used exec) in
  (exists s', process_callback outer t exec commit st f = PCRet None s' o' /\
              f st exec = XRet false s' used /\ used <= exec) \/
  (exists e, process_callback outer t exec commit st f = PCRet (Some e) st o' /\
             (exec < used -> commit <= exec)) \/
  (process_callback outer t exec commit st f = PCPanic PvOutOfGasRetry o' /\ exec < used /\ exec < commit).
Proof. exact (pc_total S f outer t exec commit st). Qed.
Print Assumptions C40_process_callback_outcomes.

Theorem C40_error_value_means_state_discarded (S : Type) (f : S -> N -> ExecRes S) outer t exec commit st e s o :
  meter_respecting S f -> process_callback outer t exec commit st f = PCRet (Some e) s o -> s = st.
Proof. exact (pc_error_discards S f outer t exec commit st e s o). Qed.
Print Assumptions C40_error_value_means_state_discarded.

(** The corner outside [meter_respecting], exhibited: an executor that swallows the out-of-gas panic
    and returns nil gets its writes committed although ErrCallbackOutOfGas is returned. *)
Theorem C40_swallowed_out_of_gas_commits :
  exists (f : N -> N -> ExecRes N) outer exec commit st s o,
    outer_ok outer exec /\ process_callback outer CbAck exec commit st f = PCRet (Some ECbOutOfGas) s o /\ s <> st.
Proof. exact pc_swallowed_oog_commits. Qed.
Print Assumptions C40_swallowed_out_of_gas_commits.

(** Lifecycle: ack / timeout / write-ack middleware entry points never fail because of the callback. *)
Theorem C40_source_callbacks_do_not_block (S : Type) (maxg : N) (f : S -> N -> ExecRes S) t outer st gf oi :
  meter_respecting S f -> t <> CbSend -> meter_ok outer ->
  forall exec commit, compute_limits gf (gas_remaining outer) maxg = Some (exec, commit) ->
  let r := after_app S maxg t outer st (CbWanted gf) f oi false in
  (exists s' o, r = MwRet true s' o /\ f st exec = XRet false s' (xr_used (f st exec)) /\ xr_used (f st exec) <= exec) \/
  (exists o, r = MwRet true st o /\ (exec < xr_used (f st exec) -> commit <= exec)) \/
  (exists o, r = MwPanic PvOutOfGasRetry o /\ exec < xr_used (f st exec) /\ exec < commit).
Proof. exact (fun MR => after_app_nonblocking S maxg f MR t outer st gf oi). Qed.
Print Assumptions C40_source_callbacks_do_not_block.

(** Send callbacks: an error rejects the send, a contract panic propagates. *)
Theorem C40_send_callback_failure_propagates (S : Type) (maxg : N) (f : S -> N -> ExecRes S) outer st gf oi :
  meter_respecting S f -> meter_ok outer ->
  forall exec commit, compute_limits gf (gas_remaining outer) maxg = Some (exec, commit) ->
  let r := after_app S maxg CbSend outer st (CbWanted gf) f oi true in
  match f st exec with
  | XRet false s' u => exists o, r = MwRet true s' o
  | XRet true _ u => (exists o, r = MwRet false st o) \/ (exists o, r = MwPanic PvOutOfGasRetry o /\ exec < u /\ exec < commit)
  | XPanic _ => exists o, r = MwPanic PvContract o
  end.
Proof. exact (fun MR => after_app_send S maxg f MR outer st gf oi). Qed.
Print Assumptions C40_send_callback_failure_propagates.

(** Destination callbacks: a failing callback gives an error acknowledgement and core RecvPacket
    commits none of the application's writes; a successful one commits application + callback. *)
Theorem C40_failing_destination_callback (S : Type) (maxg : N) (f : S -> N -> ExecRes S) outer st0 st_app gf :
  meter_respecting S f -> meter_ok outer ->
  forall exec commit, compute_limits gf (gas_remaining outer) maxg = Some (exec, commit) ->
  (forall s' u, f st_app exec <> XRet false s' u) ->
  (exec < xr_used (f st_app exec) -> commit <= exec) ->
  exists o, core_recv S maxg outer st0 AckSuccess st_app (CbWanted gf) f = Some (st0, AckError, o).
Proof. exact (fun MR => core_recv_failing_callback S maxg f MR outer st0 st_app gf). Qed.
Print Assumptions C40_failing_destination_callback.

Theorem C40_successful_destination_callback (S : Type) (maxg : N) (f : S -> N -> ExecRes S) outer st0 st_app gf s' u :
  meter_respecting S f -> meter_ok outer ->
  forall exec commit, compute_limits gf (gas_remaining outer) maxg = Some (exec, commit) ->
  f st_app exec = XRet false s' u ->
  exists o, core_recv S maxg outer st0 AckSuccess st_app (CbWanted gf) f = Some (s', AckSuccess, o).
Proof. exact (fun MR => core_recv_success S maxg f MR outer st0 st_app gf s' u). Qed.
Print Assumptions C40_successful_destination_callback.

(** non-vacuity: a concrete meter, limits and executors exercising success, error and retry panic *)
Example C40_nonvacuous :
  let outer := mkMeter 1000 100 in
  compute_limits (GfString (B "600")) (gas_remaining outer) 500 = Some (500, 500) /\
  compute_limits (GfString (B "400")) 300 500 = Some (300, 400) /\
  outer_ok outer 500 /\
  process_callback outer CbAck 500 500 7 (fun st l => XRet false (st + 1) 200) = PCRet None 8 (mkMeter 1000 300) /\
  process_callback outer CbAck 500 500 7 (fun st l => XPanic 501) = PCRet (Some ECbOutOfGas) 7 (mkMeter 1000 600) /\
  process_callback outer CbAck 300 400 7 (fun st l => XPanic 301) = PCPanic PvOutOfGasRetry (mkMeter 1000 400).
Proof. vm_compute. repeat split; congruence. Qed.
