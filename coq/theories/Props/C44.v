(** C44 — Genesis export/import preserves all protocol-observable IBC state.
    Statements only; proofs live in Sys/GenesisFacts.v.  The model ([Sys/Genesis.v]) is the IBC core store as a
    key-value state with the client namespace classified at byte level; [export] / [init] follow the Go loops;
    [None] = a panic.  The full statement (every reachable state round-trips) is FALSE of the code: see
    [C44_refuted] (F3: alias-keyed state is not exported; F8: a counterparty with the same identifier makes
    InitGenesis panic).  The guarded statements use exactly the complements of those two shapes. *)
From IBC Require Import Lib.Bytes Lib.BytesFacts Lib.CorrLib Sys.Genesis Sys.GenesisFacts.

(** Round trip, guarded: from a store with one value per key that holds the sentinel localhost connection, whose
    client keys no iterator panics on and whose channels all have a send sequence (all true of reachable stores),
    with no state keyed by an identifier the export loops do not visit (no alias state) and no client whose
    counterparty carries the same identifier: export and InitGenesis succeed and the restored store maps every
    key to the same value as before, and holds nothing else. *)
Theorem C44_roundtrip_guarded cp_id sentinel s :
  wf sentinel s -> no_alias_state s = true -> no_equal_ids cp_id s = true ->
  (forall e, In e s -> is_bad e = false) ->
  (forall c, In c (channel_ids s) -> lookup (KNextSend c) s <> None) ->
  exists s', restore cp_id sentinel s = Some s' /\ forall k, lookup k s' = lookup k s.
Proof. exact (restore_guarded cp_id sentinel s). Qed.
Print Assumptions C44_roundtrip_guarded.

(** Without any guard: the restored store never holds anything the exported one did not, and an entry survives
    exactly when one of the export loops writes it out (so what is lost is precisely the unexported entries). *)
Theorem C44_lost_exactly_unexported sentinel s g :
  wf sentinel s -> export s = Some g ->
  (forall e, In e (init sentinel g) -> In e s) /\
  (forall k v, In (k, v) s -> (lookup k (init sentinel g) = Some v <-> exported s (k, v) = true)).
Proof.
  exact (fun W E => conj (restore_sound sentinel s g W E) (lost_exactly_unexported sentinel s g W E)).
Qed.
Print Assumptions C44_lost_exactly_unexported.

(** Re-export (guard-free): exporting the restored store succeeds and writes out exactly the restored store, i.e.
    the same entries as the first export (plus the sentinel connection): export ∘ init ∘ export = export up to the
    order of the lists (the order is the store's key order in the code; the harness compares the bytes). *)
Theorem C44_reexport_equiv sentinel s g :
  wf sentinel s -> export s = Some g ->
  exists g', export (init sentinel g) = Some g' /\ forall e, In e (entries g') <-> In e (init sentinel g).
Proof. exact (reexport_equiv sentinel s g). Qed.
Print Assumptions C44_reexport_equiv.

(** Export never panics on a store whose client keys are well formed and whose channels have send sequences ... *)
Theorem C44_export_no_panic s :
  (forall e, In e s -> is_bad e = false) ->
  (forall c, In c (channel_ids s) -> lookup (KNextSend c) s <> None) ->
  export s <> None.
Proof. exact (export_no_panic s). Qed.
Print Assumptions C44_export_no_panic.

(** ... and the Tendermint iteration keys clients/<id>/iterateConsensusStates‖<any bytes> are never selected as a
    client state or consensus state and never make an iterator panic (the F6 key shape, for all byte strings). *)
Theorem C44_iteration_keys_harmless id bs :
  ~ In slash id -> blank id = false ->
  is_bad (KClient (clients_pre ++ slash :: id ++ slash :: B "iterateConsensusStates" ++ bs), []) = false /\
  is_cstate (KClient (clients_pre ++ slash :: id ++ slash :: B "iterateConsensusStates" ++ bs), []) = false /\
  is_ccons (KClient (clients_pre ++ slash :: id ++ slash :: B "iterateConsensusStates" ++ bs), []) = false.
Proof. exact (iteration_key_never_bad id bs). Qed.
Print Assumptions C44_iteration_keys_harmless.

(** The unguarded statement is false.  F3: a reachable store (UNORDERED channel-0 opened over 07-tendermint-0, one
    v2 packet sent over the alias) loses the alias-keyed commitment, the alias map entry and the alias counterparty.
    F8: a client whose registered counterparty has the same identifier makes InitGenesis panic. *)
Theorem C44_refuted :
  (exists s', restore (fun v => v) (B "L") st_f3 = Some s' /\
              lookup (KV2 VCommit (B "channel-0") 1) s' = None /\
              lookup (KAlias (B "channel-0")) s' = None /\
              lookup (KClient (B "clients/channel-0/counterparty")) s' = None /\
              lookup (KNextSend (B "channel-0")) s' = Some (B "2")) /\
  restore (fun v => v) (B "L") st_f8 = None /\ export st_f8 <> None.
Proof.
  exact refuted.
Qed.
Print Assumptions C44_refuted.

(** non-vacuity: the guards are met by a concrete store with a client, consensus state, metadata (including a
    Tendermint iteration key holding the bytes "clientState"), a v2 counterparty with a different id, v2 packet
    state and an ORDERED channel; and the key the pre-fix code selected-and-panicked on (F6) is metadata now. *)
Example C44_nonvacuous :
  let f6key := B "clients/07-tendermint-0/iterateConsensusStatesclientState" ++ [zero; zero; zero; zero; one] in
  let s := st_base ++
           [ (KClient f6key, B "it");
             (KClient (B "clients/07-tendermint-0/counterparty"), B "07-tendermint-9");
             (KV2 VCommit (B "07-tendermint-0") 1, B "c");
             (KV2 VAsync (B "07-tendermint-0") 3, B "a");
             (KNextSend (B "07-tendermint-0"), B "2") ] in
  no_alias_state s = true /\ no_equal_ids (fun v => v) s = true /\ existsb is_bad s = false /\
  lost (fun v => v) (B "L") s = Some [] /\ extra (fun v => v) (B "L") s = Some [] /\
  old_selects f6key = true /\ parse_client_state_path f6key = None /\
  (exists k, classify f6key = CMeta (B "07-tendermint-0") k).
Proof. vm_compute. repeat split; try reflexivity. eexists; reflexivity. Qed.
