(** C04 — Timeouts are sound: never both received and timed out, never early.
    Partial: the statements below are the per-chain halves and the honest-client meaning of "proven"; the
    end-to-end two-chain invariant that glues them (snapshot bookkeeping of Core/World.v: header h carries the
    time of block h and the state after block h-1, heights and times of a chain never decrease) is exercised
    by the `core` correspondence family and its monitor on real chains, not mechanised as one theorem. *)
From IBC Require Import Core.ChainExamples.
From IBC Require Import Lib.Bytes Core.Height Core.HeightFacts Core.Chain Core.World Core.WorldFacts Core.ChainFacts Core.ChainInv Core.ChainThms.
Local Open Scope N_scope.

(** source side, v1: a timeout is processed only if the consensus state at the proof height exists, the
    packet's timeout has elapsed at (proof height, that consensus state's timestamp), the stored commitment is
    the relayed packet's, and absence of the receipt (UNORDERED) or the counterparty's nextSequenceRecv
    <= sequence (ORDERED) was verified at that same proof height *)
Theorem C04_timeout1_guards {A} (e : Env A) c p ph nsr c' :
  timeout1_tao e c p ph nsr = (c', Ok) ->
  exists ch k pts,
    chans c (p_sp p, p_sc p) = Some ch /\ p_dp p = c_cp_port ch /\ p_dc p = c_cp_chan ch /\
    conns c (c_conn ch) = Some k /\
    e_ts e (k_client k) ph = Some pts /\ elapsed (timeout1 p) ph pts = true /\
    com1 c (p_sp p, p_sc p, p_seq p) = Some (commit1 p) /\
    verify_unreceived e k ch p ph nsr = true /\
    c' = timeout_executed c ch p.
Proof. exact (timeout1_tao_ok e c p ph nsr c'). Qed.
Print Assumptions C04_timeout1_guards.

(** v2: timeouts in seconds against nanosecond consensus time: floor(ns / 10^9) >= timeout *)
Theorem C04_timeout2_guards {A} (e : Env A) c q ph c' :
  timeout2_tao e c q ph = (c', Ok) ->
  cparty c (q_src q) = Some (q_dst q) /\
  (exists pts, e_ts e (base_client c (q_src q)) ph = Some pts /\ q_tt q <= ns_to_s pts) /\
  com2 c (q_src q, q_seq q) = Some (commit2 q) /\
  e_vnon e (base_client c (q_src q)) ph (KReceipt2 (q_dst q) (q_seq q)) = true /\
  c' = set_com2 c (upd ks_eqb (com2 c) (q_src q, q_seq q) None).
Proof. exact (timeout2_tao_ok e c q ph c'). Qed.
Print Assumptions C04_timeout2_guards.

(** destination side: once the destination has reached a height/time at which the timeout has elapsed — in
    particular the proof height and its consensus time — the packet can never be received there any more *)
Theorem C04_no_receive_after_elapsed {A} (e : Env A) c :
  (forall p h t ph r, elapsed (timeout1 p) h t = true -> h_lte h (self_h c) = true -> t <= self_t c ->
                      snd (msg_recv1 e c p ph r) <> Ok) /\
  (forall q t ph r, q_tt q <= ns_to_s t -> t <= self_t c -> snd (msg_recv2 e c q ph r) <> Ok).
Proof. exact (conj (no_receive_after_elapsed1 e c) (no_receive_after_elapsed2 e c)). Qed.
Print Assumptions C04_no_receive_after_elapsed.

(** and receipts are never removed, so a receive before the proven version is visible in it *)
Theorem C04_receipts_persist {A} (c : Chain A) hist :
  (forall k, rcpt1 c k = true -> rcpt1 (run c hist) k = true) /\ (forall k, rcpt2 c k = true -> rcpt2 (run c hist) k = true) /\
  (forall k n, nrecv c k = Some n -> exists n', nrecv (run c hist) k = Some n' /\ n <= n').
Proof. exact (let M := run_mono c hist in conj (m_rcpt1 _ _ M) (conj (m_rcpt2 _ _ M) (m_nrecv _ _ M))). Qed.
Print Assumptions C04_receipts_persist.

(** honest client: "absence verified" = the consulted counterparty version really holds nothing at that key *)
Theorem C04_honest_nonmembership other me pf lh id ph k :
  id <> lh -> honest_vnon other me pf lh id ph k = true ->
  exists t ver snap,
    consulted me id ph = Some (t, ver) /\ pf = PHonest ver k /\
    assocN ver (w_vers other) = Some snap /\ lookup snap k = None.
Proof. exact (honest_nonmembership other me pf lh id ph k). Qed.
Print Assumptions C04_honest_nonmembership.

(** localhost (after the repair of F2): a client that verifies only at heights the chain itself has reached
    and reports the chain's own block time accepts a timeout only once the chain itself has reached it ... *)
Theorem C04_loopback_not_early {A} (e : Env A) c p ph nsr c' ch k :
  chans c (p_sp p, p_sc p) = Some ch -> conns c (c_conn ch) = Some k -> loopback_client e c (k_client k) ->
  timeout1_tao e c p ph nsr = (c', Ok) -> elapsed (timeout1 p) (self_h c) (self_t c) = true.
Proof. exact (loopback_timeout_not_early e c p ph nsr c' ch k). Qed.
Print Assumptions C04_loopback_not_early.

(** ... and the 09-localhost client of Core/World.v (sentinel proof, proof height <= own height, own store,
    own block time — what the `core` correspondence family checks against light_client_module.go) is one *)
Theorem C04_world_localhost_is_loopback other me pf lh sc nc :
  loopback_client (honest_env other me pf lh sc nc) (w_chain me) lh.
Proof. exact (world_loopback other me pf lh sc nc). Qed.
Print Assumptions C04_world_localhost_is_loopback.

(** non-vacuity: a concrete state satisfies the invariant and a concrete 13-step history (duplicates, a failing
    application, an ORDERED timeout, multi-payload v2 receives) produces exactly the expected callbacks *)
Example C04_nonvacuous : Inv ex_chain /\ rkeys (events (run ex_chain ex_hist)) <> [] /\ tkeys (events (run ex_chain ex_hist)) <> [].
Proof. exact (conj ex_inv ex_nonempty). Qed.
