(** C04 — Timeouts are sound: never both received and timed out, never early.
    End to end for IBC v1 (MsgTimeout, ORDERED and UNORDERED channels) and IBC v2 (MsgTimeout):
    [C04_end_to_end] and [C04_end_to_end_v2] below, invariants of the two-chain world with honest Tendermint-like
    clients (header h carries the time of block h and the state after block h-1; heights of a chain increase,
    its times never decrease).
    MsgTimeoutOnClose (IBC v1): [C04_end_to_end_on_close], the same construction with the proof that the
    counterparty channel end is CLOSED.  The per-chain halves ([C04_timeout1_guards], [C04_timeout2_guards],
    [C04_no_receive_after_elapsed], [C04_receipts_persist], [C04_honest_nonmembership]) hold for arbitrary light
    clients; the end-to-end theorems instantiate them with the honest clients of Core/World.v, which is also what
    the `core` correspondence family runs against the real chains. *)
From IBC Require Import Core.ChainExamples.
From IBC Require Import Lib.Bytes Core.Height Core.HeightFacts Core.Chain Core.World Core.WorldFacts Core.ChainFacts Core.ChainInv Core.ChainThms
  Core.WorldInv Core.WorldInv2 Core.WorldInv3 Core.WorldThm Core.WorldV2 Core.WorldClose Core.WorldEarly Core.ChainBack Core.WorldOrd Core.WorldCloseOrd Corr.CoreFam Corr.CoreFamFacts.
Local Open Scope N_scope.

(** source side, v1: a timeout is processed only if the consensus state at the proof height exists, the
    packet's timeout has elapsed at (proof height, that consensus state's timestamp), the stored commitment is
    the relayed packet's, and absence of the receipt (UNORDERED) or the counterparty's nextSequenceRecv
    <= sequence (ORDERED) was verified at that same proof height *)
Theorem C04_timeout1_guards {A} (e : Env A) c p ph nsr c' :
  timeout1_tao e c p ph nsr = (c', Ok) ->
  exists ch k pts,
    chans c (p_sp p, p_sc p) = Some ch /\ p_dp p = c_cp_port ch /\ p_dc p = c_cp_chan ch /\
    conns c (c_conn ch) = Some k /\
    e_ts e (k_client k) ph = Some pts /\ elapsed (timeout1 p) ph pts = true /\
    com1 c (p_sp p, p_sc p, p_seq p) = Some (commit1 p) /\
    verify_unreceived e k ch p ph nsr = true /\
    c' = timeout_executed c ch p.
Proof. exact (timeout1_tao_ok e c p ph nsr c'). Qed.
Print Assumptions C04_timeout1_guards.

(** v2: timeouts in seconds against nanosecond consensus time: floor(ns / 10^9) >= timeout *)
Theorem C04_timeout2_guards {A} (e : Env A) c q ph c' :
  timeout2_tao e c q ph = (c', Ok) ->
  cparty c (q_src q) = Some (q_dst q) /\
  (exists pts, e_ts e (base_client c (q_src q)) ph = Some pts /\ q_tt q <= ns_to_s pts) /\
  com2 c (q_src q, q_seq q) = Some (commit2 q) /\
  e_vnon e (base_client c (q_src q)) ph (KReceipt2 (q_dst q) (q_seq q)) = true /\
  c' = set_com2 c (upd ks_eqb (com2 c) (q_src q, q_seq q) None).
Proof. exact (timeout2_tao_ok e c q ph c'). Qed.
Print Assumptions C04_timeout2_guards.

(** destination side: once the destination has reached a height/time at which the timeout has elapsed — in
    particular the proof height and its consensus time — the packet can never be received there any more *)
Theorem C04_no_receive_after_elapsed {A} (e : Env A) c :
  (forall p h t ph r, elapsed (timeout1 p) h t = true -> h_lte h (self_h c) = true -> t <= self_t c ->
                      snd (msg_recv1 e c p ph r) <> Ok) /\
  (forall q t ph r, q_tt q <= ns_to_s t -> t <= self_t c -> snd (msg_recv2 e c q ph r) <> Ok).
Proof. exact (conj (no_receive_after_elapsed1 e c) (no_receive_after_elapsed2 e c)). Qed.
Print Assumptions C04_no_receive_after_elapsed.

(** and receipts are never removed, so a receive before the proven version is visible in it *)
Theorem C04_receipts_persist {A} (c : Chain A) hist :
  (forall k, rcpt1 c k = true -> rcpt1 (run c hist) k = true) /\ (forall k, rcpt2 c k = true -> rcpt2 (run c hist) k = true) /\
  (forall k n, nrecv c k = Some n -> exists n', nrecv (run c hist) k = Some n' /\ n <= n').
Proof. exact (let M := run_mono c hist in conj (m_rcpt1 _ _ M) (conj (m_rcpt2 _ _ M) (m_nrecv _ _ M))). Qed.
Print Assumptions C04_receipts_persist.

(** honest client: "absence verified" = the consulted counterparty version really holds nothing at that key *)
Theorem C04_honest_nonmembership other me pf lh id ph k :
  id <> lh -> honest_vnon other me pf lh id ph k = true ->
  exists t ver snap,
    consulted me id ph = Some (t, ver) /\ pf = PHonest ver k /\
    assocN ver (w_vers other) = Some snap /\ lookup snap k = None.
Proof. exact (honest_nonmembership other me pf lh id ph k). Qed.
Print Assumptions C04_honest_nonmembership.

(** localhost (after the repair of F2): a client that verifies only at heights the chain itself has reached
    and reports the chain's own block time accepts a timeout only once the chain itself has reached it ... *)
Theorem C04_loopback_not_early {A} (e : Env A) c p ph nsr c' ch k :
  chans c (p_sp p, p_sc p) = Some ch -> conns c (c_conn ch) = Some k -> loopback_client e c (k_client k) ->
  timeout1_tao e c p ph nsr = (c', Ok) -> elapsed (timeout1 p) (self_h c) (self_t c) = true.
Proof. exact (loopback_timeout_not_early e c p ph nsr c' ch k). Qed.
Print Assumptions C04_loopback_not_early.

(** ... and the 09-localhost client of Core/World.v (sentinel proof, proof height <= own height, own store,
    own block time — what the `core` correspondence family checks against light_client_module.go) is one *)
Theorem C04_world_localhost_is_loopback other me pf lh sc nc :
  loopback_client (honest_env other me pf lh sc nc) (w_chain me) lh.
Proof. exact (world_loopback other me pf lh sc nc). Qed.
Print Assumptions C04_world_localhost_is_loopback.

(** *** end to end (IBC v1).  [irun] runs the two-chain world of Core/World.v on any list of blocks (each block: one
    packet message with any proof and proof height, a client update, a freeze, or nothing) and keeps ghost logs of the
    accepted MsgRecvPacket ([g_rlog]: destination key, source key, commitment, block, ordering of the receiving end,
    light client used) and MsgTimeout ([g_tlog]) messages; the logs do not influence the run ([irun_world]).
    [WI] is the invariant; it holds for chains that have clients with consensus states but no packet history yet
    ([wi_base]) and is preserved by every block in which the chain's height increases and its time does not decrease.
    Conclusion: an accepted MsgTimeout for a packet on one chain and an accepted MsgRecvPacket for the packet with the
    same source and destination keys on the other chain never both occur — whichever comes first — when both channel
    ends have the same ordering (C12), on channels over a remote (non-loopback) client. *)
Theorem C04_end_to_end x l :
  WI x -> good_steps x l ->
  let y := irun x l in
  (forall e r, In e (g_tlog (ga y)) -> In r (g_rlog (gb y)) ->
     t_client e <> w_lh (iw y) -> r_client r <> w_lh (iw y) ->
     t_dst e = r_dst r -> t_src e = r_src r -> t_ord e = r_ord r -> False) /\
  (forall e r, In e (g_tlog (gb y)) -> In r (g_rlog (ga y)) ->
     t_client e <> w_lh (iw y) -> r_client r <> w_lh (iw y) ->
     t_dst e = r_dst r -> t_src e = r_src r -> t_ord e = r_ord r -> False).
Proof. exact (timeout_excludes_receive x l). Qed.
Print Assumptions C04_end_to_end.

Theorem C04_invariant_initially w :
  base_chain (wa w) -> base_chain (wb w) -> base_clients (wa w) (wb w) -> base_clients (wb w) (wa w) ->
  WI (mkIW w ghost0 ghost0).
Proof. exact (wi_base w). Qed.
Print Assumptions C04_invariant_initially.

Theorem C04_ghosts_do_not_influence x l :
  iw (irun x l) = fold_left (fun w s => fst (wstep w (ws_side s) (ws_h s) (ws_t s) (ws_op s))) l (iw x).
Proof. exact (irun_world x l). Qed.
Print Assumptions C04_ghosts_do_not_influence.

(** the logs record exactly the accepted messages *)
Theorem C04_logs_record_accepted_messages g pre o h t out :
  (forall r, In r (g_rlog (gupd g pre o h t out)) -> In r (g_rlog g) \/
     exists p ph rl ch kk, out = Ok /\ packet_of o = Some (ORecv1 p ph rl) /\ chan_conn pre (p_dp p, p_dc p) = Some (ch, kk) /\
       r = mkR (p_dp p, p_dc p, p_seq p) (p_sp p, p_sc p, p_seq p) (commit1 p) h t (c_ord ch) (k_client kk)) /\
  (forall e, In e (g_tlog (gupd g pre o h t out)) -> In e (g_tlog g) \/
     exists p ph nsr rl ch kk, out = Ok /\ packet_of o = Some (OTimeout1 p ph nsr rl) /\ chan_conn pre (p_sp p, p_sc p) = Some (ch, kk) /\
       e = mkTE (p_sp p, p_sc p, p_seq p) (p_dp p, p_dc p, p_seq p) (commit1 p) ph (c_ord ch) (k_client kk)).
Proof. exact (conj (gupd_rlog g pre o h t out) (gupd_tlog g pre o h t out)). Qed.
Print Assumptions C04_logs_record_accepted_messages.

(** non-vacuity of the end-to-end theorem: a world satisfying [WI], six good blocks (send with timeout height 1-12,
    three empty blocks on the destination, a client update, MsgTimeout with an honest absence proof of version 12 at
    proof height 1-13), after which the timeout is in the log and the commitment is gone *)
Example C04_end_to_end_nonvacuous :
  WI (mkIW exw ghost0 ghost0) /\ good_steps (mkIW exw ghost0 ghost0) exw_steps /\
  map t_src (g_tlog (ga (irun (mkIW exw ghost0 ghost0) exw_steps))) = [(1, 10, 1)].
Proof. exact (conj exw_wi (conj exw_good (proj1 exw_timeout_accepted))). Qed.

(** *** the ordering hypothesis discharged.  [C04_end_to_end] assumes [t_ord e = r_ord r] (both channel ends have the same
    ordering).  Packet handlers never create channel ends and never change their ordering or counterparty
    ([C04_handlers_never_create_channel_ends]), so it is enough that the ends agree at the start ([Agree], the
    conclusion of the channel handshake, C12): the invariant [WIO] carries the agreement along, and the theorem holds
    for every pair of logged entries with the same source and destination keys. *)
Theorem C04_handlers_never_create_channel_ends {A} (e : Env A) c o c' out :
  step e c o = (c', out) ->
  forall k ch', chans c' k = Some ch' ->
    exists ch, chans c k = Some ch /\ c_ord ch = c_ord ch' /\ c_cp_port ch = c_cp_port ch' /\ c_cp_chan ch = c_cp_chan ch'.
Proof. exact (step_chb e c o c' out). Qed.
Print Assumptions C04_handlers_never_create_channel_ends.

Theorem C04_end_to_end_no_ordering_hypothesis x l :
  WIO x -> good_steps x l ->
  let y := irun x l in
  (forall e r, In e (g_tlog (ga y)) -> In r (g_rlog (gb y)) ->
     t_client e <> w_lh (iw y) -> r_client r <> w_lh (iw y) -> t_dst e = r_dst r -> t_src e = r_src r -> False) /\
  (forall e r, In e (g_tlog (gb y)) -> In r (g_rlog (ga y)) ->
     t_client e <> w_lh (iw y) -> r_client r <> w_lh (iw y) -> t_dst e = r_dst r -> t_src e = r_src r -> False).
Proof. exact (timeout_excludes_receive_ord x l). Qed.
Print Assumptions C04_end_to_end_no_ordering_hypothesis.

Theorem C04_invariant_initially_with_agreeing_ends w :
  base_chain (wa w) -> base_chain (wb w) -> base_clients (wa w) (wb w) -> base_clients (wb w) (wa w) ->
  Agree (wa w) (wb w) -> Agree (wb w) (wa w) -> WIO (mkIW w ghost0 ghost0).
Proof. exact (wio_base w). Qed.
Print Assumptions C04_invariant_initially_with_agreeing_ends.

Example C04_agreeing_ends_nonvacuous : WIO (mkIW exw ghost0 ghost0) /\ good_steps (mkIW exw ghost0 ghost0) exw_steps.
Proof. exact (conj exw_wio exw_good). Qed.

(** *** end to end (IBC v2).  [irun2] additionally logs the accepted v2 MsgRecvPacket ([h_rlog]: destination key
    (client, sequence), source key, commitment, block height and time, base light client) and v2 MsgTimeout
    ([h_tlog]) messages, on clients and on channel aliases alike; [WI2] extends [WI].  An accepted v2 MsgTimeout on
    one chain and an accepted v2 MsgRecvPacket of the packet with the same source and destination keys on the other
    chain never both occur, whichever comes first, over remote (non-loopback) clients. *)
Theorem C04_end_to_end_v2 x l :
  WI2 x -> good_steps2 x l ->
  let y := irun2 x l in
  (forall e r, In e (h_tlog (ha y)) -> In r (h_rlog (hb y)) ->
     t2_client e <> w_lh (iw (iw1 y)) -> r2_client r <> w_lh (iw (iw1 y)) -> t2_dst e = r2_dst r -> t2_src e = r2_src r -> False) /\
  (forall e r, In e (h_tlog (hb y)) -> In r (h_rlog (ha y)) ->
     t2_client e <> w_lh (iw (iw1 y)) -> r2_client r <> w_lh (iw (iw1 y)) -> t2_dst e = r2_dst r -> t2_src e = r2_src r -> False).
Proof. exact (timeout2_excludes_receive x l). Qed.
Print Assumptions C04_end_to_end_v2.

Theorem C04_invariant_initially_v2 w :
  base_chain (wa w) -> base_chain (wb w) -> base_clients (wa w) (wb w) -> base_clients (wb w) (wa w) ->
  WI2 (mkIW2 (mkIW w ghost0 ghost0) ghost20 ghost20).
Proof. exact (wi2_base w). Qed.
Print Assumptions C04_invariant_initially_v2.

Theorem C04_ghosts_do_not_influence_v2 x l : iw1 (irun2 x l) = irun (iw1 x) l.
Proof. exact (irun2_iw1 x l). Qed.
Print Assumptions C04_ghosts_do_not_influence_v2.

Theorem C04_logs_record_accepted_messages_v2 g pre o h t out :
  (forall r, In r (h_rlog (gupd2 g pre o h t out)) -> In r (h_rlog g) \/
     exists q ph rl, out = Ok /\ packet_of o = Some (ORecv2 q ph rl) /\
       r = mkR2 (q_dst q, q_seq q) (q_src q, q_seq q) (commit2 q) (ht h) t (base_client pre (q_dst q))) /\
  (forall e, In e (h_tlog (gupd2 g pre o h t out)) -> In e (h_tlog g) \/
     exists q ph rl, out = Ok /\ packet_of o = Some (OTimeout2 q ph rl) /\
       e = mkT2 (q_src q, q_seq q) (q_dst q, q_seq q) (commit2 q) ph (base_client pre (q_src q))).
Proof. exact (conj (gupd2_rlog g pre o h t out) (gupd2_tlog g pre o h t out)). Qed.
Print Assumptions C04_logs_record_accepted_messages_v2.

(** non-vacuity (v2): send with a timeout of 1 s on client 9, the destination reaches 2 s, client update, v2
    MsgTimeout with an honest absence proof: accepted and logged *)
Example C04_end_to_end_v2_nonvacuous :
  WI2 (mkIW2 (mkIW exv ghost0 ghost0) ghost20 ghost20) /\ good_steps2 (mkIW2 (mkIW exv ghost0 ghost0) ghost20 ghost20) exv_steps /\
  map t2_src (h_tlog (ha (irun2 (mkIW2 (mkIW exv ghost0 ghost0) ghost20 ghost20) exv_steps))) = [(9, 1)].
Proof. exact (conj exv_wi (conj exv_good exv_timeout_accepted)). Qed.

(** *** end to end (MsgTimeoutOnClose, IBC v1).  [irun3] additionally logs the accepted MsgTimeoutOnClose messages
    ([ca], [cb]: source key, destination key, ordering of the sending end, light client used); [WI3] extends [WI2].
    An accepted MsgTimeoutOnClose on one chain and an accepted MsgRecvPacket under the packet's destination key on the
    other chain never both occur, whichever comes first: before the proven version the receipt would contradict the
    absence proof, after it the channel end is CLOSED for good and refuses the receive. *)
Theorem C04_end_to_end_on_close x l :
  WI3 x -> good_steps3 x l ->
  let y := irun3 x l in
  let lh := w_lh (iw (iw1 (iw2 y))) in
  (forall e r, In e (ca y) -> In r (g_rlog (gb (iw1 (iw2 y)))) ->
     ce_client e <> lh -> r_client r <> lh -> ce_dst e = r_dst r -> ce_ord e = r_ord r -> False) /\
  (forall e r, In e (cb y) -> In r (g_rlog (ga (iw1 (iw2 y)))) ->
     ce_client e <> lh -> r_client r <> lh -> ce_dst e = r_dst r -> ce_ord e = r_ord r -> False).
Proof. exact (timeout_on_close_excludes_receive x l). Qed.
Print Assumptions C04_end_to_end_on_close.

Theorem C04_invariant_initially_on_close w :
  base_chain (wa w) -> base_chain (wb w) -> base_clients (wa w) (wb w) -> base_clients (wb w) (wa w) ->
  WI3 (mkIW3 (mkIW2 (mkIW w ghost0 ghost0) ghost20 ghost20) [] []).
Proof. exact (wi3_base w). Qed.
Print Assumptions C04_invariant_initially_on_close.

Theorem C04_ghosts_do_not_influence_on_close x l : iw2 (irun3 x l) = irun2 (iw2 x) l.
Proof. exact (irun3_iw2 x l). Qed.
Print Assumptions C04_ghosts_do_not_influence_on_close.

Theorem C04_log_records_accepted_on_close g pre o out e :
  In e (gupd3 g pre o out) -> In e g \/
  exists p ph nsr rl ch kk, out = Ok /\ packet_of o = Some (OTimeoutOnClose1 p ph nsr rl) /\
    chan_conn pre (p_sp p, p_sc p) = Some (ch, kk) /\
    e = mkCE (p_sp p, p_sc p, p_seq p) (p_dp p, p_dc p, p_seq p) (c_ord ch) (k_client kk).
Proof. exact (gupd3_in g pre o out e). Qed.
Print Assumptions C04_log_records_accepted_on_close.

(** the same for MsgTimeoutOnClose: no ordering hypothesis, ends that agree at the start *)
Theorem C04_end_to_end_on_close_no_ordering_hypothesis x l :
  WI3O x -> good_steps3 x l ->
  let y := irun3 x l in
  let lh := w_lh (w3 y) in
  (forall e r, In e (ca y) -> In r (g_rlog (gb (iw1 (iw2 y)))) ->
     ce_client e <> lh -> r_client r <> lh -> ce_dst e = r_dst r -> False) /\
  (forall e r, In e (cb y) -> In r (g_rlog (ga (iw1 (iw2 y)))) ->
     ce_client e <> lh -> r_client r <> lh -> ce_dst e = r_dst r -> False).
Proof. exact (timeout_on_close_excludes_receive_ord x l). Qed.
Print Assumptions C04_end_to_end_on_close_no_ordering_hypothesis.

Theorem C04_invariant_initially_on_close_with_agreeing_ends w :
  base_chain (wa w) -> base_chain (wb w) -> base_clients (wa w) (wb w) -> base_clients (wb w) (wa w) ->
  Agree (wa w) (wb w) -> Agree (wb w) (wa w) ->
  WI3O (mkIW3 (mkIW2 (mkIW w ghost0 ghost0) ghost20 ghost20) [] []).
Proof. exact (wi3o_base w). Qed.
Print Assumptions C04_invariant_initially_on_close_with_agreeing_ends.

Example C04_on_close_agreeing_ends_nonvacuous : WI3O exc0 /\ good_steps3 exc0 exc_steps.
Proof. exact (conj exc_wi3o exc_good). Qed.

(** non-vacuity (on close): send on A, the channel end on B is closed, B's next block, client update on A,
    MsgTimeoutOnClose on A with honest proofs of version 11 (closed channel end, absent receipt): accepted and logged *)
Example C04_end_to_end_on_close_nonvacuous :
  WI3 exc0 /\ good_steps3 exc0 exc_steps /\ map ce_dst (ca (irun3 exc0 exc_steps)) = [(1, 20, 1)].
Proof. exact (conj exc_wi (conj exc_good (proj1 exc_accepted))). Qed.

(** *** never early, end to end.  Every MsgTimeout accepted over a remote client is for a packet whose timeout the
    DESTINATION chain itself has reached (its own height / block time, not merely what a proof claimed), at the moment of
    acceptance and in every later state: v1 by height or timestamp, v2 in whole seconds of the nanosecond block time. *)
Theorem C04_never_early_end_to_end x l :
  WI x -> good_steps x l ->
  let y := irun x l in
  (forall e, In e (g_tlog (ga y)) -> t_client e <> w_lh (iw y) ->
     elapsed (Tmo (t_com e)) (self_h (w_chain (wb (iw y)))) (self_t (w_chain (wb (iw y)))) = true) /\
  (forall e, In e (g_tlog (gb y)) -> t_client e <> w_lh (iw y) ->
     elapsed (Tmo (t_com e)) (self_h (w_chain (wa (iw y)))) (self_t (w_chain (wa (iw y)))) = true).
Proof. exact (timeout_never_early x l). Qed.
Print Assumptions C04_never_early_end_to_end.

Theorem C04_never_early_end_to_end_v2 x l :
  WI2 x -> good_steps2 x l ->
  let y := irun2 x l in
  (forall e, In e (h_tlog (ha y)) -> t2_client e <> w_lh (iw (iw1 y)) ->
     Tmo2 (t2_com e) <= ns_to_s (self_t (w_chain (wb (iw (iw1 y)))))) /\
  (forall e, In e (h_tlog (hb y)) -> t2_client e <> w_lh (iw (iw1 y)) ->
     Tmo2 (t2_com e) <= ns_to_s (self_t (w_chain (wa (iw (iw1 y)))))).
Proof. exact (timeout2_never_early x l). Qed.
Print Assumptions C04_never_early_end_to_end_v2.

(** the correspondence replays real two-chain histories on the same [wstep]; it counts a recorded block that is outside
    the hypothesis [good_step] of the end-to-end theorems as a disagreement ([good_stepb] in Corr/CoreFam.v), so every
    history on which model and implementation agree is one the theorems speak about *)
Theorem C04_replayed_histories_meet_hypotheses w s :
  good_stepb w s = true -> good_step w (mkWS (st_side s) (st_h s) (st_t s) (st_op s)).
Proof. exact (good_stepb_sound w s). Qed.
Print Assumptions C04_replayed_histories_meet_hypotheses.

(** non-vacuity: a concrete state satisfies the invariant and a concrete 13-step history (duplicates, a failing
    application, an ORDERED timeout, multi-payload v2 receives) produces exactly the expected callbacks *)
Example C04_nonvacuous : Inv ex_chain /\ rkeys (events (run ex_chain ex_hist)) <> [] /\ tkeys (events (run ex_chain ex_hist)) <> [].
Proof. exact (conj ex_inv ex_nonempty). Qed.
