(** C26 — Solo machine signatures are single-use and timestamps never decrease.
    Model: Clients/Solo.v (the [step]/[trace] Corr/Clients.v evaluates on every `solo_history` record; the
    sign-bytes encoders are compared with the real protobuf marshalling on `sm_signbytes`/`sm_headerdata`).
    Signature verification ([sig_ok]) and the SDK's panicking signature-data decoder ([sig_malformed]) are
    universally quantified.  Only statements closed by [exact]; proofs live in Clients/SoloFacts.v. *)
From Coq Require Import Sorting.Sorted.
From IBC Require Import Lib.Bytes Lib.BytesFacts Lib.Dec Clients.Proto Clients.Localhost Clients.Solo Clients.SoloFacts.
Local Open Scope N_scope.

(** The protobuf encoding of SignBytes (and of the HeaderData inside header sign bytes) is injective: equal
    sign bytes have equal sequence, timestamp, diversifier, path and data.  No bound on any field. *)
Theorem C26_sign_bytes_injective seq ts div path data seq' ts' div' path' data' :
  sign_bytes_enc seq ts div path data = sign_bytes_enc seq' ts' div' path' data' ->
  seq = seq' /\ ts = ts' /\ div = div' /\ path = path' /\ data = data'.
Proof. exact (sign_bytes_enc_inj seq ts div path data seq' ts' div' path' data'). Qed.
Print Assumptions C26_sign_bytes_injective.

Theorem C26_header_data_injective pk div pk' div' :
  header_data_enc pk div = header_data_enc pk' div' -> pk = pk' /\ div = div'.
Proof. exact (header_data_enc_inj pk div pk' div'). Qed.
Print Assumptions C26_header_data_injective.

(** Every successful verification (header update, membership, non-membership), in any state: the registered
    key's signature was checked over exactly the sign bytes of (current sequence, submitted timestamp,
    current diversifier, path, data) ([checked] spells them out), the sequence advanced by exactly one
    (uint64 arithmetic), the timestamp did not decrease, and the client was and stays unfrozen. *)
Theorem C26_successful_verification_consumes_sequence sig_ok sig_malformed st op st' :
  is_verification op = true -> step sig_ok sig_malformed st op = (st', Ok) ->
  exists m s ts,
    checked st op = Some (m, s) /\ sig_ok (sm_pk st) m s = true /\
    sm_seq st' = next_seq (sm_seq st) /\ sm_ts st <= ts /\ sm_ts st' = ts /\
    sm_frozen st = false /\ sm_frozen st' = false.
Proof. exact (step_ok_verification sig_ok sig_malformed st op st'). Qed.
Print Assumptions C26_successful_verification_consumes_sequence.

(** Over every operation list (updates, proofs, misbehaviour, recoveries, in any order, with any arguments)
    that does not reach the maximal uint64 sequence: the sequences consumed by the accepted verifications are
    strictly increasing, no sign bytes are accepted twice, and — if a signature value verifies for at most one
    message — no signature is accepted twice. *)
Theorem C26_single_use sig_ok sig_malformed st ops :
  sm_seq st < two64 -> Forall wf_op ops -> no_wrap (trace sig_ok sig_malformed st ops) ->
  StronglySorted N.lt (seqs (accepted (trace sig_ok sig_malformed st ops))) /\
  NoDup (msgs (accepted (trace sig_ok sig_malformed st ops))) /\
  ((forall pk pk' m m' s, sig_ok pk m s = true -> sig_ok pk' m' s = true -> m = m') ->
   NoDup (sigs (accepted (trace sig_ok sig_malformed st ops)))).
Proof.
  exact (fun H1 H2 H3 =>
    conj (proj2 (accepted_seqs sig_ok sig_malformed st ops H1 H2 H3))
   (conj (accepted_msgs_nodup sig_ok sig_malformed st ops H1 H2 H3)
         (fun Hb => accepted_sigs_nodup sig_ok sig_malformed st ops Hb H1 H2 H3))).
Qed.
Print Assumptions C26_single_use.

(** every accepted entry of a history is a valid signature over the encoding of its own sequence *)
Theorem C26_accepted_over_exact_sign_bytes sig_ok sig_malformed st ops :
  Forall (fun x => (exists ts dv path data, snd (fst x) = sign_bytes_enc (fst (fst x)) ts dv path data) /\
                   exists pk, sig_ok pk (snd (fst x)) (snd x) = true)
         (accepted (trace sig_ok sig_malformed st ops)).
Proof. exact (accepted_forms sig_ok sig_malformed st ops). Qed.
Print Assumptions C26_accepted_over_exact_sign_bytes.

(** The consensus timestamp never decreases: at every step other than a governance recovery (which installs the
    substitute's consensus state), in every history, and from start to end of histories without recoveries. *)
Theorem C26_timestamp_monotone sig_ok sig_malformed st ops :
  Forall (fun e => is_recover (e_op e) = false -> sm_ts (e_before e) <= sm_ts (e_after e))
         (trace sig_ok sig_malformed st ops) /\
  (forallb (fun op => negb (is_recover op)) ops = true -> sm_ts st <= sm_ts (final sig_ok sig_malformed st ops)).
Proof. exact (conj (trace_ts sig_ok sig_malformed st ops) (final_ts sig_ok sig_malformed st ops)). Qed.
Print Assumptions C26_timestamp_monotone.

(** Misbehaviour: acceptance means two different signatures of the registered key over different (path, data)
    for the one submitted sequence, and freezes; conversely every such pair freezes an active client. *)
Theorem C26_misbehaviour_freezes sig_ok sig_malformed st q :
  (forall a b st', step sig_ok sig_malformed st (OpMisbehaviour q a b) = (st', Ok) ->
     st' = frozen_of st /\ sm_frozen st = false /\ q <> 0 /\
     exists sa sb, a = Some sa /\ b = Some sb /\
       sd_sig sa <> sd_sig sb /\ ~ (sd_path sa = sd_path sb /\ sd_data sa = sd_data sb) /\
       sig_ok (sm_pk st) (sign_bytes_enc q (sd_ts sa) (sm_div st) (sd_path sa) (sd_data sa)) (sd_sig sa) = true /\
       sig_ok (sm_pk st) (sign_bytes_enc q (sd_ts sb) (sm_div st) (sd_path sb) (sd_data sb)) (sd_sig sb) = true) /\
  (forall sa sb, sm_frozen st = false -> q <> 0 -> sd_valid sa = true -> sd_valid sb = true ->
     sd_sig sa <> sd_sig sb -> ~ (sd_path sa = sd_path sb /\ sd_data sa = sd_data sb) ->
     verify_sig_and_data sig_ok sig_malformed st q sa = Ok -> verify_sig_and_data sig_ok sig_malformed st q sb = Ok ->
     step sig_ok sig_malformed st (OpMisbehaviour q (Some sa) (Some sb)) = (frozen_of st, Ok)).
Proof.
  exact (conj (step_misbehaviour_ok sig_ok sig_malformed st q) (valid_misbehaviour_freezes sig_ok sig_malformed st q)).
Qed.
Print Assumptions C26_misbehaviour_freezes.

(** A frozen client accepts nothing and does not change until a recovery; failures (and panics) never change state. *)
Theorem C26_frozen_and_failures sig_ok sig_malformed st :
  (forall op, sm_frozen st = true -> is_recover op = false ->
     snd (step sig_ok sig_malformed st op) <> Ok /\ fst (step sig_ok sig_malformed st op) = st) /\
  (forall ops, sm_frozen st = true -> forallb (fun op => negb (is_recover op)) ops = true ->
     final sig_ok sig_malformed st ops = st) /\
  (forall op, snd (step sig_ok sig_malformed st op) <> Ok -> fst (step sig_ok sig_malformed st op) = st).
Proof.
  exact (conj (frozen_refuses sig_ok sig_malformed st)
        (conj (frozen_stays sig_ok sig_malformed st) (step_fail sig_ok sig_malformed st))).
Qed.
Print Assumptions C26_frozen_and_failures.

(** non-vacuity: an ideal signature scheme (a signature is the pair (key, message)); a history with an
    accepted proof, a replay of the same signature (refused), an accepted header rotating the key, and
    misbehaviour freezing the client. *)
Example C26_nonvacuous :
  let ok (pk m s : bytes) := bytes_eqb s (pk ++ m) in
  let st := mkSm 5 false (B "K1") (B "d") 10 in
  let m1 := sign_bytes_enc 5 11 (B "d") (B "key") (B "val") in
  let vm := OpVerifyMembership (ProofTsd (B "K1" ++ m1) 11) (PMerkle [B "ibc"; B "key"]) (B "val") in
  let m2 := sign_bytes_enc 6 12 (B "d") sentinel_header_path (header_data_enc (Some (B "K2")) (B "e")) in
  let up := OpUpdate (mkHeader 12 (B "K1" ++ m2) (Some (B "K2")) (B "e")) in
  let sa := mkSD (B "K2" ++ sign_bytes_enc 9 1 (B "e") (B "p") (B "x")) (B "p") true (B "x") 1 in
  let sb := mkSD (B "K2" ++ sign_bytes_enc 9 2 (B "e") (B "p") (B "y")) (B "p") true (B "y") 2 in
  let ops := [vm; vm; up; OpMisbehaviour 9 (Some sa) (Some sb); vm] in
  map e_out (trace ok (fun _ => false) st ops) = [Ok; Err; Ok; Ok; Err] /\
  final ok (fun _ => false) st ops = mkSm 7 true (B "K2") (B "e") 12 /\
  seqs (accepted (trace ok (fun _ => false) st ops)) = [5; 6].
Proof. vm_compute. auto. Qed.
