(** C16 — Store key spaces never collide and clients stay in their namespace.
    Only statements closed by [exact]; proofs in Keys/StoreKeysFacts.v (model: Keys/StoreKeys.v, validators: Keys/Ident.v).

    [Key] has one constructor per kind of protocol object in the IBC store; [encode] is the byte string the Go key
    functions build.  [wf k] asks only what every host identifier validator enforces on characters ([idok]: bytes of
    the IsValidID class, any length), and sequences below 2^64 where they are big-endian encoded. *)
From IBC Require Import Lib.Bytes Lib.Dec Lib.BE64 Keys.Ident Keys.IdentFacts Keys.StoreKeys Keys.StoreKeysFacts.
Local Open Scope N_scope.

(** Everything the validators accept satisfies the hypothesis of the theorems below. *)
Theorem C16_validators_imply_idok id :
  (client_identifier_validator id = true \/ connection_identifier_validator id = true \/
   channel_identifier_validator id = true \/ port_identifier_validator id = true) -> idok id.
Proof. exact (validators_idok id). Qed.
Print Assumptions C16_validators_imply_idok.

(** Distinct protocol objects never share a store key: every constructor is injective in all its arguments, distinct
    kinds are disjoint, the v2 layout [id || kind byte || BE64 seq] is injective and kind-disjoint, no v1 key equals a
    v2 key, client store keys never equal any other key.  The only guard: an alias identifier contains no '_'
    (aliases are v1 channel identifiers [channel-N]). *)
Theorem C16_keys_never_collide k1 k2 :
  wf k1 -> wf k2 -> alias_guard k1 -> alias_guard k2 -> encode k1 = encode k2 -> k1 = k2.
Proof. exact (key_inj k1 k2). Qed.
Print Assumptions C16_keys_never_collide.

(** Without the guard the statement is false for validator-accepted identifiers that no chain generates: the
    keeper-private async-packet and alias keys overlap (documented observation, unreachable: alias lookups and writes
    only happen for identifiers that have a registered counterparty). *)
Theorem C16_async_alias_refuted :
  exists id s a, client_identifier_validator id = true /\ client_identifier_validator a = true /\ s < two64 /\
                 async_packet_key id s = alias_key a.
Proof. exact async_alias_refuted. Qed.
Print Assumptions C16_async_alias_refuted.

(** The byte layout of the '/'-joined kinds is the specification's path: the '/'-join of the listed segments. *)
Theorem C16_layout_is_path k l : segs k = Some l -> encode k = join_with slash l.
Proof. exact (encode_segs k l). Qed.
Print Assumptions C16_layout_is_path.

(** Prefix iteration for one (port, channel) returns only that channel's packet commitments / acknowledgements,
    whatever else the store holds (v1, v2, client, async, alias keys). *)
Theorem C16_v1_prefix_iteration p c k :
  idok p -> idok c -> wf k ->
  (is_prefix (packet_commitment_prefix_key p c) (encode k) = true -> exists s, k = KCommit p c s) /\
  (is_prefix (packet_acknowledgement_prefix_key p c) (encode k) = true -> exists s, k = KAck p c s).
Proof. exact (fun Ip Ic W => conj (commitment_prefix_confined p c k Ip Ic W) (acknowledgement_prefix_confined p c k Ip Ic W)). Qed.
Print Assumptions C16_v1_prefix_iteration.

(** Prefix iteration for one v2 client and kind returns only that client's entries of that kind, for identifiers
    without '_' (all generated identifiers: see C16_generated_ids_guard). *)
Theorem C16_v2_prefix_iteration kd id k :
  idok id -> nous id -> wf k ->
  is_prefix (v2_prefix_key kd id) (encode k) = true -> exists s, k = K2 kd id s.
Proof. exact (v2_prefix_confined kd id k). Qed.
Print Assumptions C16_v2_prefix_iteration.

Theorem C16_v2_prefix_refuted :
  exists id id' s, client_identifier_validator id = true /\ client_identifier_validator id' = true /\ s < two64 /\
                   is_prefix (v2_prefix_key V2Commitment id) (encode (KAsync id' s)) = true.
Proof. exact v2_prefix_refuted. Qed.
Print Assumptions C16_v2_prefix_refuted.

Theorem C16_async_prefix_iteration id k :
  idok id -> nous id -> wf k -> nous_key k ->
  is_prefix (async_packet_prefix_key id) (encode k) = true -> exists s, k = KAsync id s.
Proof. exact (async_prefix_confined id k). Qed.
Print Assumptions C16_async_prefix_iteration.

(** The iterator view: over any store content made of well-formed keys, the keys a prefix iterator visits are
    exactly keys of objects satisfying the confinement predicate. *)
Theorem C16_prefix_iterator pre (G P : Key -> Prop) :
  (forall k, wf k -> G k -> is_prefix pre (encode k) = true -> P k) ->
  forall ks, Forall (fun k => wf k /\ G k) ks ->
  forall x, In x (prefix_iter pre (map encode ks)) -> exists k, In k ks /\ x = encode k /\ P k.
Proof. exact (prefix_iter_only pre G P). Qed.
Print Assumptions C16_prefix_iterator.

(** Client namespace confinement: a write of any key through ClientStore(a) lands on FullClientKey(a, key); the
    prefix "clients/<b>/" matches exactly the keys of client b's store; hence a write for client a is never inside
    client b's namespace when a <> b, and never on a non-client key (C16_keys_never_collide). *)
Theorem C16_client_namespace :
  (forall a k, client_store_prefix a ++ k = full_client_key a k) /\
  (forall b k, idok b -> wf k -> is_prefix (client_store_prefix b) (encode k) = true -> exists path, k = KClientStore b path) /\
  (forall a b k, idok a -> idok b -> is_prefix (client_store_prefix b) (client_store_prefix a ++ k) = true -> a = b).
Proof. exact (conj client_store_write (conj client_prefix_confined client_namespace_disjoint)). Qed.
Print Assumptions C16_client_namespace.

(** Generated identifiers meet the '_' guard: channel-N always; type-N whenever the client type has no '_', which
    holds for every registered light client type. *)
Theorem C16_generated_ids_guard :
  (forall n, nous (format_channel_identifier n)) /\
  (forall t n, nous t -> nous (format_client_identifier t n)) /\
  Forall nous [B "07-tendermint"; B "06-solomachine"; B "08-wasm"; B "09-localhost"; B "attestations"].
Proof. exact (conj nous_format_channel (conj nous_format_client registered_types_nous)). Qed.
Print Assumptions C16_generated_ids_guard.

(** non-vacuity: concrete well-formed keys of all layouts; a prefix iteration over a mixed store *)
Example C16_nonvacuous :
  wf (KCommit (B "transfer") (B "channel-0") 1) /\ wf (K2 V2Commitment (B "07-tendermint-0") 1) /\
  wf (KAsync (B "07-tendermint-0") 18446744073709551615) /\ alias_guard (KAlias (B "channel-0")) /\
  encode (KCommit (B "transfer") (B "channel-0") 1) = B "commitments/ports/transfer/channels/channel-0/sequences/1" /\
  iterate [KCommit (B "transfer") (B "channel-1") 7; KCommit (B "transfer") (B "channel-10") 8; KAck (B "transfer") (B "channel-1") 9;
           K2 V2Commitment (B "channel-1") 3; KAsync (B "channel-1") 4]
          (QCommit1 (B "transfer") (B "channel-1")) = Some [7] /\
  iterate [K2 V2Commitment (B "07-tendermint-1") 3; K2 V2Commitment (B "07-tendermint-10") 5; K2 V2Receipt (B "07-tendermint-1") 6;
           KAsync (B "07-tendermint-1") 4] (Q2 V2Commitment (B "07-tendermint-1")) = Some [3].
Proof. vm_compute. repeat split. all: intros H; intuition discriminate. Qed.
