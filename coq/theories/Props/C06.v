(** C06 — Acknowledgements are processed only if proven for that exact packet. *)
From IBC Require Import Core.ChainExamples.
From IBC Require Import Lib.Bytes Core.Height Core.Chain Core.World Core.WorldFacts Core.ChainFacts Core.ChainInv Core.ChainThms
  Lib.Sha256 Keys.Commit Keys.CommitFacts
  Core.WorldInv Core.WorldInv2 Core.WorldInv3 Core.WorldThm Core.WorldV2 Core.WorldClose Core.WorldAck.
Local Open Scope N_scope.

(** v1: the stored commitment equals the commitment of exactly the relayed packet's fields, and the light
    client verified exactly the relayed acknowledgement bytes under the acknowledgement key of the packet's
    destination and sequence; then (and only then) the commitment is deleted *)
Theorem C06_ack1_guards {A} (e : Env A) c p ack ph c' :
  ack1_tao e c p ack ph = (c', Ok) ->
  exists ch k,
    chans c (p_sp p, p_sc p) = Some ch /\ c_state ch = ST_OPEN /\
    p_dp p = c_cp_port ch /\ p_dc p = c_cp_chan ch /\
    conns c (c_conn ch) = Some k /\ k_open k = true /\
    com1 c (p_sp p, p_sc p, p_seq p) = Some (commit1 p) /\
    e_noncanon e ack = false /\
    e_vmem e (k_client k) ph (KAck1 (p_dp p) (p_dc p) (p_seq p)) (VAck1 ack) = true /\
    com1 c' (p_sp p, p_sc p, p_seq p) = None /\
    (forall k', k' <> (p_sp p, p_sc p, p_seq p) -> com1 c' k' = com1 c k') /\
    (c_ord ch = ORDERED -> nack c (p_sp p, p_sc p) = Some (p_seq p) /\ nack c' (p_sp p, p_sc p) = Some (p_seq p + 1)) /\
    chans c' = chans c /\ nsend c' = nsend c /\ events c' = events c /\ app c' = app c /\
    rcpt1 c' = rcpt1 c /\ ackc1 c' = ackc1 c /\ nrecv c' = nrecv c /\
    com2 c' = com2 c /\ rcpt2 c' = rcpt2 c /\ ackc2 c' = ackc2 c /\ asyn2 c' = asyn2 c.
Proof. exact (ack1_tao_ok e c p ack ph c'). Qed.
Print Assumptions C06_ack1_guards.

(** the application callback receives exactly those acknowledgement bytes *)
Theorem C06_msg_ack1 {A} (e : Env A) c p ack ph r c' :
  msg_ack1 e c p ack ph r = (c', Ok) ->
  exists c1 a', ack1_tao e c p ack ph = (c1, Ok) /\ packet1_valid p = true /\ ack <> 0 /\
    e_ack1 e (app c1) p ack r = Some a' /\
    c' = add_events (set_app c1 a') [EvAck1 (p_sp p) (p_sc p) (p_seq p) ack].
Proof. exact (msg_ack1_ok e c p ack ph r c'). Qed.
Print Assumptions C06_msg_ack1.

(** v2: stored commitment = commitment of the relayed packet, and the exact list of app acknowledgements
    was verified under the acknowledgement key of (destination id, sequence) *)
Theorem C06_ack2_guards {A} (e : Env A) c q acks ph c' :
  ack2_tao e c q acks ph = (c', Ok) ->
  cparty c (q_src q) = Some (q_dst q) /\ com2 c (q_src q, q_seq q) = Some (commit2 q) /\
  e_vmem e (base_client c (q_src q)) ph (KAck2 (q_dst q) (q_seq q)) (VAck2 acks) = true /\
  c' = set_com2 c (upd ks_eqb (com2 c) (q_src q, q_seq q) None).
Proof. exact (ack2_tao_ok e c q acks ph c'). Qed.
Print Assumptions C06_ack2_guards.

Theorem C06_forged_ack_changes_nothing {A} (e : Env A) c o c' out : step e c o = (c', out) -> out <> Ok -> c' = c.
Proof. exact (step_not_ok_same e c o c' out). Qed.
Print Assumptions C06_forged_ack_changes_nothing.

(** with honest clients, "verified" is membership of exactly that value in the consulted counterparty version *)
Theorem C06_honest_membership other me pf lh id ph k v :
  id <> lh -> honest_vmem other me pf lh id ph k v = true ->
  exists t ver snap v',
    consulted me id ph = Some (t, ver) /\ pf = PHonest ver k /\
    assocN ver (w_vers other) = Some snap /\ lookup snap k = Some v' /\ pval_eqb v v' = true.
Proof. exact (honest_membership other me pf lh id ph k v). Qed.
Print Assumptions C06_honest_membership.

(** the value the light client is asked to verify is the acknowledgement commitment, and that commitment binds the
    acknowledgement (v1) and the whole list of application acknowledgements with order and count (v2): equal
    commitments mean equal acknowledgements or an exhibited collision of the hash function H (a Section variable:
    any function with 32-byte outputs; the correspondence family `purekeys` instantiates it with SHA-256 and compares
    the implementation's CommitAcknowledgement with the model byte for byte).  This is what justifies the structural
    acknowledgement values ([VAck1], [VAck2]) of the life-cycle model. *)
Section C06_commitments.
  Variable H : bytes -> bytes.
  Hypothesis H_len : forall x, length (H x) = 32%nat.
  Theorem C06_v1_ack_commitment_binds d d' : commit_ack_v1 H d = commit_ack_v1 H d' -> d = d' \/ collision H.
  Proof. exact (commit_ack_v1_binds H d d'). Qed.
  Theorem C06_v2_ack_commitment_binds acks acks' :
    commit_ack_v2 H acks = commit_ack_v2 H acks' -> acks = acks' \/ collision H.
  Proof. exact (commit_ack_v2_binds H H_len acks acks'). Qed.
End C06_commitments.
Print Assumptions C06_v1_ack_commitment_binds.
Print Assumptions C06_v2_ack_commitment_binds.

(** *** end to end, in the two-chain world of Core/World.v with honest Tendermint-like clients, for every history of
    blocks: [irun4] logs the accepted MsgAcknowledgement messages (v1 [k_alog], v2 [k_alog2]: source key, destination
    key, the packet's commitment, the acknowledgement processed, light client used); [WI4] is the invariant.  Every
    acknowledgement processed is for a packet whose commitment an accepted send stored under the packet's source key
    ("that exact packet": C07 makes the commitment bind every committed field), and — over a remote client — the other
    chain holds exactly the processed acknowledgement (v2: the whole list) under the packet's destination key. *)
Theorem C06_end_to_end x l :
  WI4 x -> good_steps4 x l ->
  let y := irun4 x l in
  (forall a, In a (k_alog (ka y)) ->
     g_ever (g4a y) (a_src a) = Some (a_com a) /\
     (a_client a <> w_lh (w4 y) -> ackc1 (w_chain (wb (w4 y))) (a_dst a) = Some (a_ack a))) /\
  (forall a, In a (k_alog (kb y)) ->
     g_ever (g4b y) (a_src a) = Some (a_com a) /\
     (a_client a <> w_lh (w4 y) -> ackc1 (w_chain (wa (w4 y))) (a_dst a) = Some (a_ack a))) /\
  (forall a, In a (k_alog2 (ka y)) ->
     h_ever (h4a y) (a2_src a) = Some (a2_com a) /\
     (a2_client a <> w_lh (w4 y) -> ackc2 (w_chain (wb (w4 y))) (a2_dst a) = Some (a2_acks a))) /\
  (forall a, In a (k_alog2 (kb y)) ->
     h_ever (h4b y) (a2_src a) = Some (a2_com a) /\
     (a2_client a <> w_lh (w4 y) -> ackc2 (w_chain (wa (w4 y))) (a2_dst a) = Some (a2_acks a))).
Proof. exact (ack_only_written x l). Qed.
Print Assumptions C06_end_to_end.

Theorem C06_invariant_initially w :
  base_chain (wa w) -> base_chain (wb w) -> base_clients (wa w) (wb w) -> base_clients (wb w) (wa w) ->
  WI4 (mkIW4 (mkIW3 (mkIW2 (mkIW w ghost0 ghost0) ghost20 ghost20) [] []) ghost40 ghost40).
Proof. exact (wi4_base w). Qed.
Print Assumptions C06_invariant_initially.

Theorem C06_ghosts_do_not_influence x l : iw3 (irun4 x l) = irun3 (iw3 x) l.
Proof. exact (irun4_iw3 x l). Qed.
Print Assumptions C06_ghosts_do_not_influence.

Theorem C06_logs_record_accepted_acks g pre o out :
  (forall a, In a (k_alog (gupd4 g pre o out)) -> In a (k_alog g) \/
     exists p ack ph rl ch kk, out = Ok /\ packet_of o = Some (OAck1 p ack ph rl) /\
       chan_conn pre (p_sp p, p_sc p) = Some (ch, kk) /\
       a = mkAE (p_sp p, p_sc p, p_seq p) (p_dp p, p_dc p, p_seq p) (commit1 p) ack (k_client kk)) /\
  (forall a, In a (k_alog2 (gupd4 g pre o out)) -> In a (k_alog2 g) \/
     exists q acks ph rl, out = Ok /\ packet_of o = Some (OAck2 q acks ph rl) /\
       a = mkA2 (q_src q, q_seq q) (q_dst q, q_seq q) (commit2 q) acks (base_client pre (q_src q))).
Proof. exact (conj (gupd4_alog g pre o out) (gupd4_alog2 g pre o out)). Qed.
Print Assumptions C06_logs_record_accepted_acks.

(** non-vacuity: send on A, receive on B (the application acknowledges with 2), client update on A, MsgAcknowledgement
    on A with the honest membership proof of version 12: accepted and logged over client 9 *)
Example C06_end_to_end_nonvacuous :
  WI4 exa0 /\ good_steps4 exa0 exa_steps /\ map a_ack (k_alog (ka (irun4 exa0 exa_steps))) = [2].
Proof. exact (conj exa_wi (conj exa_good (proj1 (proj2 exa_accepted)))). Qed.

(** non-vacuity: a concrete state satisfies the invariant and a concrete 13-step history (duplicates, a failing
    application, an ORDERED timeout, multi-payload v2 receives) produces exactly the expected callbacks *)
Example C06_nonvacuous : Inv ex_chain /\ rkeys (events (run ex_chain ex_hist)) <> [] /\ tkeys (events (run ex_chain ex_hist)) <> [].
Proof. exact (conj ex_inv ex_nonempty). Qed.
