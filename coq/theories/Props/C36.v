(** C36 — Transfer authorizations never exceed their grant.
    Only statements closed by [exact]; proofs live in Denom/AuthzFacts.v.
    [run] executes any list of grantee requests against the stored grant exactly as x/authz does with the
    AcceptResponse of TransferAuthorization.Accept; amounts of requests are non-negative (MsgTransfer.ValidateBasic
    requires a positive coin). *)
From IBC Require Import Lib.Bytes Denom.Ident Denom.Authz Denom.AuthzFacts.
Local Open Scope Z_scope.

(** ValidateBasic establishes the invariant the other theorems start from: non-empty grant, pairwise distinct
    (port, channel), non-empty positive limits not above 2^256-1. *)
Theorem C36_validated_grant_wellformed (g : Grant) :
  grant_validate g = true -> WF g /\ forall p c d, remaining (Some g) p c d <= sentinel.
Proof. exact (validate_wf g). Qed.
Print Assumptions C36_validated_grant_wellformed.

(** Over ANY sequence of requests from ANY validated grant, for every (port, channel, denom) whose limit is not
    the sentinel: the accepted amounts sum to at most the granted limit, the remaining limit is exactly the
    initial one minus that sum, and it never goes negative; the invariant holds in the final state. *)
Theorem C36_spend_bound_and_exact_remaining (g0 : Grant) (rs : list Req) :
  grant_validate g0 = true -> Forall (fun r => 0 <= r_amt r) rs ->
  SWF (fst (run (Some g0) rs)) /\
  forall p c d, remaining (Some g0) p c d <> sentinel ->
    accepted_total (Some g0) rs p c d <= remaining (Some g0) p c d /\
    remaining (fst (run (Some g0) rs)) p c d = remaining (Some g0) p c d - accepted_total (Some g0) rs p c d /\
    0 <= remaining (fst (run (Some g0) rs)) p c d.
Proof. exact (validated_run g0 rs). Qed.
Print Assumptions C36_spend_bound_and_exact_remaining.

(** The same from any well-formed stored state (e.g. in the middle of a run). *)
Theorem C36_accounting_from_any_state (rs : list Req) (st : State) :
  SWF st -> Forall (fun r => 0 <= r_amt r) rs ->
  SWF (fst (run st rs)) /\
  forall p c d, remaining st p c d < sentinel ->
    remaining (fst (run st rs)) p c d = remaining st p c d - accepted_total st rs p c d /\
    0 <= remaining (fst (run st rs)) p c d.
Proof. exact (run_accounting rs st). Qed.
Print Assumptions C36_accounting_from_any_state.

(** One request: rejected => stored grant untouched; accepted => only the charged (port, channel, denom) entry
    changes, by exactly the requested amount, which fits (no change when that limit is the sentinel). *)
Theorem C36_step (st : State) (r : Req) (st' : State) (ok : bool) :
  SWF st -> 0 <= r_amt r -> step st r = (st', ok) ->
  SWF st' /\
  (ok = false -> st' = st) /\
  (ok = true ->
     let K := remaining st (r_port r) (r_chan r) (r_denom r) in
     (K <> sentinel -> r_amt r <= K) /\
     forall p c d, remaining st' p c d =
                   remaining st p c d - (if hits r p c d && negb (K =? sentinel) then r_amt r else 0)).
Proof. exact (step_spec st r st' ok). Qed.
Print Assumptions C36_step.

(** In every reachable state an allocation is absent exactly when nothing remains under it, and the grant is
    deleted exactly when nothing remains at all. *)
Theorem C36_removed_exactly_when_exhausted (st : State) :
  SWF st ->
  (forall p c, (forall d, remaining st p c d = 0) <->
               match st with Some g => find_alloc g p c = None | None => True end) /\
  ((forall p c d, remaining st p c d = 0) <-> st = None).
Proof. exact (fun H => conj (fun p c => exhausted_iff_removed st p c H) (nothing_left_iff_deleted st H)). Qed.
Print Assumptions C36_removed_exactly_when_exhausted.

(** Every accepted request goes to an allow-listed receiver (or the list is empty) with an allowed memo, as
    fixed by the ORIGINAL grant's allocation for that (port, channel). *)
Theorem C36_accepted_receiver_and_memo_allowed (g0 : Grant) (rs : list Req) :
  grant_validate g0 = true -> Forall (fun r => 0 <= r_amt r) rs ->
  Forall (allowed_in g0) (accepted_reqs (Some g0) rs).
Proof. exact (validated_accepted_allowed g0 rs). Qed.
Print Assumptions C36_accepted_receiver_and_memo_allowed.

(** The 'entire balance' sentinel amount is never accepted against a bounded limit, at any point of any run;
    so whenever a request is accepted against a bounded limit the message server executes the requested amount
    itself (its sentinel expansion, which runs after Accept, cannot fire). *)
Theorem C36_sentinel_never_accepted_when_bounded (g0 : Grant) (rs : list Req) (r : Req) :
  grant_validate g0 = true -> Forall (fun r => 0 <= r_amt r) rs ->
  let st := fst (run (Some g0) rs) in
  r_amt r = sentinel -> remaining st (r_port r) (r_chan r) (r_denom r) < sentinel ->
  step st r = (st, false).
Proof. exact (sentinel_rejected_in_run g0 rs r). Qed.
Print Assumptions C36_sentinel_never_accepted_when_bounded.

Theorem C36_accepted_bounded_executes_requested_amount (st : State) (r : Req) (st' : State) :
  SWF st -> step st r = (st', true) -> remaining st (r_port r) (r_chan r) (r_denom r) < sentinel ->
  forall spendable, executed_amount r spendable = r_amt r.
Proof. exact (accepted_bounded_executes_request st r st'). Qed.
Print Assumptions C36_accepted_bounded_executes_requested_amount.

(** non-vacuity: a validated two-allocation grant with an unbounded denom, an allow list and memo rules; a run
    with over-limit, disallowed-receiver, sentinel and exhausting requests *)
Example C36_nonvacuous :
  grant_validate ex_grant = true /\
  snd (run (Some ex_grant) ex_reqs) = [true; false; false; true; false; true; false] /\
  fst (run (Some ex_grant) ex_reqs) =
    Some [mkAlloc (B "transfer") (B "channel-0") [(B "stake", 40); (B "uatom", sentinel)] [B "addr1"] []] /\
  accepted_total (Some ex_grant) ex_reqs (B "transfer") (B "channel-0") (B "stake") = 60.
Proof. exact ex_run. Qed.
