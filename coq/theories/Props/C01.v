(** C01 — Exactly-once packet delivery under any relay history.
    One chain; the light clients' answers and the applications are arbitrary and may change at every step
    (the environment [Env] of Core/Chain.v), so "any relay history" includes every proof, stale or forged,
    that any light client would accept.  Statements only; proofs are in Core/ChainInv.v, Core/ChainThms.v. *)
From IBC Require Import Core.ChainExamples.
From IBC Require Import Lib.Bytes Core.Height Core.Chain Core.ChainFacts Core.ChainInv Core.ChainThms
  Core.World Core.WorldInv Core.WorldInv2 Core.WorldInv3 Core.WorldThm Core.WorldV2 Core.WorldX.
Local Open Scope N_scope.

(** Over any history from any state satisfying the invariant, the keys of the receive callbacks that ran —
    (port, channel, sequence) for v1, (client or alias id, sequence, payload index) for v2 — are pairwise
    distinct: the application's receive callback runs at most once per destination and sequence. *)
Theorem C01_recv_at_most_once {A} (c : Chain A) hist : Inv c -> NoDup (rkeys (events (run c hist))).
Proof. exact (recv_at_most_once c hist). Qed.
Print Assumptions C01_recv_at_most_once.

(** every receive callback that ran left the replay-protection state behind (receipt / nextSequenceRecv) *)
Theorem C01_recv_leaves_receipt {A} (c : Chain A) hist k :
  Inv c -> In k (rkeys (events (run c hist))) -> received (run c hist) k.
Proof. exact (recv_implies_receipt c hist k). Qed.
Print Assumptions C01_recv_leaves_receipt.

(** relaying an already received packet never reaches the application: the result is not Ok ... *)
Theorem C01_replay_not_ok {A} (e : Env A) c :
  (forall p ph r, received c (R1 (p_dp p) (p_dc p) (p_seq p)) -> snd (msg_recv1 e c p ph r) <> Ok) /\
  (forall q ph r, rcpt2 c (q_dst q, q_seq q) = true -> snd (msg_recv2 e c q ph r) <> Ok).
Proof. exact (conj (replay_recv1_not_ok e c) (replay_recv2_not_ok e c)). Qed.
Print Assumptions C01_replay_not_ok.

(** ... and whatever is not Ok (NOOP, error, panic) returns exactly the state it was given. *)
Theorem C01_noop_changes_nothing {A} (e : Env A) c o c' out : step e c o = (c', out) -> out <> Ok -> c' = c.
Proof. exact (step_not_ok_same e c o c' out). Qed.
Print Assumptions C01_noop_changes_nothing.

(** the invariant holds in every state without callback history, commitments and v2 acknowledgements
    (genesis, or right after handshakes), and every step preserves it *)
Theorem C01_invariant {A} :
  (forall c : Chain A, events c = [] -> (forall k, com1 c k = None) -> (forall k, com2 c k = None) ->
                       (forall k, ackc2 c k = None) -> Inv c) /\
  (forall (e : Env A) c o c' out, Inv c -> step e c o = (c', out) -> Inv c').
Proof. exact (conj inv_fresh inv_step). Qed.
Print Assumptions C01_invariant.

(** *** any mix of IBC v1 and v2-over-channel-alias traffic.  The v1 receipt (port, channel, seq) and the v2 receipt
    (channel-as-client, seq) live in disjoint key spaces, so the per-chain theorem above does not by itself exclude that
    one sent (channel, sequence) is delivered once as a v1 packet and once as a v2 packet.  It is excluded end to end:
    in the two-chain world with honest clients, for every history of blocks, a v1 MsgRecvPacket and a v2 MsgRecvPacket
    accepted over remote clients never carry the same source (channel, sequence) — v1 and v2 sends share one
    nextSequenceSend counter per identifier ([C08]), so only one of the two commitments is ever written ([Excl]) and
    every accepted receive proves one of them. *)
Theorem C01_one_delivery_across_versions x l :
  WIX x -> good_steps2 x l ->
  let y := irun2 x l in
  let lh := w_lh (iw (iw1 y)) in
  (forall r r2, In r (g_rlog (gb (iw1 y))) -> In r2 (h_rlog (hb y)) -> r_client r <> lh -> r2_client r2 <> lh ->
     snd (fst (r_src r)) = fst (r2_src r2) -> snd (r_src r) = snd (r2_src r2) -> False) /\
  (forall r r2, In r (g_rlog (ga (iw1 y))) -> In r2 (h_rlog (ha y)) -> r_client r <> lh -> r2_client r2 <> lh ->
     snd (fst (r_src r)) = fst (r2_src r2) -> snd (r_src r) = snd (r2_src r2) -> False).
Proof. exact (one_delivery_across_versions x l). Qed.
Print Assumptions C01_one_delivery_across_versions.

Theorem C01_cross_version_invariant_initially w :
  base_chain (wa w) -> base_chain (wb w) -> base_clients (wa w) (wb w) -> base_clients (wb w) (wa w) ->
  WIX (mkIW2 (mkIW w ghost0 ghost0) ghost20 ghost20).
Proof. exact (wix_base w). Qed.
Print Assumptions C01_cross_version_invariant_initially.

(** non-vacuity: a v1 send (sequence 1) and a v2 send over the alias of the same channel (sequence 2), both relayed
    and both delivered on the other chain *)
Example C01_cross_version_nonvacuous :
  WIX exx0 /\ good_steps2 exx0 exx_steps /\
  map r_src (g_rlog (gb (iw1 (irun2 exx0 exx_steps)))) = [(1, 10, 1)] /\ map r2_src (h_rlog (hb (irun2 exx0 exx_steps))) = [(10, 2)].
Proof. exact (conj exx_wi (conj exx_good exx_delivered)). Qed.

(** non-vacuity: a concrete state satisfies the invariant and a concrete 13-step history (duplicates, a failing
    application, an ORDERED timeout, multi-payload v2 receives) produces exactly the expected callbacks *)
Example C01_nonvacuous : Inv ex_chain /\ rkeys (events (run ex_chain ex_hist)) <> [] /\ tkeys (events (run ex_chain ex_hist)) <> [].
Proof. exact (conj ex_inv ex_nonempty). Qed.
