(** C13 — placeholder while the model is being built *)
From IBC Require Import Lib.Bytes Handshake.Version Handshake.VersionFacts.

Theorem C13_pick_version_contract sup cp v :
  pick_version sup cp = Some v ->
  exists s c,
    In s sup /\ In c cp /\ v_id s = v_id v /\ v_id c = v_id v /\
    find_supported (v_id v) cp = Some c /\
    v_feats v = filter (fun f => contains_str (v_feats c) f) (v_feats s) /\
    (forall f, In f (v_feats v) <-> In f (v_feats s) /\ In f (v_feats c)) /\
    v_feats v <> [].
Proof. exact (pick_version_contract sup cp v). Qed.
Print Assumptions C13_pick_version_contract.
