(** C13 — Connection handshake safety and version negotiation.
    Statements only; proofs are in Handshake/VersionFacts.v, Handshake/ModelThms.v, Handshake/WorldFacts.v. *)
From IBC Require Import Lib.Bytes Lib.Dec Core.Height Handshake.Version Handshake.VersionFacts Handshake.Types
     Handshake.Model Handshake.ModelFacts Handshake.ModelThms Handshake.World Handshake.WorldFacts
     Handshake.WorldFacts2.
Local Open Scope N_scope.

(** * version negotiation, for all lists (duplicates, empty feature sets, empty lists) *)

(** PickVersion: the result's identifier occurs in both lists; its features are the features of the
    (first acceptable) supported entry filtered by membership in the FIRST counterparty entry with that
    identifier — as a set, the intersection of the two feature sets — and are not empty. *)
Theorem C13_pick_version_contract sup cp v :
  pick_version sup cp = Some v ->
  exists s c,
    In s sup /\ In c cp /\ v_id s = v_id v /\ v_id c = v_id v /\
    find_supported (v_id v) cp = Some c /\
    v_feats v = filter (fun f => contains_str (v_feats c) f) (v_feats s) /\
    (forall f, In f (v_feats v) <-> In f (v_feats s) /\ In f (v_feats c)) /\
    v_feats v <> [].
Proof. exact (pick_version_contract sup cp v). Qed.
Print Assumptions C13_pick_version_contract.

(** exact characterisation, including which supported entry wins (the first acceptable one) *)
Theorem C13_pick_version_spec sup cp v :
  pick_version sup cp = Some v <->
  exists l1 s l2 c,
    sup = l1 ++ s :: l2 /\ find_supported (v_id s) cp = Some c /\
    v = mkV (v_id s) (feature_intersection (v_feats s) (v_feats c)) /\
    (v_feats v <> [] \/ allow_nil (v_id s) = true) /\
    Forall (fun x => ~ acceptable x cp) l1.
Proof. exact (pick_version_spec sup cp v). Qed.
Print Assumptions C13_pick_version_spec.

Theorem C13_pick_version_fails_iff sup cp :
  pick_version sup cp = None <-> Forall (fun x => ~ acceptable x cp) sup.
Proof. exact (pick_version_none sup cp). Qed.
Print Assumptions C13_pick_version_fails_iff.

Theorem C13_feature_intersection src cp f :
  In f (feature_intersection src cp) <-> In f src /\ In f cp.
Proof. exact (feature_intersection_In src cp f). Qed.
Print Assumptions C13_feature_intersection.

Theorem C13_find_supported_first id sup s :
  find_supported id sup = Some s <->
  exists l1 l2, sup = l1 ++ s :: l2 /\ v_id s = id /\ Forall (fun x => v_id x <> id) l1.
Proof. exact (find_supported_spec id sup s). Qed.
Print Assumptions C13_find_supported_first.

Theorem C13_is_supported_spec sup p :
  is_supported sup p = true <->
  exists s, find_supported (v_id p) sup = Some s /\
            (v_feats p <> [] \/ allow_nil (v_id p) = true) /\ incl (v_feats p) (v_feats s).
Proof. exact (is_supported_spec sup p). Qed.
Print Assumptions C13_is_supported_spec.

Theorem C13_verify_proposed_spec v p :
  verify_proposed v p = true <->
  v_id p = v_id v /\ (v_feats p <> [] \/ allow_nil (v_id p) = true) /\ incl (v_feats p) (v_feats v).
Proof. exact (verify_proposed_spec v p). Qed.
Print Assumptions C13_verify_proposed_spec.

(** no identifier allows an empty feature set in this code base *)
Theorem C13_no_nil_feature_sets id : allow_nil id = false.
Proof. exact (allow_nil_false id). Qed.
Print Assumptions C13_no_nil_feature_sets.

(** what is picked is accepted by IsSupportedVersion against the counterparty's list (ConnOpenAck's
    check), always; against the picker's own list when that has no duplicate identifier ... *)
Theorem C13_picked_is_supported sup cp v :
  pick_version sup cp = Some v ->
  is_supported cp v = true /\ (NoDup (map v_id sup) -> is_supported sup v = true).
Proof.
  exact (fun H => conj (pick_version_supported_by_counterparty sup cp v H)
                       (fun Hn => pick_version_supported_by_self sup cp v Hn H)).
Qed.
Print Assumptions C13_picked_is_supported.

(** ... and not in general with duplicates in the picker's list (unreachable: the handlers always
    pass GetCompatibleVersions(), a one-element list) *)
Theorem C13_picked_is_supported_by_self_refuted :
  exists sup cp v, pick_version sup cp = Some v /\ is_supported sup v = false.
Proof. exact pick_version_supported_by_self_refuted. Qed.
Print Assumptions C13_picked_is_supported_by_self_refuted.

(** what ConnOpenTry negotiates from any counterparty list *)
Theorem C13_negotiated_from_compatible cp v :
  pick_version compatible_versions cp = Some v ->
  v_id v = B "1" /\ v_feats v <> [] /\ incl (v_feats v) [order_ordered; order_unordered] /\
  is_supported compatible_versions v = true /\ is_supported cp v = true.
Proof. exact (pick_from_compatible cp v). Qed.
Print Assumptions C13_negotiated_from_compatible.

Theorem C13_validate_version_spec v :
  validate_version v = true <->
  all_space (v_id v) = false /\ (List.length (v_feats v) <= 100)%nat /\
  forall f, In f (v_feats v) -> all_space f = false.
Proof. exact (validate_version_spec v). Qed.
Print Assumptions C13_validate_version_spec.

(** * connection handshake safety, one chain, any oracle, all message lists *)

(** OPEN only by ConnOpenAck on an INIT end or ConnOpenConfirm on a TRYOPEN end, and only if the
    oracle accepted under the counterparty connection key exactly the end: state TRYOPEN (resp. OPEN),
    client = our counterparty client, counterparty = (our client, our connection id, our prefix),
    versions = our (new) single version list, delay period = ours. *)
Theorem C13_open_requires_proof e s m id c' :
  WF s ->
  get_conn (step e s m) id = Some c' -> c_state c' = COpen ->
  (forall c0, get_conn s id = Some c0 -> c_state c0 <> COpen) ->
  exists c0 proof ph,
    get_conn s id = Some c0 /\
    c_client c' = c_client c0 /\ c_cp_client c' = c_cp_client c0 /\ c_cp_prefix c' = c_cp_prefix c0 /\
    c_delay c' = c_delay c0 /\
    ((c_state c0 = CInit /\
      exists v, c_versions c' = [v] /\ is_supported (c_versions c0) v = true /\
                m = MConnAck id (c_cp_conn c') v proof ph /\
      e_verify e (c_client c') ph (c_cp_prefix c') (KConn (c_cp_conn c'))
               (VConn (mkConn CTryOpen (c_cp_client c') (c_client c') id own_prefix (c_versions c') (c_delay c'))) proof = true)
     \/
     (c_state c0 = CTryOpen /\ c_cp_conn c' = c_cp_conn c0 /\ c_versions c' = c_versions c0 /\
      m = MConnConfirm id proof ph /\
      e_verify e (c_client c') ph (c_cp_prefix c') (KConn (c_cp_conn c'))
               (VConn (mkConn COpen (c_cp_client c') (c_client c') id own_prefix (c_versions c') (c_delay c'))) proof = true)).
Proof. exact (conn_open_requires_proof e s m id c'). Qed.
Print Assumptions C13_open_requires_proof.

(** a TRYOPEN end is stored only with a verified proof of the INIT end and carries the one version
    PickVersion negotiates from the proven counterparty list *)
Theorem C13_try_requires_proof e s client cpc cpn cpp cpv delay proof ph s' :
  handle e s (MConnTry client cpc cpn cpp cpv delay proof ph) = Ok s' ->
  exists v,
    pick_version compatible_versions cpv = Some v /\
    e_verify e client ph cpp (KConn cpn) (VConn (mkConn CInit cpc client [] own_prefix cpv delay)) proof = true /\
    get_conn s' (conn_id (next_conn s)) = Some (mkConn CTryOpen client cpc cpn cpp [v] delay).
Proof. exact (conn_try_requires_proof e s client cpc cpn cpp cpv delay proof ph s'). Qed.
Print Assumptions C13_try_requires_proof.

(** a connection never leaves OPEN: over any history an OPEN end is not changed at all *)
Theorem C13_open_forever tr s id a :
  WF s -> counters_below s (List.length tr) ->
  get_conn s id = Some a -> c_state a = COpen -> get_conn (run s tr) id = Some a.
Proof. exact (conn_open_forever tr s id a). Qed.
Print Assumptions C13_open_forever.

(** every TRYOPEN/OPEN end has exactly one version, over any history (given that initially) *)
Theorem C13_single_negotiated_version tr s :
  WF s -> counters_below s (List.length tr) -> single_version s -> single_version (run s tr).
Proof. exact (open_connections_have_one_version tr s). Qed.
Print Assumptions C13_single_negotiated_version.

(** * localhost *)
Theorem C13_localhost_handshake_refused e s cpc cpn cpp version delay cpv proof ph :
  handle e s (MConnInit localhost_client cpc cpn cpp version delay) = Err 101 /\
  handle e s (MConnTry localhost_client cpc cpn cpp cpv delay proof ph) = Err 201.
Proof. exact (conj (localhost_conn_init_refused e s cpc cpn cpp version delay)
                   (localhost_conn_try_refused e s cpc cpn cpp cpv delay proof ph)). Qed.
Print Assumptions C13_localhost_handshake_refused.

(** no history creates a connection end over the localhost client *)
Theorem C13_no_localhost_connection_created tr s id b :
  WF s -> counters_below s (List.length tr) ->
  get_conn (run s tr) id = Some b -> c_client b = localhost_client ->
  exists a, get_conn s id = Some a /\ c_client a = localhost_client.
Proof. exact (no_localhost_connection_created tr s id b). Qed.
Print Assumptions C13_no_localhost_connection_created.

(** * channels open only on a connection with exactly one negotiated version listing the ordering *)
Theorem C13_chan_init_requires_single_version e s port st order cpp cpc hops version app s' :
  handle e s (MChanInit port st order cpp cpc hops version app) = Ok s' ->
  exists hop conn v, hops = [hop] /\ get_conn s hop = Some conn /\ c_versions conn = [v] /\
                     In (order_string order) (v_feats v) /\ (order = OOrdered \/ order = OUnordered).
Proof. exact (chan_init_requires_single_version e s port st order cpp cpc hops version app s'). Qed.
Print Assumptions C13_chan_init_requires_single_version.

Theorem C13_chan_try_requires_single_version e s port st order cpp cpc hops version cpv proof ph app s' :
  handle e s (MChanTry port st order cpp cpc hops version cpv proof ph app) = Ok s' ->
  exists hop conn v, hops = [hop] /\ get_conn s hop = Some conn /\ c_state conn = COpen /\ c_versions conn = [v] /\
                     In (order_string order) (v_feats v).
Proof. exact (chan_try_requires_single_version e s port st order cpp cpc hops version cpv proof ph app s'). Qed.
Print Assumptions C13_chan_try_requires_single_version.

(** * two chains: the counterparty of an OPEN connection end stored the matching end *)
Theorem C13_open_connection_has_matching_counterparty w id cA :
  Inv w -> get_conn (w_st (wa w)) id = Some cA -> c_state cA = COpen -> c_client cA <> localhost_client ->
  exists cB, get_conn (w_st (wb w)) (c_cp_conn cA) = Some cB /\
             c_client cB = c_cp_client cA /\ c_cp_client cB = c_client cA /\ c_cp_conn cB = id /\
             c_cp_prefix cB = own_prefix /\ c_versions cB = c_versions cA /\ c_delay cB = c_delay cA /\
             (c_state cB = CTryOpen \/ c_state cB = COpen).
Proof. exact (open_connection_has_matching_counterparty w id cA). Qed.
Print Assumptions C13_open_connection_has_matching_counterparty.

Theorem C13_world_invariant ops w :
  Inv w -> wcounters_below w (List.length ops) -> Inv (wrun w ops).
Proof. exact (wrun_inv ops w). Qed.
Print Assumptions C13_world_invariant.

(** two chains: every TRYOPEN or OPEN channel end sits on an OPEN connection with exactly one negotiated
    version that lists the channel's ordering — also for ends opened by ChanOpenAck, where the code does
    not re-check (it follows from the counterparty's ChanOpenTry check and the equal version lists of
    the two connection ends).  [Inv2] is [Inv] plus this statement for the current state and every
    recorded snapshot, plus "09-localhost is not a tendermint client". *)
Theorem C13_world_invariant2 ops w :
  Inv2 w -> wcounters_below w (List.length ops) -> Inv2 (wrun w ops).
Proof. exact (wrun_inv2 ops w). Qed.
Print Assumptions C13_world_invariant2.

Theorem C13_genesis_invariant2 ha reva cla hb revb clb :
  alookup bytes_eqb localhost_client cla = None -> alookup bytes_eqb localhost_client clb = None ->
  Inv2 (init_world genesis_chain ha reva cla genesis_chain hb revb clb).
Proof. exact (genesis_inv2 ha reva cla hb revb clb). Qed.
Print Assumptions C13_genesis_invariant2.

Theorem C13_open_channel_connection_supports_ordering w p c e :
  Inv2 w -> get_chan (w_st (wa w)) p c = Some e -> ch_state e = STryOpen \/ ch_state e = SOpen ->
  exists hop rest conn v,
    ch_hops e = hop :: rest /\ get_conn (w_st (wa w)) hop = Some conn /\ c_state conn = COpen /\
    c_versions conn = [v] /\ In (order_string (ch_order e)) (v_feats v).
Proof. exact (open_channel_connection_supports_ordering w p c e). Qed.
Print Assumptions C13_open_channel_connection_supports_ordering.

(** with an arbitrary (dishonest) oracle the same statement fails on one chain: an INIT connection
    offering both orderings, an ORDERED channel INIT on it, then ConnOpenAck with a counterparty-selected
    version that only lists UNORDERED, then ChanOpenAck *)
Theorem C13_open_channel_connection_supports_ordering_single_chain_refuted :
  exists (e : Env) (tr : list Msg) (p c hop : bytes) (ch : ChanEnd) (conn : ConnEnd) (v : Version),
    let s := fold_left (step e) tr genesis_chain in
    get_chan s p c = Some ch /\ ch_state ch = SOpen /\ ch_hops ch = [hop] /\ get_conn s hop = Some conn /\
    c_versions conn = [v] /\ ~ In (order_string (ch_order ch)) (v_feats v).
Proof. exact single_chain_support_refuted. Qed.
Print Assumptions C13_open_channel_connection_supports_ordering_single_chain_refuted.

(** non-vacuity *)
Example C13_nonvacuous :
  pick_version compatible_versions [mkV (B "2") [B "x"]; mkV (B "1") [order_unordered; B "ORDER_DAG"]]
    = Some (mkV (B "1") [order_unordered]) /\
  pick_version [mkV (B "1") [B "A"; B "B"; B "A"]] [mkV (B "1") []; mkV (B "1") [B "A"]] = None /\
  is_supported compatible_versions (mkV (B "1") [order_ordered]) = true /\
  WF genesis_chain /\ single_version genesis_chain /\
  (exists s', handle (mkEnv (fun _ => true) (fun _ => true) (fun _ => true) (fun _ _ _ _ _ _ => true)) genesis_chain
                (MConnInit (B "07-tendermint-0") (B "07-tendermint-0") [] (B "ibc") None 0) = Ok s').
Proof.
  split; [vm_compute; reflexivity|]. split; [vm_compute; reflexivity|]. split; [vm_compute; reflexivity|].
  split; [exact genesis_WF|]. split.
  - exact (fun id a H _ => match genesis_get_conn id a H with conj _ E => ex_intro _ default_version (f_equal c_versions E) end).
  - vm_compute. eexists. reflexivity.
Qed.
