(** C21 — Tendermint client status is exact and gates every use.
    Statements only; proofs are in TmVerify/WorldFacts.v.  The model (TmVerify/World.v) is the one the
    `tmverify` correspondence family re-computes on every harness record. *)
From IBC Require Import Lib.Bytes Lib.Dec Core.Height Core.HeightFacts TmVerify.Util TmVerify.World TmVerify.WorldFacts.
Local Open Scope N_scope.

(** status() is exactly: Frozen iff the frozen height is non-zero; otherwise Expired iff the consensus state at
    the latest height is missing or latestTimestamp + trustingPeriod <= now; otherwise Active. *)
Theorem C21_status_exact now c :
  (status now c = Frozen <-> h_is_zero (c_frozen c) = false) /\
  (status now c = Expired <->
     h_is_zero (c_frozen c) = true /\
     (hlookup (c_latest c) (c_cons c) = None \/
      exists cs, hlookup (c_latest c) (c_cons c) = Some cs /\ (cs_ts cs + c_trusting c <= now)%Z)) /\
  (status now c = Active <->
     h_is_zero (c_frozen c) = true /\
     exists cs, hlookup (c_latest c) (c_cons c) = Some cs /\ (now < cs_ts cs + c_trusting c)%Z) /\
  status now c <> Unknown.
Proof.
  exact (conj (status_frozen_iff now c) (conj (status_expired_iff now c)
        (conj (status_active_iff now c) (status_never_unknown now c)))).
Qed.
Print Assumptions C21_status_exact.

(** The latest height of a client never decreases, over every list of operations (updates with any
    verifier verdict, misbehaviour, time steps, proof verifications, sends, handshake steps, recovery,
    upgrade), for every proof verifier and encoder. *)
Theorem C21_latest_never_decreases vmem vnon enc_client enc_cons ops w cid c :
  get_client w cid = Some (Tm c) ->
  exists c', get_client (run vmem vnon enc_client enc_cons w ops) cid = Some (Tm c') /\
             h_lte (c_latest c) (c_latest c') = true.
Proof. exact (run_latest_mono vmem vnon enc_client enc_cons ops w cid c). Qed.
Print Assumptions C21_latest_never_decreases.

(** After any history, an operation that uses a client (update, membership / non-membership verification
    — this is how packets and the proof-carrying handshake steps consult it —, packet send, ConnOpenInit,
    ChanOpenInit, upgrade; for recovery: the substitute) returns Ok only if that client is Active at that
    moment. *)
Theorem C21_every_use_gated vmem vnon enc_client enc_cons w0 ops o w' cid :
  step vmem vnon enc_client enc_cons (run vmem vnon enc_client enc_cons w0 ops) o = (w', Ok) ->
  op_client o = Some cid ->
  exists c, get_client (run vmem vnon enc_client enc_cons w0 ops) cid = Some (Tm c) /\
            status (w_now (run vmem vnon enc_client enc_cons w0 ops)) c = Active.
Proof. exact (history_ok_active vmem vnon enc_client enc_cons w0 ops o w' cid). Qed.
Print Assumptions C21_every_use_gated.

(** Contrapositive: through a client that is not Active no dependent operation succeeds. *)
Theorem C21_not_active_fails vmem vnon enc_client enc_cons w o cid c :
  op_client o = Some cid -> get_client w cid = Some (Tm c) -> status (w_now w) c <> Active ->
  snd (step vmem vnon enc_client enc_cons w o) <> Ok.
Proof. exact (not_active_fails vmem vnon enc_client enc_cons w o cid c). Qed.
Print Assumptions C21_not_active_fails.

(** An expired client stays expired while only the clock moves. *)
Theorem C21_expired_stays_expired now now' c : status now c = Expired -> (now <= now')%Z -> status now' c = Expired.
Proof. exact (status_expired_mono now now' c). Qed.
Print Assumptions C21_expired_stays_expired.

(** non-vacuity: a concrete client is Active one nanosecond before latestTimestamp + trustingPeriod and
    Expired at that instant and after; frozen wins; a dependent operation succeeds resp. fails accordingly. *)
Example C21_nonvacuous :
  let cs := mkCS 1000 (B "root") (B "nvh") (Some 5%Z) (Some (mkH 1 3)) in
  let c := mkClient (B "chain-1") 1 3 500 900 10 (mkH 0 0) (mkH 1 7) (B "specs") [B "upgrade"] [(mkH 1 7, cs)] in
  let w t := mkW t (mkH 1 9) [(4, Tm c)] in
  let none5 := fun _ _ _ _ _ : bytes => false in
  status 1499 c = Active /\ status 1500 c = Expired /\ status 1501 c = Expired /\
  status 1499 (with_frozen c frozen_height) = Frozen /\
  snd (step (fun _ _ _ _ _ => true) (fun _ _ _ _ => true) (fun _ => []) (fun _ => []) (w 1499%Z) (OSend 4)) = Ok /\
  snd (step (fun _ _ _ _ _ => true) (fun _ _ _ _ => true) (fun _ => []) (fun _ => []) (w 1500%Z) (OSend 4)) = Err /\
  snd (step (fun _ _ _ _ _ => true) (fun _ _ _ _ => true) (fun _ => []) (fun _ => []) (w 1499%Z)
            (OVerifyMem 4 (mkH 1 7) [] [] [])) = Ok.
Proof. vm_compute. repeat split. Qed.
