(** C28 — Attestor quorum, distinct signers and domain separation.
    Model: Clients/Attest.v (the [verify_signatures]/[step]/[run] Corr/Clients.v evaluates on every
    `att_verify_sigs` / `att_history` record, with SHA-256 from Lib/Sha256 and recorded tables for secp256k1
    recovery, keccak and ABI decoding).  Here the hash [H], [recover], [keccak] and the two ABI decoders are
    universally quantified.  Only statements closed by [exact]; proofs live in Clients/AttestFacts.v. *)
From IBC Require Import Lib.Bytes Lib.BytesFacts Lib.Dec Core.Height Clients.Localhost Clients.Attest Clients.AttestFacts.
Local Open Scope N_scope.

(** verifySignatures accepts iff: at least one and at least [minsigs] signatures; every one is 65 bytes long
    and recovers (after v-normalisation) over the type-tagged hash of exactly [data]; the recovered signers are
    pairwise distinct and all in the configured attestor set.  Hence the number of distinct configured
    attestors that signed is at least the quorum. *)
Theorem C28_quorum_of_distinct_attestors H recover attestors minsigs data sigs tag :
  (verify_signatures H recover attestors minsigs data sigs tag = true <->
   sigs <> [] /\ minsigs <= N.of_nat (length sigs) /\
   exists signers, Forall2 (signed_by recover (tagged_hash H tag data)) sigs signers /\ NoDup signers /\
                   incl signers attestors) /\
  (verify_signatures H recover attestors minsigs data sigs tag = true ->
   exists signers, minsigs <= N.of_nat (length signers) /\ length signers = length sigs /\ NoDup signers /\
                   incl signers attestors /\ Forall2 (signed_by recover (tagged_hash H tag data)) sigs signers).
Proof.
  exact (conj (verify_signatures_iff H recover attestors minsigs data sigs tag)
              (verify_signatures_quorum H recover attestors minsigs data sigs tag)).
Qed.
Print Assumptions C28_quorum_of_distinct_attestors.

(** Domain separation: the signing input determines (type tag, data), or a collision of H is exhibited;
    in particular a state-attestation signing input never equals a packet-attestation signing input
    unless two different H-preimages with equal images are exhibited. *)
Theorem C28_domain_separation H :
  (forall t d t' d', tagged_hash H t d = tagged_hash H t' d' ->
     (t = t' /\ H d = H d') \/ exists a b, a <> b /\ H a = H b) /\
  (forall t d t' d', tagged_hash H t d = tagged_hash H t' d' ->
     (t = t' /\ d = d') \/ exists a b, a <> b /\ H a = H b) /\
  (forall d d', tagged_hash H tag_state d = tagged_hash H tag_packet d' -> exists a b, a <> b /\ H a = H b).
Proof.
  exact (conj (tagged_hash_inj H) (conj (tagged_hash_inj_data H) (state_packet_not_interchangeable H))).
Qed.
Print Assumptions C28_domain_separation.

(** An accepted update: the client is not frozen, a quorum signed the STATE-tagged hash of exactly that data,
    the data decodes as a state attestation (height, timestamp), and either that height is stored with another
    timestamp and the client is frozen (nothing else changes), or the consensus state is stored and the
    latest height is the maximum. *)
Theorem C28_update_accept H recover keccak dp ds st data sigs st' :
  step H recover keccak dp ds st (AUpdate data sigs) = (st', Ok) ->
  at_frozen st = false /\
  verify_signatures H recover (at_attestors st) (at_min st) data sigs tag_state = true /\
  exists h ts, ds data = Some (h, ts) /\
    ((exists ts0, cons_get (at_cons st) h = Some ts0 /\ ts0 <> ts /\ st' = freeze st) \/
     ((cons_get (at_cons st) h = None \/ cons_get (at_cons st) h = Some ts) /\
      st' = mkAtt (at_attestors st) (at_min st) (N.max (at_latest st) h) false (cons_set (at_cons st) h ts))).
Proof. exact (step_update_ok H recover keccak dp ds st data sigs st'). Qed.
Print Assumptions C28_update_accept.

(** A quorum-signed state attestation with a different timestamp for an already stored height freezes the client. *)
Theorem C28_conflicting_timestamp_freezes H recover keccak dp ds st data sigs h ts ts0 :
  validate_basic dp ds data sigs = true -> at_frozen st = false ->
  verify_signatures H recover (at_attestors st) (at_min st) data sigs tag_state = true ->
  ds data = Some (h, ts) -> cons_get (at_cons st) h = Some ts0 -> ts0 <> ts ->
  step H recover keccak dp ds st (AUpdate data sigs) = (freeze st, Ok).
Proof. exact (conflicting_update_freezes H recover keccak dp ds st data sigs h ts ts0). Qed.
Print Assumptions C28_conflicting_timestamp_freezes.

(** Accepted membership: quorum over the PACKET-tagged hash of exactly the proof's attestation data, which
    decodes to the proof height (revision 0, with a stored consensus state) and contains the pair
    (keccak(path), value) with a 32-byte value.  Nothing changes. *)
Theorem C28_membership_accept H recover keccak dp ds st height p path value st' :
  step H recover keccak dp ds st (AVerifyMembership height p path value) = (st', Ok) ->
  st' = st /\ at_frozen st = false /\ length value = 32%nat /\
  rev height = 0 /\ (exists ts, cons_get (at_cons st) (ht height) = Some ts) /\
  exists data sigs key packets,
    p = AProofOk data sigs /\ path = PMerkle [key] /\ key <> [] /\
    verify_signatures H recover (at_attestors st) (at_min st) data sigs tag_packet = true /\
    dp data = Some (ht height, packets) /\ In (keccak key, value) packets.
Proof. exact (step_membership_ok H recover keccak dp ds st height p path value st'). Qed.
Print Assumptions C28_membership_accept.

(** Accepted non-membership: as above, and the hashed path is attested at least once and only with the
    all-zero 32-byte commitment. *)
Theorem C28_non_membership_accept H recover keccak dp ds st height p path st' :
  step H recover keccak dp ds st (AVerifyNonMembership height p path) = (st', Ok) ->
  st' = st /\ at_frozen st = false /\
  rev height = 0 /\ (exists ts, cons_get (at_cons st) (ht height) = Some ts) /\
  exists data sigs key packets,
    p = AProofOk data sigs /\ path = PMerkle [key] /\ key <> [] /\
    verify_signatures H recover (at_attestors st) (at_min st) data sigs tag_packet = true /\
    dp data = Some (ht height, packets) /\
    (exists c, In (keccak key, c) packets) /\ (forall c, In (keccak key, c) packets -> c = zero32).
Proof. exact (step_non_membership_ok H recover keccak dp ds st height p path st'). Qed.
Print Assumptions C28_non_membership_accept.

(** A frozen client accepts nothing, for every operation list, forever; failures (and the decoder panic) change
    nothing; the attestor set and quorum never change. *)
Theorem C28_frozen_accepts_nothing H recover keccak dp ds st :
  (forall op, at_frozen st = true ->
     snd (step H recover keccak dp ds st op) <> Ok /\ fst (step H recover keccak dp ds st op) = st) /\
  (forall ops, at_frozen st = true -> final H recover keccak dp ds st ops = st) /\
  (forall op, snd (step H recover keccak dp ds st op) <> Ok -> fst (step H recover keccak dp ds st op) = st) /\
  (forall op, at_attestors (fst (step H recover keccak dp ds st op)) = at_attestors st /\
              at_min (fst (step H recover keccak dp ds st op)) = at_min st).
Proof.
  exact (conj (frozen_refuses H recover keccak dp ds st) (conj (frozen_forever H recover keccak dp ds st)
        (conj (step_fail H recover keccak dp ds st) (step_config H recover keccak dp ds st)))).
Qed.
Print Assumptions C28_frozen_accepts_nothing.

(** non-vacuity: toy externals (H = identity-with-marker, a signature is 64 filler bytes and a signer byte);
    two attestors, quorum 2: accepted with both, refused with a duplicate, with a stranger, under the other
    tag's hash; a conflicting timestamp freezes; afterwards nothing is accepted. *)
Example C28_nonvacuous :
  let H (x : bytes) := "h"%char :: x in
  let sg (a : ascii) (hash : bytes) := repeat a 64 ++ [ascii_of_N 27] in
  let recover (hash s : bytes) := match s with a :: _ => if (Ascii.eqb a "z") then None else Some [a] | [] => None end in
  let keccak (x : bytes) := "k"%char :: x in
  let dp (d : bytes) : option (N * list (bytes * bytes)) := None in
  let ds (d : bytes) := match d with [a] => Some (5, N_of_ascii a) | _ => None end in
  let st := mkAtt [B "a"; B "b"] 2 5 false [(5, 100)] in
  let s1 := sg "a"%char [] in let s2 := sg "b"%char [] in let s3 := sg "c"%char [] in
  verify_signatures H recover [B "a"; B "b"] 2 (B "d") [s1; s2] tag_state = true /\
  verify_signatures H recover [B "a"; B "b"] 2 (B "d") [s1; s1] tag_state = false /\
  verify_signatures H recover [B "a"; B "b"] 2 (B "d") [s1; s3] tag_state = false /\
  verify_signatures H recover [B "a"; B "b"] 2 (B "d") [s1] tag_state = false /\
  map snd (run H recover keccak dp ds st [AUpdate (B "d") [s1; s2]; AUpdate (B "e") [s1; s2]; AUpdate (B "d") [s1; s2]])
    = [Ok; Ok; Err] /\
  at_frozen (final H recover keccak dp ds st [AUpdate (B "d") [s1; s2]; AUpdate (B "e") [s1; s2]]) = true.
Proof. vm_compute. auto 10. Qed.
