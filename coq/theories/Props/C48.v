(** C48 — Port routing is unambiguous and order-independent.
    Only statements closed by [exact]; proofs in Keys/RouterFacts.v (model: Keys/Router.v).
    Go maps are association lists: a list order is one possible map iteration order. *)
From Coq Require Import Permutation.
From IBC Require Import Lib.Bytes Keys.Ident Keys.Router Keys.RouterFacts.
Local Open Scope N_scope.

(** IBC v2 router: every accepted registration sequence (AddRoute / AddPrefixRoute, any order, any names) leaves the
    router in a state where route names are unique, prefixes are unique and pairwise non-nested, and no route name
    starts with a registered prefix. *)
Theorem C48_v2_accepted_sequences_keep_invariant ops r : run2 ops = Some r -> Inv2 r.
Proof. exact (run2_inv ops r). Qed.
Print Assumptions C48_v2_accepted_sequences_keep_invariant.

(** the same when rejected registrations (recovered panics) are interleaved *)
Theorem C48_v2_invariant_with_rejections ops : Inv2 (snd (run2_trace empty2 ops)).
Proof. exact (run2_trace_inv ops empty2 inv_empty2). Qed.
Print Assumptions C48_v2_invariant_with_rejections.

(** every port resolves to at most one module (exact route or prefix route; no iteration order involved) *)
Theorem C48_v2_at_most_one_module r port m1 m2 :
  Inv2 r -> route_matches r port m1 -> route_matches r port m2 -> m1 = m2.
Proof. exact (unambiguous2 r port m1 m2). Qed.
Print Assumptions C48_v2_at_most_one_module.

(** getRoute returns exactly that module *)
Theorem C48_v2_get_route_spec r port m : Inv2 r -> (get_route r port = Some m <-> route_matches r port m).
Proof. exact (get_route_spec r port m). Qed.
Print Assumptions C48_v2_get_route_spec.

(** ... whatever the iteration order of the two Go maps *)
Theorem C48_v2_map_iteration_independent r rs ps port :
  Inv2 r -> Permutation (routes r) rs -> Permutation (prefix_routes r) ps ->
  get_route (mkR2 rs ps) port = get_route r port.
Proof. exact (get_route_perm r rs ps port). Qed.
Print Assumptions C48_v2_map_iteration_independent.

(** the router refuses exactly the registrations that would make a route or prefix ambiguous (or are not alphanumeric) *)
Theorem C48_v2_ambiguous_registrations_rejected r p m :
  (add_route r p m = None <->
     is_alphanumeric p = false \/ In p (map fst (routes r)) \/
     (exists e, In e (prefix_routes r) /\ is_prefix (fst e) p = true)) /\
  (add_prefix_route r p m = None <->
     is_alphanumeric p = false \/
     (exists e, In e (routes r) /\ is_prefix p (fst e) = true) \/
     (exists e, In e (prefix_routes r) /\ (is_prefix (fst e) p = true \/ is_prefix p (fst e) = true))).
Proof. exact (conj (add_route_rejects r p m) (add_prefix_route_rejects r p m)). Qed.
Print Assumptions C48_v2_ambiguous_registrations_rejected.

(** IBC v1 port router: Keeper.Route is a function of the set of registered routes — the same for every map
    iteration order (Keys() sorts) — and returns the exact route, else the module of the least registered name (byte
    order) contained in the requested name. *)
Theorem C48_v1_map_iteration_independent r rs name :
  NoDup (map fst (routes1 r)) -> Permutation (routes1 r) rs ->
  route1 (mkR1 rs (sealed r)) name = route1 r name.
Proof. exact (route1_perm r rs name). Qed.
Print Assumptions C48_v1_map_iteration_independent.

Theorem C48_v1_route_spec r name m :
  route1 r name = Some m ->
  In (name, m) (routes1 r) \/
  (lookup name (routes1 r) = None /\
   exists k, In (k, m) (routes1 r) /\ contains k name = true /\
             forall k', In k' (map fst (routes1 r)) -> contains k' name = true -> ble k k').
Proof. exact (route1_spec r name m). Qed.
Print Assumptions C48_v1_route_spec.

Theorem C48_v1_names_unique ops : NoDup (map fst (routes1 (snd (run1_trace empty1 ops)))).
Proof. exact (run1_trace_nodup ops empty1 (NoDup_nil _)). Qed.
Print Assumptions C48_v1_names_unique.

(** The result does not depend on the registration order: a fully accepted sequence is accepted in every order and
    every port resolves identically; a sequence with a rejected registration has one in every order. *)
Theorem C48_v2_registration_order_independent ops ops' r :
  run2 ops = Some r -> Permutation ops ops' ->
  exists r', run2 ops' = Some r' /\ forall port, get_route r' port = get_route r port.
Proof. exact (registration_order_independent ops ops' r). Qed.
Print Assumptions C48_v2_registration_order_independent.

Theorem C48_v2_rejection_order_independent ops ops' : run2 ops = None -> Permutation ops ops' -> run2 ops' = None.
Proof. exact (rejection_order_independent ops ops'). Qed.
Print Assumptions C48_v2_rejection_order_independent.

(** non-vacuity *)
Example C48_nonvacuous :
  run2 [AddR (B "transfer") 1; AddP (B "wasm") 2; AddR (B "ica") 3] <> None /\
  run2 [AddP (B "wasm") 2; AddR (B "wasm1") 3] = None /\
  run2 [AddR (B "wasm1") 3; AddP (B "wasm") 2] = None /\
  run2 [AddP (B "ab") 1; AddP (B "a") 2] = None /\
  (forall r, run2 [AddR (B "transfer") 1; AddP (B "wasm") 2] = Some r ->
     get_route r (B "wasmXYZ") = Some 2 /\ get_route r (B "transfer") = Some 1 /\ get_route r (B "transfer2") = None) /\
  route1 (mkR1 [(B "transfer", 1); (B "ica", 2); (B "a", 3)] false) (B "icacontroller") = Some 3.
Proof. vm_compute. repeat split; try discriminate; match goal with H : Some _ = Some _ |- _ => injection H as <-; reflexivity end. Qed.
