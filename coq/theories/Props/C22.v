(** C22 — Tendermint consensus metadata stays consistent and ordered.
    Only statements closed by [exact]; proofs live in TmStore/KeysFacts.v, StoreFacts.v, ClientFacts.v.
    Model: TmStore/KV.v (ordered byte-keyed store), TmStore/Store.v (07-tendermint/store.go, pruneOldestConsensusState),
    TmStore/Client.v (update / misbehaviour / recover / upgrade / prune as the 02-client keeper runs them) — the
    definitions Corr/TmStore.v replays on every harness history.  Verification of headers, misbehaviour and
    upgrade proofs are arbitrary oracles [ho], [mo], [uo]. *)
From Coq Require Import Sorting.Sorted.
From IBC Require Import Lib.Bytes Lib.Dec Lib.BE64 Core.Height Core.HeightFacts
  TmStore.KV TmStore.KVFacts TmStore.Store TmStore.KeysFacts TmStore.StoreFacts TmStore.Client TmStore.ClientFacts.
Local Open Scope N_scope.

Local Notation HO := (ClientSt -> ConsState -> Hdr -> Ctx -> bool).
Local Notation MO := (ClientSt -> ConsState -> ConsState -> Misb -> Ctx -> bool).
Local Notation UO := (ClientSt -> ConsState -> Upg -> bool).

(** The invariant [Inv] = [MetaInv] (store sorted by key bytes; every entry is the client state or one of the four
    per-height entries of a 64-bit height with a value of the right shape; consensus state, processed time,
    processed height and iteration entry of a height exist together) + "every stored height <= latest height".
    It holds after CreateClient and is preserved by every operation list of updates (any header, any
    misbehaviour), recoveries, upgrades, prunes, prune-alls, in any contexts, for arbitrary verification oracles. *)
Theorem C22_invariant_initial c cl cs : ctx_wf c -> h64 (cl_latest cl) -> Inv (initialize [] c cl cs).
Proof. exact (Inv_initialize c cl cs). Qed.
Print Assumptions C22_invariant_initial.

Theorem C22_invariant_inductive (ho : HO) (mo : MO) (uo : UO) ops s :
  Inv s -> ops_wf ops -> Inv (run ho mo uo s ops).
Proof. exact (run_inv ho mo uo ops s). Qed.
Print Assumptions C22_invariant_inductive.

(** No operation panics on a consistent store (pruneOldestConsensusState's "consensus state not found" panic and
    the iteration-key decoding are unreachable). *)
Theorem C22_no_panic (ho : HO) (mo : MO) (uo : UO) s c o :
  Inv s -> ctx_wf c -> op_wf o -> fst (step ho mo uo s c o) <> Panic.
Proof. exact (step_no_panic ho mo uo s c o). Qed.
Print Assumptions C22_no_panic.

(** Every stored consensus state has exactly one processed-time entry, one processed-height entry and one
    iteration entry (whose value is its consensus key) ... *)
Theorem C22_metadata_complete s h : MetaInv s -> h64 h -> stored s h ->
  (exists pt, get_ptime s h = Some pt) /\ (exists ph, get_pheight s h = Some ph /\ h64 ph) /\
  get_iter s h = Some (cons_key h).
Proof. exact (inv_metadata_complete s h). Qed.
Print Assumptions C22_metadata_complete.

(** ... none of these exists without its consensus state, and the store holds nothing else. *)
Theorem C22_no_orphan_metadata s h : MetaInv s -> h64 h -> ~ stored s h ->
  get_ptime s h = None /\ get_pheight s h = None /\ get_iter s h = None.
Proof. exact (inv_no_orphan_metadata s h). Qed.
Print Assumptions C22_no_orphan_metadata.

Theorem C22_only_wellformed_entries s k v : MetaInv s -> In (k, v) s -> wf_entry k v.
Proof. exact (fun I => mi_wf s I k v). Qed.
Print Assumptions C22_only_wellformed_entries.

(** Keys of different kinds or heights are different byte strings (so "exactly one" is meaningful), and the byte
    order of iteration keys is the (revision, height) order for ALL 64-bit values — whatever bytes (0x2f '/',
    0x00, 0xff ...) the big-endian encodings contain. *)
Theorem C22_keys_injective K K' h h' : h64 h -> h64 h' -> hkey K h = hkey K' h' -> K = K' /\ h = h'.
Proof. exact (hkey_inj K K' h h'). Qed.
Print Assumptions C22_keys_injective.

Theorem C22_iteration_key_order a b : h64 a -> h64 b ->
  bytes_cmp (iter_key a) (iter_key b) = h_cmp a b /\ (h_cmp a b = Lt <-> lex_lt a b) /\ (h_cmp a b = Eq <-> a = b).
Proof. exact (fun Ha Hb => conj (iter_key_cmp a b Ha Hb) (conj (h_cmp_lt a b) (h_cmp_eq a b))). Qed.
Print Assumptions C22_iteration_key_order.

(** The store's prefix iterator over "iterateConsensusStates" yields exactly the keys with that prefix ... *)
Theorem C22_prefix_range k : in_range iter_prefix (Some iter_end) k = is_prefix iter_prefix k /\
                             prefix_end iter_prefix = Some iter_end.
Proof. exact (conj (iter_range_is_prefix k) prefix_end_iter). Qed.
Print Assumptions C22_prefix_range.

(** ... and ascending iteration visits exactly the stored heights, strictly sorted by (revision, height); every
    visited key decodes (GetHeightFromIterationKey) to its height. *)
Theorem C22_ascending_iteration_sorted s : MetaInv s ->
  exists hs, iter_heights s = map Some hs /\ StronglySorted lex_lt hs /\ forall h, In h hs <-> h64 h /\ stored s h.
Proof. exact (iter_heights_sorted s). Qed.
Print Assumptions C22_ascending_iteration_sorted.

(** GetNextConsensusState / GetPreviousConsensusState return the consensus state of the true neighbour: the
    least stored height above, resp. the greatest stored height below the given height — whether or not the
    given height is itself stored ("iterator lands on itself") — and nothing iff there is no such height. *)
Theorem C22_next_is_true_neighbour s h : MetaInv s -> h64 h ->
  match get_next s h with
  | Some c => exists h', is_next s h h' /\ get_cons s h' = Some c
  | None => forall x, h64 x -> stored s x -> ~ lex_lt h x
  end.
Proof. exact (get_next_spec s h). Qed.
Print Assumptions C22_next_is_true_neighbour.

Theorem C22_previous_is_true_neighbour s h : MetaInv s -> h64 h ->
  match get_prev s h with
  | Some c => exists h', is_prev s h h' /\ get_cons s h' = Some c
  | None => forall x, h64 x -> stored s x -> ~ lex_lt x h
  end.
Proof. exact (get_prev_spec s h). Qed.
Print Assumptions C22_previous_is_true_neighbour.

(** pruneOldestConsensusState: nothing stored -> unchanged; oldest not expired -> unchanged; oldest expired ->
    exactly that height is removed ([prune_spec]) ... *)
Theorem C22_prune_only_oldest_only_expired s tp now : MetaInv s -> prune_spec s tp now (prune_oldest s tp now).
Proof. exact (prune_oldest_spec s tp now). Qed.
Print Assumptions C22_prune_only_oldest_only_expired.

(** ... where removing a height deletes its consensus state together with all its metadata and touches no
    other key. *)
Theorem C22_removal_is_complete_and_local s h :
  (forall K, kv_get (remove_height s h) (hkey K h) = None) /\
  (forall k, (forall K, k <> hkey K h) -> kv_get (remove_height s h) k = kv_get s k).
Proof. exact (conj (get_remove_height_same s h) (get_remove_height_other s h)). Qed.
Print Assumptions C22_removal_is_complete_and_local.

(** non-vacuity: a client created at height 1-5 and updated (verification oracle: accept) with crafted heights
    whose encodings contain 0x2f / 0x00 / 0xff satisfies the invariant; iteration order and neighbours computed. *)
Example C22_nonvacuous :
  let yes := fun (_ : ClientSt) (_ : ConsState) (_ : Hdr) (_ : Ctx) => true in
  let mo := fun (_ : ClientSt) (_ _ : ConsState) (_ : Misb) (_ : Ctx) => true in
  let uo := fun (_ : ClientSt) (_ : ConsState) (_ : Upg) => true in
  let c := mkCtx 1000 (mkH 0 7) in
  let s0 := initialize [] c (mkClient (mkH 1 5) false 500) (mkCons 900 (B "r5") (B "v")) in
  let s := run yes mo uo s0
      [(c, OUpdate (MHeader (mkHdr (mkH 1 12079) (mkH 1 5) 950 (B "a") (B "v") 0)));   (* 12079 = 0x2f2f *)
       (c, OUpdate (MHeader (mkHdr (mkH 1 255) (mkH 1 5) 920 (B "b") (B "v") 0)));
       (c, OUpdate (MHeader (mkHdr (mkH 1 256) (mkH 1 255) 930 (B "c") (B "v") 0)))] in
  Inv s0 /\
  iter_heights s = [Some (mkH 1 5); Some (mkH 1 255); Some (mkH 1 256); Some (mkH 1 12079)] /\
  get_next s (mkH 1 255) = Some (mkCons 930 (B "c") (B "v")) /\
  get_prev s (mkH 1 12079) = Some (mkCons 930 (B "c") (B "v")) /\
  get_next s (mkH 1 12079) = None /\ get_prev s (mkH 1 5) = None /\
  get_pheight s (mkH 1 256) = Some (mkH 0 7) /\ get_ptime s (mkH 1 256) = Some 1000.
Proof.
  split; [apply Inv_initialize; vm_compute; auto|]. vm_compute. repeat split; reflexivity.
Qed.
