(** C49 — tokens move out of an account only with that account's authorization.
    Statements only; proofs in Transfer/AuthFacts.v.  [step_w w o] is the world after operation [o]
    (Transfer/World.v), for any number of chains and any channel topology. *)
From IBC Require Import Lib.Bytes Transfer.DenomLocal Transfer.Bank Transfer.Keeper Transfer.World
  Transfer.WorldFacts Transfer.AuthFacts.
From IBC Require Denom.Ident Denom.Authz Denom.AuthzFacts.
Local Open Scope Z_scope.

(** Every decrease of a user account's balance, on any chain, for any denomination, happens in a step that the
    account authorized: a MsgTransfer naming it as sender in a transaction whose verified signer is that account
    or a grantee whose grant accepted the message ([authz], abstract input); a v2 MsgSendPacket signed by it whose
    payload sender is it; its own bank send.  In particular receive / acknowledgement / timeout never debit a user. *)
Theorem C49_debits_authorized w o c n x :
  bal (bank (w_ch (step_w w o) c)) (User n) x < bal (bank (w_ch w c)) (User n) x ->
  authorizes o c (User n).
Proof. exact (debit_authorized w o c n x). Qed.
Print Assumptions C49_debits_authorized.

(** v2 OnSendPacket: a send that goes through has payload sender = signer (no grant can change that) *)
Theorem C49_v2_sender_is_signer k src dst pd signer k' :
  on_send_v2 k src dst pd signer = ROk k' -> pd_sender pd = AOk signer.
Proof. exact (fun H => proj1 (proj2 (on_send_v2_spec k src dst pd signer k' H))). Qed.
Print Assumptions C49_v2_sender_is_signer.

(** A receive credits only the packet's receiver, on the destination chain; an acknowledgement or timeout
    credits only the packet's sender, on the source chain — for every account kind. *)
Theorem C49_relays_credit_receiver_or_sender w o c a x :
  bal (bank (w_ch w c)) a x < bal (bank (w_ch (step_w w o) c)) a x ->
  match o with
  | ORecv n _ _ => exists p c' ch', nth_error (w_pk w) n = Some p /\ pd_receiver (ps_data p) = AOk a /\
                                    peer (w_links w) (ps_src p) (ps_chan p) = Some (c', ch') /\ c' = c
  | OAck n _ | OTimeout n _ _ => exists p, nth_error (w_pk w) n = Some p /\ pd_sender (ps_data p) = AOk a /\ ps_src p = c
  | _ => True
  end.
Proof. exact (relay_credits w o c a x). Qed.
Print Assumptions C49_relays_credit_receiver_or_sender.

(** ... and the result does not depend on who relays. *)
Theorem C49_relayer_irrelevant w :
  (forall n r1 r2 el, step w (ORecv n r1 el) = step w (ORecv n r2 el)) /\
  (forall n r1 r2, step w (OAck n r1) = step w (OAck n r2)) /\
  (forall n r1 r2 el, step w (OTimeout n r1 el) = step w (OTimeout n r2 el)).
Proof. exact (relayer_irrelevant w). Qed.
Print Assumptions C49_relayer_irrelevant.

(** "... or a grantee whose grant accepted the message": what a grant accepts is bounded by the grant — the statement of
    C36 for the same authorization model (Denom/Authz.v, tied to TransferAuthorization.Accept by the `denom` family):
    over ANY sequence of requests against ANY validated grant, for every (port, channel, denom) with a bounded limit the
    accepted amounts sum to at most the granted limit and the remaining limit is exactly what is left. *)
Theorem C49_grantee_moves_at_most_the_grant (g0 : IBC.Denom.Authz.Grant) (rs : list IBC.Denom.Authz.Req) :
  IBC.Denom.Authz.grant_validate g0 = true -> Forall (fun r => 0 <= IBC.Denom.Authz.r_amt r) rs ->
  IBC.Denom.AuthzFacts.SWF (fst (IBC.Denom.Authz.run (Some g0) rs)) /\
  forall p c d, IBC.Denom.Authz.remaining (Some g0) p c d <> IBC.Denom.Authz.sentinel ->
    IBC.Denom.Authz.accepted_total (Some g0) rs p c d <= IBC.Denom.Authz.remaining (Some g0) p c d /\
    IBC.Denom.Authz.remaining (fst (IBC.Denom.Authz.run (Some g0) rs)) p c d =
      IBC.Denom.Authz.remaining (Some g0) p c d - IBC.Denom.Authz.accepted_total (Some g0) rs p c d /\
    0 <= IBC.Denom.Authz.remaining (fst (IBC.Denom.Authz.run (Some g0) rs)) p c d.
Proof. exact (IBC.Denom.AuthzFacts.validated_run g0 rs). Qed.
Print Assumptions C49_grantee_moves_at_most_the_grant.

(** non-vacuity: a signed transfer debits the sender; the same message signed by someone else is rejected;
    a v2 send with payload sender different from the signer is rejected *)
Example C49_nonvacuous :
  let links := [mkLink 0 (B "channel-0") 1 (B "channel-1")] in
  let k0 := mkK (mkBank (fun a d => match a, d with User 0%N, CNat _ => 1000 | _, _ => 0 end) (fun _ => 1000))
                (fun _ => 0) [] true true in
  let w := mkW links (fun _ => k0) [] in
  let tr signer := OTransfer 0 signer false (B "channel-0") (CNat (B "uatom")) 100 (AOk (User 0)) (AOk (User 7)) false in
  bal (bank (w_ch (step_w w (tr (User 0))) 0%N)) (User 0) (CNat (B "uatom")) = 900 /\
  snd (fst (step w (tr (User 5)))) = OFail /\
  snd (fst (step w (OSendV2 0 (User 5) (B "channel-0") (mkPD (B "uatom") 100 (AOk (User 0)) (AOk (User 7)))))) = OFail /\
  snd (fst (step w (OSendV2 0 (User 0) (B "channel-0") (mkPD (B "uatom") 100 (AOk (User 0)) (AOk (User 7)))))) = OOk.
Proof. vm_compute. auto. Qed.
