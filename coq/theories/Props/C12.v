(** C12 — Channel handshake state machine and end-to-end agreement.
    Statements only; proofs are in Handshake/ModelThms.v (one chain, any membership oracle, any client
    status, any application callback results) and Handshake/WorldFacts.v (two chains whose light
    clients verify against the other chain's recorded states). *)
From IBC Require Import Lib.Bytes Lib.Dec Core.Height Handshake.Version Handshake.Types Handshake.Model
     Handshake.ModelFacts Handshake.ModelThms Handshake.World Handshake.WorldFacts.
Local Open Scope N_scope.

(** (i) Along every history of a chain (every message list, every environment per delivery), the
    states stored under one channel identifier form a path of legal transitions:
    absent -> INIT | TRYOPEN, INIT -> OPEN, TRYOPEN -> OPEN, non-CLOSED -> CLOSED, or no change.
    [counters_below]: the uint64 identifier counters do not wrap during the history. *)
Theorem C12_state_machine tr s p c :
  WF s -> counters_below s (List.length tr) -> path legal (trace_states s tr p c).
Proof. exact (chan_state_machine tr s p c). Qed.
Print Assumptions C12_state_machine.

(** CLOSED is terminal: a closed end is never changed by any later message. *)
Theorem C12_closed_terminal tr s p c a :
  WF s -> counters_below s (List.length tr) ->
  get_chan s p c = Some a -> ch_state a = SClosed -> get_chan (run s tr) p c = Some a.
Proof. exact (closed_is_terminal tr s p c a). Qed.
Print Assumptions C12_closed_terminal.

(** ordering, counterparty port and hops of an end never change; from TRYOPEN on, neither do the
    counterparty channel id and the version ([chan_le]). *)
Theorem C12_fields_frozen tr s p c a :
  WF s -> counters_below s (List.length tr) -> get_chan s p c = Some a ->
  exists b, get_chan (run s tr) p c = Some b /\ chan_le a b.
Proof. exact (chan_fields_frozen tr s p c a). Qed.
Print Assumptions C12_fields_frozen.

(** a failing message changes nothing *)
Theorem C12_failed_step_changes_nothing e s m g : handle e s m = Err g -> step e s m = s.
Proof. exact (failed_step_changes_nothing e s m g). Qed.
Print Assumptions C12_failed_step_changes_nothing.

(** (ii) An end becomes OPEN only by ChanOpenAck on an INIT end or ChanOpenConfirm on a TRYOPEN end,
    over an OPEN connection, and only if the membership oracle accepted, under the counterparty's
    (port, channel) key, exactly the end: state TRYOPEN (resp. OPEN), our ordering, counterparty =
    (our port, our channel), hops = [counterparty connection id], our (new) version. *)
Theorem C12_open_requires_proof e s m p c e' :
  WF s ->
  get_chan (step e s m) p c = Some e' -> ch_state e' = SOpen ->
  (forall e0, get_chan s p c = Some e0 -> ch_state e0 <> SOpen) ->
  exists e0 hop rest conn proof ph app,
    get_chan s p c = Some e0 /\ ch_hops e0 = hop :: rest /\ get_conn s hop = Some conn /\ c_state conn = COpen /\
    ch_order e' = ch_order e0 /\ ch_cp_port e' = ch_cp_port e0 /\ ch_hops e' = ch_hops e0 /\
    ((ch_state e0 = SInit /\ m = MChanAck p c (ch_cp_chan e') (ch_version e') proof ph app /\
      e_verify e (c_client conn) ph (c_cp_prefix conn) (KChan (ch_cp_port e') (ch_cp_chan e'))
               (VChan (mkChan STryOpen (ch_order e') p c [c_cp_conn conn] (ch_version e'))) proof = true)
     \/
     (ch_state e0 = STryOpen /\ m = MChanConfirm p c proof ph app /\
      ch_cp_chan e' = ch_cp_chan e0 /\ ch_version e' = ch_version e0 /\
      e_verify e (c_client conn) ph (c_cp_prefix conn) (KChan (ch_cp_port e') (ch_cp_chan e'))
               (VChan (mkChan SOpen (ch_order e') p c [c_cp_conn conn] (ch_version e'))) proof = true)).
Proof. exact (chan_open_requires_proof e s m p c e'). Qed.
Print Assumptions C12_open_requires_proof.

(** a TRYOPEN end is created only by ChanOpenTry over an OPEN connection with a verified proof of
    the counterparty INIT end (same ordering, counterparty port = ours, empty counterparty channel) *)
Theorem C12_tryopen_requires_proof e s m p c e' :
  WF s ->
  get_chan (step e s m) p c = Some e' -> ch_state e' = STryOpen ->
  (forall e0, get_chan s p c = Some e0 -> ch_state e0 <> STryOpen) ->
  exists hop conn v st version proof ph,
    get_chan s p c = None /\ ch_hops e' = [hop] /\ get_conn s hop = Some conn /\ c_state conn = COpen /\
    c_versions conn = [v] /\ In (order_string (ch_order e')) (v_feats v) /\
    exists cp_version,
      m = MChanTry p st (ch_order e') (ch_cp_port e') (ch_cp_chan e') (ch_hops e') version cp_version proof ph
                   (Some (ch_version e')) /\
      e_verify e (c_client conn) ph (c_cp_prefix conn) (KChan (ch_cp_port e') (ch_cp_chan e'))
               (VChan (mkChan SInit (ch_order e') p [] [c_cp_conn conn] cp_version)) proof = true.
Proof. exact (chan_tryopen_requires_proof e s m p c e'). Qed.
Print Assumptions C12_tryopen_requires_proof.

(** (iv) close-confirm succeeds only with a verified proof that the counterparty end is CLOSED *)
Theorem C12_close_confirm_requires_proof e s p c proof ph app s' :
  handle e s (MChanCloseConfirm p c proof ph app) = Ok s' ->
  exists e0 hop rest conn,
    get_chan s p c = Some e0 /\ ch_state e0 <> SClosed /\ ch_hops e0 = hop :: rest /\
    get_conn s hop = Some conn /\ c_state conn = COpen /\
    e_verify e (c_client conn) ph (c_cp_prefix conn) (KChan (ch_cp_port e0) (ch_cp_chan e0))
             (VChan (mkChan SClosed (ch_order e0) p c [c_cp_conn conn] (ch_version e0))) proof = true /\
    get_chan s' p c = Some (mkChan SClosed (ch_order e0) (ch_cp_port e0) (ch_cp_chan e0) (ch_hops e0) (ch_version e0)).
Proof. exact (chan_close_confirm_requires_proof e s p c proof ph app s'). Qed.
Print Assumptions C12_close_confirm_requires_proof.

(** the only causes of CLOSED: close-init, close-confirm, or an executed timeout on an ORDERED channel *)
Theorem C12_closed_causes e s m p c e' :
  WF s ->
  get_chan (step e s m) p c = Some e' -> ch_state e' = SClosed ->
  (forall e0, get_chan s p c = Some e0 -> ch_state e0 <> SClosed) ->
  (exists app, m = MChanCloseInit p c app) \/
  (exists proof ph app, m = MChanCloseConfirm p c proof ph app) \/
  (m = MTimeoutClose p c /\ ch_order e' = OOrdered).
Proof. exact (chan_closed_causes e s m p c e'). Qed.
Print Assumptions C12_closed_causes.

(** (iii) Two chains with honest light clients: the invariant holds at genesis and after every
    operation list (messages with arbitrary fields and proofs, client updates, blocks, expiry,
    packet send / timeout), ... *)
Theorem C12_world_invariant ops w :
  Inv w -> wcounters_below w (List.length ops) -> Inv (wrun w ops).
Proof. exact (wrun_inv ops w). Qed.
Print Assumptions C12_world_invariant.

Theorem C12_genesis_invariant ha reva cla hb revb clb :
  Inv (init_world genesis_chain ha reva cla genesis_chain hb revb clb).
Proof. exact (genesis_inv ha reva cla hb revb clb). Qed.
Print Assumptions C12_genesis_invariant.

(** ... and under the invariant an OPEN end on one chain has on the other chain the end it names: that
    end names it back, has the same ordering and version, is TRYOPEN/OPEN/CLOSED, and its hop is the
    counterparty connection of our OPEN connection ... *)
Theorem C12_open_end_has_matching_counterparty w p c eA :
  Inv w -> get_chan (w_st (wa w)) p c = Some eA -> ch_state eA = SOpen ->
  exists eB, get_chan (w_st (wb w)) (ch_cp_port eA) (ch_cp_chan eA) = Some eB /\
             ch_cp_port eB = p /\ ch_cp_chan eB = c /\ ch_order eB = ch_order eA /\ ch_version eB = ch_version eA /\
             (ch_state eB = STryOpen \/ ch_state eB = SOpen \/ ch_state eB = SClosed) /\
             exists hop rest conn, ch_hops eA = hop :: rest /\ get_conn (w_st (wa w)) hop = Some conn /\
                                   c_state conn = COpen /\ ch_hops eB = [c_cp_conn conn].
Proof. exact (open_channel_has_matching_counterparty w p c eA). Qed.
Print Assumptions C12_open_end_has_matching_counterparty.

(** ... so whenever both ends are OPEN (and one names the other) they agree on ordering and version
    and name each other. *)
Theorem C12_both_open_agree w pA cA eA pB cB eB :
  Inv w ->
  get_chan (w_st (wa w)) pA cA = Some eA -> ch_state eA = SOpen ->
  get_chan (w_st (wb w)) pB cB = Some eB -> ch_state eB = SOpen ->
  (ch_cp_port eA = pB /\ ch_cp_chan eA = cB) \/ (ch_cp_port eB = pA /\ ch_cp_chan eB = cA) ->
  ch_order eA = ch_order eB /\ ch_version eA = ch_version eB /\
  ch_cp_port eA = pB /\ ch_cp_chan eA = cB /\ ch_cp_port eB = pA /\ ch_cp_chan eB = cA.
Proof. exact (channels_both_open_agree w pA cA eA pB cB eB). Qed.
Print Assumptions C12_both_open_agree.

(** non-vacuity: a full handshake in the two-chain model from genesis reaches OPEN/OPEN ends that
    satisfy the hypotheses above *)
Definition demo_ops : list WOp :=
  let cA := B "07-tendermint-0" in
  let v := default_version in
  [ WDeliver false (MConnInit cA cA [] (B "ibc") None 0);
    WUpdate true cA;
    WDeliver true (MConnTry cA cA (B "connection-0") (B "ibc") [v] 0 (PHonest (mkH 1 7) (KConn (B "connection-0"))) (mkH 1 7));
    WUpdate false cA;
    WDeliver false (MConnAck (B "connection-0") (B "connection-0") v (PHonest (mkH 1 8) (KConn (B "connection-0"))) (mkH 1 8));
    WUpdate true cA;
    WDeliver true (MConnConfirm (B "connection-0") (PHonest (mkH 1 10) (KConn (B "connection-0"))) (mkH 1 10));
    WDeliver false (MChanInit (B "mock") SInit OOrdered (B "mock") [] [B "connection-0"] (B "v1") (Some (B "v1")));
    WUpdate true cA;
    WDeliver true (MChanTry (B "mock") STryOpen OOrdered (B "mock") (B "channel-0") [B "connection-0"] (B "x") (B "v1")
                            (PHonest (mkH 1 12) (KChan (B "mock") (B "channel-0"))) (mkH 1 12) (Some (B "v1")));
    WUpdate false cA;
    WDeliver false (MChanAck (B "mock") (B "channel-0") (B "channel-0") (B "v1")
                             (PHonest (mkH 1 13) (KChan (B "mock") (B "channel-0"))) (mkH 1 13) true);
    WUpdate true cA;
    WDeliver true (MChanConfirm (B "mock") (B "channel-0") (PHonest (mkH 1 15) (KChan (B "mock") (B "channel-0"))) (mkH 1 15) true) ].

Definition demo_world : World :=
  wrun (init_world genesis_chain 5 1 [(B "07-tendermint-0", [2])] genesis_chain 5 1 [(B "07-tendermint-0", [3])]) demo_ops.

Example C12_nonvacuous :
  option_map ch_state (get_chan (w_st (wa demo_world)) (B "mock") (B "channel-0")) = Some SOpen /\
  option_map ch_state (get_chan (w_st (wb demo_world)) (B "mock") (B "channel-0")) = Some SOpen /\
  option_map c_state (get_conn (w_st (wa demo_world)) (B "connection-0")) = Some COpen /\
  option_map c_state (get_conn (w_st (wb demo_world)) (B "connection-0")) = Some COpen.
Proof. vm_compute. auto. Qed.
