(** C39 — GMP accounts are uniquely derived and only act for themselves.
    Only statements closed by [exact]; proofs live in IcaGmp/GmpFacts.v, the model in IcaGmp/Gmp.v. *)
From IBC Require Import Lib.Bytes Lib.Dec IcaGmp.Gmp IcaGmp.GmpFacts.
Local Open Scope N_scope.

(** The hash preimage (len|client|len|sender|len|salt, 8-byte big-endian lengths) determines the triple.
    Go byte strings are shorter than 2^63, so the length hypotheses always hold of real inputs. *)
Theorem C39_preimage_injective c s x c' s' x' :
  lenN c < two64 -> lenN s < two64 -> lenN x < two64 ->
  lenN c' < two64 -> lenN s' < two64 -> lenN x' < two64 ->
  gmp_key c s x = gmp_key c' s' x' -> (c, s, x) = (c', s', x').
Proof. exact (gmp_key_inj c s x c' s' x'). Qed.
Print Assumptions C39_preimage_injective.

(** Without the prefixes plain concatenation is not injective ("ab","c" vs "a","bc"). *)
Theorem C39_unprefixed_concatenation_collides :
  exists c s x c' s' x', (c, s, x) <> (c', s', x') /\ (c ++ s ++ x : bytes) = c' ++ s' ++ x'.
Proof. exact unprefixed_concat_not_injective. Qed.
Print Assumptions C39_unprefixed_concatenation_collides.

(** Equal addresses: equal triples, or two different inputs with the same hash are exhibited.
    [H] is any 32-byte hash (the SDK uses SHA-256; no collision-resistance axiom is assumed). *)
Theorem C39_address_injective_or_collision (H : bytes -> bytes) :
  (forall x, length (H x) = 32%nat) ->
  forall c s x c' s' x',
  lenN c < two64 -> lenN s < two64 -> lenN x < two64 ->
  lenN c' < two64 -> lenN s' < two64 -> lenN x' < two64 ->
  gmp_address H c s x = gmp_address H c' s' x' ->
  (c, s, x) = (c', s', x') \/ exists a b : bytes, a <> b /\ H a = H b.
Proof. exact (gmp_address_inj H). Qed.
Print Assumptions C39_address_injective_or_collision.

(** The accounts map is write-once over every list of receives, at the keeper level (where a failing
    receive keeps the entry) and at the module level (where channel-v2 drops failed receives). *)
Theorem C39_accounts_write_once (H : bytes -> bytes) (A : Type) (ensure : bytes -> A -> A) :
  (forall ops g t a, acc_get (g_accounts g) t = Some a ->
                     acc_get (g_accounts (run_recvs H A ensure g ops)) t = Some a) /\
  (forall ops g t a, acc_get (g_accounts g) t = Some a ->
                     acc_get (g_accounts (run_keeper_recvs H A ensure g ops)) t = Some a).
Proof. exact (conj (run_recvs_write_once H A ensure) (run_keeper_recvs_write_once H A ensure)). Qed.
Print Assumptions C39_accounts_write_once.

(** Every entry of a reachable map is the derived address of its own triple, hence two triples with the
    same stored address are equal (or a collision is exhibited). *)
Theorem C39_accounts_distinct (H : bytes -> bytes) (A : Type) (ensure : bytes -> A -> A) :
  (forall x, length (H x) = 32%nat) ->
  forall ops g, derived H A g ->
  let g' := run_recvs H A ensure g ops in
  derived H A g' /\
  forall t t' a,
    lenN (fst (fst t)) < two64 -> lenN (snd (fst t)) < two64 -> lenN (snd t) < two64 ->
    lenN (fst (fst t')) < two64 -> lenN (snd (fst t')) < two64 -> lenN (snd t') < two64 ->
    acc_get (g_accounts g') t = Some a -> acc_get (g_accounts g') t' = Some a ->
    t = t' \/ exists x y : bytes, x <> y /\ H x = H y.
Proof.
  exact (fun Hlen ops g D =>
    conj (run_recvs_derived H A ensure ops g D)
         (fun t t' a => derived_distinct H A _ t t' a Hlen (run_recvs_derived H A ensure ops g D))).
Qed.
Print Assumptions C39_accounts_distinct.

(** A packet's messages execute only if each has exactly one signer and that signer is the account of
    (destination client, sender, salt); what is committed is exactly the fold of all message steps. *)
Theorem C39_execute_requires_single_signer (H : bytes -> bytes) (A : Type) (ensure : bytes -> A -> A) g i g' :
  module_recv H A ensure g i = (g', ROk) ->
  exists sender salt lr lp lm acct msgs g1,
    ri_data i = Some (sender, salt, lr, lp, lm) /\ ri_msgs i = Some msgs /\
    get_or_create H A ensure g (ri_dest_client i, sender, salt) = Some (g1, acct) /\
    acc_get (g_accounts g') (ri_dest_client i, sender, salt) = Some acct /\
    msgs <> [] /\ Forall (fun m => m_signers m = Some [acct]) msgs /\
    run_msgs msgs (g_rest g1) = MOk (g_rest g').
Proof. exact (module_recv_ok_full H A ensure g i g'). Qed.
Print Assumptions C39_execute_requires_single_signer.

(** All or nothing: a receive that is not a success changes nothing; in particular for every failing
    position k of the message list (messages are arbitrary functions of the state). *)
Theorem C39_atomic (H : bytes -> bytes) (A : Type) (ensure : bytes -> A -> A) :
  (forall g i, snd (module_recv H A ensure g i) <> ROk -> fst (module_recv H A ensure g i) = g) /\
  (forall g i l1 m l2,
     ri_msgs i = Some (l1 ++ m :: l2) ->
     (forall s, run_msgs l1 s = MErr \/ run_msgs l1 s = MPanic \/
                exists s1, run_msgs l1 s = MOk s1 /\ m_step m s1 <> MOk s1 /\ forall s2, m_step m s1 <> MOk s2) ->
     fst (module_recv H A ensure g i) = g /\ snd (module_recv H A ensure g i) <> ROk).
Proof. exact (conj (module_recv_atomic H A ensure) (module_recv_failing_position H A ensure)). Qed.
Print Assumptions C39_atomic.

(** Outgoing packets are accepted only when the packet sender equals the transaction signer. *)
Theorem C39_send_requires_sender_is_signer i :
  module_send i = true -> si_sender_addr i = Some (si_signer i) /\
                          bytes_eqb (si_src_port i) gmp_port = true /\ bytes_eqb (si_dst_port i) gmp_port = true.
Proof. exact (module_send_ok i). Qed.
Print Assumptions C39_send_requires_sender_is_signer.

(** non-vacuity: two triples with the same concatenation have different preimages; a concrete
    one-message packet signed by the derived account executes, the same packet with a second signer does not *)
Example C39_nonvacuous :
  gmp_key (B "abcd") (B "ef") [] <> gmp_key (B "abcde") (B "f") [] /\
  let H := fun x : bytes => firstn 32 (x ++ repeat zero_byte 32) in
  let acct := gmp_address H (B "client-0") (B "alice") [] in
  let mk sg := mkMsg (S := N) (B "/m") (Some sg) (fun s => MOk (s + 1)) in
  let inp m := mkRecvIn gmp_port gmp_port gmp_version (B "client-0") (Some (B "alice", [], 0, 1, 0)) (Some [m]) in
  snd (module_recv H N (fun _ a => a) (mkG [] 5) (inp (mk [acct]))) = ROk /\
  g_rest (fst (module_recv H N (fun _ a => a) (mkG [] 5) (inp (mk [acct])))) = 6 /\
  snd (module_recv H N (fun _ a => a) (mkG [] 5) (inp (mk [acct; acct]))) = RErr /\
  fst (module_recv H N (fun _ a => a) (mkG [] 5) (inp (mk [acct; acct]))) = mkG [] 5.
Proof. vm_compute. repeat split; congruence. Qed.
