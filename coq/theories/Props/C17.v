(** C17 — Heights are totally ordered and elapsed timeouts stay elapsed.
    This file contains only statements closed by [exact]; proofs live in Core/HeightFacts.v. *)
From IBC Require Import Lib.Bytes Lib.Dec Core.Height Core.HeightFacts.
Local Open Scope N_scope.

(** Compare is the lexicographic order on (revision number, revision height) ... *)
Theorem C17_compare_is_lexicographic a b :
  (h_compare a b = (-1)%Z /\ lex_lt a b) \/ (h_compare a b = 0%Z /\ a = b) \/ (h_compare a b = 1%Z /\ lex_lt b a).
Proof. exact (h_compare_spec a b). Qed.
Print Assumptions C17_compare_is_lexicographic.

(** ... and a total order: reflexive, antisymmetric, transitive, total. *)
Theorem C17_total_order :
  (forall a, h_lte a a = true) /\
  (forall a b, h_lte a b = true -> h_lte b a = true -> a = b) /\
  (forall a b c, h_lte a b = true -> h_lte b c = true -> h_lte a c = true) /\
  (forall a b, h_lte a b = true \/ h_lte b a = true) /\
  (forall a b, h_compare a b = (- h_compare b a)%Z) /\
  (forall a b, h_gte a b = h_lte b a) /\
  (forall a b, h_lt a b = true <-> lex_lt a b) /\
  (forall a b, h_gt a b = true <-> lex_lt b a) /\
  (forall a b, h_eq a b = true <-> a = b).
Proof.
  exact (conj (fun a => proj2 (h_lte_iff a a) (or_intror eq_refl))
        (conj h_lte_antisym (conj h_lte_trans (conj h_lte_total
        (conj h_compare_antisym (conj h_gte_lte (conj h_lt_iff (conj h_gt_iff h_eq_iff)))))))).
Qed.
Print Assumptions C17_total_order.

(** Formatting then parsing returns the same height, for every pair of 64-bit components;
    and parsing never yields a component outside 64 bits. *)
Theorem C17_parse_format h :
  rev h < two64 -> ht h < two64 -> parse_height (h_string h) = Some h.
Proof. exact (parse_height_string h). Qed.
Print Assumptions C17_parse_format.

Theorem C17_parse_bound s h : parse_height s = Some h -> rev h < two64 /\ ht h < two64.
Proof. exact (parse_height_bound s h). Qed.
Print Assumptions C17_parse_bound.

(** An elapsed timeout stays elapsed at every greater-or-equal height and time. *)
Theorem C17_elapsed_monotone t h ts h' ts' :
  elapsed t h ts = true -> h_lte h h' = true -> ts <= ts' -> elapsed t h' ts' = true.
Proof. exact (elapsed_mono t h ts h' ts'). Qed.
Print Assumptions C17_elapsed_monotone.

(** A zero timeout height or timestamp never elapses (each component separately, and together). *)
Theorem C17_zero_never_elapses :
  (forall ts0 h, height_elapsed (mkT (mkH 0 0) ts0) h = false) /\
  (forall th ts, timestamp_elapsed (mkT th 0) ts = false) /\
  (forall h ts, elapsed (mkT (mkH 0 0) 0) h ts = false).
Proof. exact (conj zero_height_never_elapses (conj zero_timestamp_never_elapses zero_timeout_never_elapses)). Qed.
Print Assumptions C17_zero_never_elapses.

Theorem C17_elapsed_characterisation t h ts :
  elapsed t h ts = true <->
  (t_height t <> mkH 0 0 /\ (lex_lt (t_height t) h \/ h = t_height t)) \/ (t_ts t <> 0 /\ t_ts t <= ts).
Proof. exact (elapsed_iff t h ts). Qed.
Print Assumptions C17_elapsed_characterisation.

(** non-vacuity: the premises are met by concrete non-trivial values *)
Example C17_nonvacuous :
  elapsed (mkT (mkH 1 10) 0) (mkH 1 10) 5 = true /\ h_lte (mkH 1 10) (mkH 2 0) = true /\
  elapsed (mkT (mkH 1 10) 0) (mkH 1 9) 18446744073709551615 = false /\
  parse_height (h_string (mkH 18446744073709551615 0)) = Some (mkH 18446744073709551615 0).
Proof. vm_compute. auto. Qed.
