(** C38 — Interchain-account channels: one active channel, owner-only sends.
    Only statements closed by [exact]; proofs live in IcaGmp/IcaChanFacts.v, the model in IcaGmp/IcaChan.v.
    The core channel state machine is an input: operations say which handshake step core runs. *)
From IBC Require Import Lib.Bytes IcaGmp.Gmp IcaGmp.IcaHost IcaGmp.IcaChan IcaGmp.IcaChanFacts.
Local Open Scope N_scope.

(** Controller: over every history of registrations, inits, acks, closes (timeouts), sends and rejected
    callbacks the invariant holds: an active entry points to a channel of its own (connection, port)
    that is OPEN or CLOSED, every OPEN channel is the active one of its key, identifiers are fresh. *)
Theorem C38_controller_invariant ops s : ctrl_inv s -> ctrl_inv (ctrl_run s ops).
Proof. exact (ctrl_run_inv ops s). Qed.
Print Assumptions C38_controller_invariant.

Theorem C38_controller_invariant_initially en conns : ctrl_inv (mkCtrl en conns [] [] [] [] 0).
Proof. exact (ctrl_inv_init en conns). Qed.
Print Assumptions C38_controller_invariant_initially.

(** Per (connection, port) at most one channel is not CLOSED among those that are or were active:
    two OPEN channels of one key are the same channel, and it is the active entry. *)
Theorem C38_at_most_one_open_channel s id1 c1 id2 c2 :
  ctrl_inv s ->
  chan_get (cs_chans s) id1 = Some c1 -> chan_get (cs_chans s) id2 = Some c2 ->
  ch_state c1 = StOpen -> ch_state c2 = StOpen ->
  ch_conn c1 = ch_conn c2 -> ch_port c1 = ch_port c2 ->
  id1 = id2 /\ assoc2 (cs_active s) (ch_conn c1) (ch_port c1) = Some id1.
Proof. exact (ctrl_unique_open s id1 c1 id2 c2). Qed.
Print Assumptions C38_at_most_one_open_channel.

(** The active channel of a key is replaced only by ChanOpenAck and only when the old one is CLOSED. *)
Theorem C38_replaced_only_after_closed s o conn port id0 id1 :
  ctrl_inv s ->
  assoc2 (cs_active s) conn port = Some id0 ->
  assoc2 (cs_active (fst (ctrl_step s o))) conn port = Some id1 -> id0 <> id1 ->
  exists c0 cpv, o = CAck id1 cpv /\ chan_get (cs_chans s) id0 = Some c0 /\ ch_state c0 = StClosed.
Proof. exact (ctrl_step_active_change s o conn port id0 id1). Qed.
Print Assumptions C38_replaced_only_after_closed.

(** OnChanOpenInit succeeds only on an icacontroller- port with counterparty port icahost and validated
    metadata; with an existing active entry that channel is CLOSED, has the same ordering and the same
    metadata up to the address (IsPreviousMetadataEqual). *)
Theorem C38_reinit_requirements s order conn port cp v m :
  ctrl_on_init s order conn port cp v = CbOk m ->
  cs_enabled s = true /\ is_prefix ctrl_prefix port = true /\ cp = host_port /\
  (exists cpc, conn_get (cs_conns s) conn = Some cpc /\ md_ctrl m = conn /\ md_host m = cpc) /\
  forall id, assoc2 (cs_active s) conn port = Some id ->
    exists c, get_channel (cs_chans s) port id = Some c /\ ch_state c = StClosed /\ ch_order c = order /\
              prev_metadata_equal (ch_version c) m = true.
Proof. exact (ctrl_on_init_ok s order conn port cp v m). Qed.
Print Assumptions C38_reinit_requirements.

Theorem C38_counterparty_must_be_icahost s order conn port cp v :
  cp <> host_port -> ctrl_on_init s order conn port cp v = CbErr.
Proof. exact (ctrl_on_init_wrong_counterparty s order conn port cp v). Qed.
Print Assumptions C38_counterparty_must_be_icahost.

(** Only the controller starts a handshake: controller OnChanOpenTry/Confirm and host OnChanOpenInit/Ack
    are errors in every state and change nothing. *)
Theorem C38_only_controller_initiates :
  (forall s, ctrl_step s CTry = (s, RErr)) /\ (forall h, host_step h HInit = (h, RErr)).
Proof. exact (conj (fun s => eq_refl) (fun h => eq_refl)). Qed.
Print Assumptions C38_only_controller_initiates.

(** SendTx: accepted only for signer = owner (the SDK signer annotation, an assumption of the model),
    on the port derived from the owner, on the OPEN active channel; different owners have different ports. *)
Theorem C38_send_tx_owner_only s signer owner conn tok port id :
  ctrl_send_tx s signer owner conn tok = Some (port, id) ->
  signer = owner /\ port = ctrl_prefix ++ owner /\ blank owner = false /\
  open_active_channel s conn port = Some id.
Proof. exact (ctrl_send_tx_ok s signer owner conn tok port id). Qed.
Print Assumptions C38_send_tx_owner_only.

Theorem C38_owner_port_injective o o' p : controller_port o = Some p -> controller_port o' = Some p -> o = o'.
Proof. exact (controller_port_inj o o' p). Qed.
Print Assumptions C38_owner_port_injective.

(** Host: OnChanOpenTry needs the existing active channel CLOSED, and reuses the registered account
    address; the registered address of a key never changes over any history. *)
Theorem C38_host_try_requirements h port conn cp cpv gen m accts typed :
  host_on_try h port conn cp cpv gen = CbOk (m, accts, typed) ->
  hs_enabled h = true /\ port = host_port /\
  (forall id, assoc2 (hs_active h) conn cp = Some id ->
     exists c, get_channel (hs_chans h) port id = Some c /\ ch_state c = StClosed) /\
  (forall a, assoc2 (hs_accounts h) conn cp = Some a -> md_addr m = a /\ accts = hs_accounts h /\ typed = hs_ica_typed h) /\
  (assoc2 (hs_accounts h) conn cp = None -> md_addr m = gen /\ accts = set2 (hs_accounts h) conn cp gen) /\
  md_host m = conn.
Proof. exact (host_on_try_ok h port conn cp cpv gen m accts typed). Qed.
Print Assumptions C38_host_try_requirements.

Theorem C38_host_account_address_stable ops h conn cp a :
  assoc2 (hs_accounts h) conn cp = Some a -> assoc2 (hs_accounts (host_run h ops)) conn cp = Some a.
Proof. exact (host_run_accounts ops h conn cp a). Qed.
Print Assumptions C38_host_account_address_stable.

(** Host, refuted clause (known finding F10): OnChanOpenConfirm overwrites the active channel without
    looking at the old one; with two handshakes in flight an OPEN active channel is replaced and two
    host channels of one key are OPEN. *)
Theorem C38_host_confirm_replaces_open_active :
  let h3 := host_run host_witness_init (firstn 3 host_witness_ops) in
  let h4 := host_run host_witness_init host_witness_ops in
  assoc2 (hs_active h3) (B "connection-0") (B "icacontroller-o") = Some 0 /\
  assoc2 (hs_active h4) (B "connection-0") (B "icacontroller-o") = Some 1 /\
  (exists c, chan_get (hs_chans h3) 0 = Some c /\ ch_state c = StOpen) /\
  (exists c, chan_get (hs_chans h4) 0 = Some c /\ ch_state c = StOpen) /\
  (exists c, chan_get (hs_chans h4) 1 = Some c /\ ch_state c = StOpen).
Proof. exact host_confirm_replaces_open_active. Qed.
Print Assumptions C38_host_confirm_replaces_open_active.

(** Host, guarded: if every ChanOpenConfirm happens while the active channel of its key is that channel
    or is CLOSED (the complement of F10), the controller-style invariant holds on the host over every history. *)
Theorem C38_host_unique_guarded h0 h :
  host_inv h0 -> host_reach_guarded h0 h -> host_inv h.
Proof. exact (host_reach_guarded_inv h0 h). Qed.
Print Assumptions C38_host_unique_guarded.

(** non-vacuity: a registration, its ack, a timeout close and a reopening with the same metadata go
    through; reopening with another ordering is rejected; a non-owner cannot send *)
Example C38_nonvacuous :
  let c0 := mkCtrl true [(B "connection-0", B "connection-1")] [] [] [] [] 0 in
  let md a := VMeta (mkMd ica_version (B "connection-0") (B "connection-1") a enc_proto3 tx_multi) in
  let s3 := ctrl_run c0 [CRegister (B "alice") (B "connection-0") VBlank OrdOrdered; CAck 0 (md (B "acc1")); CClose 0] in
  ctrl_inv c0 /\
  snd (ctrl_step s3 (CInit OrdOrdered (B "connection-0") (B "icacontroller-alice") host_port (md []))) = ROk /\
  snd (ctrl_step s3 (CInit OrdUnordered (B "connection-0") (B "icacontroller-alice") host_port (md []))) = RErr /\
  ctrl_send_tx (ctrl_run c0 [CRegister (B "alice") (B "connection-0") VBlank OrdOrdered; CAck 0 (md (B "acc1"))])
               (B "alice") (B "alice") (B "connection-0") true = Some (B "icacontroller-alice", 0) /\
  ctrl_send_tx (ctrl_run c0 [CRegister (B "alice") (B "connection-0") VBlank OrdOrdered; CAck 0 (md (B "acc1"))])
               (B "bob") (B "alice") (B "connection-0") true = None.
Proof. split; [exact (ctrl_inv_init _ _)|]. vm_compute. repeat split; congruence. Qed.
