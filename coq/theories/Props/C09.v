(** C09 — Failed receives discard application state but keep receipt and acknowledgement. *)
From IBC Require Import Core.ChainExamples.
From IBC Require Import Lib.Bytes Core.Height Core.Chain Core.ChainFacts Core.ChainInv Core.ChainThms Core.ChainC09.
Local Open Scope N_scope.

(** The application's receive callback is an arbitrary function of the application state ([e_recv1]): it
    returns the state it reached — whatever it wrote before failing — and an acknowledgement.  For every such
    function: with an error acknowledgement the application state after the message is the state before it,
    while the receipt (or ordered counter) and the acknowledgement are written; with a successful
    acknowledgement or none (asynchronous) the callback's state persists. *)
Theorem C09_recv_app_state {A} (e : Env A) c p ph r c' :
  msg_recv1 e c p ph r = (c', Ok) ->
  let res := e_recv1 e (app c) p r in
  received c' (R1 (p_dp p) (p_dc p) (p_seq p)) /\
  match snd res with
  | Some (false, bz) => app c' = app c /\ ackc1 c' (p_dp p, p_dc p, p_seq p) = Some bz
  | Some (true, bz) => app c' = fst res /\ ackc1 c' (p_dp p, p_dc p, p_seq p) = Some bz
  | None => app c' = fst res /\ ackc1 c' (p_dp p, p_dc p, p_seq p) = ackc1 c (p_dp p, p_dc p, p_seq p)
  end.
Proof. exact (recv1_app_state e c p ph r c'). Qed.
Print Assumptions C09_recv_app_state.

(** "The outcome does not depend on what the application wrote before failing": replace the application by any other
    one that fails with the same error acknowledgement after reaching any other state — the whole chain state after
    the message is the same, and its application state is the one from before the message. *)
Theorem C09_outcome_independent_of_partial_writes {A} (e : Env A) f c p ph r a1 a2 bz :
  e_recv1 e (app c) p r = (a1, Some (false, bz)) ->
  f (app c) p r = (a2, Some (false, bz)) ->
  msg_recv1 (with_recv1 e f) c p ph r = msg_recv1 e c p ph r /\
  (forall c', msg_recv1 e c p ph r = (c', Ok) -> app c' = app c).
Proof. exact (recv1_failure_independent e f c p ph r a1 a2 bz). Qed.
Print Assumptions C09_outcome_independent_of_partial_writes.

(** the same for IBC v2 packets is [C10_all_or_nothing]: with any failing payload the application state of before
    the message is kept whatever the payloads' callbacks reached. *)

(** non-vacuity: a concrete state satisfies the invariant and a concrete 13-step history (duplicates, a failing
    application, an ORDERED timeout, multi-payload v2 receives) produces exactly the expected callbacks *)
Example C09_nonvacuous : Inv ex_chain /\ rkeys (events (run ex_chain ex_hist)) <> [] /\ tkeys (events (run ex_chain ex_hist)) <> [].
Proof. exact (conj ex_inv ex_nonempty). Qed.
