(** C41 — Rate-limit flows track exactly the in-window accepted transfers.
    Statements only; proofs live in PfmRl/RateLimitFacts.v, the model in PfmRl/RateLimit.v (the same
    definitions Corr/PfmRl.v replays against the real keeper), the ghost log in PfmRl/RateLimitSpec.v. *)
From IBC Require Import Lib.Bytes PfmRl.RateLimit PfmRl.RateLimitSpec PfmRl.RateLimitFacts.
Local Open Scope Z_scope.

(** Refinement, over ALL operation lists (sends, receives, forwards, success/error acks, timeouts, retries,
    async acks, epoch blocks, add/update/remove/reset at any position, black/whitelisting), from the empty
    state: for every path that has a rate limit at the end,
      outflow = (sum of amounts of sends accepted in the current window) - (sum of those undone in it),
      inflow likewise, both never negative, undone <= accepted, and the pending sets are exactly the packets
      accepted in the current window and not yet finalised (so a packet is undone at most once).
    Hypothesis [wf_ops]: what core IBC guarantees — the amount is a function of (direction, path, sequence)
    and is non-negative. *)
Theorem C41_flows_refine_ghost_log A num start dur ops p rl :
  wf_ops A ops ->
  limits (run (init_state num start dur) ops) p = Some rl ->
  let g := snd (grun (init_state num start dur) ghost0 ops) in
  f_out (rl_flow rl) = g_acc (g_send g p) - g_undone (g_send g p) /\
  f_in (rl_flow rl) = g_acc (g_recv g p) - g_undone (g_recv g p) /\
  0 <= g_undone (g_send g p) <= g_acc (g_send g p) /\
  0 <= g_undone (g_recv g p) <= g_acc (g_recv g p) /\
  0 <= f_out (rl_flow rl) /\ 0 <= f_in (rl_flow rl) /\
  (forall s, psend (run (init_state num start dur) ops) p s = true <-> In s (map fst (g_live (g_send g p)))) /\
  (forall s, precv (run (init_state num start dur) ops) p s = true <-> In s (map fst (g_live (g_recv g p)))).
Proof. exact (flows_refine_ghost A num start dur ops p rl). Qed.
Print Assumptions C41_flows_refine_ghost_log.

(** The quota check: exact integer formula (zero channel value never blocks; outflow nets against inflow for
    sends, inflow against outflow for receives; threshold = channel value * percent quot 100; strict >). *)
Theorem C41_quota_formula rl d amt :
  (exists rl', update_flow rl d amt = Some rl') <->
  (f_cv (rl_flow rl) = 0 \/
   match d with
   | DSend => f_out (rl_flow rl) - f_in (rl_flow rl) + amt <= Z.quot (f_cv (rl_flow rl) * q_send (rl_quota rl)) 100
   | DRecv => f_in (rl_flow rl) - f_out (rl_flow rl) + amt <= Z.quot (f_cv (rl_flow rl) * q_recv (rl_quota rl)) 100
   end).
Proof. exact (update_flow_iff rl d amt). Qed.
Print Assumptions C41_quota_formula.

(** A send is accepted iff the denom is not blacklisted and (no rate limit, or whitelisted pair, or within quota)
    — and the rest of the transaction succeeds. *)
Theorem C41_send_accepted_iff st pk env_ok :
  snd (step st (OSend pk env_ok)) = cls_ok <-> rl_allows st DSend pk /\ env_ok = true.
Proof. exact (send_accepted_iff st pk env_ok). Qed.
Print Assumptions C41_send_accepted_iff.

Theorem C41_recv_accepted_iff st pk app :
  snd (step st (ORecv pk app)) <> cls_err <-> rl_allows st DRecv pk /\ app <> AppErr.
Proof. exact (recv_accepted_iff st pk app). Qed.
Print Assumptions C41_recv_accepted_iff.

(** A receive that ends in an error acknowledgement leaves the whole rate-limit state unchanged (core discards
    the callback's cache context; the middleware alone would have kept the inflow, see
    [mw_on_recv_app_error_keeps_inflow]). *)
Theorem C41_error_ack_receive_unchanged :
  (forall st pk app, snd (step st (ORecv pk app)) = cls_err -> fst (step st (ORecv pk app)) = st) /\
  (forall st pk pk2 e, snd (step st (ORecvFwd pk pk2 e)) = cls_err -> fst (step st (ORecvFwd pk pk2 e)) = st).
Proof. exact (conj recv_error_ack_unchanged recvfwd_error_ack_unchanged). Qed.
Print Assumptions C41_error_ack_receive_unchanged.

(** Each packet is undone at most once: a refund of a packet that is not pending changes nothing, and a second
    refund right after the first leaves the rate limit as it is. *)
Theorem C41_undone_at_most_once :
  (forall st p seq amt, psend st p seq = false -> limits st p <> None -> undo_send st p seq amt = st) /\
  (forall st p seq amt, precv st p seq = false -> limits st p <> None -> undo_receive st p seq amt = st) /\
  (forall st p seq amt amt', limits (undo_send (undo_send st p seq amt) p seq amt') p = limits (undo_send st p seq amt) p) /\
  (forall st p seq amt amt', limits (undo_receive (undo_receive st p seq amt) p seq amt') p = limits (undo_receive st p seq amt) p).
Proof. exact (conj undo_send_not_pending (conj undo_receive_not_pending (conj undo_send_twice undo_receive_twice))). Qed.
Print Assumptions C41_undone_at_most_once.

(** Window starts (add / update / admin reset): flows zero, channel value = the supply read at that moment,
    both pending sets of the path empty. *)
Theorem C41_window_start_zeroes st o p :
  (match o with
   | OAdd p' _ _ _ _ | OUpdate p' _ _ _ | OReset p' _ _ => p' = p
   | _ => False
   end) ->
  snd (step st o) = cls_ok ->
  let st' := fst (step st o) in
  exists rl, limits st' p = Some rl /\ f_in (rl_flow rl) = 0 /\ f_out (rl_flow rl) = 0 /\
             f_cv (rl_flow rl) = (match o with OAdd _ _ cv _ _ | OUpdate _ _ cv _ | OReset _ cv _ => cv | _ => 0 end) /\
             (forall s, psend st' p s = false) /\ (forall s, precv st' p s = false).
Proof. exact (window_start_zeroes st o p). Qed.
Print Assumptions C41_window_start_zeroes.

(** Hourly epoch: when the block time passes the end of the epoch, every rate limit whose duration divides the
    new epoch number restarts with the supply of its denom and empty pending sets. *)
Theorem C41_epoch_reset st t sup p rl :
  limits st p = Some rl -> epoch_starts st t = true -> epoch_hits st p = true ->
  let st' := begin_block st t (sup_of sup) in
  limits st' p = Some (mkRL (rl_quota rl) (zero_flow (sup_of sup (fst p)))) /\
  (forall s, psend st' p s = false) /\ (forall s, precv st' p s = false) /\ ep_num st' = N.succ (ep_num st).
Proof. exact (epoch_reset_zeroes st t sup p rl). Qed.
Print Assumptions C41_epoch_reset.

(** non-vacuity: the F4 history satisfies the hypotheses, and its outflow stays 5 *)
Example C41_nonvacuous :
  wf_ops f4_amounts f4_ops /\
  option_map (fun rl => (f_in (rl_flow rl), f_out (rl_flow rl))) (limits (run (init_state 0 0 3600) f4_ops) f4_path) = Some (0, 5).
Proof. exact (conj f4_wf (proj1 f4_outflow_stays_5)). Qed.
