(** C35 — Packet data encodings round-trip and decoders are total.
    Only statements closed by [exact]; proofs live in Codec/AbiFacts.v, Codec/ProtoFacts.v, Codec/JsonFacts.v.
    Decoders are total Gallina functions into [option] (None = the Go decoder returned an error).
    The hypotheses [blen _ < two63] say that the byte string fits a Go slice (len is an int64). *)
From IBC Require Import Lib.Bytes Lib.Dec Codec.Abi Codec.AbiFacts Codec.Proto Codec.ProtoFacts.
From IBC Require Import Codec.JsonUtf8 Codec.JsonEnc Codec.JsonDec Codec.JsonFacts.
Local Open Scope N_scope.

Definition ftpd_eqb_opt (o : option FTPD) (d : FTPD) : bool :=
  match o with Some x => ftpd_eqb x d | None => false end.

(** ** Solidity ABI, ICS-20 (string denom, string sender, string receiver, uint256 amount, string memo) *)

(** Generic head/tail law used by all tuple codecs below: unpacking the packing of well-typed fields
    (words below 2^256 resp. 2^64, arbitrary dynamic byte strings) returns the fields. *)
Theorem C35_abi_tuple_roundtrip ts fs :
  fields_ok ts fs -> fs <> [] -> blen (pack_tuple_arg fs) < two63 ->
  unpack_tuple_arg ts (pack_tuple_arg fs) = Some fs.
Proof. exact (unpack_pack_tuple_arg ts fs). Qed.
Print Assumptions C35_abi_tuple_roundtrip.

(** amount compared as an integer: any amount string big.Int accepts with 0 <= z < 2^256 *)
Theorem C35_abi_ics20_roundtrip d z :
  parse_bigint (f_amount d) = Some z -> (0 <= z)%Z -> Z.to_N z < two256 ->
  forall bz, abi_encode_ftpd d = Some bz -> blen bz < two63 ->
  abi_decode_ftpd bz = Some (mkFTPD (f_denom d) (dec (Z.to_N z)) (f_sender d) (f_receiver d) (f_memo d)).
Proof. exact (abi_ftpd_roundtrip d z). Qed.
Print Assumptions C35_abi_ics20_roundtrip.

Theorem C35_abi_ics20_encode_defined d z :
  parse_bigint (f_amount d) = Some z -> (0 <= z)%Z -> exists bz, abi_encode_ftpd d = Some bz.
Proof. exact (abi_ftpd_encode_defined d z). Qed.
Print Assumptions C35_abi_ics20_encode_defined.

(** canonical decimal amount: decode (encode x) = x *)
Theorem C35_abi_ics20_roundtrip_canonical den a s r m :
  a < two256 ->
  let d := mkFTPD den (dec a) s r m in
  exists bz, abi_encode_ftpd d = Some bz /\ (blen bz < two63 -> abi_decode_ftpd bz = Some d).
Proof. exact (abi_ftpd_roundtrip_canonical den a s r m). Qed.
Print Assumptions C35_abi_ics20_roundtrip_canonical.

(** the full statement without the 256-bit bound is false of the code: packNum truncates (U256) *)
Theorem C35_abi_ics20_roundtrip_unbounded_refuted :
  exists d bz d', abi_encode_ftpd d = Some bz /\ abi_decode_ftpd bz = Some d' /\
                  parse_bigint (f_amount d) <> parse_bigint (f_amount d').
Proof. exact abi_ftpd_roundtrip_out_of_range_refuted. Qed.
Print Assumptions C35_abi_ics20_roundtrip_unbounded_refuted.

Theorem C35_abi_ics20_encode_rejects d :
  (parse_bigint (f_amount d) = None \/ exists z, parse_bigint (f_amount d) = Some z /\ (z < 0)%Z) ->
  abi_encode_ftpd d = None.
Proof. exact (abi_ftpd_encode_rejects d). Qed.
Print Assumptions C35_abi_ics20_encode_rejects.

(** ** protobuf, FungibleTokenPacketData *)

Theorem C35_proto_roundtrip d : ftpd_small d -> proto_decode_strict (proto_encode d) = Some d.
Proof. exact (proto_roundtrip d). Qed.
Print Assumptions C35_proto_roundtrip.

(** RejectUnknownFieldsStrict: accepted bytes consist of fields 1..5 with wire type 2 only *)
Theorem C35_proto_rejects_unknown_fields bz d : proto_decode_strict bz = Some d -> known_only bz.
Proof. exact (proto_strict_known bz d). Qed.
Print Assumptions C35_proto_rejects_unknown_fields.

(** ... and that guarantee comes from the strict pass: the generated Unmarshal alone skips field 6 *)
Theorem C35_proto_generated_unmarshal_is_lenient :
  exists bz d, gogo_unmarshal bz = Some d /\ ~ known_only bz /\ proto_decode_strict bz = None.
Proof. exact gogo_unmarshal_lenient. Qed.
Print Assumptions C35_proto_generated_unmarshal_is_lenient.

(** the strict pass is run with fuel = input length; no larger fuel changes its verdict (fuel never runs out) *)
Theorem C35_proto_strict_pass_fuel_sufficient bz f :
  (length bz <= f)%nat -> reject_unknown_aux f bz = reject_unknown bz.
Proof. exact (reject_unknown_fuel_sufficient bz f). Qed.
Print Assumptions C35_proto_strict_pass_fuel_sufficient.

(** ** GMP packet data and acknowledgement (Solidity ABI) *)

Theorem C35_abi_gmp_roundtrip d :
  blen (abi_encode_gmp d) < two63 ->
  abi_decode_gmp (abi_encode_gmp d) = Some d /\ gmp_unmarshal_abi (abi_encode_gmp d) = Some d.
Proof. exact (fun H => conj (abi_gmp_roundtrip d H) (gmp_unmarshal_abi_roundtrip d H)). Qed.
Print Assumptions C35_abi_gmp_roundtrip.

(** UnmarshalPacketData re-marshals: only the canonical encoding of the result is accepted *)
Theorem C35_abi_gmp_canonical bz d : gmp_unmarshal_abi bz = Some d -> bz = abi_encode_gmp d.
Proof. exact (gmp_unmarshal_abi_canonical bz d). Qed.
Print Assumptions C35_abi_gmp_canonical.

Theorem C35_abi_gmp_ack_roundtrip res :
  blen (abi_encode_gmp_ack res) < two63 ->
  abi_decode_gmp_ack (abi_encode_gmp_ack res) = Some res /\
  gmp_unmarshal_ack_abi (abi_encode_gmp_ack res) = Some res.
Proof. exact (abi_gmp_ack_roundtrip res). Qed.
Print Assumptions C35_abi_gmp_ack_roundtrip.

Theorem C35_abi_gmp_ack_canonical bz r : gmp_unmarshal_ack_abi bz = Some r -> bz = abi_encode_gmp_ack r.
Proof. exact (gmp_unmarshal_ack_abi_canonical bz r). Qed.
Print Assumptions C35_abi_gmp_ack_canonical.

(** ** attestation ABI data *)

(** the ABI form carries whole seconds: the timestamp returns truncated to a multiple of 10^9 ns *)
Theorem C35_state_attestation_roundtrip h ts :
  h < two64 -> ts < two64 ->
  abi_decode_state_att (abi_encode_state_att h ts) = Some (h, ts - ts mod nanos_per_second).
Proof. exact (abi_state_att_roundtrip h ts). Qed.
Print Assumptions C35_state_attestation_roundtrip.

Theorem C35_state_attestation_roundtrip_guarded h ts :
  h < two64 -> ts < two64 -> ts mod nanos_per_second = 0 ->
  abi_decode_state_att (abi_encode_state_att h ts) = Some (h, ts).
Proof. exact (abi_state_att_roundtrip_seconds h ts). Qed.
Print Assumptions C35_state_attestation_roundtrip_guarded.

Theorem C35_state_attestation_subsecond_refuted :
  exists h ts, h < two64 /\ ts < two64 /\ abi_decode_state_att (abi_encode_state_att h ts) <> Some (h, ts).
Proof. exact abi_state_att_subsecond_refuted. Qed.
Print Assumptions C35_state_attestation_subsecond_refuted.

(** paths and commitments are bytes32 in the ABI form (truncated / zero-padded by bytesToBytes32) *)
Theorem C35_packet_attestation_roundtrip h ps :
  h < two64 -> blen (abi_encode_packet_att h ps) < two63 ->
  abi_decode_packet_att (abi_encode_packet_att h ps) = Some (h, map norm_packet ps).
Proof. exact (abi_packet_att_roundtrip h ps). Qed.
Print Assumptions C35_packet_attestation_roundtrip.

Theorem C35_packet_attestation_roundtrip_guarded h ps :
  h < two64 -> blen (abi_encode_packet_att h ps) < two63 ->
  Forall (fun pc => length (fst pc) = 32%nat /\ length (snd pc) = 32%nat) ps ->
  abi_decode_packet_att (abi_encode_packet_att h ps) = Some (h, ps).
Proof. exact (abi_packet_att_roundtrip_bytes32 h ps). Qed.
Print Assumptions C35_packet_attestation_roundtrip_guarded.

Theorem C35_packet_attestation_not_bytes32_refuted :
  exists h ps, abi_decode_packet_att (abi_encode_packet_att h ps) <> Some (h, ps).
Proof. exact abi_packet_att_short_path_refuted. Qed.
Print Assumptions C35_packet_attestation_not_bytes32_refuted.

(** ** JSON (encoding/json as used by MarshalPacketData / UnmarshalPacketData / GetBytes; JFTPD = the five
    string fields; jres = JOk x | JNil (top-level null clears the interface) | JErr | JPanic | JOutOfFuel) *)

Definition jftpd_of (d : FTPD) : JFTPD := mkJFTPD (f_denom d) (f_amount d) (f_sender d) (f_receiver d) (f_memo d).

Theorem C35_json_roundtrip x : jvalid x = true -> json_unmarshal_ftpd (json_marshal_ftpd x) = JOk x.
Proof. exact (c35_json_roundtrip x). Qed.
Print Assumptions C35_json_roundtrip.

(** the same statement on the record the ABI / protobuf theorems use *)
Theorem C35_json_roundtrip_ftpd d :
  jvalid (jftpd_of d) = true -> json_unmarshal_ftpd (json_marshal_ftpd (jftpd_of d)) = JOk (jftpd_of d).
Proof. exact (c35_json_roundtrip (jftpd_of d)). Qed.
Print Assumptions C35_json_roundtrip_ftpd.

(** exact characterisation for ALL byte strings: every invalid UTF-8 byte comes back as U+FFFD *)
Theorem C35_json_roundtrip_sanitized x : json_unmarshal_ftpd (json_marshal_ftpd x) = JOk (jsan x).
Proof. exact (c35_json_roundtrip_sanitized x). Qed.
Print Assumptions C35_json_roundtrip_sanitized.

Theorem C35_json_roundtrip_invalid_utf8_refuted : exists x, json_unmarshal_ftpd (json_marshal_ftpd x) <> JOk x.
Proof. exact c35_json_roundtrip_invalid_utf8_refuted. Qed.
Print Assumptions C35_json_roundtrip_invalid_utf8_refuted.

(** the decoder model is total and never runs out of fuel; on encoder outputs it hits no panic site *)
Theorem C35_json_decode_total bz :
  (exists x, json_unmarshal_ftpd bz = JOk x) \/ json_unmarshal_ftpd bz = JNil \/
  json_unmarshal_ftpd bz = JErr \/ json_unmarshal_ftpd bz = JPanic.
Proof. exact (c35_json_decode_total bz). Qed.
Print Assumptions C35_json_decode_total.

Theorem C35_json_decode_of_encode_defined x :
  json_unmarshal_ftpd (json_marshal_ftpd x) <> JPanic /\
  json_unmarshal_ftpd (json_marshal_ftpd x) <> JOutOfFuel /\
  json_unmarshal_ftpd (json_marshal_ftpd x) <> JErr /\
  json_unmarshal_ftpd (json_marshal_ftpd x) <> JNil.
Proof. exact (c35_json_decode_of_encode_defined x). Qed.
Print Assumptions C35_json_decode_of_encode_defined.

Theorem C35_json_marshal_valid_utf8 x : valid_utf8 (json_marshal_ftpd x) = true.
Proof. exact (c35_json_marshal_valid_utf8 x). Qed.
Print Assumptions C35_json_marshal_valid_utf8.

(** non-vacuity: concrete values meet the hypotheses and go through the codecs *)
Definition C35_example : FTPD :=
  mkFTPD (B "transfer/channel-0/uatom") (B "340282366920938463463374607431768211456")
         (B "cosmos1sender") (B "0x0000000000000000000000000000000000000001") (B "{""k"":1}").

Example C35_nonvacuous :
  (match abi_encode_ftpd C35_example with
   | Some bz => (blen bz =? 480) && ftpd_eqb_opt (abi_decode_ftpd bz) C35_example
   | None => false
   end) = true /\
  ftpd_eqb_opt (proto_decode_strict (proto_encode C35_example)) C35_example = true /\
  abi_decode_ftpd (B "garbage") = None /\
  abi_decode_state_att (abi_encode_state_att 42 1700000000000000000) = Some (42, 1700000000000000000) /\
  jvalid c35_json_example = true /\
  json_unmarshal_ftpd (json_marshal_ftpd c35_json_example) = JOk c35_json_example.
Proof. vm_compute. repeat split; reflexivity. Qed.
