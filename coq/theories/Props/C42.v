(** C42 — Rate limiting charges exactly the denomination ICS-20 moves.
    Only statements closed by [exact]; proofs live in Denom/DenomFacts.v.

    Full statement of the property: for EVERY ICS-20 packet the charged denomination equals the bank denomination
    moved. That is FALSE of the code (F5c): [C42_refuted]. What holds: equality for denom_safe denominations
    and ibc-go-format source channels ([C42_send_v1], [C42_send_v2], [C42_recv]); the v2 middleware's re-encoding
    is the identity on every denomination the transfer module accepts ([C42_v2_reencode]). *)
From IBC Require Import Lib.Bytes Lib.Sha256 Denom.Ident Denom.Denom Denom.DenomFacts.

(** Send, IBC v1: [token] is what TokenFromCoin produced for the coin being sent (native: no trace; voucher: the
    stored Denom), the packet carries Path(token); SendTransfer burns or escrows IBCDenom(token). *)
Theorem C42_send_v1 (H : bytes -> bytes) (token : Denom) (port chan : bytes) :
  denom_safe token = true -> is_prefix ibc_slash (path token) = false ->
  rl_send_denom_with H (path token) = send_action_denom (ics20_send_action H token port chan).
Proof. exact (rl_send_agrees H token port chan). Qed.
Print Assumptions C42_send_v1.

(** Send, IBC v2: the transfer module debits the re-parsed packet denomination, the rate limiter charges
    the re-encoded one; no denom_safe hypothesis is needed (a parse accepted by Validate is always safe). *)
Theorem C42_send_v2 (H : bytes -> bytes) (pd port chan : bytes) :
  denom_validate (extract pd) = true -> is_prefix ibc_slash pd = false ->
  exists pd', v2_reencode_denom pd = Some pd' /\
    rl_send_denom_with H pd' = send_action_denom (ics20_send_action H (extract pd) port chan).
Proof. exact (rl_send_agrees_v2 H pd port chan). Qed.
Print Assumptions C42_send_v2.

Theorem C42_v2_reencode (pd : bytes) : denom_validate (extract pd) = true -> v2_reencode_denom pd = Some pd.
Proof. exact (v2_reencode_id pd). Qed.
Print Assumptions C42_v2_reencode.

(** Receive (v1 packets and re-encoded v2 packets): whenever OnRecvPacket moves a coin [d] (unescrow or mint), the
    rate limiter charged [d], for '/'-free source identifiers with an ibc-go-format source channel/client and,
    in the minting case, a denom_safe voucher. *)
Theorem C42_recv (H : bytes -> bytes) (sp sc dp dc pd d : bytes) :
  ~ In slash sp -> ~ In slash sc -> is_hop_id sc = true ->
  (has_prefix (extract pd) sp sc = false ->
     denom_safe (mkDenom (d_base (extract pd)) (mkHop dp dc :: d_trace (extract pd))) = true) ->
  recv_action_denom H (ics20_recv_action H sp sc dp dc pd) = Some d ->
  d = rl_recv_denom_with H sp sc dp dc pd.
Proof. exact (rl_recv_agrees H sp sc dp dc pd d). Qed.
Print Assumptions C42_recv.

(** F5c: the unguarded statement is false — (a) native hop-shaped name charged as ibc/...; (b) base
    `transfer/channel-0` received; (c) source channel not in ibc-go format; (d) first-hop port named "ibc". *)
Theorem C42_refuted :
  (let token := mkDenom (B "foo/channel-5/bar") [] in
   sdk_valid_denom (d_base token) = true /\
   ics20_send token (B "transfer") (B "channel-0") = SEscrow (B "foo/channel-5/bar") /\
   rl_send_denom (path token) = B "ibc/EA1484A3305E0DC601247D7D61EDBD3AA0DBDE1EE66AA17195A3DEDAEA949C60") /\
  (differs (recv_action_denom sha256 (ics20_recv (B "transfer") (B "channel-3") (B "transfer") (B "channel-1") (B "transfer/channel-0")))
           (rl_recv_denom (B "transfer") (B "channel-3") (B "transfer") (B "channel-1") (B "transfer/channel-0")) = true) /\
  (differs (recv_action_denom sha256 (ics20_recv (B "transfer") (B "chan-xyz12") (B "transfer") (B "channel-1") (B "transfer/chan-xyz12/uatom")))
           (rl_recv_denom (B "transfer") (B "chan-xyz12") (B "transfer") (B "channel-1") (B "transfer/chan-xyz12/uatom")) = true /\
   rl_recv_denom (B "transfer") (B "chan-xyz12") (B "transfer") (B "channel-1") (B "transfer/chan-xyz12/uatom") = B "uatom" /\
   channel_identifier_validator (B "chan-xyz12") = true) /\
  (let token := mkDenom (B "uatom") [mkHop (B "ibc") (B "channel-0")] in
   denom_safe token = true /\
   negb (bytes_eqb (rl_send_denom (path token)) (send_action_denom (ics20_send token (B "ibc") (B "channel-0")))) = true).
Proof. exact rl_refuted. Qed.
Print Assumptions C42_refuted.

(** non-vacuity: a two-hop voucher and a slash-containing native meet the hypotheses *)
Example C42_nonvacuous :
  denom_safe (mkDenom (B "gamm/pool/1") [mkHop (B "transfer") (B "channel-0"); mkHop (B "transfer") (B "07-tendermint-2")]) = true /\
  denom_safe (mkDenom (B "gamm/pool/1") []) = true /\
  denom_safe (mkDenom (B "foo/channel-5") [mkHop (B "transfer") (B "channel-0")]) = false /\
  recv_action_denom sha256 (ics20_recv (B "transfer") (B "channel-3") (B "transfer") (B "channel-1") (B "transfer/channel-3/uatom")) = Some (B "uatom") /\
  rl_recv_denom (B "transfer") (B "channel-3") (B "transfer") (B "channel-1") (B "transfer/channel-3/uatom") = B "uatom".
Proof. vm_compute. repeat split. Qed.
