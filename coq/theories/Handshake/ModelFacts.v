(** Facts about the single-chain handshake model (Model.v), for every environment (client status,
    membership oracle, routing) and every message: what a successful delivery did and which guards
    it passed; legal state transitions; OPEN only with verification; OPEN connections never change. *)
From IBC Require Import Lib.Bytes Lib.BytesFacts Lib.Dec Lib.DecFacts Lib.CorrLib Core.Height
     Handshake.Version Handshake.VersionFacts Handshake.Types Handshake.TypesFacts Handshake.Model.
Local Open Scope N_scope.

(** invert [handler ... = Ok s']: walk through the guards in order *)
Ltac inv_ok H :=
  repeat (cbv beta iota zeta in H;
          match type of H with
          | (if ?b then _ else Err _) = Ok _ =>
              let G := fresh "G" in destruct b eqn:G; [| discriminate H]
          | (match ?x with _ => _ end) = Ok _ =>
              let M := fresh "M" in destruct x eqn:M; try discriminate H
          end).

Lemma verify_conn_state_true e conn ph proof id exp :
  verify_conn_state e conn ph proof id exp = true ->
  e_verify e (c_client conn) ph (c_cp_prefix conn) (KConn id) (VConn exp) proof = true.
Proof. unfold verify_conn_state. intro H. apply andb_true_iff in H. tauto. Qed.

Lemma verify_chan_state_true e conn ph proof p c exp :
  verify_chan_state e conn ph proof p c exp = true ->
  e_verify e (c_client conn) ph (c_cp_prefix conn) (KChan p c) (VChan exp) proof = true.
Proof. unfold verify_chan_state. intro H. apply andb_true_iff in H. tauto. Qed.

Ltac norm_guards :=
  repeat match goal with
  | H : conn_state_eqb _ _ = true |- _ => apply conn_state_eqb_eq in H
  | H : chan_state_eqb _ _ = true |- _ => apply chan_state_eqb_eq in H
  | H : negb (chan_state_eqb _ _) = true |- _ => apply negb_true_iff, chan_state_eqb_false in H
  | H : verify_conn_state _ _ _ _ _ _ = true |- _ => apply verify_conn_state_true in H
  | H : verify_chan_state _ _ _ _ _ _ _ = true |- _ => apply verify_chan_state_true in H
  | H : negb (bytes_eqb _ _) = true |- _ => apply negb_true_iff, bytes_eqb_neq in H
  end.

(** * what each successful handler did *)

Lemma h_conn_init_ok e s client cpc cpn cpp version delay s' :
  h_conn_init e s client cpc cpn cpp version delay = Ok s' ->
  client <> localhost_client /\ cpn = [] /\ e_active e client = true /\
  exists versions,
    (match version with
     | None => versions = compatible_versions
     | Some v => versions = [v] /\ is_supported compatible_versions v = true
     end) /\
    s' = set_conn (bump_conn s) (conn_id (next_conn s)) (mkConn CInit client cpc cpn cpp versions delay).
Proof.
  unfold h_conn_init. intro H. inv_ok H; injection H as <-.
  apply negb_true_iff, bytes_eqb_neq in G. split; auto.
  split; [destruct cpn; [reflexivity|discriminate]|]. split; auto.
  exists (match version with Some v => [v] | None => compatible_versions end). split; [|reflexivity].
  destruct version; auto.
Qed.

Lemma h_conn_try_ok e s client cpc cpn cpp cpv delay proof ph s' :
  h_conn_try e s client cpc cpn cpp cpv delay proof ph = Ok s' ->
  client <> localhost_client /\
  exists version,
    pick_version compatible_versions cpv = Some version /\
    e_verify e client ph cpp (KConn cpn) (VConn (mkConn CInit cpc client [] own_prefix cpv delay)) proof = true /\
    s' = set_conn (bump_conn s) (conn_id (next_conn s)) (mkConn CTryOpen client cpc cpn cpp [version] delay).
Proof.
  unfold h_conn_try. intro H. inv_ok H; injection H as <-.
  norm_guards. split; auto. eexists. repeat split; eauto.
Qed.

Lemma h_conn_ack_ok e s conn cpn version proof ph s' :
  h_conn_ack e s conn cpn version proof ph = Ok s' ->
  exists c0,
    get_conn s conn = Some c0 /\ c_state c0 = CInit /\
    is_supported (c_versions c0) version = true /\
    e_verify e (c_client c0) ph (c_cp_prefix c0) (KConn cpn)
             (VConn (mkConn CTryOpen (c_cp_client c0) (c_client c0) conn own_prefix [version] (c_delay c0))) proof = true /\
    s' = set_conn s conn (mkConn COpen (c_client c0) (c_cp_client c0) cpn (c_cp_prefix c0) [version] (c_delay c0)).
Proof.
  unfold h_conn_ack. intro H. inv_ok H; injection H as <-.
  norm_guards. eexists. repeat split; eauto.
Qed.

Lemma h_conn_confirm_ok e s conn proof ph s' :
  h_conn_confirm e s conn proof ph = Ok s' ->
  exists c0,
    get_conn s conn = Some c0 /\ c_state c0 = CTryOpen /\
    e_verify e (c_client c0) ph (c_cp_prefix c0) (KConn (c_cp_conn c0))
             (VConn (mkConn COpen (c_cp_client c0) (c_client c0) conn own_prefix (c_versions c0) (c_delay c0))) proof = true /\
    s' = set_conn s conn (mkConn COpen (c_client c0) (c_cp_client c0) (c_cp_conn c0) (c_cp_prefix c0)
                                 (c_versions c0) (c_delay c0)).
Proof.
  unfold h_conn_confirm. intro H. inv_ok H; injection H as <-.
  norm_guards. eexists. repeat split; eauto.
Qed.

Lemma h_chan_init_ok e s port st order cpp cpc hops version app s' :
  h_chan_init e s port st order cpp cpc hops version app = Ok s' ->
  cpc = [] /\
  exists hop conn v v',
    hops = [hop] /\ get_conn s hop = Some conn /\ c_versions conn = [v] /\
    verify_supported_feature v (order_string order) = true /\
    e_active e (c_client conn) = true /\ app = Some v' /\
    s' = set_seqs (set_chan (bump_chan s) port (chan_id (next_chan s)) (mkChan SInit order cpp cpc hops v'))
                  port (chan_id (next_chan s)) (1, 1, 1).
Proof.
  unfold h_chan_init. intro H. inv_ok H; injection H as <-.
  match goal with Hv : channel_vb _ _ _ _ _ = true |- _ =>
    unfold channel_vb in Hv; rewrite !andb_true_iff in Hv; destruct Hv as ((((_ & _) & Hh) & _) & _) end.
  match goal with Hh : match ?l with _ => _ end = true |- _ => destruct l; [|discriminate Hh] end.
  norm_guards. split; [destruct cpc; [reflexivity|discriminate]|]. do 4 eexists. repeat split; eauto.
Qed.

Lemma h_chan_try_ok e s port st order cpp cpc hops version cpv proof ph app s' :
  h_chan_try e s port st order cpp cpc hops version cpv proof ph app = Ok s' ->
  exists hop conn v v',
    hops = [hop] /\ get_conn s hop = Some conn /\ c_state conn = COpen /\ c_versions conn = [v] /\
    verify_supported_feature v (order_string order) = true /\
    e_verify e (c_client conn) ph (c_cp_prefix conn) (KChan cpp cpc)
             (VChan (mkChan SInit order port [] [c_cp_conn conn] cpv)) proof = true /\
    app = Some v' /\
    s' = set_chan (set_seqs (bump_chan s) port (chan_id (next_chan s)) (1, 1, 1))
                  port (chan_id (next_chan s)) (mkChan STryOpen order cpp cpc hops v').
Proof.
  unfold h_chan_try. intro H. inv_ok H; injection H as <-.
  norm_guards. do 4 eexists. repeat split; eauto; congruence.
Qed.

Lemma h_chan_ack_ok e s port chan cpc cpv proof ph app s' :
  h_chan_ack e s port chan cpc cpv proof ph app = Ok s' ->
  exists e0 hop rest conn,
    get_chan s port chan = Some e0 /\ ch_state e0 = SInit /\ ch_hops e0 = hop :: rest /\
    get_conn s hop = Some conn /\ c_state conn = COpen /\
    e_verify e (c_client conn) ph (c_cp_prefix conn) (KChan (ch_cp_port e0) cpc)
             (VChan (mkChan STryOpen (ch_order e0) port chan [c_cp_conn conn] cpv)) proof = true /\
    s' = set_chan s port chan (mkChan SOpen (ch_order e0) (ch_cp_port e0) cpc (ch_hops e0) cpv).
Proof.
  unfold h_chan_ack. intro H. inv_ok H; injection H as <-.
  norm_guards. do 4 eexists. repeat split; eauto; congruence.
Qed.

Lemma h_chan_confirm_ok e s port chan proof ph app s' :
  h_chan_confirm e s port chan proof ph app = Ok s' ->
  exists e0 hop rest conn,
    get_chan s port chan = Some e0 /\ ch_state e0 = STryOpen /\ ch_hops e0 = hop :: rest /\
    get_conn s hop = Some conn /\ c_state conn = COpen /\
    e_verify e (c_client conn) ph (c_cp_prefix conn) (KChan (ch_cp_port e0) (ch_cp_chan e0))
             (VChan (mkChan SOpen (ch_order e0) port chan [c_cp_conn conn] (ch_version e0))) proof = true /\
    s' = set_chan s port chan (mkChan SOpen (ch_order e0) (ch_cp_port e0) (ch_cp_chan e0) (ch_hops e0) (ch_version e0)).
Proof.
  unfold h_chan_confirm. intro H. inv_ok H; injection H as <-.
  norm_guards. do 4 eexists. repeat split; eauto; congruence.
Qed.

Lemma h_chan_close_init_ok e s port chan app s' :
  h_chan_close_init e s port chan app = Ok s' ->
  exists e0 hop rest conn,
    get_chan s port chan = Some e0 /\ ch_state e0 <> SClosed /\ ch_hops e0 = hop :: rest /\
    get_conn s hop = Some conn /\ c_state conn = COpen /\ e_active e (c_client conn) = true /\
    s' = set_chan s port chan (mkChan SClosed (ch_order e0) (ch_cp_port e0) (ch_cp_chan e0) (ch_hops e0) (ch_version e0)).
Proof.
  unfold h_chan_close_init. intro H. inv_ok H; injection H as <-.
  norm_guards. do 4 eexists. repeat split; eauto; congruence.
Qed.

Lemma h_chan_close_confirm_ok e s port chan proof ph app s' :
  h_chan_close_confirm e s port chan proof ph app = Ok s' ->
  exists e0 hop rest conn,
    get_chan s port chan = Some e0 /\ ch_state e0 <> SClosed /\ ch_hops e0 = hop :: rest /\
    get_conn s hop = Some conn /\ c_state conn = COpen /\
    e_verify e (c_client conn) ph (c_cp_prefix conn) (KChan (ch_cp_port e0) (ch_cp_chan e0))
             (VChan (mkChan SClosed (ch_order e0) port chan [c_cp_conn conn] (ch_version e0))) proof = true /\
    s' = set_chan s port chan (mkChan SClosed (ch_order e0) (ch_cp_port e0) (ch_cp_chan e0) (ch_hops e0) (ch_version e0)).
Proof.
  unfold h_chan_close_confirm. intro H. inv_ok H; injection H as <-.
  norm_guards. do 4 eexists. repeat split; eauto; congruence.
Qed.

Lemma h_timeout_close_ok s port chan s' :
  h_timeout_close s port chan = Ok s' ->
  exists e0, get_chan s port chan = Some e0 /\
    ((ch_order e0 = OOrdered /\
      s' = set_chan s port chan (mkChan SClosed (ch_order e0) (ch_cp_port e0) (ch_cp_chan e0) (ch_hops e0) (ch_version e0)))
     \/ (ch_order e0 <> OOrdered /\ s' = s)).
Proof.
  unfold h_timeout_close. intro H.
  destruct (get_chan s port chan) as [c|] eqn:M; [|discriminate].
  exists c. split; auto. destruct (order_eqb (ch_order c) OOrdered) eqn:E; injection H as <-.
  - left. apply order_eqb_eq in E. auto.
  - right. split; auto. intro H. apply order_eqb_eq in H. congruence.
Qed.

(** * well-formed states: generated identifiers at or above the counters are unused *)
Definition WF (s : Chain) : Prop :=
  (forall n, next_conn s <= n -> get_conn s (conn_id n) = None) /\
  (forall n p, next_chan s <= n -> get_chan s p (chan_id n) = None).

(** the counters do not wrap in the next delivery (Go: uint64 increment) *)
Definition no_wrap (s : Chain) : Prop := next_conn s + 1 < two64 /\ next_chan s + 1 < two64.

(** * order on ends: what can still change *)

Definition cst_leb (a b : ConnState) : bool :=
  match a, b with
  | CUninit, CUninit => true
  | CInit, (CInit | COpen) => true
  | CTryOpen, (CTryOpen | COpen) => true
  | COpen, COpen => true
  | _, _ => false
  end.

Definition conn_settled (a : ConnState) : bool := match a with CTryOpen | COpen => true | _ => false end.

Definition conn_le (a b : ConnEnd) : Prop :=
  c_client a = c_client b /\ c_cp_client a = c_cp_client b /\ c_cp_prefix a = c_cp_prefix b /\
  c_delay a = c_delay b /\ cst_leb (c_state a) (c_state b) = true /\
  (conn_settled (c_state a) = true -> c_cp_conn a = c_cp_conn b /\ c_versions a = c_versions b) /\
  (c_state a = c_state b -> a = b).

(** exactly the one-step transitions the property allows between two stored states *)
Definition st_leb (a b : ChanState) : bool :=
  match a, b with
  | SUninit, (SUninit | SClosed) => true
  | SInit, (SInit | SOpen | SClosed) => true
  | STryOpen, (STryOpen | SOpen | SClosed) => true
  | SOpen, (SOpen | SClosed) => true
  | SClosed, SClosed => true
  | _, _ => false
  end.

Definition chan_settled (a : ChanState) : bool :=
  match a with STryOpen | SOpen | SClosed => true | _ => false end.

Definition chan_le (a b : ChanEnd) : Prop :=
  ch_order a = ch_order b /\ ch_cp_port a = ch_cp_port b /\ ch_hops a = ch_hops b /\
  st_leb (ch_state a) (ch_state b) = true /\
  (chan_settled (ch_state a) = true -> ch_cp_chan a = ch_cp_chan b /\ ch_version a = ch_version b) /\
  (ch_state a = ch_state b -> a = b).

Lemma conn_le_refl a : conn_le a a.
Proof. unfold conn_le. repeat split; auto. destruct (c_state a); reflexivity. Qed.

Lemma chan_le_refl a : chan_le a a.
Proof. unfold chan_le. repeat split; auto. destruct (ch_state a); reflexivity. Qed.

Lemma conn_end_eta a : a = mkConn (c_state a) (c_client a) (c_cp_client a) (c_cp_conn a) (c_cp_prefix a) (c_versions a) (c_delay a).
Proof. destruct a; reflexivity. Qed.
Lemma chan_end_eta a : a = mkChan (ch_state a) (ch_order a) (ch_cp_port a) (ch_cp_chan a) (ch_hops a) (ch_version a).
Proof. destruct a; reflexivity. Qed.

Lemma conn_le_trans a b c : conn_le a b -> conn_le b c -> conn_le a c.
Proof.
  intros (H1 & H2 & H3 & H4 & H5 & H6 & H7) (K1 & K2 & K3 & K4 & K5 & K6 & K7).
  unfold conn_le. repeat split; try congruence.
  - destruct (c_state a), (c_state b), (c_state c); cbn in *; congruence.
  - destruct (H6 H) as [E _]. rewrite E. apply K6.
    destruct (c_state a), (c_state b); cbn in *; congruence.
  - destruct (H6 H) as [_ E]. rewrite E. apply K6.
    destruct (c_state a), (c_state b); cbn in *; congruence.
  - intro E. assert (Eab : c_state a = c_state b)
      by (destruct (c_state a), (c_state b), (c_state c); cbn in *; congruence).
    rewrite (H7 Eab). apply K7. congruence.
Qed.

Lemma chan_le_trans a b c : chan_le a b -> chan_le b c -> chan_le a c.
Proof.
  intros (H1 & H2 & H3 & H4 & H5 & H6) (K1 & K2 & K3 & K4 & K5 & K6).
  unfold chan_le. repeat split; try congruence.
  - destruct (ch_state a), (ch_state b), (ch_state c); cbn in *; congruence.
  - destruct (H5 H) as [E _]. rewrite E. apply K5.
    destruct (ch_state a), (ch_state b); cbn in *; congruence.
  - destruct (H5 H) as [_ E]. rewrite E. apply K5.
    destruct (ch_state a), (ch_state b); cbn in *; congruence.
  - intro E. assert (Eab : ch_state a = ch_state b)
      by (destruct (ch_state a), (ch_state b), (ch_state c); cbn in *; congruence).
    rewrite (H6 Eab). apply K6. congruence.
Qed.

(** per identifier: what one delivery can do to the stored end *)
Definition conn_rel (o n : option ConnEnd) : Prop :=
  match o, n with
  | Some a, Some b => conn_le a b
  | None, None => True
  | None, Some b => (c_state b = CInit \/ c_state b = CTryOpen) /\ c_client b <> localhost_client
  | Some _, None => False
  end.

Definition chan_rel (o n : option ChanEnd) : Prop :=
  match o, n with
  | Some a, Some b => chan_le a b
  | None, None => True
  | None, Some b => ch_state b = SInit \/ ch_state b = STryOpen
  | Some _, None => False
  end.

Lemma conn_rel_refl o : conn_rel o o.
Proof. destruct o; cbn; auto using conn_le_refl. Qed.
Lemma chan_rel_refl o : chan_rel o o.
Proof. destruct o; cbn; auto using chan_le_refl. Qed.

Lemma get_conn_set_conn s id e id' :
  get_conn (set_conn s id e) id' = if bytes_eqb id id' then Some e else get_conn s id'.
Proof.
  destruct (bytes_eqb id id') eqn:E.
  - apply bytes_eqb_eq in E. subst. apply get_conn_set_conn_eq.
  - apply bytes_eqb_neq in E. apply get_conn_set_conn_neq; auto.
Qed.

Lemma get_chan_set_chan s p c e p' c' :
  get_chan (set_chan s p c e) p' c' = if key2_eqb (p, c) (p', c') then Some e else get_chan s p' c'.
Proof.
  destruct (key2_eqb (p, c) (p', c')) eqn:E.
  - apply key2_eqb_eq in E. inversion E; subst. apply get_chan_set_chan_eq.
  - apply get_chan_set_chan_neq. intro H. apply key2_eqb_eq in H. congruence.
Qed.

(** ** the step lemmas *)

Lemma step_conn_rel e s m id : WF s -> conn_rel (get_conn s id) (get_conn (step e s m) id).
Proof.
  intros [Wc Wh]. unfold step. destruct (handle e s m) as [s'|] eqn:H; [|apply conn_rel_refl].
  destruct m; cbn [handle] in H.
  - (* conn init *)
    apply h_conn_init_ok in H as (Hl & _ & _ & vs & _ & ->).
    rewrite get_conn_set_conn, get_conn_bump_conn.
    destruct (bytes_eqb (conn_id (next_conn s)) id) eqn:E; [|apply conn_rel_refl].
    apply bytes_eqb_eq in E. subst id. rewrite Wc by lia. cbn. auto.
  - apply h_conn_try_ok in H as (Hl & v & _ & _ & ->).
    rewrite get_conn_set_conn, get_conn_bump_conn.
    destruct (bytes_eqb (conn_id (next_conn s)) id) eqn:E; [|apply conn_rel_refl].
    apply bytes_eqb_eq in E. subst id. rewrite Wc by lia. cbn. auto.
  - apply h_conn_ack_ok in H as (c0 & Hg & Hs & _ & _ & ->).
    rewrite get_conn_set_conn.
    destruct (bytes_eqb conn id) eqn:E; [|apply conn_rel_refl].
    apply bytes_eqb_eq in E. subst id. rewrite Hg. cbn. unfold conn_le; cbn. rewrite Hs. cbn.
    repeat split; auto; discriminate.
  - apply h_conn_confirm_ok in H as (c0 & Hg & Hs & _ & ->).
    rewrite get_conn_set_conn.
    destruct (bytes_eqb conn id) eqn:E; [|apply conn_rel_refl].
    apply bytes_eqb_eq in E. subst id. rewrite Hg. cbn. unfold conn_le; cbn. rewrite Hs. cbn.
    repeat split; auto; discriminate.
  - apply h_chan_init_ok in H as (_ & hop & conn & v & v' & _ & _ & _ & _ & _ & _ & ->). apply conn_rel_refl.
  - apply h_chan_try_ok in H as (hop & conn & v & v' & _ & _ & _ & _ & _ & _ & _ & ->). apply conn_rel_refl.
  - apply h_chan_ack_ok in H as (e0 & hop & rest & conn & _ & _ & _ & _ & _ & _ & ->). apply conn_rel_refl.
  - apply h_chan_confirm_ok in H as (e0 & hop & rest & conn & _ & _ & _ & _ & _ & _ & ->). apply conn_rel_refl.
  - apply h_chan_close_init_ok in H as (e0 & hop & rest & conn & _ & _ & _ & _ & _ & _ & ->). apply conn_rel_refl.
  - apply h_chan_close_confirm_ok in H as (e0 & hop & rest & conn & _ & _ & _ & _ & _ & _ & ->). apply conn_rel_refl.
  - apply h_timeout_close_ok in H as (e0 & _ & [[_ ->] | [_ ->]]); apply conn_rel_refl.
Qed.

Lemma closing_le e0 :
  ch_state e0 <> SClosed ->
  chan_le e0 (mkChan SClosed (ch_order e0) (ch_cp_port e0) (ch_cp_chan e0) (ch_hops e0) (ch_version e0)).
Proof.
  intro Hn. unfold chan_le; cbn. repeat split; auto.
  - destruct (ch_state e0); cbn; congruence.
  - intro E. congruence.
Qed.

Lemma step_chan_rel e s m p c : WF s -> chan_rel (get_chan s p c) (get_chan (step e s m) p c).
Proof.
  intros [Wc Wh]. unfold step. destruct (handle e s m) as [s'|] eqn:H; [|apply chan_rel_refl].
  destruct m; cbn [handle] in H.
  - apply h_conn_init_ok in H as (_ & _ & _ & vs & _ & ->). apply chan_rel_refl.
  - apply h_conn_try_ok in H as (_ & v & _ & _ & ->). apply chan_rel_refl.
  - apply h_conn_ack_ok in H as (c0 & _ & _ & _ & _ & ->). apply chan_rel_refl.
  - apply h_conn_confirm_ok in H as (c0 & _ & _ & _ & ->). apply chan_rel_refl.
  - apply h_chan_init_ok in H as (_ & hop & conn & v & v' & _ & _ & _ & _ & _ & _ & ->).
    rewrite get_chan_set_seqs, get_chan_set_chan, get_chan_bump_chan.
    destruct (key2_eqb (port, chan_id (next_chan s)) (p, c)) eqn:E; [|apply chan_rel_refl].
    apply key2_eqb_eq in E. inversion E; subst. rewrite Wh by lia. cbn. auto.
  - apply h_chan_try_ok in H as (hop & conn & v & v' & _ & _ & _ & _ & _ & _ & _ & ->).
    rewrite get_chan_set_chan, get_chan_set_seqs, get_chan_bump_chan.
    destruct (key2_eqb (port, chan_id (next_chan s)) (p, c)) eqn:E; [|apply chan_rel_refl].
    apply key2_eqb_eq in E. inversion E; subst. rewrite Wh by lia. cbn. auto.
  - apply h_chan_ack_ok in H as (e0 & hop & rest & conn & Hg & Hs & _ & _ & _ & _ & ->).
    rewrite get_chan_set_chan.
    destruct (key2_eqb (port, chan) (p, c)) eqn:E; [|apply chan_rel_refl].
    apply key2_eqb_eq in E. inversion E; subst. rewrite Hg. cbn. unfold chan_le; cbn. rewrite Hs. cbn.
    repeat split; auto; discriminate.
  - apply h_chan_confirm_ok in H as (e0 & hop & rest & conn & Hg & Hs & _ & _ & _ & _ & ->).
    rewrite get_chan_set_chan.
    destruct (key2_eqb (port, chan) (p, c)) eqn:E; [|apply chan_rel_refl].
    apply key2_eqb_eq in E. inversion E; subst. rewrite Hg. cbn. unfold chan_le; cbn. rewrite Hs. cbn.
    repeat split; auto; discriminate.
  - apply h_chan_close_init_ok in H as (e0 & hop & rest & conn & Hg & Hs & _ & _ & _ & _ & ->).
    rewrite get_chan_set_chan.
    destruct (key2_eqb (port, chan) (p, c)) eqn:E; [|apply chan_rel_refl].
    apply key2_eqb_eq in E. inversion E; subst. rewrite Hg. cbn. apply closing_le; auto.
  - apply h_chan_close_confirm_ok in H as (e0 & hop & rest & conn & Hg & Hs & _ & _ & _ & _ & ->).
    rewrite get_chan_set_chan.
    destruct (key2_eqb (port, chan) (p, c)) eqn:E; [|apply chan_rel_refl].
    apply key2_eqb_eq in E. inversion E; subst. rewrite Hg. cbn. apply closing_le; auto.
  - apply h_timeout_close_ok in H as (e0 & Hg & [[_ ->] | [_ ->]]); [|apply chan_rel_refl].
    rewrite get_chan_set_chan.
    destruct (key2_eqb (port, chan) (p, c)) eqn:E; [|apply chan_rel_refl].
    apply key2_eqb_eq in E. inversion E; subst. rewrite Hg. cbn.
    destruct (chan_state_eqb (ch_state e0) SClosed) eqn:Ec.
    + apply chan_state_eqb_eq in Ec.
      replace (mkChan SClosed (ch_order e0) (ch_cp_port e0) (ch_cp_chan e0) (ch_hops e0) (ch_version e0)) with e0
        by (rewrite <- Ec; apply chan_end_eta).
      apply chan_le_refl.
    + apply chan_state_eqb_false in Ec. apply closing_le; auto.
Qed.

(** counters only grow by at most one, and WF is preserved while they do not wrap *)
Lemma mod_small_succ n : n + 1 < two64 -> (n + 1) mod two64 = n + 1.
Proof. intro H. apply N.mod_small. exact H. Qed.

Lemma step_counters e s m :
  no_wrap s ->
  (next_conn (step e s m) = next_conn s \/ next_conn (step e s m) = next_conn s + 1) /\
  (next_chan (step e s m) = next_chan s \/ next_chan (step e s m) = next_chan s + 1).
Proof.
  intros [Nc Nh]. unfold step. destruct (handle e s m) as [s'|] eqn:H; [|auto].
  destruct m; cbn [handle] in H.
  - apply h_conn_init_ok in H as (_ & _ & _ & vs & _ & ->). cbn. rewrite mod_small_succ; auto.
  - apply h_conn_try_ok in H as (_ & v & _ & _ & ->). cbn. rewrite mod_small_succ; auto.
  - apply h_conn_ack_ok in H as (c0 & _ & _ & _ & _ & ->). cbn. auto.
  - apply h_conn_confirm_ok in H as (c0 & _ & _ & _ & ->). cbn. auto.
  - apply h_chan_init_ok in H as (_ & hop & conn & v & v' & _ & _ & _ & _ & _ & _ & ->). cbn. rewrite mod_small_succ; auto.
  - apply h_chan_try_ok in H as (hop & conn & v & v' & _ & _ & _ & _ & _ & _ & _ & ->). cbn. rewrite mod_small_succ; auto.
  - apply h_chan_ack_ok in H as (e0 & hop & rest & conn & _ & _ & _ & _ & _ & _ & ->). cbn. auto.
  - apply h_chan_confirm_ok in H as (e0 & hop & rest & conn & _ & _ & _ & _ & _ & _ & ->). cbn. auto.
  - apply h_chan_close_init_ok in H as (e0 & hop & rest & conn & _ & _ & _ & _ & _ & _ & ->). cbn. auto.
  - apply h_chan_close_confirm_ok in H as (e0 & hop & rest & conn & _ & _ & _ & _ & _ & _ & ->). cbn. auto.
  - apply h_timeout_close_ok in H as (e0 & _ & [[_ ->] | [_ ->]]); cbn; auto.
Qed.

Lemma step_WF e s m : WF s -> no_wrap s -> WF (step e s m).
Proof.
  intros W [Nc Nh]. pose proof W as [Wc Wh].
  unfold step. destruct (handle e s m) as [s'|] eqn:H; [|exact W].
  destruct m; cbn [handle] in H.
  - apply h_conn_init_ok in H as (_ & _ & _ & vs & _ & ->). split; cbn [next_conn next_chan set_conn bump_conn].
    + intros n Hn. rewrite mod_small_succ in Hn by auto.
      rewrite get_conn_set_conn_neq, get_conn_bump_conn; [apply Wc; lia|].
      intro E. apply conn_id_inj in E. lia.
    + intros n p Hn. rewrite get_chan_set_conn, get_chan_bump_conn. apply Wh; auto.
  - apply h_conn_try_ok in H as (_ & v & _ & _ & ->). split; cbn [next_conn next_chan set_conn bump_conn].
    + intros n Hn. rewrite mod_small_succ in Hn by auto.
      rewrite get_conn_set_conn_neq, get_conn_bump_conn; [apply Wc; lia|].
      intro E. apply conn_id_inj in E. lia.
    + intros n p Hn. rewrite get_chan_set_conn, get_chan_bump_conn. apply Wh; auto.
  - apply h_conn_ack_ok in H as (c0 & Hg & _ & _ & _ & ->). split; cbn [next_conn next_chan set_conn].
    + intros n Hn. rewrite get_conn_set_conn.
      destruct (bytes_eqb conn (conn_id n)) eqn:E; [|apply Wc; auto].
      apply bytes_eqb_eq in E. subst. rewrite Wc in Hg by auto. discriminate.
    + intros n p Hn. rewrite get_chan_set_conn. apply Wh; auto.
  - apply h_conn_confirm_ok in H as (c0 & Hg & _ & _ & ->). split; cbn [next_conn next_chan set_conn].
    + intros n Hn. rewrite get_conn_set_conn.
      destruct (bytes_eqb conn (conn_id n)) eqn:E; [|apply Wc; auto].
      apply bytes_eqb_eq in E. subst. rewrite Wc in Hg by auto. discriminate.
    + intros n p Hn. rewrite get_chan_set_conn. apply Wh; auto.
  - apply h_chan_init_ok in H as (_ & hop & conn & v & v' & _ & _ & _ & _ & _ & _ & ->).
    split; cbn [next_conn next_chan set_chan set_seqs bump_chan].
    + intros n Hn. apply Wc; auto.
    + intros n p Hn. rewrite mod_small_succ in Hn by auto.
      rewrite get_chan_set_seqs, get_chan_set_chan_neq, get_chan_bump_chan; [apply Wh; lia|].
      intro E. apply (f_equal snd) in E. cbn [snd] in E. apply chan_id_inj in E. lia.
  - apply h_chan_try_ok in H as (hop & conn & v & v' & _ & _ & _ & _ & _ & _ & _ & ->).
    split; cbn [next_conn next_chan set_chan set_seqs bump_chan].
    + intros n Hn. apply Wc; auto.
    + intros n p Hn. rewrite mod_small_succ in Hn by auto.
      rewrite get_chan_set_chan_neq, get_chan_set_seqs, get_chan_bump_chan; [apply Wh; lia|].
      intro E. apply (f_equal snd) in E. cbn [snd] in E. apply chan_id_inj in E. lia.
  - apply h_chan_ack_ok in H as (e0 & hop & rest & conn & Hg & _ & _ & _ & _ & _ & ->).
    split; cbn [next_conn next_chan set_chan].
    + intros n Hn. apply Wc; auto.
    + intros n p Hn. rewrite get_chan_set_chan.
      destruct (key2_eqb (port, chan) (p, chan_id n)) eqn:E; [|apply Wh; auto].
      apply key2_eqb_eq in E. inversion E; subst. rewrite Wh in Hg by auto. discriminate.
  - apply h_chan_confirm_ok in H as (e0 & hop & rest & conn & Hg & _ & _ & _ & _ & _ & ->).
    split; cbn [next_conn next_chan set_chan].
    + intros n Hn. apply Wc; auto.
    + intros n p Hn. rewrite get_chan_set_chan.
      destruct (key2_eqb (port, chan) (p, chan_id n)) eqn:E; [|apply Wh; auto].
      apply key2_eqb_eq in E. inversion E; subst. rewrite Wh in Hg by auto. discriminate.
  - apply h_chan_close_init_ok in H as (e0 & hop & rest & conn & Hg & _ & _ & _ & _ & _ & ->).
    split; cbn [next_conn next_chan set_chan].
    + intros n Hn. apply Wc; auto.
    + intros n p Hn. rewrite get_chan_set_chan.
      destruct (key2_eqb (port, chan) (p, chan_id n)) eqn:E; [|apply Wh; auto].
      apply key2_eqb_eq in E. inversion E; subst. rewrite Wh in Hg by auto. discriminate.
  - apply h_chan_close_confirm_ok in H as (e0 & hop & rest & conn & Hg & _ & _ & _ & _ & _ & ->).
    split; cbn [next_conn next_chan set_chan].
    + intros n Hn. apply Wc; auto.
    + intros n p Hn. rewrite get_chan_set_chan.
      destruct (key2_eqb (port, chan) (p, chan_id n)) eqn:E; [|apply Wh; auto].
      apply key2_eqb_eq in E. inversion E; subst. rewrite Wh in Hg by auto. discriminate.
  - apply h_timeout_close_ok in H as (e0 & Hg & [[_ ->] | [_ ->]]); [|exact W].
    split; cbn [next_conn next_chan set_chan].
    + intros n Hn. apply Wc; auto.
    + intros n p Hn. rewrite get_chan_set_chan.
      destruct (key2_eqb (port, chan) (p, chan_id n)) eqn:E; [|apply Wh; auto].
      apply key2_eqb_eq in E. inversion E; subst. rewrite Wh in Hg by auto. discriminate.
Qed.
