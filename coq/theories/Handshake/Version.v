(** modules/core/03-connection/types/version.go — connection version negotiation.
    A [Version] is (identifier, feature list); Go [[]*Version] is [list Version]
    (nil pointers inside lists are not modelled: the handlers only see lists that passed
    ValidateVersion, which rejects nil). *)
From IBC Require Import Lib.Bytes Lib.CorrLib.
Local Open Scope N_scope.

Record Version := mkV { v_id : bytes; v_feats : list bytes }.

(** strings.TrimSpace(s) == "" : every rune of s is unicode.IsSpace.
    ASCII: \t \n \v \f \r ' ';  Latin-1: U+0085 (C2 85), U+00A0 (C2 A0);
    White_Space table: U+1680 (E1 9A 80), U+2000..U+200A (E2 80 80..8A), U+2028, U+2029 (E2 80 A8/A9),
    U+202F (E2 80 AF), U+205F (E2 81 9F), U+3000 (E3 80 80).  Invalid UTF-8 decodes to U+FFFD (not a space). *)
Definition ascii_space (c : ascii) : bool :=
  let n := N_of_ascii c in ((9 <=? n) && (n <=? 13)) || (n =? 32).

Fixpoint all_space (s : bytes) : bool :=
  match s with
  | [] => true
  | c :: r =>
      if ascii_space c then all_space r
      else
        let n := N_of_ascii c in
        match r with
        | c2 :: r2 =>
            let n2 := N_of_ascii c2 in
            if (n =? 194) then (((n2 =? 133) || (n2 =? 160)) && all_space r2)
            else
              match r2 with
              | c3 :: r3 =>
                  let n3 := N_of_ascii c3 in
                  (((n =? 225) && (n2 =? 154) && (n3 =? 128))
                   || ((n =? 226) && (n2 =? 128) &&
                       (((128 <=? n3) && (n3 <=? 138)) || (n3 =? 168) || (n3 =? 169) || (n3 =? 175)))
                   || ((n =? 226) && (n2 =? 129) && (n3 =? 159))
                   || ((n =? 227) && (n2 =? 128) && (n3 =? 128)))
                  && all_space r3
              | [] => false
              end
        | [] => false
        end
  end.

(** slices.Contains *)
Definition contains_str (l : list bytes) (x : bytes) : bool := existsb (bytes_eqb x) l.

(** allowNilFeatureSet = map[string]bool{"1": false}; a missing key reads as false *)
Definition allow_nil_table : list (bytes * bool) := [(B "1", false)].
Fixpoint lookup_bool (k : bytes) (t : list (bytes * bool)) : bool :=
  match t with
  | [] => false
  | (k', b) :: t' => if bytes_eqb k k' then b else lookup_bool k t'
  end.
Definition allow_nil (id : bytes) : bool := lookup_bool id allow_nil_table.

Definition max_features_length : nat := 100.
Definition max_counterparty_versions_length : nat := 100.

(** ValidateVersion (non-nil version): true = no error *)
Definition validate_version (v : Version) : bool :=
  negb (all_space (v_id v)) &&
  (Nat.leb (List.length (v_feats v)) max_features_length) &&
  forallb (fun f => negb (all_space f)) (v_feats v).

(** Version.VerifyProposedVersion: true = nil error.  [v] is the supported version (receiver). *)
Definition verify_proposed (v p : Version) : bool :=
  if negb (bytes_eqb (v_id p) (v_id v)) then false
  else if (Nat.eqb (List.length (v_feats p)) 0) && negb (allow_nil (v_id p)) then false
  else forallb (fun f => contains_str (v_feats v) f) (v_feats p).

(** VerifySupportedFeature *)
Definition verify_supported_feature (v : Version) (f : bytes) : bool := contains_str (v_feats v) f.

(** FindSupportedVersion(version, supportedVersions): first entry with the same identifier *)
Fixpoint find_supported (id : bytes) (sup : list Version) : option Version :=
  match sup with
  | [] => None
  | s :: sup' => if bytes_eqb id (v_id s) then Some s else find_supported id sup'
  end.

(** IsSupportedVersion *)
Definition is_supported (sup : list Version) (p : Version) : bool :=
  match find_supported (v_id p) sup with
  | None => false
  | Some s => verify_proposed s p
  end.

(** GetFeatureSetIntersection: source order and multiplicity are kept *)
Definition feature_intersection (src cp : list bytes) : list bytes :=
  filter (fun f => contains_str cp f) src.

(** PickVersion: None = ErrVersionNegotiationFailed *)
Fixpoint pick_version (sup cp : list Version) : option Version :=
  match sup with
  | [] => None
  | s :: sup' =>
      match find_supported (v_id s) cp with
      | Some c =>
          let fs := feature_intersection (v_feats s) (v_feats c) in
          if (Nat.eqb (List.length fs) 0) && negb (allow_nil (v_id s)) then pick_version sup' cp
          else Some (mkV (v_id s) fs)
      | None => pick_version sup' cp
      end
  end.

(** DefaultIBCVersion / GetCompatibleVersions *)
Definition order_ordered : bytes := B "ORDER_ORDERED".
Definition order_unordered : bytes := B "ORDER_UNORDERED".
Definition default_version : Version := mkV (B "1") [order_ordered; order_unordered].
Definition compatible_versions : list Version := [default_version].

Definition version_eqb (a b : Version) : bool :=
  bytes_eqb (v_id a) (v_id b) && list_eqb bytes_eqb (v_feats a) (v_feats b).
