(** State, messages and identifiers of the handshake model.
    03-connection/types (ConnectionEnd, Counterparty), 04-channel/types (Channel, Counterparty),
    24-host/validate.go (identifier validators), 03-connection/types/keys.go, 04-channel/types/keys.go. *)
From IBC Require Import Lib.Bytes Lib.Dec Lib.CorrLib Core.Height Handshake.Version.
Local Open Scope N_scope.

(** * association lists (insertion-ordered; an update keeps the position) *)
Section AList.
  Context {K V : Type} (eqb : K -> K -> bool).
  Fixpoint alookup (k : K) (l : list (K * V)) : option V :=
    match l with
    | [] => None
    | (k', v) :: l' => if eqb k k' then Some v else alookup k l'
    end.
  Fixpoint aset (k : K) (v : V) (l : list (K * V)) : list (K * V) :=
    match l with
    | [] => [(k, v)]
    | (k', v') :: l' => if eqb k k' then (k, v) :: l' else (k', v') :: aset k v l'
    end.
End AList.

Definition key2 := (bytes * bytes)%type.
Definition key2_eqb (a b : key2) : bool := bytes_eqb (fst a) (fst b) && bytes_eqb (snd a) (snd b).

(** * identifiers *)

(** host.IsValidID: ^[a-zA-Z0-9\.\_\+\-\#\[\]\<\>]+$ *)
Definition valid_id_char (c : ascii) : bool :=
  is_alnum c ||
  (let n := N_of_ascii c in
   (n =? 46) || (n =? 95) || (n =? 43) || (n =? 45) || (n =? 35) || (n =? 91) || (n =? 93) || (n =? 60) || (n =? 62)).

(** host.defaultIdentifierValidator (true = nil error) *)
Definition default_id_validator (id : bytes) (minl maxl : nat) : bool :=
  negb (all_space id) &&
  negb (existsb (Ascii.eqb slash) id) &&
  (Nat.leb minl (List.length id)) && (Nat.leb (List.length id) maxl) &&
  (negb (Nat.eqb (List.length id) 0)) && forallb valid_id_char id.

Definition client_id_valid (id : bytes) : bool := default_id_validator id 4 64.
Definition conn_id_valid (id : bytes) : bool := default_id_validator id 10 64.
Definition chan_id_valid (id : bytes) : bool := default_id_validator id 8 64.
Definition port_id_valid (id : bytes) : bool := default_id_validator id 2 128.

Definition conn_prefix : bytes := B "connection-".
Definition chan_prefix : bytes := B "channel-".

(** FormatConnectionIdentifier / FormatChannelIdentifier: "%s%d" *)
Definition conn_id (n : N) : bytes := conn_prefix ++ dec n.
Definition chan_id (n : N) : bytes := chan_prefix ++ dec n.

(** IsValidConnectionID / IsValidChannelID: regexp ^<prefix>[0-9]{1,20}$ and host.ParseIdentifier
    (strconv.ParseUint of the digits must fit 64 bits) *)
Definition seq_id_valid (pre id : bytes) : bool :=
  match strip_prefix pre id with
  | Some d => (Nat.leb 1 (List.length d)) && (Nat.leb (List.length d) 20) && forallb is_digit d &&
              (match parse_uint64 d with Some _ => true | None => false end)
  | None => false
  end.
Definition is_valid_conn_id (id : bytes) : bool := seq_id_valid conn_prefix id.
Definition is_valid_chan_id (id : bytes) : bool := seq_id_valid chan_prefix id.

Definition localhost_client : bytes := B "09-localhost".
Definition localhost_conn : bytes := B "connection-localhost".

(** * connection and channel ends *)
Inductive ConnState := CUninit | CInit | CTryOpen | COpen.
Inductive ChanState := SUninit | SInit | STryOpen | SOpen | SClosed.
Inductive Order := ONone | OUnordered | OOrdered.

(** Order.String() *)
Definition order_string (o : Order) : bytes :=
  match o with
  | ONone => B "ORDER_NONE_UNSPECIFIED"
  | OUnordered => B "ORDER_UNORDERED"
  | OOrdered => B "ORDER_ORDERED"
  end.

Record ConnEnd := mkConn {
  c_state : ConnState; c_client : bytes;
  c_cp_client : bytes; c_cp_conn : bytes; c_cp_prefix : bytes;
  c_versions : list Version; c_delay : N }.

Record ChanEnd := mkChan {
  ch_state : ChanState; ch_order : Order;
  ch_cp_port : bytes; ch_cp_chan : bytes;
  ch_hops : list bytes; ch_version : bytes }.

(** what a membership proof can be about (host.ConnectionKey / host.ChannelKey) and the value
    (the proto encoding of the end; modelled structurally: two ends have equal encodings iff equal) *)
Inductive Key := KConn (id : bytes) | KChan (port chan : bytes).
Inductive Value := VConn (e : ConnEnd) | VChan (e : ChanEnd).

(** proof bytes: in the two-chain world a proof produced by the counterparty node for (height,key),
    or arbitrary other bytes *)
Inductive Proof := PHonest (h : Height) (k : Key) | PGarbage (b : bytes).
Definition proof_empty (p : Proof) : bool := match p with PGarbage [] => true | _ => false end.

(** * decidable equalities (used by the executable two-chain world and by the correspondence) *)
Definition conn_state_eqb (a b : ConnState) : bool :=
  match a, b with CUninit, CUninit | CInit, CInit | CTryOpen, CTryOpen | COpen, COpen => true | _, _ => false end.
Definition chan_state_eqb (a b : ChanState) : bool :=
  match a, b with
  | SUninit, SUninit | SInit, SInit | STryOpen, STryOpen | SOpen, SOpen | SClosed, SClosed => true
  | _, _ => false end.
Definition order_eqb (a b : Order) : bool :=
  match a, b with ONone, ONone | OUnordered, OUnordered | OOrdered, OOrdered => true | _, _ => false end.

Definition conn_end_eqb (a b : ConnEnd) : bool :=
  conn_state_eqb (c_state a) (c_state b) && bytes_eqb (c_client a) (c_client b) &&
  bytes_eqb (c_cp_client a) (c_cp_client b) && bytes_eqb (c_cp_conn a) (c_cp_conn b) &&
  bytes_eqb (c_cp_prefix a) (c_cp_prefix b) && list_eqb version_eqb (c_versions a) (c_versions b) &&
  (c_delay a =? c_delay b).
Definition chan_end_eqb (a b : ChanEnd) : bool :=
  chan_state_eqb (ch_state a) (ch_state b) && order_eqb (ch_order a) (ch_order b) &&
  bytes_eqb (ch_cp_port a) (ch_cp_port b) && bytes_eqb (ch_cp_chan a) (ch_cp_chan b) &&
  list_eqb bytes_eqb (ch_hops a) (ch_hops b) && bytes_eqb (ch_version a) (ch_version b).

Definition key_eqb (a b : Key) : bool :=
  match a, b with
  | KConn x, KConn y => bytes_eqb x y
  | KChan p c, KChan p' c' => bytes_eqb p p' && bytes_eqb c c'
  | _, _ => false
  end.
Definition value_eqb (a b : Value) : bool :=
  match a, b with
  | VConn x, VConn y => conn_end_eqb x y
  | VChan x, VChan y => chan_end_eqb x y
  | _, _ => false
  end.
Definition height_eqb (a b : Height) : bool := (rev a =? rev b) && (ht a =? ht b).

(** * chain state (the part of the IBC store the handshakes read and write) *)
Record Chain := mkChain {
  conns : list (bytes * ConnEnd);            (* host.ConnectionKey *)
  chans : list (key2 * ChanEnd);             (* host.ChannelKey *)
  seqs : list (key2 * (N * N * N));          (* NextSequenceSend / Recv / Ack *)
  next_conn : N;                             (* NextConnectionSequence *)
  next_chan : N }.                           (* NextChannelSequence *)

Definition get_conn (s : Chain) (id : bytes) : option ConnEnd := alookup bytes_eqb id (conns s).
Definition get_chan (s : Chain) (port chan : bytes) : option ChanEnd := alookup key2_eqb (port, chan) (chans s).
Definition set_conn (s : Chain) (id : bytes) (e : ConnEnd) : Chain :=
  mkChain (aset bytes_eqb id e (conns s)) (chans s) (seqs s) (next_conn s) (next_chan s).
Definition set_chan (s : Chain) (port chan : bytes) (e : ChanEnd) : Chain :=
  mkChain (conns s) (aset key2_eqb (port, chan) e (chans s)) (seqs s) (next_conn s) (next_chan s).
Definition set_seqs (s : Chain) (port chan : bytes) (v : N * N * N) : Chain :=
  mkChain (conns s) (chans s) (aset key2_eqb (port, chan) v (seqs s)) (next_conn s) (next_chan s).
Definition bump_conn (s : Chain) : Chain :=
  mkChain (conns s) (chans s) (seqs s) ((next_conn s + 1) mod two64) (next_chan s).
Definition bump_chan (s : Chain) : Chain :=
  mkChain (conns s) (chans s) (seqs s) (next_conn s) ((next_chan s + 1) mod two64).

(** * messages (after proto decoding; the signer is always a valid address and not modelled) *)
Inductive Msg :=
| MConnInit (client cp_client cp_conn cp_prefix : bytes) (version : option Version) (delay : N)
| MConnTry (client cp_client cp_conn cp_prefix : bytes) (cp_versions : list Version) (delay : N)
           (proof : Proof) (ph : Height)
| MConnAck (conn cp_conn : bytes) (version : Version) (proof : Proof) (ph : Height)
| MConnConfirm (conn : bytes) (proof : Proof) (ph : Height)
  (* channel messages carry, as [app], what the application callback of this delivery returns:
     Init/Try: Some version | None (error); others: true (nil) | false (error).  The callbacks are
     arbitrary application code; supplying their result per delivery is the most general model. *)
| MChanInit (port : bytes) (st : ChanState) (order : Order) (cp_port cp_chan : bytes) (hops : list bytes)
            (version : bytes) (app : option bytes)
| MChanTry (port : bytes) (st : ChanState) (order : Order) (cp_port cp_chan : bytes) (hops : list bytes)
           (version cp_version : bytes) (proof : Proof) (ph : Height) (app : option bytes)
| MChanAck (port chan cp_chan cp_version : bytes) (proof : Proof) (ph : Height) (app : bool)
| MChanConfirm (port chan : bytes) (proof : Proof) (ph : Height) (app : bool)
| MChanCloseInit (port chan : bytes) (app : bool)
| MChanCloseConfirm (port chan : bytes) (proof : Proof) (ph : Height) (app : bool)
  (* 04-channel/keeper/timeout.go timeoutExecuted reached for a packet of (port, chan): the packet-level
     guards of TimeoutPacket/TimeoutOnClose are outside this model (C04/C14) *)
| MTimeoutClose (port chan : bytes).

(** * what a chain's handlers consult outside the modelled state, at one delivery *)
Record Env := mkEnv {
  e_active : bytes -> bool;        (* clientKeeper.GetClientStatus(clientID) == Active *)
  e_found : bytes -> bool;         (* clientKeeper.GetClientState found (addConnectionToClient) *)
  e_route : bytes -> bool;         (* PortKeeper.Route(portID) ok *)
  (* clientKeeper.VerifyMembership(clientID, height, 0, 0, proof, prefix ++ key, encode(value)) == nil *)
  e_verify : bytes -> Height -> bytes -> Key -> Value -> Proof -> bool }.

Inductive Res := Ok (s : Chain) | Err (guard : N).
