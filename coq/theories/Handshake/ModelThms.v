(** Property-level theorems about one chain, for all message lists and all environments
    (membership oracle, client status, routing, application callback results). *)
From IBC Require Import Lib.Bytes Lib.BytesFacts Lib.Dec Lib.DecFacts Lib.CorrLib Core.Height
     Handshake.Version Handshake.VersionFacts Handshake.Types Handshake.TypesFacts Handshake.Model
     Handshake.ModelFacts.
Local Open Scope N_scope.

(** * C12 (i): the channel state machine *)

Definition chan_st (s : Chain) (p c : bytes) : option ChanState :=
  match get_chan s p c with Some e => Some (ch_state e) | None => None end.

(** the transitions the property allows (None = no end stored under the identifier) *)
Definition legal (a b : option ChanState) : Prop :=
  match a, b with
  | None, None => True
  | None, Some y => y = SInit \/ y = STryOpen
  | Some x, Some y =>
      x = y \/ (x = SInit /\ y = SOpen) \/ (x = STryOpen /\ y = SOpen) \/ (x <> SClosed /\ y = SClosed)
  | Some _, None => False
  end.

Lemma st_leb_legal x y : st_leb x y = true -> legal (Some x) (Some y).
Proof. destruct x, y; cbn; intro H; try discriminate; auto; right; right; right; split; congruence. Qed.

Theorem step_legal e s m p c : WF s -> legal (chan_st s p c) (chan_st (step e s m) p c).
Proof.
  intro W. pose proof (step_chan_rel e s m p c W) as R. unfold chan_st.
  destruct (get_chan s p c) as [a|], (get_chan (step e s m) p c) as [b|]; cbn in *; auto.
  destruct R as (_ & _ & _ & R & _). apply st_leb_legal; exact R.
Qed.

Inductive path {A} (R : A -> A -> Prop) : list A -> Prop :=
| path_one a : path R [a]
| path_cons a b l : R a b -> path R (b :: l) -> path R (a :: b :: l).

(** the states of one channel identifier along a history *)
Fixpoint trace_states (s : Chain) (tr : list (Env * Msg)) (p c : bytes) : list (option ChanState) :=
  chan_st s p c ::
  match tr with
  | [] => []
  | (e, m) :: tr' => trace_states (step e s m) tr' p c
  end.

Definition counters_below (s : Chain) (n : nat) : Prop :=
  next_conn s + N.of_nat n < two64 /\ next_chan s + N.of_nat n < two64.

Lemma counters_below_step e s m n : counters_below s (S n) -> no_wrap s /\ counters_below (step e s m) n.
Proof.
  intros [Hc Hh]. assert (Nw : no_wrap s) by (unfold no_wrap; lia).
  split; auto. destruct (step_counters e s m Nw) as [[E1 | E1] [E2 | E2]]; unfold counters_below; rewrite E1, E2; lia.
Qed.

Theorem chan_state_machine tr : forall s p c,
  WF s -> counters_below s (List.length tr) -> path legal (trace_states s tr p c).
Proof.
  induction tr as [|[e m] tr IH]; intros s p c W B; cbn [trace_states].
  - constructor.
  - destruct (counters_below_step e s m _ B) as [Nw B'].
    pose proof (IH (step e s m) p c (step_WF e s m W Nw) B') as P.
    destruct tr as [|[e' m'] tr']; cbn [trace_states] in *;
      (constructor; [apply step_legal; exact W | exact P]).
Qed.

(** * order between chain states; histories only move forward *)
Definition chain_le (s s' : Chain) : Prop :=
  (forall id a, get_conn s id = Some a -> exists b, get_conn s' id = Some b /\ conn_le a b) /\
  (forall p c a, get_chan s p c = Some a -> exists b, get_chan s' p c = Some b /\ chan_le a b).

Lemma chain_le_refl s : chain_le s s.
Proof. split; intros; eexists; split; eauto using conn_le_refl, chan_le_refl. Qed.

Lemma chain_le_trans a b c : chain_le a b -> chain_le b c -> chain_le a c.
Proof.
  intros [H1 H2] [K1 K2]. split.
  - intros id x Hx. destruct (H1 _ _ Hx) as (y & Hy & L1). destruct (K1 _ _ Hy) as (z & Hz & L2).
    exists z; split; eauto using conn_le_trans.
  - intros p q x Hx. destruct (H2 _ _ _ Hx) as (y & Hy & L1). destruct (K2 _ _ _ Hy) as (z & Hz & L2).
    exists z; split; eauto using chan_le_trans.
Qed.

Lemma step_chain_le e s m : WF s -> chain_le s (step e s m).
Proof.
  intro W. split.
  - intros id a Ha. pose proof (step_conn_rel e s m id W) as R. rewrite Ha in R.
    destruct (get_conn (step e s m) id) as [b|]; cbn in R; [eauto | contradiction].
  - intros p c a Ha. pose proof (step_chan_rel e s m p c W) as R. rewrite Ha in R.
    destruct (get_chan (step e s m) p c) as [b|]; cbn in R; [eauto | contradiction].
Qed.

Lemma run_WF tr : forall s, WF s -> counters_below s (List.length tr) -> WF (run s tr).
Proof.
  induction tr as [|[e m] tr IH]; intros s W B; cbn [run]; auto.
  destruct (counters_below_step e s m _ B) as [Nw B']. apply IH; auto using step_WF.
Qed.

Lemma run_chain_le tr : forall s, WF s -> counters_below s (List.length tr) -> chain_le s (run s tr).
Proof.
  induction tr as [|[e m] tr IH]; intros s W B; cbn [run].
  - apply chain_le_refl.
  - destruct (counters_below_step e s m _ B) as [Nw B'].
    eapply chain_le_trans; [apply step_chain_le; auto | apply IH; auto using step_WF].
Qed.

(** CLOSED is terminal: a closed end never changes again *)
Theorem closed_is_terminal tr s p c a :
  WF s -> counters_below s (List.length tr) ->
  get_chan s p c = Some a -> ch_state a = SClosed -> get_chan (run s tr) p c = Some a.
Proof.
  intros W B Ha Hc. destruct (run_chain_le tr s W B) as [_ H]. destruct (H _ _ _ Ha) as (b & Hb & L).
  destruct L as (_ & _ & _ & L & _ & E). rewrite Hc in *.
  assert (ch_state b = SClosed) by (destruct (ch_state b); cbn in L; congruence).
  rewrite Hb. f_equal. symmetry. apply E. congruence.
Qed.

(** * C13: a connection never leaves OPEN (an OPEN end never changes at all) *)
Theorem conn_open_forever tr s id a :
  WF s -> counters_below s (List.length tr) ->
  get_conn s id = Some a -> c_state a = COpen -> get_conn (run s tr) id = Some a.
Proof.
  intros W B Ha Hc. destruct (run_chain_le tr s W B) as [H _]. destruct (H _ _ Ha) as (b & Hb & L).
  destruct L as (_ & _ & _ & _ & L & _ & E). rewrite Hc in *.
  assert (c_state b = COpen) by (destruct (c_state b); cbn in L; congruence).
  rewrite Hb. f_equal. symmetry. apply E. congruence.
Qed.

(** once a channel end is past INIT (TRYOPEN/OPEN/CLOSED) none of its fields but the state changes;
    ordering, counterparty port and hops never change *)
Theorem chan_fields_frozen tr s p c a :
  WF s -> counters_below s (List.length tr) -> get_chan s p c = Some a ->
  exists b, get_chan (run s tr) p c = Some b /\ chan_le a b.
Proof. intros W B Ha. destruct (run_chain_le tr s W B) as [_ H]. eauto. Qed.

(** failing deliveries change nothing *)
Theorem failed_step_changes_nothing e s m g : handle e s m = Err g -> step e s m = s.
Proof. unfold step. intros ->. reflexivity. Qed.

(** * C12 (ii): OPEN / TRYOPEN only with a verified proof of the matching counterparty end *)

Ltac unchanged_contra :=
  match goal with
  | Hn : forall e0, get_chan ?s ?p ?c = Some e0 -> ch_state e0 <> ?st,
    Hg : get_chan ?s ?p ?c = Some ?e', Hs : ch_state ?e' = ?st |- _ => exfalso; exact (Hn _ Hg Hs)
  end.

Theorem chan_open_requires_proof e s m p c e' :
  WF s ->
  get_chan (step e s m) p c = Some e' -> ch_state e' = SOpen ->
  (forall e0, get_chan s p c = Some e0 -> ch_state e0 <> SOpen) ->
  exists e0 hop rest conn proof ph app,
    get_chan s p c = Some e0 /\ ch_hops e0 = hop :: rest /\ get_conn s hop = Some conn /\ c_state conn = COpen /\
    ch_order e' = ch_order e0 /\ ch_cp_port e' = ch_cp_port e0 /\ ch_hops e' = ch_hops e0 /\
    ((ch_state e0 = SInit /\ m = MChanAck p c (ch_cp_chan e') (ch_version e') proof ph app /\
      e_verify e (c_client conn) ph (c_cp_prefix conn) (KChan (ch_cp_port e') (ch_cp_chan e'))
               (VChan (mkChan STryOpen (ch_order e') p c [c_cp_conn conn] (ch_version e'))) proof = true)
     \/
     (ch_state e0 = STryOpen /\ m = MChanConfirm p c proof ph app /\
      ch_cp_chan e' = ch_cp_chan e0 /\ ch_version e' = ch_version e0 /\
      e_verify e (c_client conn) ph (c_cp_prefix conn) (KChan (ch_cp_port e') (ch_cp_chan e'))
               (VChan (mkChan SOpen (ch_order e') p c [c_cp_conn conn] (ch_version e'))) proof = true)).
Proof.
  intros [Wc Wh] Hg Hs Hn. unfold step in Hg.
  destruct (handle e s m) as [s'|] eqn:H; [|unchanged_contra].
  destruct m; cbn [handle] in H.
  - apply h_conn_init_ok in H as (_ & _ & _ & vs & _ & ->). rewrite get_chan_set_conn, get_chan_bump_conn in Hg. unchanged_contra.
  - apply h_conn_try_ok in H as (_ & v & _ & _ & ->). rewrite get_chan_set_conn, get_chan_bump_conn in Hg. unchanged_contra.
  - apply h_conn_ack_ok in H as (c0 & _ & _ & _ & _ & ->). rewrite get_chan_set_conn in Hg. unchanged_contra.
  - apply h_conn_confirm_ok in H as (c0 & _ & _ & _ & ->). rewrite get_chan_set_conn in Hg. unchanged_contra.
  - apply h_chan_init_ok in H as (_ & hop & conn & v & v' & _ & _ & _ & _ & _ & _ & ->).
    rewrite get_chan_set_seqs, get_chan_set_chan, get_chan_bump_chan in Hg.
    destruct (key2_eqb (port, chan_id (next_chan s)) (p, c)); [|unchanged_contra].
    injection Hg as <-. discriminate.
  - apply h_chan_try_ok in H as (hop & conn & v & v' & _ & _ & _ & _ & _ & _ & _ & ->).
    rewrite get_chan_set_chan, get_chan_set_seqs, get_chan_bump_chan in Hg.
    destruct (key2_eqb (port, chan_id (next_chan s)) (p, c)); [|unchanged_contra].
    injection Hg as <-. discriminate.
  - apply h_chan_ack_ok in H as (e0 & hop & rest & conn & Hg0 & Hs0 & Hh & Hc & Hco & Hv & ->).
    rewrite get_chan_set_chan in Hg.
    destruct (key2_eqb (port, chan) (p, c)) eqn:E; [|unchanged_contra].
    apply key2_eqb_eq in E. inversion E; subst port chan. injection Hg as <-. cbn.
    exists e0, hop, rest, conn, proof, ph, app. repeat split; auto; left; repeat split; auto.
  - apply h_chan_confirm_ok in H as (e0 & hop & rest & conn & Hg0 & Hs0 & Hh & Hc & Hco & Hv & ->).
    rewrite get_chan_set_chan in Hg.
    destruct (key2_eqb (port, chan) (p, c)) eqn:E; [|unchanged_contra].
    apply key2_eqb_eq in E. inversion E; subst port chan. injection Hg as <-. cbn.
    exists e0, hop, rest, conn, proof, ph, app. repeat split; auto; right; repeat split; auto.
  - apply h_chan_close_init_ok in H as (e0 & hop & rest & conn & _ & _ & _ & _ & _ & _ & ->).
    rewrite get_chan_set_chan in Hg.
    destruct (key2_eqb (port, chan) (p, c)); [|unchanged_contra]. injection Hg as <-. discriminate.
  - apply h_chan_close_confirm_ok in H as (e0 & hop & rest & conn & _ & _ & _ & _ & _ & _ & ->).
    rewrite get_chan_set_chan in Hg.
    destruct (key2_eqb (port, chan) (p, c)); [|unchanged_contra]. injection Hg as <-. discriminate.
  - apply h_timeout_close_ok in H as (e0 & _ & [[_ ->] | [_ ->]]); [|unchanged_contra].
    rewrite get_chan_set_chan in Hg.
    destruct (key2_eqb (port, chan) (p, c)); [|unchanged_contra]. injection Hg as <-. discriminate.
Qed.

Theorem chan_tryopen_requires_proof e s m p c e' :
  WF s ->
  get_chan (step e s m) p c = Some e' -> ch_state e' = STryOpen ->
  (forall e0, get_chan s p c = Some e0 -> ch_state e0 <> STryOpen) ->
  exists hop conn v st version proof ph,
    get_chan s p c = None /\ ch_hops e' = [hop] /\ get_conn s hop = Some conn /\ c_state conn = COpen /\
    c_versions conn = [v] /\ In (order_string (ch_order e')) (v_feats v) /\
    exists cp_version,
      m = MChanTry p st (ch_order e') (ch_cp_port e') (ch_cp_chan e') (ch_hops e') version cp_version proof ph
                   (Some (ch_version e')) /\
      e_verify e (c_client conn) ph (c_cp_prefix conn) (KChan (ch_cp_port e') (ch_cp_chan e'))
               (VChan (mkChan SInit (ch_order e') p [] [c_cp_conn conn] cp_version)) proof = true.
Proof.
  intros [Wc Wh] Hg Hs Hn. unfold step in Hg.
  destruct (handle e s m) as [s'|] eqn:H; [|unchanged_contra].
  destruct m; cbn [handle] in H.
  - apply h_conn_init_ok in H as (_ & _ & _ & vs & _ & ->). rewrite get_chan_set_conn, get_chan_bump_conn in Hg. unchanged_contra.
  - apply h_conn_try_ok in H as (_ & v & _ & _ & ->). rewrite get_chan_set_conn, get_chan_bump_conn in Hg. unchanged_contra.
  - apply h_conn_ack_ok in H as (c0 & _ & _ & _ & _ & ->). rewrite get_chan_set_conn in Hg. unchanged_contra.
  - apply h_conn_confirm_ok in H as (c0 & _ & _ & _ & ->). rewrite get_chan_set_conn in Hg. unchanged_contra.
  - apply h_chan_init_ok in H as (_ & hop & conn & v & v' & _ & _ & _ & _ & _ & _ & ->).
    rewrite get_chan_set_seqs, get_chan_set_chan, get_chan_bump_chan in Hg.
    destruct (key2_eqb (port, chan_id (next_chan s)) (p, c)); [|unchanged_contra].
    injection Hg as <-. discriminate.
  - apply h_chan_try_ok in H as (hop & conn & v & v' & -> & Hc & Hco & Hvs & Hf & Hv & -> & ->).
    rewrite get_chan_set_chan, get_chan_set_seqs, get_chan_bump_chan in Hg.
    destruct (key2_eqb (port, chan_id (next_chan s)) (p, c)) eqn:E; [|unchanged_contra].
    apply key2_eqb_eq in E. inversion E; subst p c. injection Hg as <-. cbn.
    exists hop, conn, v, st, version, proof, ph. repeat split; auto.
    + apply Wh. lia.
    + apply contains_str_In. exact Hf.
    + exists cp_version. split; auto.
  - apply h_chan_ack_ok in H as (e0 & hop & rest & conn & _ & _ & _ & _ & _ & _ & ->).
    rewrite get_chan_set_chan in Hg.
    destruct (key2_eqb (port, chan) (p, c)); [|unchanged_contra]. injection Hg as <-. discriminate.
  - apply h_chan_confirm_ok in H as (e0 & hop & rest & conn & _ & _ & _ & _ & _ & _ & ->).
    rewrite get_chan_set_chan in Hg.
    destruct (key2_eqb (port, chan) (p, c)); [|unchanged_contra]. injection Hg as <-. discriminate.
  - apply h_chan_close_init_ok in H as (e0 & hop & rest & conn & _ & _ & _ & _ & _ & _ & ->).
    rewrite get_chan_set_chan in Hg.
    destruct (key2_eqb (port, chan) (p, c)); [|unchanged_contra]. injection Hg as <-. discriminate.
  - apply h_chan_close_confirm_ok in H as (e0 & hop & rest & conn & _ & _ & _ & _ & _ & _ & ->).
    rewrite get_chan_set_chan in Hg.
    destruct (key2_eqb (port, chan) (p, c)); [|unchanged_contra]. injection Hg as <-. discriminate.
  - apply h_timeout_close_ok in H as (e0 & _ & [[_ ->] | [_ ->]]); [|unchanged_contra].
    rewrite get_chan_set_chan in Hg.
    destruct (key2_eqb (port, chan) (p, c)); [|unchanged_contra]. injection Hg as <-. discriminate.
Qed.

(** * C12 (iv): close-confirm requires proof that the counterparty end is CLOSED; and the only ways
      an end gets CLOSED *)
Theorem chan_close_confirm_requires_proof e s p c proof ph app s' :
  handle e s (MChanCloseConfirm p c proof ph app) = Ok s' ->
  exists e0 hop rest conn,
    get_chan s p c = Some e0 /\ ch_state e0 <> SClosed /\ ch_hops e0 = hop :: rest /\
    get_conn s hop = Some conn /\ c_state conn = COpen /\
    e_verify e (c_client conn) ph (c_cp_prefix conn) (KChan (ch_cp_port e0) (ch_cp_chan e0))
             (VChan (mkChan SClosed (ch_order e0) p c [c_cp_conn conn] (ch_version e0))) proof = true /\
    get_chan s' p c = Some (mkChan SClosed (ch_order e0) (ch_cp_port e0) (ch_cp_chan e0) (ch_hops e0) (ch_version e0)).
Proof.
  cbn [handle]. intro H. apply h_chan_close_confirm_ok in H as (e0 & hop & rest & conn & H1 & H2 & H3 & H4 & H5 & H6 & ->).
  exists e0, hop, rest, conn. repeat split; auto. apply get_chan_set_chan_eq.
Qed.

Theorem chan_closed_causes e s m p c e' :
  WF s ->
  get_chan (step e s m) p c = Some e' -> ch_state e' = SClosed ->
  (forall e0, get_chan s p c = Some e0 -> ch_state e0 <> SClosed) ->
  (exists app, m = MChanCloseInit p c app) \/
  (exists proof ph app, m = MChanCloseConfirm p c proof ph app) \/
  (m = MTimeoutClose p c /\ ch_order e' = OOrdered).
Proof.
  intros [Wc Wh] Hg Hs Hn. unfold step in Hg.
  destruct (handle e s m) as [s'|] eqn:H; [|unchanged_contra].
  destruct m; cbn [handle] in H.
  - apply h_conn_init_ok in H as (_ & _ & _ & vs & _ & ->). rewrite get_chan_set_conn, get_chan_bump_conn in Hg. unchanged_contra.
  - apply h_conn_try_ok in H as (_ & v & _ & _ & ->). rewrite get_chan_set_conn, get_chan_bump_conn in Hg. unchanged_contra.
  - apply h_conn_ack_ok in H as (c0 & _ & _ & _ & _ & ->). rewrite get_chan_set_conn in Hg. unchanged_contra.
  - apply h_conn_confirm_ok in H as (c0 & _ & _ & _ & ->). rewrite get_chan_set_conn in Hg. unchanged_contra.
  - apply h_chan_init_ok in H as (_ & hop & conn & v & v' & _ & _ & _ & _ & _ & _ & ->).
    rewrite get_chan_set_seqs, get_chan_set_chan, get_chan_bump_chan in Hg.
    destruct (key2_eqb (port, chan_id (next_chan s)) (p, c)); [|unchanged_contra].
    injection Hg as <-. discriminate.
  - apply h_chan_try_ok in H as (hop & conn & v & v' & _ & _ & _ & _ & _ & _ & _ & ->).
    rewrite get_chan_set_chan, get_chan_set_seqs, get_chan_bump_chan in Hg.
    destruct (key2_eqb (port, chan_id (next_chan s)) (p, c)); [|unchanged_contra].
    injection Hg as <-. discriminate.
  - apply h_chan_ack_ok in H as (e0 & hop & rest & conn & _ & _ & _ & _ & _ & _ & ->).
    rewrite get_chan_set_chan in Hg.
    destruct (key2_eqb (port, chan) (p, c)); [|unchanged_contra]. injection Hg as <-. discriminate.
  - apply h_chan_confirm_ok in H as (e0 & hop & rest & conn & _ & _ & _ & _ & _ & _ & ->).
    rewrite get_chan_set_chan in Hg.
    destruct (key2_eqb (port, chan) (p, c)); [|unchanged_contra]. injection Hg as <-. discriminate.
  - apply h_chan_close_init_ok in H as (e0 & hop & rest & conn & _ & _ & _ & _ & _ & _ & ->).
    rewrite get_chan_set_chan in Hg.
    destruct (key2_eqb (port, chan) (p, c)) eqn:E; [|unchanged_contra].
    apply key2_eqb_eq in E. inversion E; subst. left. eauto.
  - apply h_chan_close_confirm_ok in H as (e0 & hop & rest & conn & _ & _ & _ & _ & _ & _ & ->).
    rewrite get_chan_set_chan in Hg.
    destruct (key2_eqb (port, chan) (p, c)) eqn:E; [|unchanged_contra].
    apply key2_eqb_eq in E. inversion E; subst. right; left. eauto.
  - apply h_timeout_close_ok in H as (e0 & _ & [[Ho ->] | [_ ->]]); [|unchanged_contra].
    rewrite get_chan_set_chan in Hg.
    destruct (key2_eqb (port, chan) (p, c)) eqn:E; [|unchanged_contra].
    apply key2_eqb_eq in E. inversion E; subst. injection Hg as <-. right; right. auto.
Qed.

(** * C13: a connection becomes OPEN only with a verified proof of the matching counterparty end *)
Ltac unchanged_contra_conn :=
  match goal with
  | Hn : forall c0, get_conn ?s ?id = Some c0 -> c_state c0 <> ?st,
    Hg : get_conn ?s ?id = Some ?c', Hs : c_state ?c' = ?st |- _ => exfalso; exact (Hn _ Hg Hs)
  end.

Theorem conn_open_requires_proof e s m id c' :
  WF s ->
  get_conn (step e s m) id = Some c' -> c_state c' = COpen ->
  (forall c0, get_conn s id = Some c0 -> c_state c0 <> COpen) ->
  exists c0 proof ph,
    get_conn s id = Some c0 /\
    c_client c' = c_client c0 /\ c_cp_client c' = c_cp_client c0 /\ c_cp_prefix c' = c_cp_prefix c0 /\
    c_delay c' = c_delay c0 /\
    ((c_state c0 = CInit /\
      exists v, c_versions c' = [v] /\ is_supported (c_versions c0) v = true /\
                m = MConnAck id (c_cp_conn c') v proof ph /\
      e_verify e (c_client c') ph (c_cp_prefix c') (KConn (c_cp_conn c'))
               (VConn (mkConn CTryOpen (c_cp_client c') (c_client c') id own_prefix (c_versions c') (c_delay c'))) proof = true)
     \/
     (c_state c0 = CTryOpen /\ c_cp_conn c' = c_cp_conn c0 /\ c_versions c' = c_versions c0 /\
      m = MConnConfirm id proof ph /\
      e_verify e (c_client c') ph (c_cp_prefix c') (KConn (c_cp_conn c'))
               (VConn (mkConn COpen (c_cp_client c') (c_client c') id own_prefix (c_versions c') (c_delay c'))) proof = true)).
Proof.
  intros [Wc Wh] Hg Hs Hn. unfold step in Hg.
  destruct (handle e s m) as [s'|] eqn:H; [|unchanged_contra_conn].
  destruct m; cbn [handle] in H.
  - apply h_conn_init_ok in H as (_ & _ & _ & vs & _ & ->).
    rewrite get_conn_set_conn, get_conn_bump_conn in Hg.
    destruct (bytes_eqb (conn_id (next_conn s)) id); [|unchanged_contra_conn]. injection Hg as <-. discriminate.
  - apply h_conn_try_ok in H as (_ & v & _ & _ & ->).
    rewrite get_conn_set_conn, get_conn_bump_conn in Hg.
    destruct (bytes_eqb (conn_id (next_conn s)) id); [|unchanged_contra_conn]. injection Hg as <-. discriminate.
  - apply h_conn_ack_ok in H as (c0 & Hg0 & Hs0 & Hsup & Hv & ->).
    rewrite get_conn_set_conn in Hg.
    destruct (bytes_eqb conn id) eqn:E; [|unchanged_contra_conn].
    apply bytes_eqb_eq in E. subst conn. injection Hg as <-. cbn.
    exists c0, proof, ph. repeat split; auto; left; split; auto; exists version; repeat split; auto.
  - apply h_conn_confirm_ok in H as (c0 & Hg0 & Hs0 & Hv & ->).
    rewrite get_conn_set_conn in Hg.
    destruct (bytes_eqb conn id) eqn:E; [|unchanged_contra_conn].
    apply bytes_eqb_eq in E. subst conn. injection Hg as <-. cbn.
    exists c0, proof, ph. repeat split; auto; right; repeat split; auto.
  - apply h_chan_init_ok in H as (_ & hop & conn & v & v' & _ & _ & _ & _ & _ & _ & ->).
    rewrite get_conn_set_seqs, get_conn_set_chan, get_conn_bump_chan in Hg. unchanged_contra_conn.
  - apply h_chan_try_ok in H as (hop & conn & v & v' & _ & _ & _ & _ & _ & _ & _ & ->).
    rewrite get_conn_set_chan, get_conn_set_seqs, get_conn_bump_chan in Hg. unchanged_contra_conn.
  - apply h_chan_ack_ok in H as (e0 & hop & rest & conn & _ & _ & _ & _ & _ & _ & ->).
    rewrite get_conn_set_chan in Hg. unchanged_contra_conn.
  - apply h_chan_confirm_ok in H as (e0 & hop & rest & conn & _ & _ & _ & _ & _ & _ & ->).
    rewrite get_conn_set_chan in Hg. unchanged_contra_conn.
  - apply h_chan_close_init_ok in H as (e0 & hop & rest & conn & _ & _ & _ & _ & _ & _ & ->).
    rewrite get_conn_set_chan in Hg. unchanged_contra_conn.
  - apply h_chan_close_confirm_ok in H as (e0 & hop & rest & conn & _ & _ & _ & _ & _ & _ & ->).
    rewrite get_conn_set_chan in Hg. unchanged_contra_conn.
  - apply h_timeout_close_ok in H as (e0 & _ & [[_ ->] | [_ ->]]); [|unchanged_contra_conn].
    rewrite get_conn_set_chan in Hg. unchanged_contra_conn.
Qed.

(** a TRYOPEN connection end is created only with a verified proof of the INIT end, and its single
    version is the one PickVersion negotiates from the proven counterparty list *)
Theorem conn_try_requires_proof e s client cpc cpn cpp cpv delay proof ph s' :
  handle e s (MConnTry client cpc cpn cpp cpv delay proof ph) = Ok s' ->
  exists v,
    pick_version compatible_versions cpv = Some v /\
    e_verify e client ph cpp (KConn cpn) (VConn (mkConn CInit cpc client [] own_prefix cpv delay)) proof = true /\
    get_conn s' (conn_id (next_conn s)) = Some (mkConn CTryOpen client cpc cpn cpp [v] delay).
Proof.
  cbn [handle]. intro H. apply h_conn_try_ok in H as (_ & v & Hp & Hv & ->).
  exists v. repeat split; auto. apply get_conn_set_conn_eq.
Qed.

(** * C13: channel open init / try need exactly one negotiated version that lists the ordering *)
Theorem chan_init_requires_single_version e s port st order cpp cpc hops version app s' :
  handle e s (MChanInit port st order cpp cpc hops version app) = Ok s' ->
  exists hop conn v, hops = [hop] /\ get_conn s hop = Some conn /\ c_versions conn = [v] /\
                     In (order_string order) (v_feats v) /\ (order = OOrdered \/ order = OUnordered).
Proof.
  cbn [handle]. intro H. pose proof H as H0. apply h_chan_init_ok in H as (_ & hop & conn & v & v' & -> & Hc & Hv & Hf & _).
  exists hop, conn, v. repeat split; auto. apply contains_str_In; exact Hf.
  unfold h_chan_init in H0. inv_ok H0.
  match goal with Hv : channel_vb _ _ _ _ _ = true |- _ =>
    unfold channel_vb in Hv; rewrite !andb_true_iff in Hv; destruct Hv as ((((_ & Ho) & _) & _) & _) end.
  apply orb_true_iff in Ho as [Ho | Ho]; apply order_eqb_eq in Ho; auto.
Qed.

Theorem chan_try_requires_single_version e s port st order cpp cpc hops version cpv proof ph app s' :
  handle e s (MChanTry port st order cpp cpc hops version cpv proof ph app) = Ok s' ->
  exists hop conn v, hops = [hop] /\ get_conn s hop = Some conn /\ c_state conn = COpen /\ c_versions conn = [v] /\
                     In (order_string order) (v_feats v).
Proof.
  cbn [handle]. intro H. apply h_chan_try_ok in H as (hop & conn & v & v' & -> & Hc & Hco & Hv & Hf & _).
  exists hop, conn, v. repeat split; auto. apply contains_str_In; exact Hf.
Qed.

(** * C13: handshakes over the localhost client are refused *)
Theorem localhost_conn_init_refused e s cpc cpn cpp version delay :
  handle e s (MConnInit localhost_client cpc cpn cpp version delay) = Err 101.
Proof. reflexivity. Qed.

Theorem localhost_conn_try_refused e s cpc cpn cpp cpv delay proof ph :
  handle e s (MConnTry localhost_client cpc cpn cpp cpv delay proof ph) = Err 201.
Proof. reflexivity. Qed.

(** consequently no history ever creates a connection end whose client is 09-localhost, and the
    sentinel localhost connection (OPEN since genesis) is never touched *)
Theorem no_localhost_connection_created tr : forall s id b,
  WF s -> counters_below s (List.length tr) ->
  get_conn (run s tr) id = Some b -> c_client b = localhost_client ->
  exists a, get_conn s id = Some a /\ c_client a = localhost_client.
Proof.
  induction tr as [|[e m] tr IH]; intros s id b W B Hb Hl; cbn [run] in Hb.
  - eauto.
  - destruct (counters_below_step e s m _ B) as [Nw B'].
    destruct (IH _ _ _ (step_WF e s m W Nw) B' Hb Hl) as (a & Ha & Hla).
    pose proof (step_conn_rel e s m id W) as R. rewrite Ha in R.
    destruct (get_conn s id) as [a0|]; cbn in R.
    + exists a0. split; auto. destruct R as (R & _). congruence.
    + destruct R as [_ R]. contradiction.
Qed.

(** single negotiated version: every TRYOPEN or OPEN connection end has exactly one version, provided
    that held initially (the sentinel localhost connection has one) *)
Definition single_version (s : Chain) : Prop :=
  forall id a, get_conn s id = Some a -> conn_settled (c_state a) = true -> exists v, c_versions a = [v].

Lemma step_single_version e s m : WF s -> single_version s -> single_version (step e s m).
Proof.
  intros W S id b Hb Hst.
  destruct (get_conn s id) as [a|] eqn:Ha.
  - destruct (conn_state_eqb (c_state a) (c_state b)) eqn:E.
    + apply conn_state_eqb_eq in E. pose proof (step_conn_rel e s m id W) as R. rewrite Ha, Hb in R. cbn in R.
      destruct R as (_ & _ & _ & _ & _ & _ & R). rewrite <- (R E) in *. eapply S; eauto.
    + assert (c_state b = COpen).
      { pose proof (step_conn_rel e s m id W) as R. rewrite Ha, Hb in R. cbn in R.
        destruct R as (_ & _ & _ & _ & R & _). destruct (c_state a), (c_state b); cbn in *; congruence. }
      assert (Hn : forall c0, get_conn s id = Some c0 -> c_state c0 <> COpen).
      { intros c0 Hc0 Hs0. rewrite Ha in Hc0. injection Hc0 as <-. rewrite Hs0, H in E. discriminate. }
      destruct (conn_open_requires_proof e s m id b W Hb H Hn) as (c0 & pr & ph & Hc0 & _ & _ & _ & _ & [(Hs0 & v & Hv & _) | (Hs0 & _ & Hv & _)]).
      * eauto.
      * rewrite Hv. eapply S; eauto. rewrite Hs0. reflexivity.
  - pose proof (step_conn_rel e s m id W) as R. rewrite Ha, Hb in R. cbn in R.
    destruct R as [[R | R] _]; rewrite R in Hst; [discriminate|].
    (* created TRYOPEN: by ConnOpenTry with [version] *)
    unfold step in Hb. destruct (handle e s m) as [s'|] eqn:H; [|congruence].
    destruct m; cbn [handle] in H.
    + apply h_conn_init_ok in H as (_ & _ & _ & vs & _ & ->). rewrite get_conn_set_conn, get_conn_bump_conn in Hb.
      destruct (bytes_eqb _ id); [injection Hb as <-; discriminate | congruence].
    + apply h_conn_try_ok in H as (_ & v & _ & _ & ->). rewrite get_conn_set_conn, get_conn_bump_conn in Hb.
      destruct (bytes_eqb _ id); [injection Hb as <-; cbn; eauto | congruence].
    + apply h_conn_ack_ok in H as (c0 & Hg0 & _ & _ & _ & ->). rewrite get_conn_set_conn in Hb.
      destruct (bytes_eqb conn id) eqn:E; [apply bytes_eqb_eq in E; subst; congruence | congruence].
    + apply h_conn_confirm_ok in H as (c0 & Hg0 & _ & _ & ->). rewrite get_conn_set_conn in Hb.
      destruct (bytes_eqb conn id) eqn:E; [apply bytes_eqb_eq in E; subst; congruence | congruence].
    + apply h_chan_init_ok in H as (_ & hop & conn & v & v' & _ & _ & _ & _ & _ & _ & ->).
      rewrite get_conn_set_seqs, get_conn_set_chan, get_conn_bump_chan in Hb. congruence.
    + apply h_chan_try_ok in H as (hop & conn & v & v' & _ & _ & _ & _ & _ & _ & _ & ->).
      rewrite get_conn_set_chan, get_conn_set_seqs, get_conn_bump_chan in Hb. congruence.
    + apply h_chan_ack_ok in H as (e0 & hop & rest & conn & _ & _ & _ & _ & _ & _ & ->). rewrite get_conn_set_chan in Hb. congruence.
    + apply h_chan_confirm_ok in H as (e0 & hop & rest & conn & _ & _ & _ & _ & _ & _ & ->). rewrite get_conn_set_chan in Hb. congruence.
    + apply h_chan_close_init_ok in H as (e0 & hop & rest & conn & _ & _ & _ & _ & _ & _ & ->). rewrite get_conn_set_chan in Hb. congruence.
    + apply h_chan_close_confirm_ok in H as (e0 & hop & rest & conn & _ & _ & _ & _ & _ & _ & ->). rewrite get_conn_set_chan in Hb. congruence.
    + apply h_timeout_close_ok in H as (e0 & _ & [[_ ->] | [_ ->]]); [rewrite get_conn_set_chan in Hb|]; congruence.
Qed.

Theorem open_connections_have_one_version tr : forall s,
  WF s -> counters_below s (List.length tr) -> single_version s -> single_version (run s tr).
Proof.
  induction tr as [|[e m] tr IH]; intros s W B S; cbn [run]; auto.
  destruct (counters_below_step e s m _ B) as [Nw B']. apply IH; auto using step_WF, step_single_version.
Qed.
