(** Reflection lemmas for the decidable equalities of Types.v, association-list lemmas,
    identifier facts (fresh identifiers are injective in the counter). *)
From IBC Require Import Lib.Bytes Lib.BytesFacts Lib.Dec Lib.DecFacts Lib.CorrLib Core.Height
     Handshake.Version Handshake.VersionFacts Handshake.Types.
Local Open Scope N_scope.

(** * association lists *)
Section AListFacts.
  Context {K V : Type} (eqb : K -> K -> bool).
  Hypothesis eqb_spec : forall a b, eqb a b = true <-> a = b.

  Lemma eqb_refl_ k : eqb k k = true.
  Proof. apply eqb_spec; reflexivity. Qed.

  Lemma eqb_false_ a b : a <> b -> eqb a b = false.
  Proof. intro H. destruct (eqb a b) eqn:E; auto. apply eqb_spec in E. contradiction. Qed.

  Lemma alookup_aset_eq k (v : V) l : alookup eqb k (aset eqb k v l) = Some v.
  Proof.
    induction l as [|[k' v'] l IH]; cbn.
    - rewrite eqb_refl_. reflexivity.
    - destruct (eqb k k') eqn:E; cbn.
      + rewrite eqb_refl_. reflexivity.
      + rewrite E. exact IH.
  Qed.

  Lemma alookup_aset_neq k k' (v : V) l : k <> k' -> alookup eqb k' (aset eqb k v l) = alookup eqb k' l.
  Proof.
    intro Hne. assert (Hf : eqb k' k = false) by (apply eqb_false_; congruence).
    induction l as [|[k2 v2] l IH]; cbn.
    - rewrite Hf. reflexivity.
    - destruct (eqb k k2) eqn:E; cbn.
      + apply eqb_spec in E. subst k2. rewrite Hf. reflexivity.
      + destruct (eqb k' k2); auto.
  Qed.

  Lemma alookup_In k (v : V) l : alookup eqb k l = Some v -> In (k, v) l.
  Proof.
    induction l as [|[k' v'] l IH]; cbn; [discriminate|].
    destruct (eqb k k') eqn:E.
    - apply eqb_spec in E. intro H; inversion H; subst. left; reflexivity.
    - intro H. right. auto.
  Qed.
End AListFacts.

(** * equalities *)
Lemma key2_eqb_eq a b : key2_eqb a b = true <-> a = b.
Proof.
  destruct a as [a1 a2], b as [b1 b2]. unfold key2_eqb; cbn.
  rewrite andb_true_iff, !bytes_eqb_eq. split; [intros [-> ->]; reflexivity | intro H; inversion H; auto].
Qed.

Lemma bytes_eqb_spec a b : bytes_eqb a b = true <-> a = b.
Proof. apply bytes_eqb_eq. Qed.

Lemma conn_state_eqb_eq a b : conn_state_eqb a b = true <-> a = b.
Proof. destruct a, b; cbn; split; intro H; congruence. Qed.
Lemma chan_state_eqb_eq a b : chan_state_eqb a b = true <-> a = b.
Proof. destruct a, b; cbn; split; intro H; congruence. Qed.
Lemma order_eqb_eq a b : order_eqb a b = true <-> a = b.
Proof. destruct a, b; cbn; split; intro H; congruence. Qed.
Lemma chan_state_eqb_false a b : chan_state_eqb a b = false <-> a <> b.
Proof. destruct a, b; cbn; split; intro H; congruence. Qed.

Lemma list_eqb_spec {A} (eqb : A -> A -> bool) (Hs : forall a b, eqb a b = true <-> a = b) (a b : list A) :
  list_eqb eqb a b = true <-> a = b.
Proof.
  revert b; induction a as [|x a IH]; intros [|y b]; cbn; split; intro H; try congruence; try discriminate.
  - apply andb_true_iff in H as [H1 H2]. apply Hs in H1. apply IH in H2. congruence.
  - inversion H; subst. apply andb_true_iff; split; [apply Hs; reflexivity | apply IH; reflexivity].
Qed.

Lemma conn_end_eqb_eq a b : conn_end_eqb a b = true <-> a = b.
Proof.
  unfold conn_end_eqb. rewrite !andb_true_iff, conn_state_eqb_eq, !bytes_eqb_eq, N.eqb_eq,
    (list_eqb_spec version_eqb version_eqb_eq).
  destruct a, b; cbn. split.
  - intros ((((((-> & ->) & ->) & ->) & ->) & ->) & ->). reflexivity.
  - intro H; inversion H; subst. repeat split.
Qed.

Lemma chan_end_eqb_eq a b : chan_end_eqb a b = true <-> a = b.
Proof.
  unfold chan_end_eqb. rewrite !andb_true_iff, chan_state_eqb_eq, order_eqb_eq, !bytes_eqb_eq,
    (list_eqb_spec bytes_eqb bytes_eqb_eq).
  destruct a, b; cbn. split.
  - intros (((((-> & ->) & ->) & ->) & ->) & ->). reflexivity.
  - intro H; inversion H; subst. repeat split.
Qed.

Lemma key_eqb_eq a b : key_eqb a b = true <-> a = b.
Proof.
  destruct a, b; cbn; try (split; intro H; congruence).
  - rewrite bytes_eqb_eq. split; intro H; congruence.
  - rewrite andb_true_iff, !bytes_eqb_eq. split; [intros [-> ->]; reflexivity | intro H; inversion H; auto].
Qed.

Lemma value_eqb_eq a b : value_eqb a b = true <-> a = b.
Proof.
  destruct a, b; cbn; try (split; intro H; congruence).
  - rewrite conn_end_eqb_eq. split; intro H; congruence.
  - rewrite chan_end_eqb_eq. split; intro H; congruence.
Qed.

Lemma height_eqb_eq a b : height_eqb a b = true <-> a = b.
Proof.
  unfold height_eqb. rewrite andb_true_iff, !N.eqb_eq. destruct a, b; cbn.
  split; [intros [-> ->]; reflexivity | intro H; inversion H; auto].
Qed.

(** * identifiers *)
Lemma conn_id_inj n m : conn_id n = conn_id m -> n = m.
Proof. unfold conn_id. intro H. apply app_inv_head in H. apply dec_inj; exact H. Qed.

Lemma chan_id_inj n m : chan_id n = chan_id m -> n = m.
Proof. unfold chan_id. intro H. apply app_inv_head in H. apply dec_inj; exact H. Qed.

(** the sentinel localhost connection id is not a generated id *)
Lemma conn_id_not_localhost n : conn_id n <> localhost_conn.
Proof.
  unfold conn_id, localhost_conn, conn_prefix. intro H.
  change (B "connection-localhost") with (B "connection-" ++ B "localhost") in H.
  apply app_inv_head in H.
  pose proof (dec_digits n) as Hd. rewrite H in Hd. vm_compute in Hd. discriminate.
Qed.

(** * state accessors *)
Lemma get_conn_set_conn_eq s id e : get_conn (set_conn s id e) id = Some e.
Proof. unfold get_conn, set_conn; cbn. apply alookup_aset_eq. apply bytes_eqb_eq. Qed.
Lemma get_conn_set_conn_neq s id id' e : id <> id' -> get_conn (set_conn s id e) id' = get_conn s id'.
Proof. intro H. unfold get_conn, set_conn; cbn. apply alookup_aset_neq; auto. apply bytes_eqb_eq. Qed.
Lemma get_chan_set_chan_eq s p c e : get_chan (set_chan s p c e) p c = Some e.
Proof. unfold get_chan, set_chan; cbn. apply alookup_aset_eq. apply key2_eqb_eq. Qed.
Lemma get_chan_set_chan_neq s p c p' c' e : (p, c) <> (p', c') -> get_chan (set_chan s p c e) p' c' = get_chan s p' c'.
Proof. intro H. unfold get_chan, set_chan; cbn. apply alookup_aset_neq; auto. apply key2_eqb_eq. Qed.

Lemma get_conn_set_chan s p c e id : get_conn (set_chan s p c e) id = get_conn s id.
Proof. reflexivity. Qed.
Lemma get_conn_set_seqs s p c v id : get_conn (set_seqs s p c v) id = get_conn s id.
Proof. reflexivity. Qed.
Lemma get_conn_bump_conn s id : get_conn (bump_conn s) id = get_conn s id.
Proof. reflexivity. Qed.
Lemma get_conn_bump_chan s id : get_conn (bump_chan s) id = get_conn s id.
Proof. reflexivity. Qed.
Lemma get_chan_set_conn s id e p c : get_chan (set_conn s id e) p c = get_chan s p c.
Proof. reflexivity. Qed.
Lemma get_chan_set_seqs s p c v p' c' : get_chan (set_seqs s p c v) p' c' = get_chan s p' c'.
Proof. reflexivity. Qed.
Lemma get_chan_bump_conn s p c : get_chan (bump_conn s) p c = get_chan s p c.
Proof. reflexivity. Qed.
Lemma get_chan_bump_chan s p c : get_chan (bump_chan s) p c = get_chan s p c.
Proof. reflexivity. Qed.

Lemma key2_eq_dec (a b : key2) : {a = b} + {a <> b}.
Proof. destruct (key2_eqb a b) eqn:E; [left; apply key2_eqb_eq; exact E | right; intro H; apply key2_eqb_eq in H; congruence]. Qed.
