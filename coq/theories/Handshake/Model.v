(** The handshake handlers of one chain, guard by guard in code order.
    Each [h_*] is: Msg.ValidateBasic (run by baseapp before the handler), then the handler in
    modules/core/keeper/msg_server.go, which calls modules/core/03-connection/keeper/handshake.go or
    modules/core/04-channel/keeper/handshake.go, the application callback, and the Write* function.
    [Err g] carries the number of the guard that failed (used to measure generator coverage only).
    A failing message leaves the state unchanged ([step]): baseapp runs messages on a cached
    context that is written back only on success. *)
From IBC Require Import Lib.Bytes Lib.Dec Lib.CorrLib Core.Height Handshake.Version Handshake.Types.
Local Open Scope N_scope.

Notation "'REQ' b 'ELSE' g ; k" := (if b then k else Err g)
  (at level 200, b at level 9, g at level 9, k at level 200, only parsing).

(** k.GetCommitmentPrefix(): the IBC store key *)
Definition own_prefix : bytes := B "ibc".
Definition max_merkle_prefix_length : nat := 256.

(** 03-connection/types Counterparty.ValidateBasic *)
Definition conn_counterparty_vb (cp_client cp_conn cp_prefix : bytes) : bool :=
  (match cp_conn with [] => true | _ => conn_id_valid cp_conn end) &&
  client_id_valid cp_client &&
  negb (Nat.eqb (List.length cp_prefix) 0) &&
  Nat.leb (List.length cp_prefix) max_merkle_prefix_length.

(** 04-channel/types Channel.ValidateBasic (state, ordering, hops, counterparty) *)
Definition channel_vb (st : ChanState) (order : Order) (cp_port cp_chan : bytes) (hops : list bytes) : bool :=
  negb (chan_state_eqb st SUninit) &&
  (order_eqb order OOrdered || order_eqb order OUnordered) &&
  (match hops with [h] => conn_id_valid h | _ => false end) &&
  port_id_valid cp_port &&
  (match cp_chan with [] => true | _ => chan_id_valid cp_chan end).

(** 03-connection/keeper/verify.go VerifyConnectionState / VerifyChannelState:
    ApplyPrefix fails on an empty prefix; then clientKeeper.VerifyMembership *)
Definition verify_conn_state (e : Env) (conn : ConnEnd) (ph : Height) (proof : Proof)
           (cp_conn_id : bytes) (expected : ConnEnd) : bool :=
  negb (Nat.eqb (List.length (c_cp_prefix conn)) 0) &&
  e_verify e (c_client conn) ph (c_cp_prefix conn) (KConn cp_conn_id) (VConn expected) proof.

Definition verify_chan_state (e : Env) (conn : ConnEnd) (ph : Height) (proof : Proof)
           (port chan : bytes) (expected : ChanEnd) : bool :=
  negb (Nat.eqb (List.length (c_cp_prefix conn)) 0) &&
  e_verify e (c_client conn) ph (c_cp_prefix conn) (KChan port chan) (VChan expected) proof.

(** ** connection handshake *)

(** MsgConnectionOpenInit.ValidateBasic; msg_server ConnectionOpenInit; keeper ConnOpenInit *)
Definition h_conn_init (e : Env) (s : Chain) (client cp_client cp_conn cp_prefix : bytes)
           (version : option Version) (delay : N) : Res :=
  REQ negb (bytes_eqb client localhost_client) ELSE 101;
  REQ client_id_valid client ELSE 102;
  REQ (match cp_conn with [] => true | _ => false end) ELSE 103;
  REQ (match version with Some v => validate_version v | None => true end) ELSE 104;
  REQ conn_counterparty_vb cp_client cp_conn cp_prefix ELSE 105;
  (* ConnOpenInit *)
  REQ (match version with Some v => is_supported compatible_versions v | None => true end) ELSE 106;
  let versions := match version with Some v => [v] | None => compatible_versions end in
  REQ e_active e client ELSE 107;
  let id := conn_id (next_conn s) in
  let s1 := bump_conn s in
  REQ e_found e client ELSE 108;                       (* addConnectionToClient *)
  Ok (set_conn s1 id (mkConn CInit client cp_client cp_conn cp_prefix versions delay)).

(** MsgConnectionOpenTry.ValidateBasic; ConnOpenTry *)
Definition h_conn_try (e : Env) (s : Chain) (client cp_client cp_conn cp_prefix : bytes)
           (cp_versions : list Version) (delay : N) (proof : Proof) (ph : Height) : Res :=
  REQ negb (bytes_eqb client localhost_client) ELSE 201;
  REQ client_id_valid client ELSE 202;
  REQ conn_id_valid cp_conn ELSE 203;
  REQ negb (Nat.eqb (List.length cp_versions) 0) ELSE 204;
  REQ Nat.leb (List.length cp_versions) max_counterparty_versions_length ELSE 205;
  REQ forallb validate_version cp_versions ELSE 206;
  REQ negb (proof_empty proof) ELSE 207;
  REQ conn_counterparty_vb cp_client cp_conn cp_prefix ELSE 208;
  (* ConnOpenTry *)
  let id := conn_id (next_conn s) in
  let s1 := bump_conn s in
  let expected := mkConn CInit cp_client client [] own_prefix cp_versions delay in
  match pick_version compatible_versions cp_versions with
  | None => Err 209
  | Some version =>
      let connection := mkConn CTryOpen client cp_client cp_conn cp_prefix [version] delay in
      REQ verify_conn_state e connection ph proof cp_conn expected ELSE 210;
      REQ e_found e client ELSE 211;                   (* addConnectionToClient *)
      Ok (set_conn s1 id connection)
  end.

(** MsgConnectionOpenAck.ValidateBasic; ConnOpenAck *)
Definition h_conn_ack (e : Env) (s : Chain) (conn cp_conn : bytes) (version : Version)
           (proof : Proof) (ph : Height) : Res :=
  REQ is_valid_conn_id conn ELSE 301;
  REQ conn_id_valid cp_conn ELSE 302;
  REQ validate_version version ELSE 303;
  REQ negb (proof_empty proof) ELSE 304;
  (* ConnOpenAck *)
  match get_conn s conn with
  | None => Err 305
  | Some connection =>
      REQ conn_state_eqb (c_state connection) CInit ELSE 306;
      REQ is_supported (c_versions connection) version ELSE 307;
      let expected := mkConn CTryOpen (c_cp_client connection) (c_client connection) conn own_prefix
                             [version] (c_delay connection) in
      REQ verify_conn_state e connection ph proof cp_conn expected ELSE 308;
      Ok (set_conn s conn (mkConn COpen (c_client connection) (c_cp_client connection) cp_conn
                                  (c_cp_prefix connection) [version] (c_delay connection)))
  end.

(** MsgConnectionOpenConfirm.ValidateBasic; ConnOpenConfirm *)
Definition h_conn_confirm (e : Env) (s : Chain) (conn : bytes) (proof : Proof) (ph : Height) : Res :=
  REQ is_valid_conn_id conn ELSE 401;
  REQ negb (proof_empty proof) ELSE 402;
  match get_conn s conn with
  | None => Err 403
  | Some connection =>
      REQ conn_state_eqb (c_state connection) CTryOpen ELSE 404;
      let expected := mkConn COpen (c_cp_client connection) (c_client connection) conn own_prefix
                             (c_versions connection) (c_delay connection) in
      REQ verify_conn_state e connection ph proof (c_cp_conn connection) expected ELSE 405;
      Ok (set_conn s conn (mkConn COpen (c_client connection) (c_cp_client connection)
                                  (c_cp_conn connection) (c_cp_prefix connection)
                                  (c_versions connection) (c_delay connection)))
  end.

(** ** channel handshake *)

(** MsgChannelOpenInit.ValidateBasic; msg_server ChannelOpenInit; ChanOpenInit; OnChanOpenInit;
    WriteOpenInitChannel *)
Definition h_chan_init (e : Env) (s : Chain) (port : bytes) (st : ChanState) (order : Order)
           (cp_port cp_chan : bytes) (hops : list bytes) (version : bytes) (app : option bytes) : Res :=
  REQ port_id_valid port ELSE 501;
  REQ chan_state_eqb st SInit ELSE 502;
  REQ (match cp_chan with [] => true | _ => false end) ELSE 503;
  REQ channel_vb st order cp_port cp_chan hops ELSE 504;
  REQ e_route e port ELSE 505;
  (* ChanOpenInit *)
  match hops with
  | [] => Err 599                                       (* connectionHops[0]: excluded by ValidateBasic *)
  | hop :: _ =>
      match get_conn s hop with
      | None => Err 506
      | Some connection =>
          match c_versions connection with
          | [v] =>
              REQ verify_supported_feature v (order_string order) ELSE 508;
              REQ e_active e (c_client connection) ELSE 509;
              let id := chan_id (next_chan s) in
              let s1 := bump_chan s in
              match app with
              | None => Err 510                         (* OnChanOpenInit error *)
              | Some v' =>
                  (* WriteOpenInitChannel *)
                  let s2 := set_chan s1 port id (mkChan SInit order cp_port cp_chan hops v') in
                  Ok (set_seqs s2 port id (1, 1, 1))
              end
          | _ => Err 507                                (* len(connectionEnd.Versions) != 1 *)
          end
      end
  end.

(** MsgChannelOpenTry.ValidateBasic; ChannelOpenTry; ChanOpenTry; OnChanOpenTry; WriteOpenTryChannel *)
Definition h_chan_try (e : Env) (s : Chain) (port : bytes) (st : ChanState) (order : Order)
           (cp_port cp_chan : bytes) (hops : list bytes) (version cp_version : bytes)
           (proof : Proof) (ph : Height) (app : option bytes) : Res :=
  REQ port_id_valid port ELSE 601;
  REQ negb (proof_empty proof) ELSE 602;
  REQ chan_state_eqb st STryOpen ELSE 603;
  REQ chan_id_valid cp_chan ELSE 604;
  REQ channel_vb st order cp_port cp_chan hops ELSE 605;
  REQ e_route e port ELSE 606;
  (* ChanOpenTry *)
  match hops with
  | [hop] =>
      let id := chan_id (next_chan s) in
      let s1 := bump_chan s in
      match get_conn s hop with
      | None => Err 607
      | Some connection =>
          REQ conn_state_eqb (c_state connection) COpen ELSE 608;
          match c_versions connection with
          | [v] =>
              REQ verify_supported_feature v (order_string order) ELSE 610;
              let expected := mkChan SInit order port [] [c_cp_conn connection] cp_version in
              REQ verify_chan_state e connection ph proof cp_port cp_chan expected ELSE 611;
              match app with
              | None => Err 612                         (* OnChanOpenTry error *)
              | Some v' =>
                  (* WriteOpenTryChannel *)
                  let s2 := set_seqs s1 port id (1, 1, 1) in
                  Ok (set_chan s2 port id (mkChan STryOpen order cp_port cp_chan hops v'))
              end
          | _ => Err 609                                (* len(connectionEnd.Versions) != 1 *)
          end
      end
  | _ => Err 699                                        (* len(connectionHops) != 1 *)
  end.

(** MsgChannelOpenAck.ValidateBasic; ChannelOpenAck; ChanOpenAck; WriteOpenAckChannel; OnChanOpenAck.
    (For UNORDERED channels WriteOpenAckChannel also registers the IBC v2 alias; GetV2Counterparty
    cannot fail there because the channel was just written OPEN and its connection was found.) *)
Definition h_chan_ack (e : Env) (s : Chain) (port chan cp_chan cp_version : bytes)
           (proof : Proof) (ph : Height) (app : bool) : Res :=
  REQ port_id_valid port ELSE 701;
  REQ is_valid_chan_id chan ELSE 702;
  REQ chan_id_valid cp_chan ELSE 703;
  REQ negb (proof_empty proof) ELSE 704;
  REQ e_route e port ELSE 705;
  match get_chan s port chan with
  | None => Err 706
  | Some channel =>
      REQ chan_state_eqb (ch_state channel) SInit ELSE 707;
      match ch_hops channel with
      | [] => Err 799                                   (* ConnectionHops[0] on an empty list: panic *)
      | hop :: _ =>
          match get_conn s hop with
          | None => Err 708
          | Some connection =>
              REQ conn_state_eqb (c_state connection) COpen ELSE 709;
              let expected := mkChan STryOpen (ch_order channel) port chan [c_cp_conn connection] cp_version in
              REQ verify_chan_state e connection ph proof (ch_cp_port channel) cp_chan expected ELSE 710;
              (* WriteOpenAckChannel *)
              let s1 := set_chan s port chan (mkChan SOpen (ch_order channel) (ch_cp_port channel) cp_chan
                                                     (ch_hops channel) cp_version) in
              REQ app ELSE 711;                         (* OnChanOpenAck error *)
              Ok s1
          end
      end
  end.

(** MsgChannelOpenConfirm.ValidateBasic; ChannelOpenConfirm; ChanOpenConfirm; WriteOpenConfirmChannel;
    OnChanOpenConfirm *)
Definition h_chan_confirm (e : Env) (s : Chain) (port chan : bytes) (proof : Proof) (ph : Height)
           (app : bool) : Res :=
  REQ port_id_valid port ELSE 801;
  REQ is_valid_chan_id chan ELSE 802;
  REQ negb (proof_empty proof) ELSE 803;
  REQ e_route e port ELSE 804;
  match get_chan s port chan with
  | None => Err 805
  | Some channel =>
      REQ chan_state_eqb (ch_state channel) STryOpen ELSE 806;
      match ch_hops channel with
      | [] => Err 899
      | hop :: _ =>
          match get_conn s hop with
          | None => Err 807
          | Some connection =>
              REQ conn_state_eqb (c_state connection) COpen ELSE 808;
              let expected := mkChan SOpen (ch_order channel) port chan [c_cp_conn connection]
                                     (ch_version channel) in
              REQ verify_chan_state e connection ph proof (ch_cp_port channel) (ch_cp_chan channel) expected
                  ELSE 809;
              let s1 := set_chan s port chan (mkChan SOpen (ch_order channel) (ch_cp_port channel)
                                                     (ch_cp_chan channel) (ch_hops channel) (ch_version channel)) in
              REQ app ELSE 810;
              Ok s1
          end
      end
  end.

(** MsgChannelCloseInit.ValidateBasic; ChannelCloseInit (callback first); ChanCloseInit *)
Definition h_chan_close_init (e : Env) (s : Chain) (port chan : bytes) (app : bool) : Res :=
  REQ port_id_valid port ELSE 901;
  REQ is_valid_chan_id chan ELSE 902;
  REQ e_route e port ELSE 903;
  REQ app ELSE 904;                                     (* OnChanCloseInit error *)
  match get_chan s port chan with
  | None => Err 905
  | Some channel =>
      REQ negb (chan_state_eqb (ch_state channel) SClosed) ELSE 906;
      match ch_hops channel with
      | [] => Err 999
      | hop :: _ =>
          match get_conn s hop with
          | None => Err 907
          | Some connection =>
              REQ e_active e (c_client connection) ELSE 908;
              REQ conn_state_eqb (c_state connection) COpen ELSE 909;
              Ok (set_chan s port chan (mkChan SClosed (ch_order channel) (ch_cp_port channel)
                                               (ch_cp_chan channel) (ch_hops channel) (ch_version channel)))
          end
      end
  end.

(** MsgChannelCloseConfirm.ValidateBasic; ChannelCloseConfirm (callback first); ChanCloseConfirm *)
Definition h_chan_close_confirm (e : Env) (s : Chain) (port chan : bytes) (proof : Proof) (ph : Height)
           (app : bool) : Res :=
  REQ port_id_valid port ELSE 1001;
  REQ is_valid_chan_id chan ELSE 1002;
  REQ negb (proof_empty proof) ELSE 1003;
  REQ e_route e port ELSE 1004;
  REQ app ELSE 1005;
  match get_chan s port chan with
  | None => Err 1006
  | Some channel =>
      REQ negb (chan_state_eqb (ch_state channel) SClosed) ELSE 1007;
      match ch_hops channel with
      | [] => Err 1099
      | hop :: _ =>
          match get_conn s hop with
          | None => Err 1008
          | Some connection =>
              REQ conn_state_eqb (c_state connection) COpen ELSE 1009;
              let expected := mkChan SClosed (ch_order channel) port chan [c_cp_conn connection]
                                     (ch_version channel) in
              REQ verify_chan_state e connection ph proof (ch_cp_port channel) (ch_cp_chan channel) expected
                  ELSE 1010;
              Ok (set_chan s port chan (mkChan SClosed (ch_order channel) (ch_cp_port channel)
                                               (ch_cp_chan channel) (ch_hops channel) (ch_version channel)))
          end
      end
  end.

(** 04-channel/keeper/timeout.go timeoutExecuted: an ORDERED channel is closed, whatever its state *)
Definition h_timeout_close (s : Chain) (port chan : bytes) : Res :=
  match get_chan s port chan with
  | None => Err 1101
  | Some channel =>
      if order_eqb (ch_order channel) OOrdered
      then Ok (set_chan s port chan (mkChan SClosed (ch_order channel) (ch_cp_port channel)
                                            (ch_cp_chan channel) (ch_hops channel) (ch_version channel)))
      else Ok s
  end.

Definition handle (e : Env) (s : Chain) (m : Msg) : Res :=
  match m with
  | MConnInit client cp_client cp_conn cp_prefix version delay =>
      h_conn_init e s client cp_client cp_conn cp_prefix version delay
  | MConnTry client cp_client cp_conn cp_prefix cp_versions delay proof ph =>
      h_conn_try e s client cp_client cp_conn cp_prefix cp_versions delay proof ph
  | MConnAck conn cp_conn version proof ph => h_conn_ack e s conn cp_conn version proof ph
  | MConnConfirm conn proof ph => h_conn_confirm e s conn proof ph
  | MChanInit port st order cp_port cp_chan hops version app =>
      h_chan_init e s port st order cp_port cp_chan hops version app
  | MChanTry port st order cp_port cp_chan hops version cp_version proof ph app =>
      h_chan_try e s port st order cp_port cp_chan hops version cp_version proof ph app
  | MChanAck port chan cp_chan cp_version proof ph app => h_chan_ack e s port chan cp_chan cp_version proof ph app
  | MChanConfirm port chan proof ph app => h_chan_confirm e s port chan proof ph app
  | MChanCloseInit port chan app => h_chan_close_init e s port chan app
  | MChanCloseConfirm port chan proof ph app => h_chan_close_confirm e s port chan proof ph app
  | MTimeoutClose port chan => h_timeout_close s port chan
  end.

(** delivery of one message: all or nothing *)
Definition step (e : Env) (s : Chain) (m : Msg) : Chain :=
  match handle e s m with Ok s' => s' | Err _ => s end.

(** a history of one chain: at each delivery the environment may be different (clients get
    updated, frozen, expire; proofs are whatever the relayer submits) *)
Fixpoint run (s : Chain) (tr : list (Env * Msg)) : Chain :=
  match tr with
  | [] => s
  | (e, m) :: tr' => run (step e s m) tr'
  end.
