(** Facts about version negotiation (03-connection/types/version.go), for all lists
    (duplicates, empty feature sets, empty lists). *)
From IBC Require Import Lib.Bytes Lib.BytesFacts Lib.CorrLib Handshake.Version.

Arguments allow_nil : simpl never.

Lemma list_eqb_bytes_eq (a b : list bytes) : list_eqb bytes_eqb a b = true <-> a = b.
Proof.
  revert b; induction a as [|x a IH]; intros [|y b]; cbn; split; intro H; try congruence; try discriminate.
  - apply andb_true_iff in H as [H1 H2]. apply bytes_eqb_eq in H1. apply IH in H2. congruence.
  - inversion H; subst. apply andb_true_iff; split; [apply bytes_eqb_refl | apply IH; reflexivity].
Qed.

Lemma version_eqb_eq a b : version_eqb a b = true <-> a = b.
Proof.
  unfold version_eqb. rewrite andb_true_iff, bytes_eqb_eq, list_eqb_bytes_eq.
  destruct a, b; cbn; split; [intros [-> ->]; reflexivity | intro H; inversion H; auto].
Qed.

Lemma contains_str_In l x : contains_str l x = true <-> In x l.
Proof.
  unfold contains_str. rewrite existsb_exists. split.
  - intros [y [Hin Heq]]. apply bytes_eqb_eq in Heq. subst; exact Hin.
  - intro Hin. exists x; split; [exact Hin | apply bytes_eqb_refl].
Qed.

Lemma contains_str_false l x : contains_str l x = false <-> ~ In x l.
Proof.
  rewrite <- contains_str_In. destruct (contains_str l x); split; intro H; congruence.
Qed.

(** the table in the code has no identifier that allows an empty feature set *)
Lemma allow_nil_false id : allow_nil id = false.
Proof.
  unfold allow_nil, allow_nil_table; cbn [lookup_bool]. destruct (bytes_eqb id _); reflexivity.
Qed.

(** FindSupportedVersion returns the FIRST entry with that identifier *)
Lemma find_supported_spec id sup s :
  find_supported id sup = Some s <->
  exists l1 l2, sup = l1 ++ s :: l2 /\ v_id s = id /\ Forall (fun x => v_id x <> id) l1.
Proof.
  induction sup as [|a sup IH]; cbn.
  - split; [discriminate | intros (l1 & l2 & H & _); destruct l1; discriminate].
  - destruct (bytes_eqb id (v_id a)) eqn:E.
    + apply bytes_eqb_eq in E. split.
      * intro H; inversion H; subst. exists [], sup. repeat split; auto.
      * intros (l1 & l2 & H & Hid & Hall). destruct l1 as [|b l1]; cbn in H; inversion H; subst; auto.
        inversion Hall; subst. congruence.
    + apply bytes_eqb_neq in E. rewrite IH. split.
      * intros (l1 & l2 & -> & Hid & Hall). exists (a :: l1), l2. repeat split; auto.
      * intros (l1 & l2 & H & Hid & Hall). destruct l1 as [|b l1]; cbn in H; inversion H; subst.
        -- congruence.
        -- inversion Hall; subst. exists l1, l2; auto.
Qed.

Lemma find_supported_none id sup :
  find_supported id sup = None <-> Forall (fun x => v_id x <> id) sup.
Proof.
  induction sup as [|a sup IH]; cbn.
  - split; auto.
  - destruct (bytes_eqb id (v_id a)) eqn:E.
    + apply bytes_eqb_eq in E. split; [discriminate | intro H; inversion H; subst; congruence].
    + apply bytes_eqb_neq in E. rewrite IH. split; intro H.
      * constructor; auto.
      * inversion H; auto.
Qed.

Lemma find_supported_In id sup s : find_supported id sup = Some s -> In s sup /\ v_id s = id.
Proof.
  intro H. apply find_supported_spec in H as (l1 & l2 & -> & Hid & _).
  split; [apply in_or_app; right; left; reflexivity | exact Hid].
Qed.

(** GetFeatureSetIntersection = filter over the source list: source order, source multiplicity *)
Lemma feature_intersection_filter src cp :
  feature_intersection src cp = filter (fun f => contains_str cp f) src.
Proof. reflexivity. Qed.

Lemma feature_intersection_In src cp f :
  In f (feature_intersection src cp) <-> In f src /\ In f cp.
Proof. unfold feature_intersection. rewrite filter_In, contains_str_In. tauto. Qed.

Lemma feature_intersection_NoDup src cp : NoDup src -> NoDup (feature_intersection src cp).
Proof. apply NoDup_filter. Qed.

Lemma feature_intersection_nil_l cp : feature_intersection [] cp = [].
Proof. reflexivity. Qed.

Lemma feature_intersection_nil_r src : feature_intersection src [] = [].
Proof. induction src; cbn; auto. Qed.

Lemma length_zero_iff {A} (l : list A) : Nat.eqb (List.length l) 0 = true <-> l = [].
Proof. destruct l; cbn; split; intro H; congruence. Qed.

(** VerifyProposedVersion *)
Lemma verify_proposed_spec v p :
  verify_proposed v p = true <->
  v_id p = v_id v /\ (v_feats p <> [] \/ allow_nil (v_id p) = true) /\ incl (v_feats p) (v_feats v).
Proof.
  unfold verify_proposed.
  destruct (bytes_eqb (v_id p) (v_id v)) eqn:E; cbn.
  - apply bytes_eqb_eq in E.
    destruct (Nat.eqb (List.length (v_feats p)) 0) eqn:L; cbn.
    + apply length_zero_iff in L. destruct (allow_nil (v_id p)) eqn:A; cbn.
      * rewrite forallb_forall. split.
        -- intro H. repeat split; auto. intros f Hf. apply contains_str_In. auto.
        -- intros (_ & _ & H) f Hf. apply contains_str_In. auto.
      * split; [discriminate | intros (_ & [H | H] & _); congruence].
    + assert (Hne : v_feats p <> []) by (intro H; apply length_zero_iff in H; congruence).
      rewrite forallb_forall. split.
      * intro H. repeat split; auto. intros f Hf. apply contains_str_In. auto.
      * intros (_ & _ & H) f Hf. apply contains_str_In. auto.
  - apply bytes_eqb_neq in E. split; [discriminate | intros (H & _); congruence].
Qed.

(** IsSupportedVersion: the FIRST supported entry with the proposed identifier must contain every
    proposed feature, and the proposed feature list must be non-empty unless allowed *)
Lemma is_supported_spec sup p :
  is_supported sup p = true <->
  exists s, find_supported (v_id p) sup = Some s /\
            (v_feats p <> [] \/ allow_nil (v_id p) = true) /\ incl (v_feats p) (v_feats s).
Proof.
  unfold is_supported. destruct (find_supported (v_id p) sup) as [s|] eqn:F.
  - rewrite verify_proposed_spec. split.
    + intros (_ & H1 & H2). exists s; auto.
    + intros (s' & H & H1 & H2). inversion H; subst. apply find_supported_In in F as [_ F]. auto.
  - split; [discriminate | intros (s & H & _); discriminate].
Qed.

Lemma is_supported_nil p : is_supported [] p = false.
Proof. reflexivity. Qed.

(** PickVersion.  An entry [s] of the supported list is acceptable iff the FIRST counterparty entry
    with the same identifier gives a non-empty feature intersection (or empty is allowed). *)
Definition acceptable (s : Version) (cp : list Version) : Prop :=
  exists c, find_supported (v_id s) cp = Some c /\
            (feature_intersection (v_feats s) (v_feats c) <> [] \/ allow_nil (v_id s) = true).

Lemma pick_version_spec sup cp v :
  pick_version sup cp = Some v <->
  exists l1 s l2 c,
    sup = l1 ++ s :: l2 /\
    find_supported (v_id s) cp = Some c /\
    v = mkV (v_id s) (feature_intersection (v_feats s) (v_feats c)) /\
    (v_feats v <> [] \/ allow_nil (v_id s) = true) /\
    Forall (fun x => ~ acceptable x cp) l1.
Proof.
  induction sup as [|a sup IH]; cbn.
  - split; [discriminate | intros (l1 & s & l2 & c & H & _); destruct l1; discriminate].
  - destruct (find_supported (v_id a) cp) as [c|] eqn:F.
    + destruct (Nat.eqb (List.length (feature_intersection (v_feats a) (v_feats c))) 0) eqn:L; cbn.
      * apply length_zero_iff in L.
        destruct (allow_nil (v_id a)) eqn:A; cbn.
        -- split.
           ++ intro H; inversion H; subst. exists [], a, sup, c. cbn. repeat split; auto.
           ++ intros (l1 & s & l2 & c' & H & F' & -> & Hne & Hall).
              destruct l1 as [|b l1]; cbn in H; inversion H; subst.
              ** rewrite F in F'. inversion F'; subst. reflexivity.
              ** inversion Hall; subst. exfalso. apply H2. exists c. split; auto.
        -- rewrite IH. split.
           ++ intros (l1 & s & l2 & c' & -> & F' & -> & Hne & Hall).
              exists (a :: l1), s, l2, c'. repeat split; auto. constructor; auto.
              intros (c2 & F2 & [H | H]); rewrite F in F2; inversion F2; subst; congruence.
           ++ intros (l1 & s & l2 & c' & H & F' & -> & Hne & Hall).
              destruct l1 as [|b l1]; cbn in H; inversion H; subst.
              ** rewrite F in F'. inversion F'; subst. cbn in Hne. destruct Hne; congruence.
              ** inversion Hall; subst. exists l1, s, l2, c'. repeat split; auto.
      * assert (Hne : feature_intersection (v_feats a) (v_feats c) <> [])
          by (intro H; apply length_zero_iff in H; congruence).
        split.
        -- intro H; inversion H; subst. exists [], a, sup, c. cbn. repeat split; auto.
        -- intros (l1 & s & l2 & c' & H & F' & -> & Hne' & Hall).
           destruct l1 as [|b l1]; cbn in H; inversion H; subst.
           ++ rewrite F in F'. inversion F'; subst. reflexivity.
           ++ inversion Hall; subst. exfalso. apply H2. exists c. split; auto.
    + rewrite IH. split.
      * intros (l1 & s & l2 & c' & -> & F' & -> & Hne & Hall).
        exists (a :: l1), s, l2, c'. repeat split; auto. constructor; auto.
        intros (c2 & F2 & _). rewrite F in F2. discriminate.
      * intros (l1 & s & l2 & c' & H & F' & -> & Hne & Hall).
        destruct l1 as [|b l1]; cbn in H; inversion H; subst.
        -- rewrite F in F'. discriminate.
        -- inversion Hall; subst. exists l1, s, l2, c'. repeat split; auto.
Qed.

Lemma pick_version_none sup cp :
  pick_version sup cp = None <-> Forall (fun x => ~ acceptable x cp) sup.
Proof.
  induction sup as [|a sup IH]; cbn.
  - split; auto.
  - destruct (find_supported (v_id a) cp) as [c|] eqn:F.
    + destruct (Nat.eqb (List.length (feature_intersection (v_feats a) (v_feats c))) 0) eqn:L; cbn.
      * apply length_zero_iff in L. destruct (allow_nil (v_id a)) eqn:A; cbn.
        -- split; [discriminate|]. intro H; inversion H; subst. exfalso. apply H2. exists c; auto.
        -- rewrite IH. split; intro H.
           ++ constructor; auto. intros (c2 & F2 & [H1 | H1]); rewrite F in F2; inversion F2; subst; congruence.
           ++ inversion H; auto.
      * split; [discriminate|]. intro H; inversion H; subst. exfalso. apply H2. exists c. split; auto.
        left. intro H0. apply length_zero_iff in H0. congruence.
    + rewrite IH. split; intro H.
      * constructor; auto. intros (c2 & F2 & _). rewrite F in F2. discriminate.
      * inversion H; auto.
Qed.

(** The contract in the property text: the picked version's identifier occurs in both lists, its
    features are exactly the intersection (as a set: f is picked iff both sides list it; as a list:
    the supported entry's features filtered, in that order), and the feature list is non-empty. *)
Theorem pick_version_contract sup cp v :
  pick_version sup cp = Some v ->
  exists s c,
    In s sup /\ In c cp /\ v_id s = v_id v /\ v_id c = v_id v /\
    find_supported (v_id v) cp = Some c /\
    v_feats v = filter (fun f => contains_str (v_feats c) f) (v_feats s) /\
    (forall f, In f (v_feats v) <-> In f (v_feats s) /\ In f (v_feats c)) /\
    v_feats v <> [].
Proof.
  intro H. apply pick_version_spec in H as (l1 & s & l2 & c & -> & F & -> & Hne & _).
  exists s, c. cbn in *.
  pose proof (find_supported_In _ _ _ F) as [Hc Hid].
  split; [apply in_or_app; right; left; reflexivity|].
  split; [exact Hc|]. split; [reflexivity|]. split; [exact Hid|]. split; [exact F|].
  split; [reflexivity|]. split; [intro f; apply feature_intersection_In|].
  destruct Hne as [Hne | Hne]; [exact Hne | rewrite allow_nil_false in Hne; discriminate].
Qed.

(** the counterparty always accepts what was picked from its own list (this is ConnOpenAck's
    IsSupportedVersion check when the counterparty list is the INIT end's version list) *)
Theorem pick_version_supported_by_counterparty sup cp v :
  pick_version sup cp = Some v -> is_supported cp v = true.
Proof.
  intro H. apply pick_version_spec in H as (l1 & s & l2 & c & -> & F & -> & Hne & _).
  apply is_supported_spec. cbn in *. exists c. repeat split; auto.
  intros f Hf. apply feature_intersection_In in Hf. tauto.
Qed.

(** ... and so does the picking side, provided its own list has no duplicate identifier *)
Theorem pick_version_supported_by_self sup cp v :
  NoDup (map v_id sup) -> pick_version sup cp = Some v -> is_supported sup v = true.
Proof.
  intros Hnd H. apply pick_version_spec in H as (l1 & s & l2 & c & -> & F & -> & Hne & _).
  apply is_supported_spec. cbn in *. exists s. repeat split; auto.
  - apply find_supported_spec. exists l1, l2. repeat split; auto.
    rewrite map_app in Hnd. cbn in Hnd. apply NoDup_remove_2 in Hnd.
    apply Forall_forall. intros x Hx Heq. apply Hnd. apply in_or_app. left.
    rewrite <- Heq. apply in_map. exact Hx.
  - intros f Hf. apply feature_intersection_In in Hf. tauto.
Qed.

(** with a duplicated identifier in the picking side's own list the picked version can be one that
    IsSupportedVersion(own list, picked) rejects.  (GetCompatibleVersions() is the only list the
    handlers ever pass as [sup], and it has one entry, so this is not reachable through ConnOpenTry.) *)
Theorem pick_version_supported_by_self_refuted :
  exists sup cp v, pick_version sup cp = Some v /\ is_supported sup v = false.
Proof.
  exists [mkV (B "1") [B "A"]; mkV (B "1") [B "B"]], [mkV (B "1") [B "B"]], (mkV (B "1") [B "B"]).
  vm_compute. split; reflexivity.
Qed.

(** the negotiated version is a single version supported by the default list *)
Lemma pick_from_compatible cp v :
  pick_version compatible_versions cp = Some v ->
  v_id v = B "1" /\ v_feats v <> [] /\ incl (v_feats v) [order_ordered; order_unordered] /\
  is_supported compatible_versions v = true /\ is_supported cp v = true.
Proof.
  intro H. pose proof (pick_version_supported_by_counterparty _ _ _ H) as Hc.
  assert (Hs : is_supported compatible_versions v = true).
  { apply (pick_version_supported_by_self _ cp); auto. cbn. constructor; [intros []|constructor]. }
  apply pick_version_contract in H as (s & c & Hs1 & _ & Hid & _ & _ & _ & Hf & Hne).
  destruct Hs1 as [<- | []]. cbn in *.
  split; [symmetry; exact Hid|]. split; [exact Hne|]. split; [|split; assumption].
  intros f Hf'. apply Hf in Hf'. destruct Hf' as [Hf' _]. exact Hf'.
Qed.

(** ValidateVersion *)
Lemma validate_version_spec v :
  validate_version v = true <->
  all_space (v_id v) = false /\ (List.length (v_feats v) <= 100)%nat /\
  forall f, In f (v_feats v) -> all_space f = false.
Proof.
  unfold validate_version, max_features_length.
  rewrite !andb_true_iff, negb_true_iff, Nat.leb_le, forallb_forall.
  split; intros ((H1 & H2) & H3) || intros (H1 & H2 & H3); repeat split; auto;
    intros f Hf; specialize (H3 f Hf); try (apply negb_true_iff in H3; exact H3);
    apply negb_true_iff; exact H3.
Qed.

Lemma all_space_nil : all_space [] = true.
Proof. reflexivity. Qed.

(** a version that passes validation has a non-empty identifier and no empty feature string *)
Lemma validate_version_nonempty v :
  validate_version v = true -> v_id v <> [] /\ ~ In [] (v_feats v).
Proof.
  intro H. apply validate_version_spec in H as (H1 & _ & H3). split.
  - intro E. rewrite E in H1. discriminate.
  - intro Hin. apply H3 in Hin. discriminate.
Qed.
