(** Two-chain world, second invariant (C13): every TRYOPEN or OPEN channel end sits on an OPEN connection
    that has exactly one negotiated version, and that version lists the channel's ordering.
    For ends opened by ChanOpenAck the code does not re-check this; it follows from the counterparty's
    ChanOpenTry check and from both connection ends carrying the same version list. *)
From IBC Require Import Lib.Bytes Lib.BytesFacts Lib.Dec Lib.DecFacts Lib.CorrLib Core.Height
     Handshake.Version Handshake.VersionFacts Handshake.Types Handshake.TypesFacts Handshake.Model
     Handshake.ModelFacts Handshake.ModelThms Handshake.World Handshake.WorldFacts.
Local Open Scope N_scope.

Definition sup (s : Chain) (e : ChanEnd) : Prop :=
  exists hop rest conn v,
    ch_hops e = hop :: rest /\ get_conn s hop = Some conn /\ c_state conn = COpen /\
    c_versions conn = [v] /\ In (order_string (ch_order e)) (v_feats v).

Definition settled_sup (s : Chain) : Prop :=
  forall p c e, get_chan s p c = Some e -> ch_state e = STryOpen \/ ch_state e = SOpen -> sup s e.

Definition hist_sup (hist : list (N * Chain)) : Prop :=
  forall ph snap, In (ph, snap) hist -> settled_sup snap.

(** the oracle never accepts anything for the localhost client (it is not a tendermint client) *)
Definition no_localhost_verify (e : Env) : Prop :=
  forall client h prefix k v proof, e_verify e client h prefix k v proof = true -> client <> localhost_client.

Definition no_localhost_client (x : WChain) : Prop :=
  alookup bytes_eqb localhost_client (w_clients x) = None.

Lemma env_of_no_localhost me cp : no_localhost_client me -> no_localhost_verify (env_of me cp).
Proof.
  intros Hn client h prefix k v proof H Heq. subst client. unfold env_of in H; cbn [e_verify] in H. unfold w_verify in H.
  unfold no_localhost_client in Hn.
  rewrite Hn in H. discriminate.
Qed.

Lemma sup_step e s m x : WF s -> sup s x -> sup (step e s m) x.
Proof.
  intros W (hop & rest & conn & v & H1 & H2 & H3 & H4 & H5).
  exists hop, rest, conn, v. repeat split; auto. apply open_conn_persists; auto.
Qed.

Lemma settled_sup_step e me cp hist m :
  honest e hist -> no_localhost_verify e -> hist_le hist cp -> hist_sup hist -> WF me ->
  conn_evidence me cp ->
  settled_sup me -> settled_sup (step e me m).
Proof.
  intros Hon Hnl HL HS W EN S p c e' Ha' Hs'.
  destruct (get_chan me p c) as [e0|] eqn:Ha.
  - destruct (chan_state_eqb (ch_state e0) (ch_state e')) eqn:Eq.
    + (* same state: same end *)
      apply chan_state_eqb_eq in Eq.
      pose proof (step_chan_rel e me m p c W) as R. rewrite Ha, Ha' in R. cbn in R.
      destruct R as (_ & _ & _ & _ & _ & R). rewrite <- (R Eq) in *.
      apply sup_step; auto. apply (S p c e0 Ha). exact Hs'.
    + (* a transition into TRYOPEN or OPEN from another stored state: only -> OPEN is possible *)
      apply chan_state_eqb_false in Eq.
      pose proof (step_chan_rel e me m p c W) as R. rewrite Ha, Ha' in R. cbn in R.
      destruct R as (Ro & Rp & Rh & Rs & _).
      assert (Ho : ch_state e' = SOpen).
      { destruct Hs' as [Hs' | Hs']; auto. rewrite Hs' in *. destruct (ch_state e0); cbn in Rs; congruence. }
      assert (Hn : forall x, get_chan me p c = Some x -> ch_state x <> SOpen).
      { intros x Hx. rewrite Ha in Hx. injection Hx as <-. congruence. }
      destruct (chan_open_requires_proof e me m p c e' W Ha' Ho Hn)
        as (e0' & hop & rest & conn & proof & ph & app & G0 & Gh & Gc & Gco & Go & Gp & Ghh & Gv).
      rewrite Ha in G0. injection G0 as <-.
      destruct Gv as [(Gi & _ & Gv) | (Gt & _ & _ & _ & _)].
      * (* Ack: two-chain argument *)
        pose proof (Hnl _ _ _ _ _ _ Gv) as Hcl.
        destruct (Hon _ _ _ _ _ _ Gv) as (ph' & snap & Hin & Hsnap). apply snap_get_chan in Hsnap.
        destruct (HS _ _ Hin _ _ _ Hsnap (or_introl eq_refl)) as (hopB & restB & connB & v & B1 & B2 & B3 & B4 & B5).
        cbn in B1, B5. injection B1 as <- <-.
        destruct (HL _ _ Hin) as [L _]. destruct (L _ _ B2) as (connB' & K1 & (_ & _ & _ & _ & K5 & K6 & _)).
        rewrite B3 in K6. destruct (K6 eq_refl) as [_ K7].
        destruct (EN hop conn Gc Gco Hcl) as (cB & E1 & _ & _ & _ & _ & E6 & _).
        rewrite K1 in E1. injection E1 as <-.
        exists hop, rest, conn, v. repeat split; auto.
        -- congruence.
        -- apply open_conn_persists; auto.
        -- congruence.
      * (* Confirm: the TRYOPEN end was already supported *)
        destruct (S p c e0 Ha (or_introl Gt)) as (hop' & rest' & conn' & v & H1 & H2 & H3 & H4 & H5).
        exists hop', rest', conn', v. repeat split; auto; try congruence. apply open_conn_persists; auto.
  - (* created: only TRYOPEN by ChanOpenTry, which checks the connection *)
    pose proof (step_chan_rel e me m p c W) as R. rewrite Ha, Ha' in R. cbn in R.
    assert (Ht : ch_state e' = STryOpen) by (destruct R as [R | R], Hs' as [Hs' | Hs']; congruence).
    assert (Hn : forall x, get_chan me p c = Some x -> ch_state x <> STryOpen) by (intros x Hx; congruence).
    destruct (chan_tryopen_requires_proof e me m p c e' W Ha' Ht Hn)
      as (hop & conn & v & st & version & proof & ph & _ & Hh & Hc & Hco & Hv & Hf & _).
    exists hop, [], conn, v. repeat split; auto. apply open_conn_persists; auto.
Qed.

(** * strengthened invariant *)
Definition good2 (x : WChain) : Prop :=
  settled_sup (w_st x) /\ hist_sup (w_hist x) /\ no_localhost_client x.

Definition Inv2 (w : World) : Prop := Inv w /\ good2 (wa w) /\ good2 (wb w).

Lemma settled_sup_same s s' : same_maps s s' -> settled_sup s -> settled_sup s'.
Proof.
  intros H S p c e Ha Hs. destruct (same_maps_get _ _ H) as [Gc Gh]. rewrite Gh in Ha.
  destruct (S p c e Ha Hs) as (hop & rest & conn & v & K). exists hop, rest, conn, v. rewrite Gc. exact K.
Qed.

Lemma good2_commit x s' : good2 x -> settled_sup s' -> good2 (commit x s').
Proof.
  intros (S & H & N) S'. split; [exact S'|]. split; [|exact N].
  intros ph snap [Hin | Hin]; [inversion Hin; subst; exact S' | eapply H; eauto].
Qed.

Lemma inv2_block me cp s' :
  good me cp -> good cp me -> good2 me -> good2 cp ->
  (same_maps (w_st me) s' \/ exists m, s' = step (env_of me cp) (w_st me) m) ->
  good2 (commit me s').
Proof.
  intros G1 G2 (S & H & N) (Sc & Hc & Nc) [Hs | (m & ->)]; apply good2_commit; try (split; [|split]; assumption).
  - eapply settled_sup_same; eauto.
  - destruct G1 as (W & _ & _ & EN). destruct G2 as (_ & HLcp & _ & _).
    eapply settled_sup_step; eauto using env_of_honest, env_of_no_localhost.
Qed.

Lemma no_localhost_set_client x id cl cl0 :
  no_localhost_client x -> alookup bytes_eqb id (w_clients x) = Some cl0 ->
  no_localhost_client (set_client x id cl).
Proof.
  unfold no_localhost_client, set_client; cbn [w_clients]. intros N F.
  rewrite (alookup_aset_neq bytes_eqb bytes_eqb_eq); auto. intro E. subst id. congruence.
Qed.

Lemma no_localhost_expire x : no_localhost_client x -> no_localhost_client (expire_clients x).
Proof.
  unfold no_localhost_client, expire_clients; cbn [w_clients].
  generalize (w_clients x). intro l. induction l as [|[k v] l IH]; cbn [map alookup fst snd]; auto.
  destruct (bytes_eqb localhost_client k); [discriminate | auto].
Qed.

Lemma good2_clients x cls :
  good2 x -> alookup bytes_eqb localhost_client cls = None ->
  good2 (mkWChain (w_st x) (w_h x) (w_rev x) (w_hist x) cls).
Proof. intros (S & H & _) N. split; [|split]; assumption. Qed.

Theorem wstep_inv2 w op n :
  Inv2 w -> wcounters_below w (S n) -> Inv2 (fst (wstep w op)) /\ wcounters_below (fst (wstep w op)) n.
Proof.
  intros (I & Ga2 & Gb2) B. destruct (wstep_inv w op n I B) as [I' B'].
  split; [|exact B']. split; [exact I'|]. destruct I as [Ga Gb].
  assert (Key : forall (c : bool) s',
             (same_maps (w_st (me_of w c)) s' \/ exists m, s' = step (env_of (me_of w c) (cp_of w c)) (w_st (me_of w c)) m) ->
             good2 (wa (put w c (commit (me_of w c) s') (cp_of w c))) /\
             good2 (wb (put w c (commit (me_of w c) s') (cp_of w c)))).
  { intros c s' Hs. destruct c; cbn [me_of cp_of put wa wb] in *.
    - split; [exact Ga2 | eapply inv2_block; eauto].
    - split; [eapply inv2_block; eauto | exact Gb2]. }
  destruct op; cbn [wstep fst].
  - apply Key. right. eexists. reflexivity.
  - destruct c; cbn [me_of cp_of put] in *.
    + assert (Ka : good2 (commit (wa w) (w_st (wa w))))
        by (eapply (inv2_block (wa w) (wb w)); eauto using same_maps_refl).
      destruct (alookup bytes_eqb client (w_clients (wb w))) as [cl|] eqn:F; [destruct (cl_active cl)|];
        cbn [fst put wa wb]; (split; [exact Ka|]).
      * apply good2_commit; [|apply Gb2]. destruct Gb2 as (S & H & N). split; [exact S|]. split; [exact H|].
        eapply no_localhost_set_client; eauto.
      * apply good2_commit; [exact Gb2 | apply Gb2].
      * apply good2_commit; [exact Gb2 | apply Gb2].
    + assert (Kb : good2 (commit (wb w) (w_st (wb w))))
        by (eapply (inv2_block (wb w) (wa w)); eauto using same_maps_refl).
      destruct (alookup bytes_eqb client (w_clients (wa w))) as [cl|] eqn:F; [destruct (cl_active cl)|];
        cbn [fst put wa wb]; (split; [|exact Kb]).
      * apply good2_commit; [|apply Ga2]. destruct Ga2 as (S & H & N). split; [exact S|]. split; [exact H|].
        eapply no_localhost_set_client; eauto.
      * apply good2_commit; [exact Ga2 | apply Ga2].
      * apply good2_commit; [exact Ga2 | apply Ga2].
  - apply Key. left. apply same_maps_refl.
  - cbn [wa wb]. split.
    + assert (K : good2 (commit (wa w) (w_st (wa w)))) by (apply good2_commit; [exact Ga2 | apply Ga2]).
      destruct K as (S & H & N). split; [exact S|]. split; [exact H|]. apply no_localhost_expire; exact N.
    + assert (K : good2 (commit (wb w) (w_st (wb w)))) by (apply good2_commit; [exact Gb2 | apply Gb2]).
      destruct K as (S & H & N). split; [exact S|]. split; [exact H|]. apply no_localhost_expire; exact N.
  - apply Key.
    destruct (w_send (env_of (me_of w c) (cp_of w c)) (w_st (me_of w c)) port chan) as [s'|] eqn:H; cbn [res_state].
    + left. eapply w_send_same; eauto.
    + left. apply same_maps_refl.
  - apply Key.
    destruct (w_timeout_step (env_of (me_of w c) (cp_of w c)) (w_st (me_of w c)) port chan) as [-> | ->].
    + left. apply same_maps_refl.
    + right. eexists. reflexivity.
Qed.

Theorem wrun_inv2 ops : forall w, Inv2 w -> wcounters_below w (List.length ops) -> Inv2 (wrun w ops).
Proof.
  induction ops as [|op ops IH]; intros w I B; cbn [wrun]; auto.
  destruct (wstep_inv2 w op _ I B) as [I' B']. apply IH; auto.
Qed.

(** C13, last clause, two-chain form: an OPEN (or TRYOPEN) channel end sits on an OPEN connection with
    exactly one negotiated version that lists the channel's ordering *)
Theorem open_channel_connection_supports_ordering w p c e :
  Inv2 w -> get_chan (w_st (wa w)) p c = Some e -> ch_state e = STryOpen \/ ch_state e = SOpen ->
  exists hop rest conn v,
    ch_hops e = hop :: rest /\ get_conn (w_st (wa w)) hop = Some conn /\ c_state conn = COpen /\
    c_versions conn = [v] /\ In (order_string (ch_order e)) (v_feats v).
Proof. intros (_ & (S & _) & _) Ha Hs. exact (S p c e Ha Hs). Qed.

Lemma inv2_sym w : Inv2 w -> Inv2 (mkWorld (wb w) (wa w)).
Proof. intros (I & A & B0). split; [apply inv_sym; exact I|]. split; assumption. Qed.

Theorem genesis_inv2 ha reva cla hb revb clb :
  alookup bytes_eqb localhost_client cla = None -> alookup bytes_eqb localhost_client clb = None ->
  Inv2 (init_world genesis_chain ha reva cla genesis_chain hb revb clb).
Proof.
  intros Na Nb. split; [apply genesis_inv|].
  assert (S0 : settled_sup genesis_chain) by (intros p c e Ha; unfold get_chan in Ha; cbn in Ha; discriminate).
  assert (G : forall h rev cl cph, alookup bytes_eqb localhost_client cl = None ->
                                   good2 (init_chain genesis_chain h rev cl cph)).
  { intros h rev cl cph N. unfold good2, init_chain; cbn [w_st w_hist]. split; [exact S0|]. split.
    - intros ph snap Hin. apply in_map_iff in Hin as (x & Hx & _). inversion Hx; subst. exact S0.
    - unfold no_localhost_client; cbn [w_clients].
      revert N. induction cl as [|[k v] l IH]; cbn [map alookup fst snd]; auto.
      destruct (bytes_eqb localhost_client k); [discriminate | auto]. }
  split; apply G; assumption.
Qed.

(** the single-chain counterexample (dishonest oracle) *)
Definition any_env : Env := mkEnv (fun _ => true) (fun _ => true) (fun _ => true) (fun _ _ _ _ _ _ => true).
Definition refute_trace : list Msg :=
  [ MConnInit (B "07-tendermint-0") (B "07-tendermint-0") [] (B "ibc") None 0;
    MChanInit (B "mock") SInit OOrdered (B "mock") [] [B "connection-0"] (B "v") (Some (B "v"));
    MConnAck (B "connection-0") (B "connection-5") (mkV (B "1") [order_unordered]) (PGarbage [" "%char]) (mkH 1 1);
    MChanAck (B "mock") (B "channel-0") (B "channel-7") (B "v") (PGarbage [" "%char]) (mkH 1 1) true ].

Lemma single_chain_support_refuted :
  exists (e : Env) (tr : list Msg) (p c hop : bytes) (ch : ChanEnd) (conn : ConnEnd) (v : Version),
    let s := fold_left (step e) tr genesis_chain in
    get_chan s p c = Some ch /\ ch_state ch = SOpen /\ ch_hops ch = [hop] /\ get_conn s hop = Some conn /\
    c_versions conn = [v] /\ ~ In (order_string (ch_order ch)) (v_feats v).
Proof.
  exists any_env, refute_trace, (B "mock"), (B "channel-0"), (B "connection-0").
  eexists. eexists. eexists. cbv zeta.
  split; [vm_compute; reflexivity|]. split; [reflexivity|]. split; [reflexivity|].
  split; [vm_compute; reflexivity|]. split; [reflexivity|].
  cbn. intros [H | []]. discriminate H.
Qed.
