(** Two chains with honest light clients of each other.
    Each chain runs the handlers of Model.v; the membership oracle of a chain is computed from the
    other chain's recorded snapshots: a proof verifies iff the client is active, has a consensus state
    at the claimed height, the proof bytes are the counterparty node's proof for exactly that height
    and key, and the counterparty's state committed at that height holds exactly the expected value.

    Block/height bookkeeping follows CometBFT and testing/chain.go: the state after block h is proven
    at proof height h+1 (header h+1 carries the app hash after block h).  Every operation on a chain
    commits one block there. *)
From IBC Require Import Lib.Bytes Lib.Dec Lib.CorrLib Core.Height
     Handshake.Version Handshake.Types Handshake.Model.
Local Open Scope N_scope.

Record Client := mkClient { cl_active : bool; cl_cons : list N }.

Record WChain := mkWChain {
  w_st : Chain;                          (* current IBC state *)
  w_h : N;                               (* last committed block height *)
  w_rev : N;                             (* revision number of the chain id *)
  w_hist : list (N * Chain);             (* proof height -> committed state, newest first *)
  w_clients : list (bytes * Client) }.   (* tendermint clients of the other chain *)

Record World := mkWorld { wa : WChain; wb : WChain }.

(** false = chain A (index 0), true = chain B *)
Definition me_of (w : World) (c : bool) : WChain := if c then wb w else wa w.
Definition cp_of (w : World) (c : bool) : WChain := if c then wa w else wb w.
Definition put (w : World) (c : bool) (me cp : WChain) : World :=
  if c then mkWorld cp me else mkWorld me cp.

Definition snap_get (s : Chain) (k : Key) : option Value :=
  match k with
  | KConn id => match get_conn s id with Some e => Some (VConn e) | None => None end
  | KChan p c => match get_chan s p c with Some e => Some (VChan e) | None => None end
  end.

Definition mock_port : bytes := B "mock".

(** 02-client keeper VerifyMembership -> 07-tendermint VerifyMembership with honest validators *)
Definition w_verify (me cp : WChain) (client : bytes) (h : Height) (prefix : bytes) (k : Key) (v : Value)
           (proof : Proof) : bool :=
  match alookup bytes_eqb client (w_clients me) with
  | None => false
  | Some cl =>
      cl_active cl && (rev h =? w_rev cp) && existsb (N.eqb (ht h)) (cl_cons cl) &&
      bytes_eqb prefix own_prefix &&
      match proof with
      | PHonest h' k' =>
          height_eqb h' h && key_eqb k' k &&
          match alookup N.eqb (ht h) (w_hist cp) with
          | Some snap => match snap_get snap k with Some v' => value_eqb v' v | None => false end
          | None => false
          end
      | PGarbage _ => false
      end
  end.

Definition env_of (me cp : WChain) : Env :=
  mkEnv (fun cl => bytes_eqb cl localhost_client ||
                   match alookup bytes_eqb cl (w_clients me) with Some c => cl_active c | None => false end)
        (fun cl => match alookup bytes_eqb cl (w_clients me) with Some _ => true | None => false end)
        (fun p => bytes_eqb p mock_port)
        (w_verify me cp).

(** commit one block whose resulting IBC state is [s'] *)
Definition commit (x : WChain) (s' : Chain) : WChain :=
  mkWChain s' (w_h x + 1) (w_rev x) ((w_h x + 2, s') :: w_hist x) (w_clients x).

Inductive WOp :=
| WDeliver (c : bool) (m : Msg)
| WUpdate (c : bool) (client : bytes)      (* testing.Endpoint.UpdateClient: block on cp, header of it, MsgUpdateClient *)
| WCommit (c : bool)
| WExpire                                   (* time jumps past the trusting period; a block on both chains *)
| WSend (c : bool) (port chan : bytes)      (* SendPacket by the application, one block *)
| WTimeout (c : bool) (port chan : bytes).  (* MsgTimeout for the pending packet of an ORDERED channel *)

Definition set_client (x : WChain) (id : bytes) (cl : Client) : WChain :=
  mkWChain (w_st x) (w_h x) (w_rev x) (w_hist x) (aset bytes_eqb id cl (w_clients x)).

Definition expire_clients (x : WChain) : WChain :=
  mkWChain (w_st x) (w_h x) (w_rev x) (w_hist x)
           (map (fun p => (fst p, mkClient false (cl_cons (snd p)))) (w_clients x)).

(** 04-channel/keeper/packet.go SendPacket, the guards that depend on the handshake state *)
Definition w_send (e : Env) (s : Chain) (port chan : bytes) : Res :=
  match get_chan s port chan with
  | None => Err 1201
  | Some channel =>
      if negb (chan_state_eqb (ch_state channel) SOpen) then Err 1202 else
      match alookup key2_eqb (port, chan) (seqs s) with
      | None => Err 1203
      | Some (sq, rq, aq) =>
          match ch_hops channel with
          | [] => Err 1299
          | hop :: _ =>
              match get_conn s hop with
              | None => Err 1204
              | Some connection =>
                  if e_active e (c_client connection)
                  then Ok (set_seqs s port chan ((sq + 1) mod two64, rq, aq))
                  else Err 1205
              end
          end
      end
  end.

(** MsgTimeout with a valid proof for the pending packet: the client must be active for the proof
    to verify; then timeoutExecuted *)
Definition w_timeout (e : Env) (s : Chain) (port chan : bytes) : Res :=
  match get_chan s port chan with
  | None => Err 1301
  | Some channel =>
      match ch_hops channel with
      | [] => Err 1399
      | hop :: _ =>
          match get_conn s hop with
          | None => Err 1302
          | Some connection =>
              if e_active e (c_client connection) then handle e s (MTimeoutClose port chan) else Err 1303
          end
      end
  end.

Definition res_state (s : Chain) (r : Res) : Chain := match r with Ok s' => s' | Err _ => s end.
Definition res_ok (r : Res) : bool := match r with Ok _ => true | Err _ => false end.

(** one operation: the new world and whether the operation succeeded *)
Definition wstep (w : World) (op : WOp) : World * bool :=
  match op with
  | WDeliver c m =>
      let me := me_of w c in let cp := cp_of w c in
      let r := handle (env_of me cp) (w_st me) m in
      (put w c (commit me (res_state (w_st me) r)) cp, res_ok r)
  | WUpdate c client =>
      let me := me_of w c in
      let cp := commit (cp_of w c) (w_st (cp_of w c)) in
      match alookup bytes_eqb client (w_clients me) with
      | Some cl =>
          if cl_active cl
          then (put w c (commit (set_client me client (mkClient true (cl_cons cl ++ [w_h cp]))) (w_st me)) cp, true)
          else (put w c (commit me (w_st me)) cp, false)
      | None => (put w c (commit me (w_st me)) cp, false)
      end
  | WCommit c =>
      let me := me_of w c in
      (put w c (commit me (w_st me)) (cp_of w c), true)
  | WExpire =>
      (mkWorld (expire_clients (commit (wa w) (w_st (wa w)))) (expire_clients (commit (wb w) (w_st (wb w)))), true)
  | WSend c port chan =>
      let me := me_of w c in let cp := cp_of w c in
      let r := w_send (env_of me cp) (w_st me) port chan in
      (put w c (commit me (res_state (w_st me) r)) cp, res_ok r)
  | WTimeout c port chan =>
      let me := me_of w c in let cp := cp_of w c in
      let r := w_timeout (env_of me cp) (w_st me) port chan in
      (put w c (commit me (res_state (w_st me) r)) cp, res_ok r)
  end.

Fixpoint wrun (w : World) (ops : list WOp) : World :=
  match ops with
  | [] => w
  | op :: ops' => wrun (fst (wstep w op)) ops'
  end.

(** the world right after the harness set-up: nothing but the sentinel localhost connection; the
    state proven at every consensus height the clients already hold is that initial state *)
Definition init_chain (st : Chain) (h rev : N) (clients : list (bytes * list N)) (cp_heights : list N) : WChain :=
  mkWChain st h rev (map (fun p => (p, st)) (h + 1 :: cp_heights))
           (map (fun c => (fst c, mkClient true (snd c))) clients).

Definition all_heights (clients : list (bytes * list N)) : list N := flat_map snd clients.

Definition init_world (sta : Chain) (ha reva : N) (cla : list (bytes * list N))
           (stb : Chain) (hb revb : N) (clb : list (bytes * list N)) : World :=
  mkWorld (init_chain sta ha reva cla (all_heights clb)) (init_chain stb hb revb clb (all_heights cla)).
