(** Two-chain agreement (C12 iii, C13): an invariant of the World of World.v, over all operation
    lists: every OPEN channel end has, on the other chain, the end it names, which names it back and
    carries the same ordering and version; every OPEN connection end (other than the localhost
    sentinel) has, on the other chain, the end it names, with the mirrored client pair, our
    identifier, our prefix, the same single version list and the same delay period. *)
From IBC Require Import Lib.Bytes Lib.BytesFacts Lib.Dec Lib.DecFacts Lib.CorrLib Core.Height
     Handshake.Version Handshake.VersionFacts Handshake.Types Handshake.TypesFacts Handshake.Model
     Handshake.ModelFacts Handshake.ModelThms Handshake.World.
Local Open Scope N_scope.

(** * evidence predicates *)
Definition chan_evidence (me cp : Chain) : Prop :=
  forall p c eA, get_chan me p c = Some eA -> ch_state eA = SOpen ->
  exists eB hop rest conn,
    get_chan cp (ch_cp_port eA) (ch_cp_chan eA) = Some eB /\
    ch_cp_port eB = p /\ ch_cp_chan eB = c /\ ch_order eB = ch_order eA /\ ch_version eB = ch_version eA /\
    chan_settled (ch_state eB) = true /\
    ch_hops eA = hop :: rest /\ get_conn me hop = Some conn /\ c_state conn = COpen /\
    ch_hops eB = [c_cp_conn conn].

Definition conn_evidence (me cp : Chain) : Prop :=
  forall id cA, get_conn me id = Some cA -> c_state cA = COpen -> c_client cA <> localhost_client ->
  exists cB,
    get_conn cp (c_cp_conn cA) = Some cB /\
    c_client cB = c_cp_client cA /\ c_cp_client cB = c_client cA /\ c_cp_conn cB = id /\
    c_cp_prefix cB = own_prefix /\ c_versions cB = c_versions cA /\ c_delay cB = c_delay cA /\
    conn_settled (c_state cB) = true.

(** every recorded snapshot is a past state: the current state is ahead of it *)
Definition hist_le (hist : list (N * Chain)) (s : Chain) : Prop :=
  forall ph snap, In (ph, snap) hist -> chain_le snap s.

(** an oracle is honest w.r.t. the counterparty's recorded snapshots *)
Definition honest (e : Env) (hist : list (N * Chain)) : Prop :=
  forall client h prefix k v proof,
    e_verify e client h prefix k v proof = true ->
    exists ph snap, In (ph, snap) hist /\ snap_get snap k = Some v.

Lemma env_of_honest me cp : honest (env_of me cp) (w_hist cp).
Proof.
  intros client h prefix k v proof H. cbn in H. unfold w_verify in H.
  destruct (alookup bytes_eqb client (w_clients me)) as [cl|]; [|discriminate].
  destruct proof as [h' k'|]; [|rewrite andb_false_r in H; discriminate].
  rewrite !andb_true_iff in H. destruct H as (_ & (_ & Hk) & Hs).
  destruct (alookup N.eqb (ht h) (w_hist cp)) as [snap|] eqn:L; [|discriminate].
  destruct (snap_get snap k) as [v'|] eqn:G; [|discriminate].
  apply value_eqb_eq in Hs. subst v'.
  exists (ht h), snap. split; auto. apply (alookup_In N.eqb N.eqb_eq) in L. exact L.
Qed.

Lemma snap_get_chan snap p c v : snap_get snap (KChan p c) = Some (VChan v) -> get_chan snap p c = Some v.
Proof. cbn. destruct (get_chan snap p c); intro H; inversion H; reflexivity. Qed.
Lemma snap_get_conn snap id v : snap_get snap (KConn id) = Some (VConn v) -> get_conn snap id = Some v.
Proof. cbn. destruct (get_conn snap id); intro H; inversion H; reflexivity. Qed.

(** * monotonicity in the counterparty *)
Lemma st_leb_settled a b : st_leb a b = true -> chan_settled a = true -> chan_settled b = true.
Proof. destruct a, b; cbn; congruence. Qed.
Lemma cst_leb_settled a b : cst_leb a b = true -> conn_settled a = true -> conn_settled b = true.
Proof. destruct a, b; cbn; congruence. Qed.

Lemma chan_evidence_mono me cp cp' : chain_le cp cp' -> chan_evidence me cp -> chan_evidence me cp'.
Proof.
  intros [_ L] E p c eA Ha Hs.
  destruct (E p c eA Ha Hs) as (eB & hop & rest & conn & H1 & H2 & H3 & H4 & H5 & H6 & H7 & H8 & H9 & H10).
  destruct (L _ _ _ H1) as (eB' & K1 & (K2 & K3 & K4 & K5 & K6 & _)).
  destruct (K6 H6) as [K7 K8].
  exists eB', hop, rest, conn. repeat split; auto; try congruence.
  eapply st_leb_settled; eauto.
Qed.

Lemma conn_evidence_mono me cp cp' : chain_le cp cp' -> conn_evidence me cp -> conn_evidence me cp'.
Proof.
  intros [L _] E id cA Ha Hs Hl.
  destruct (E id cA Ha Hs Hl) as (cB & H1 & H2 & H3 & H4 & H5 & H6 & H7 & H8).
  destruct (L _ _ H1) as (cB' & K1 & (K2 & K3 & K4 & K5 & K6 & K7 & _)).
  destruct (K7 H8) as [K8 K9].
  exists cB'. repeat split; auto; try congruence.
  eapply cst_leb_settled; eauto.
Qed.

(** * one delivery on [me] keeps the evidence, given an honest oracle *)
Lemma open_conn_persists e s m id a :
  WF s -> get_conn s id = Some a -> c_state a = COpen -> get_conn (step e s m) id = Some a.
Proof.
  intros W Ha Hs. pose proof (step_conn_rel e s m id W) as R. rewrite Ha in R.
  destruct (get_conn (step e s m) id) as [b|]; cbn in R; [|contradiction].
  destruct R as (_ & _ & _ & _ & L & _ & E). rewrite Hs in *.
  assert (c_state b = COpen) by (destruct (c_state b); cbn in L; congruence).
  f_equal. symmetry. apply E. congruence.
Qed.

Lemma chan_evidence_step e me cp hist m :
  honest e hist -> hist_le hist cp -> WF me ->
  chan_evidence me cp -> chan_evidence (step e me m) cp.
Proof.
  intros Hon HL W E p c eA' Ha' Hs'.
  destruct (get_chan me p c) as [eA|] eqn:Ha.
  - destruct (chan_state_eqb (ch_state eA) SOpen) eqn:Eo.
    + apply chan_state_eqb_eq in Eo.
      pose proof (step_chan_rel e me m p c W) as R. rewrite Ha, Ha' in R. cbn in R.
      destruct R as (_ & _ & _ & _ & _ & R). assert (eA = eA') by (apply R; congruence). subst eA'.
      destruct (E p c eA Ha Eo) as (eB & hop & rest & conn & H1 & H2 & H3 & H4 & H5 & H6 & H7 & H8 & H9 & H10).
      exists eB, hop, rest, conn. repeat split; auto. apply open_conn_persists; auto.
    + apply chan_state_eqb_false in Eo.
      assert (Hn : forall e0, get_chan me p c = Some e0 -> ch_state e0 <> SOpen)
        by (intros e0 He0; rewrite Ha in He0; injection He0 as <-; exact Eo).
      destruct (chan_open_requires_proof e me m p c eA' W Ha' Hs' Hn)
        as (e0 & hop & rest & conn & proof & ph & app & G0 & Gh & Gc & Gco & Go & Gp & Ghh & Gv).
      assert (exists st, (st = STryOpen \/ st = SOpen) /\
                e_verify e (c_client conn) ph (c_cp_prefix conn) (KChan (ch_cp_port eA') (ch_cp_chan eA'))
                  (VChan (mkChan st (ch_order eA') p c [c_cp_conn conn] (ch_version eA'))) proof = true) as (st & Hst & Hv).
      { destruct Gv as [(_ & _ & Gv) | (_ & _ & _ & _ & Gv)]; eauto. }
      destruct (Hon _ _ _ _ _ _ Hv) as (ph' & snap & Hin & Hsnap).
      apply snap_get_chan in Hsnap.
      destruct (HL _ _ Hin) as [_ L]. destruct (L _ _ _ Hsnap) as (eB & K1 & (K2 & K3 & K4 & K5 & K6 & _)).
      cbn in K2, K3, K4, K5, K6.
      assert (Hset : chan_settled st = true) by (destruct Hst; subst; reflexivity).
      destruct (K6 Hset) as [K7 K8].
      exists eB, hop, rest, conn. repeat split; auto; try congruence.
      * eapply st_leb_settled; eauto.
      * apply open_conn_persists; auto.
  - assert (Hn : forall e0, get_chan me p c = Some e0 -> ch_state e0 <> SOpen)
      by (intros e0 He0; rewrite Ha in He0; discriminate).
    destruct (chan_open_requires_proof e me m p c eA' W Ha' Hs' Hn)
      as (e0 & hop & rest & conn & proof & ph & app & G0 & _). rewrite Ha in G0. discriminate.
Qed.

Lemma conn_evidence_step e me cp hist m :
  honest e hist -> hist_le hist cp -> WF me ->
  conn_evidence me cp -> conn_evidence (step e me m) cp.
Proof.
  intros Hon HL W E id cA' Ha' Hs' Hl'.
  assert (Hcase : (exists cA, get_conn me id = Some cA /\ c_state cA = COpen) \/
                  (forall c0, get_conn me id = Some c0 -> c_state c0 <> COpen)).
  { destruct (get_conn me id) as [cA|] eqn:Ha.
    - destruct (conn_state_eqb (c_state cA) COpen) eqn:Eo.
      + left. apply conn_state_eqb_eq in Eo. eauto.
      + right. intros c0 Hc0 Hs0. injection Hc0 as <-. rewrite Hs0 in Eo. discriminate.
    - right. intros c0 Hc0. discriminate. }
  destruct Hcase as [(cA & Ha & Eo) | Hn].
  - rewrite (open_conn_persists e me m id cA W Ha Eo) in Ha'. injection Ha' as <-.
    exact (E id cA Ha Eo Hl').
  - destruct (conn_open_requires_proof e me m id cA' W Ha' Hs' Hn)
      as (c0 & proof & ph & G0 & G1 & G2 & G3 & G4 & Gv).
    assert (exists st, (st = CTryOpen \/ st = COpen) /\
              e_verify e (c_client cA') ph (c_cp_prefix cA') (KConn (c_cp_conn cA'))
                (VConn (mkConn st (c_cp_client cA') (c_client cA') id own_prefix (c_versions cA') (c_delay cA'))) proof = true)
      as (st & Hst & Hv).
    { destruct Gv as [(_ & v & _ & _ & _ & Gv) | (_ & _ & _ & _ & Gv)]; eauto. }
    destruct (Hon _ _ _ _ _ _ Hv) as (ph' & snap & Hin & Hsnap).
    apply snap_get_conn in Hsnap.
    destruct (HL _ _ Hin) as [L _]. destruct (L _ _ Hsnap) as (cB & K1 & (K2 & K3 & K4 & K5 & K6 & K7 & _)).
    cbn in K2, K3, K4, K5, K6, K7.
    assert (Hset : conn_settled st = true) by (destruct Hst; subst; reflexivity).
    destruct (K7 Hset) as [K8 K9].
    exists cB. repeat split; auto; try congruence.
    eapply cst_leb_settled; eauto.
Qed.

(** * the invariant *)
Definition good (me cp : WChain) : Prop :=
  WF (w_st me) /\ hist_le (w_hist me) (w_st me) /\
  chan_evidence (w_st me) (w_st cp) /\ conn_evidence (w_st me) (w_st cp).

Definition Inv (w : World) : Prop := good (wa w) (wb w) /\ good (wb w) (wa w).

Lemma hist_le_commit x s' : hist_le (w_hist x) (w_st x) -> chain_le (w_st x) s' -> hist_le (w_hist (commit x s')) s'.
Proof.
  intros H L ph snap [Hin | Hin]; cbn in *.
  - inversion Hin; subst. apply chain_le_refl.
  - eapply chain_le_trans; eauto.
Qed.

(** a block on [me] whose state moves by one model step with an honest oracle *)
Lemma good_step_me e me cp m :
  honest e (w_hist cp) -> no_wrap (w_st me) -> good me cp -> hist_le (w_hist cp) (w_st cp) ->
  good (commit me (step e (w_st me) m)) cp.
Proof.
  intros Hon Nw (W & HL & EC & EN) HLcp. unfold good; cbn [w_st commit].
  split; [apply step_WF; auto|]. split; [apply hist_le_commit; auto using step_chain_le|].
  split; [eapply chan_evidence_step; eauto | eapply conn_evidence_step; eauto].
Qed.

Lemma good_step_cp e me cp m :
  WF (w_st me) -> good cp me -> good cp (commit me (step e (w_st me) m)).
Proof.
  intros W (W' & HL & EC & EN). unfold good; cbn [w_st commit].
  split; [exact W'|]. split; [exact HL|]. split.
  - eapply chan_evidence_mono; eauto using step_chain_le.
  - eapply conn_evidence_mono; eauto using step_chain_le.
Qed.

(** a block that leaves connections, channels and counters as they are *)
Definition same_maps (s s' : Chain) : Prop :=
  conns s' = conns s /\ chans s' = chans s /\ next_conn s' = next_conn s /\ next_chan s' = next_chan s.

Lemma same_maps_refl s : same_maps s s.
Proof. repeat split. Qed.

Lemma same_maps_get s s' : same_maps s s' ->
  (forall id, get_conn s' id = get_conn s id) /\ (forall p c, get_chan s' p c = get_chan s p c).
Proof. intros (H1 & H2 & _). unfold get_conn, get_chan. rewrite H1, H2. auto. Qed.

Lemma same_maps_chain_le s s' : same_maps s s' -> chain_le s s' /\ chain_le s' s.
Proof.
  intro H. destruct (same_maps_get _ _ H) as [Gc Gh]. split; split; intros.
  - rewrite Gc. eauto using conn_le_refl.
  - rewrite Gh. eauto using chan_le_refl.
  - rewrite <- Gc. eauto using conn_le_refl.
  - rewrite <- Gh. eauto using chan_le_refl.
Qed.

Lemma good_same_me me cp s' : same_maps (w_st me) s' -> good me cp -> good (commit me s') cp.
Proof.
  intros H (W & HL & EC & EN). destruct (same_maps_get _ _ H) as [Gc Gh].
  destruct (same_maps_chain_le _ _ H) as [L1 L2]. destruct H as (_ & _ & N1 & N2).
  unfold good; cbn [w_st commit]. split; [split|split; [|split]].
  - intros n Hn. rewrite Gc. apply W. lia.
  - intros n p Hn. rewrite Gh. apply W. lia.
  - apply hist_le_commit; auto.
  - intros p c eA Ha Hs. rewrite Gh in Ha.
    destruct (EC p c eA Ha Hs) as (eB & hop & rest & conn & K). exists eB, hop, rest, conn.
    rewrite Gc. exact K.
  - intros id cA Ha. rewrite Gc in Ha. apply EN; auto.
Qed.

Lemma good_same_cp me cp s' : same_maps (w_st me) s' -> good cp me -> good cp (commit me s').
Proof.
  intros H (W & HL & EC & EN). destruct (same_maps_chain_le _ _ H) as [L1 L2].
  unfold good; cbn [w_st commit].
  split; [exact W|]. split; [exact HL|]. split.
  - eapply chan_evidence_mono; eauto.
  - eapply conn_evidence_mono; eauto.
Qed.

(** clients do not enter [good] *)
Lemma good_clients_me me cp cls :
  good me cp -> good (mkWChain (w_st me) (w_h me) (w_rev me) (w_hist me) cls) cp.
Proof. intro H; exact H. Qed.
Lemma good_clients_cp me cp cls :
  good cp me -> good cp (mkWChain (w_st me) (w_h me) (w_rev me) (w_hist me) cls).
Proof. intro H; exact H. Qed.

Lemma w_send_same e s p c s' : w_send e s p c = Ok s' -> same_maps s s'.
Proof.
  unfold w_send. intro H. inv_ok H.
  try match type of H with (if ?b then _ else _) = _ => destruct b; [|discriminate] end.
  injection H as <-. repeat split.
Qed.

Lemma w_timeout_step e s p c :
  res_state s (w_timeout e s p c) = s \/ res_state s (w_timeout e s p c) = step e s (MTimeoutClose p c).
Proof.
  unfold w_timeout.
  destruct (get_chan s p c) as [ch|]; [|left; reflexivity].
  destruct (ch_hops ch); [left; reflexivity|].
  destruct (get_conn s b); [|left; reflexivity].
  destruct (e_active e (c_client c0)); [|left; reflexivity].
  right. reflexivity.
Qed.

Definition wcounters_below (w : World) (n : nat) : Prop :=
  counters_below (w_st (wa w)) n /\ counters_below (w_st (wb w)) n.

Lemma res_state_step e s m : res_state s (handle e s m) = step e s m.
Proof. reflexivity. Qed.

Lemma counters_below_same s s' n : same_maps s s' -> counters_below s (S n) -> counters_below s' n.
Proof. intros (_ & _ & N1 & N2) [B1 B2]. unfold counters_below. rewrite N1, N2. lia. Qed.

Lemma counters_below_weaken s n : counters_below s (S n) -> counters_below s n.
Proof. intros [B1 B2]. unfold counters_below. lia. Qed.

Lemma inv_sym w : Inv w -> Inv (mkWorld (wb w) (wa w)).
Proof. intros [H1 H2]. split; assumption. Qed.

(** one step on chain [me] (with counterparty [cp]) where the new state [s'] is either unchanged
    maps or one model step under the world's own oracle *)
Lemma inv_block me cp s' n :
  good me cp -> good cp me ->
  counters_below (w_st me) (S n) ->
  (same_maps (w_st me) s' \/ exists m, s' = step (env_of me cp) (w_st me) m) ->
  good (commit me s') cp /\ good cp (commit me s') /\ counters_below s' n.
Proof.
  intros G1 G2 B [Hs | (m & ->)].
  - split; [apply good_same_me; auto | split; [apply good_same_cp; auto | eapply counters_below_same; eauto]].
  - destruct (counters_below_step (env_of me cp) (w_st me) m _ B) as [Nw B'].
    split; [|split; [|exact B']].
    + apply good_step_me; auto using env_of_honest. apply G2.
    + apply good_step_cp; auto. apply G1.
Qed.

Theorem wstep_inv w op n :
  Inv w -> wcounters_below w (S n) -> Inv (fst (wstep w op)) /\ wcounters_below (fst (wstep w op)) n.
Proof.
  intros [Ga Gb] [Ba Bb].
  assert (Key : forall (c : bool) s',
             (same_maps (w_st (me_of w c)) s' \/ exists m, s' = step (env_of (me_of w c) (cp_of w c)) (w_st (me_of w c)) m) ->
             Inv (put w c (commit (me_of w c) s') (cp_of w c)) /\
             wcounters_below (put w c (commit (me_of w c) s') (cp_of w c)) n).
  { intros c s' Hs. destruct c; cbn [me_of cp_of put] in *.
    - destruct (inv_block (wb w) (wa w) s' n Gb Ga Bb Hs) as (K1 & K2 & K3).
      split; [split; assumption|]. split; cbn; auto using counters_below_weaken.
    - destruct (inv_block (wa w) (wb w) s' n Ga Gb Ba Hs) as (K1 & K2 & K3).
      split; [split; assumption|]. split; cbn; auto using counters_below_weaken. }
  destruct op; cbn [wstep fst].
  - (* deliver *) apply Key. right. exists m. reflexivity.
  - (* update: a block on cp, then a block on me with a changed client table *)
    destruct c; cbn [me_of cp_of put] in *.
    + destruct (inv_block (wa w) (wb w) (w_st (wa w)) n Ga Gb Ba (or_introl (same_maps_refl _))) as (K1 & K2 & K3).
      set (cp := commit (wa w) (w_st (wa w))) in *.
      assert (Bb' : counters_below (w_st (wb w)) (S n)) by exact Bb.
      destruct (alookup bytes_eqb client (w_clients (wb w))) as [cl|]; [destruct (cl_active cl)|]; cbn [fst put].
      * destruct (inv_block (set_client (wb w) client (mkClient true (cl_cons cl ++ [w_h cp]))) cp (w_st (wb w)) n K2 K1 Bb'
                            (or_introl (same_maps_refl _))) as (J1 & J2 & J3).
        split; [split; assumption|]. split; cbn; auto.
      * destruct (inv_block (wb w) cp (w_st (wb w)) n K2 K1 Bb' (or_introl (same_maps_refl _))) as (J1 & J2 & J3).
        split; [split; assumption|]. split; cbn; auto.
      * destruct (inv_block (wb w) cp (w_st (wb w)) n K2 K1 Bb' (or_introl (same_maps_refl _))) as (J1 & J2 & J3).
        split; [split; assumption|]. split; cbn; auto.
    + destruct (inv_block (wb w) (wa w) (w_st (wb w)) n Gb Ga Bb (or_introl (same_maps_refl _))) as (K1 & K2 & K3).
      set (cp := commit (wb w) (w_st (wb w))) in *.
      assert (Ba' : counters_below (w_st (wa w)) (S n)) by exact Ba.
      destruct (alookup bytes_eqb client (w_clients (wa w))) as [cl|]; [destruct (cl_active cl)|]; cbn [fst put].
      * destruct (inv_block (set_client (wa w) client (mkClient true (cl_cons cl ++ [w_h cp]))) cp (w_st (wa w)) n K2 K1 Ba'
                            (or_introl (same_maps_refl _))) as (J1 & J2 & J3).
        split; [split; assumption|]. split; cbn; auto.
      * destruct (inv_block (wa w) cp (w_st (wa w)) n K2 K1 Ba' (or_introl (same_maps_refl _))) as (J1 & J2 & J3).
        split; [split; assumption|]. split; cbn; auto.
      * destruct (inv_block (wa w) cp (w_st (wa w)) n K2 K1 Ba' (or_introl (same_maps_refl _))) as (J1 & J2 & J3).
        split; [split; assumption|]. split; cbn; auto.
  - (* commit *) apply Key. left. apply same_maps_refl.
  - (* expire *)
    destruct (inv_block (wa w) (wb w) (w_st (wa w)) n Ga Gb Ba (or_introl (same_maps_refl _))) as (K1 & K2 & K3).
    destruct (inv_block (wb w) (commit (wa w) (w_st (wa w))) (w_st (wb w)) n K2 K1 Bb (or_introl (same_maps_refl _))) as (J1 & J2 & J3).
    split; [split; assumption|]. split; cbn; auto.
  - (* send *)
    apply Key.
    destruct (w_send (env_of (me_of w c) (cp_of w c)) (w_st (me_of w c)) port chan) as [s'|] eqn:H; cbn [res_state].
    + left. eapply w_send_same; eauto.
    + left. apply same_maps_refl.
  - (* timeout *)
    apply Key.
    destruct (w_timeout_step (env_of (me_of w c) (cp_of w c)) (w_st (me_of w c)) port chan) as [-> | ->].
    + left. apply same_maps_refl.
    + right. eauto.
Qed.

Theorem wrun_inv ops : forall w, Inv w -> wcounters_below w (List.length ops) -> Inv (wrun w ops).
Proof.
  induction ops as [|op ops IH]; intros w I B; cbn [wrun]; auto.
  destruct (wstep_inv w op _ I B) as [I' B']. apply IH; auto.
Qed.

(** * agreement theorems *)

(** C12 (iii), one direction (the other is the same statement on the swapped world): an OPEN end on A
    has on B the end it names; that end names it back, has the same ordering and version, is past INIT,
    and its single hop is the counterparty connection of A's (OPEN) connection *)
Theorem open_channel_has_matching_counterparty w p c eA :
  Inv w -> get_chan (w_st (wa w)) p c = Some eA -> ch_state eA = SOpen ->
  exists eB, get_chan (w_st (wb w)) (ch_cp_port eA) (ch_cp_chan eA) = Some eB /\
             ch_cp_port eB = p /\ ch_cp_chan eB = c /\ ch_order eB = ch_order eA /\ ch_version eB = ch_version eA /\
             (ch_state eB = STryOpen \/ ch_state eB = SOpen \/ ch_state eB = SClosed) /\
             exists hop rest conn, ch_hops eA = hop :: rest /\ get_conn (w_st (wa w)) hop = Some conn /\
                                   c_state conn = COpen /\ ch_hops eB = [c_cp_conn conn].
Proof.
  intros [(_ & _ & EC & _) _] Ha Hs.
  destruct (EC p c eA Ha Hs) as (eB & hop & rest & conn & H1 & H2 & H3 & H4 & H5 & H6 & H7 & H8 & H9 & H10).
  exists eB. repeat split; auto.
  - destruct (ch_state eB); cbn in H6; try discriminate; auto.
  - exists hop, rest, conn. auto.
Qed.

(** whenever both ends are OPEN and one names the other, they agree on ordering and version and the
    other names the first *)
Theorem channels_both_open_agree w pA cA eA pB cB eB :
  Inv w ->
  get_chan (w_st (wa w)) pA cA = Some eA -> ch_state eA = SOpen ->
  get_chan (w_st (wb w)) pB cB = Some eB -> ch_state eB = SOpen ->
  (ch_cp_port eA = pB /\ ch_cp_chan eA = cB) \/ (ch_cp_port eB = pA /\ ch_cp_chan eB = cA) ->
  ch_order eA = ch_order eB /\ ch_version eA = ch_version eB /\
  ch_cp_port eA = pB /\ ch_cp_chan eA = cB /\ ch_cp_port eB = pA /\ ch_cp_chan eB = cA.
Proof.
  intros I Ha Hsa Hb Hsb [[<- <-] | [<- <-]].
  - destruct (open_channel_has_matching_counterparty w pA cA eA I Ha Hsa) as (eB' & H1 & H2 & H3 & H4 & H5 & _).
    rewrite Hb in H1. injection H1 as <-. repeat split; congruence.
  - destruct (open_channel_has_matching_counterparty (mkWorld (wb w) (wa w)) _ _ eB (inv_sym w I) Hb Hsb)
      as (eA' & H1 & H2 & H3 & H4 & H5 & _). cbn in H1.
    rewrite Ha in H1. injection H1 as <-. repeat split; congruence.
Qed.

(** C13: an OPEN connection end (not the localhost sentinel) has on the other chain the end it names,
    with the mirrored client pair, our identifier and prefix, the same versions and delay period *)
Theorem open_connection_has_matching_counterparty w id cA :
  Inv w -> get_conn (w_st (wa w)) id = Some cA -> c_state cA = COpen -> c_client cA <> localhost_client ->
  exists cB, get_conn (w_st (wb w)) (c_cp_conn cA) = Some cB /\
             c_client cB = c_cp_client cA /\ c_cp_client cB = c_client cA /\ c_cp_conn cB = id /\
             c_cp_prefix cB = own_prefix /\ c_versions cB = c_versions cA /\ c_delay cB = c_delay cA /\
             (c_state cB = CTryOpen \/ c_state cB = COpen).
Proof.
  intros [(_ & _ & _ & EN) _] Ha Hs Hl.
  destruct (EN id cA Ha Hs Hl) as (cB & H1 & H2 & H3 & H4 & H5 & H6 & H7 & H8).
  exists cB. repeat split; auto. destruct (c_state cB); cbn in H8; try discriminate; auto.
Qed.

(** * the genesis world of the harness satisfies the invariant *)
Definition localhost_end : ConnEnd :=
  mkConn COpen localhost_client localhost_client localhost_conn own_prefix compatible_versions 0.
Definition genesis_chain : Chain := mkChain [(localhost_conn, localhost_end)] [] [] 0 0.

Lemma genesis_get_conn id a : get_conn genesis_chain id = Some a -> id = localhost_conn /\ a = localhost_end.
Proof.
  unfold get_conn, genesis_chain; cbn [conns alookup]. destruct (bytes_eqb id localhost_conn) eqn:E; [|discriminate].
  apply bytes_eqb_eq in E. intro H; inversion H; auto.
Qed.

Lemma genesis_WF : WF genesis_chain.
Proof.
  split.
  - intros n _. destruct (get_conn genesis_chain (conn_id n)) eqn:E; auto.
    apply genesis_get_conn in E as [E _]. exfalso. eapply conn_id_not_localhost; eauto.
  - intros n p _. reflexivity.
Qed.

Theorem genesis_inv ha reva cla hb revb clb :
  Inv (init_world genesis_chain ha reva cla genesis_chain hb revb clb).
Proof.
  assert (G : forall h rev cl cph cp, good (init_chain genesis_chain h rev cl cph) cp).
  { intros. unfold good, init_chain; cbn [w_st w_hist]. split; [apply genesis_WF|]. split; [|split].
    - intros ph snap Hin. apply in_map_iff in Hin as (x & Hx & _). inversion Hx; subst. apply chain_le_refl.
    - intros p c eA Ha. unfold get_chan in Ha; cbn in Ha. discriminate.
    - intros id cA Ha Hs Hl. apply genesis_get_conn in Ha as [_ ->]. exfalso. apply Hl. reflexivity. }
  split; apply G.
Qed.
