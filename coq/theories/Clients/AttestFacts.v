(** Facts about the attestations client model (C28). *)
From IBC Require Import Lib.Bytes Lib.BytesFacts Lib.Dec Core.Height Clients.Localhost Clients.Attest.
Local Open Scope N_scope.

Lemma mem_in a l : mem a l = true <-> In a l.
Proof.
  induction l as [|x l IH]; simpl; [split; [discriminate|tauto]|].
  rewrite orb_true_iff, bytes_eqb_eq, IH. tauto.
Qed.

Lemma cons_get_set_same l h t : cons_get (cons_set l h t) h = Some t.
Proof.
  induction l as [|[h' t'] l IH]; simpl; [now rewrite N.eqb_refl|].
  destruct (h <? h') eqn:E1; simpl; [now rewrite N.eqb_refl|].
  destruct (h =? h') eqn:E2; simpl; [now rewrite N.eqb_refl|].
  rewrite N.eqb_sym, E2. exact IH.
Qed.

Lemma cons_get_set_other l h t h0 : h0 <> h -> cons_get (cons_set l h t) h0 = cons_get l h0.
Proof.
  intros Hne. assert ((h =? h0) = false) as Hb by (apply N.eqb_neq; congruence).
  induction l as [|[h' t'] l IH]; simpl; [now rewrite Hb|].
  destruct (h <? h') eqn:E1; simpl; [now rewrite Hb|].
  destruct (h =? h') eqn:E2; simpl.
  - apply N.eqb_eq in E2. subst h'. now rewrite Hb.
  - now rewrite IH.
Qed.

Section Facts.
  Variable H : bytes -> bytes.
  Variable recover : bytes -> bytes -> option bytes.
  Variable keccak : bytes -> bytes.
  Variable abi_decode_packet : bytes -> option (N * list (bytes * bytes)).
  Variable abi_decode_state : bytes -> option (N * N).

  Notation tagged_hash := (tagged_hash H).
  Notation check_sigs := (check_sigs recover).
  Notation verify_signatures := (verify_signatures H recover).
  Notation validate_basic := (validate_basic abi_decode_packet abi_decode_state).
  Notation verify_common := (verify_common H recover keccak abi_decode_packet).
  Notation step := (step H recover keccak abi_decode_packet abi_decode_state).
  Notation final := (final H recover keccak abi_decode_packet abi_decode_state).

  (** *** domain separation *)

  (** the tagged hash determines (tag, H data), or two different inputs of H with equal images are exhibited *)
  Lemma tagged_hash_inj t d t' d' :
    tagged_hash t d = tagged_hash t' d' ->
    (t = t' /\ H d = H d') \/ exists a b, a <> b /\ H a = H b.
  Proof.
    unfold Attest.tagged_hash. intros E.
    destruct (bytes_eq_dec (t :: H d) (t' :: H d')) as [Eq|Ne].
    - left. injection Eq. auto.
    - right. exists (t :: H d), (t' :: H d'). auto.
  Qed.

  (** ... and then the data itself, or a collision *)
  Lemma tagged_hash_inj_data t d t' d' :
    tagged_hash t d = tagged_hash t' d' ->
    (t = t' /\ d = d') \/ exists a b, a <> b /\ H a = H b.
  Proof.
    intros E. destruct (tagged_hash_inj _ _ _ _ E) as [[Et Ed]|C]; [|right; exact C].
    destruct (bytes_eq_dec d d') as [->|Ne]; [left; auto|right; eauto].
  Qed.

  (** state (0x01) and packet (0x02) attestations are not interchangeable: equal signing inputs exhibit a collision *)
  Lemma state_packet_not_interchangeable d d' :
    tagged_hash tag_state d = tagged_hash tag_packet d' -> exists a b, a <> b /\ H a = H b.
  Proof.
    intros E. destruct (tagged_hash_inj _ _ _ _ E) as [[Et _]|C]; [discriminate Et|exact C].
  Qed.

  (** *** signature verification = quorum of distinct configured attestors *)

  Definition signed_by (hash : bytes) (sg a : bytes) : Prop :=
    length sg = 65%nat /\ recover hash (normalize sg) = Some a.

  Lemma check_sigs_iff hash attestors seen sigs :
    check_sigs hash attestors seen sigs = true <->
    exists signers, Forall2 (signed_by hash) sigs signers /\ NoDup signers /\
                    forall a, In a signers -> In a attestors /\ ~ In a seen.
  Proof.
    revert seen; induction sigs as [|sg sigs IH]; intros seen; cbn [Attest.check_sigs].
    - split; [intros _|reflexivity]. exists []. split; [apply Forall2_nil|]. split; [apply NoDup_nil|]. intros a [].
    - destruct (length sg =? 65)%nat eqn:Hl; simpl negb; cbv iota.
      2:{ split; [discriminate|]. intros (signers & HF & _). inversion HF as [|? ? ? ? [Hlen _] _]; subst.
          apply Nat.eqb_neq in Hl. contradiction. }
      apply Nat.eqb_eq in Hl.
      destruct (recover hash (normalize sg)) as [a|] eqn:Hr.
      2:{ split; [discriminate|]. intros (signers & HF & _). inversion HF as [|? ? ? ? [_ Hrec] _]; subst. congruence. }
      destruct (mem a seen) eqn:Hseen.
      { split; [discriminate|]. intros (signers & HF & _ & Hin).
        inversion HF as [|? a' ? ? [_ Hrec] _]; subst. rewrite Hr in Hrec. injection Hrec as <-.
        apply mem_in in Hseen. destruct (Hin a (or_introl eq_refl)) as [_ Hn]. contradiction. }
      destruct (mem a attestors) eqn:Hatt; simpl negb; cbv iota.
      2:{ split; [discriminate|]. intros (signers & HF & _ & Hin).
          inversion HF as [|? a' ? ? [_ Hrec] _]; subst. rewrite Hr in Hrec. injection Hrec as <-.
          destruct (Hin a (or_introl eq_refl)) as [Hy _]. apply mem_in in Hy. congruence. }
      rewrite IH. apply mem_in in Hatt.
      assert (~ In a seen) as Hns by (intros Hc; apply mem_in in Hc; congruence).
      split.
      + intros (signers & HF & Hnd & Hin). exists (a :: signers). repeat split.
        * constructor; [split; assumption|exact HF].
        * constructor; [|exact Hnd]. intros Hc. destruct (Hin a Hc) as [_ Hn]. apply Hn. now left.
        * destruct H0 as [<-|Hi]; [assumption|]. apply (Hin a0 Hi).
        * destruct H0 as [<-|Hi]; [assumption|]. intros Hc. destruct (Hin a0 Hi) as [_ Hn]. apply Hn. now right.
      + intros (signers & HF & Hnd & Hin).
        inversion HF as [|? a' ? signers' [_ Hrec] HF']; subst. rewrite Hr in Hrec. injection Hrec as <-.
        inversion Hnd as [|? ? Hnotin Hnd']; subst.
        exists signers'. repeat split; auto.
        * apply (Hin a0). now right.
        * intros [<-|Hc]; [contradiction|]. destruct (Hin a0 (or_intror H0)) as [_ Hn]. contradiction.
  Qed.

  (** verifySignatures accepts iff there are at least [minsigs] (and at least one) signatures, each a
      65-byte signature recovering over the tagged hash of exactly [data], from pairwise distinct
      configured attestors *)
  Lemma verify_signatures_iff attestors minsigs data sigs tag :
    verify_signatures attestors minsigs data sigs tag = true <->
    sigs <> [] /\ minsigs <= N.of_nat (length sigs) /\
    exists signers, Forall2 (signed_by (tagged_hash tag data)) sigs signers /\ NoDup signers /\ incl signers attestors.
  Proof.
    unfold Attest.verify_signatures. destruct sigs as [|sg sigs].
    - split; [discriminate|]. intros [Hc _]. congruence.
    - destruct (N.of_nat (length (sg :: sigs)) <? minsigs) eqn:Hq.
      + split; [discriminate|]. intros (_ & Hle & _). apply N.ltb_lt in Hq. lia.
      + apply N.ltb_ge in Hq. rewrite check_sigs_iff. split.
        * intros (signers & HF & Hnd & Hin). repeat split; [discriminate|exact Hq|].
          exists signers. repeat split; auto. intros a Ha. apply (Hin a Ha).
        * intros (_ & _ & signers & HF & Hnd & Hincl). exists signers. repeat split; auto.
  Qed.

  Lemma forall2_length {A B} (R : A -> B -> Prop) l l' : Forall2 R l l' -> length l = length l'.
  Proof. induction 1; simpl; congruence. Qed.

  (** in particular the number of distinct attestors that signed is at least the quorum *)
  Lemma verify_signatures_quorum attestors minsigs data sigs tag :
    verify_signatures attestors minsigs data sigs tag = true ->
    exists signers, minsigs <= N.of_nat (length signers) /\ length signers = length sigs /\ NoDup signers /\
                    incl signers attestors /\ Forall2 (signed_by (tagged_hash tag data)) sigs signers.
  Proof.
    intros Hv. apply verify_signatures_iff in Hv as (_ & Hq & signers & HF & Hnd & Hincl).
    exists signers. pose proof (forall2_length _ _ _ HF) as Hl. repeat split; auto. rewrite <- Hl. exact Hq.
  Qed.

  Ltac break :=
    repeat match goal with
           | |- context [if ?c then _ else _] => destruct c eqn:?
           | |- context [match ?x with _ => _ end] => destruct x eqn:?
           end.

  (** *** failures change nothing; only updates change state *)

  Lemma step_fail st op : snd (step st op) <> Ok -> fst (step st op) = st.
  Proof.
    destruct op; cbn [Attest.step]; break; simpl; congruence.
  Qed.

  Lemma step_verify_pure st op :
    match op with AUpdate _ _ => True | _ => fst (step st op) = st end.
  Proof. destruct op; cbn [Attest.step]; try exact I; break; reflexivity. Qed.

  (** *** updates *)

  Lemma step_update_ok st data sigs st' :
    step st (AUpdate data sigs) = (st', Ok) ->
    at_frozen st = false /\
    verify_signatures (at_attestors st) (at_min st) data sigs tag_state = true /\
    exists h ts, abi_decode_state data = Some (h, ts) /\
      ((exists ts0, cons_get (at_cons st) h = Some ts0 /\ ts0 <> ts /\ st' = freeze st) \/
       ((cons_get (at_cons st) h = None \/ cons_get (at_cons st) h = Some ts) /\
        st' = mkAtt (at_attestors st) (at_min st) (N.max (at_latest st) h) false (cons_set (at_cons st) h ts))).
  Proof.
    cbn [Attest.step].
    destruct (negb (validate_basic data sigs)); [discriminate|].
    destruct (at_frozen st) eqn:Hf; [discriminate|].
    destruct (verify_signatures _ _ data sigs tag_state) eqn:Hv; [|discriminate]. simpl negb. cbv iota.
    destruct (abi_decode_state data) as [[h ts]|] eqn:Hd; [|discriminate].
    destruct (cons_get (at_cons st) h) as [ts0|] eqn:Hc.
    - destruct (ts0 =? ts) eqn:Ht; simpl negb; cbv iota.
      + apply N.eqb_eq in Ht. subst ts0. intros [= <-]. repeat split; auto. exists h, ts. split; auto.
      + apply N.eqb_neq in Ht. intros [= <-]. repeat split; auto. exists h, ts. split; auto. left. eauto.
    - intros [= <-]. repeat split; auto. exists h, ts. split; auto.
  Qed.

  (** a quorum-signed state attestation with a different timestamp for a stored height freezes the client *)
  Lemma conflicting_update_freezes st data sigs h ts ts0 :
    validate_basic data sigs = true -> at_frozen st = false ->
    verify_signatures (at_attestors st) (at_min st) data sigs tag_state = true ->
    abi_decode_state data = Some (h, ts) -> cons_get (at_cons st) h = Some ts0 -> ts0 <> ts ->
    step st (AUpdate data sigs) = (freeze st, Ok).
  Proof.
    intros Hvb Hf Hv Hd Hc Hne. cbn [Attest.step]. rewrite Hvb, Hf, Hv, Hd, Hc. simpl negb. cbv iota.
    apply N.eqb_neq in Hne. now rewrite Hne.
  Qed.

  (** *** membership / non-membership *)

  Lemma verify_common_some st height p path packets cp :
    verify_common st height p path = Some (packets, cp) ->
    rev height = 0 /\ (exists ts, cons_get (at_cons st) (ht height) = Some ts) /\
    exists data sigs key,
      p = AProofOk data sigs /\ path = PMerkle [key] /\ key <> [] /\ cp = keccak key /\
      verify_signatures (at_attestors st) (at_min st) data sigs tag_packet = true /\
      abi_decode_packet data = Some (ht height, packets) /\ packets <> [].
  Proof.
    unfold Attest.verify_common, cons_at.
    destruct (rev height =? 0) eqn:Hr; [|discriminate]. apply N.eqb_eq in Hr.
    destruct (cons_get (at_cons st) (ht height)) as [ts|] eqn:Hc; [|discriminate].
    destruct p as [|data sigs]; [discriminate|].
    destruct (verify_signatures _ _ data sigs tag_packet) eqn:Hv; [|discriminate]. simpl negb. cbv iota.
    destruct (abi_decode_packet data) as [[ah pk]|] eqn:Hd; [|discriminate].
    destruct (ah =? ht height) eqn:Hh; [|discriminate]. apply N.eqb_eq in Hh. subst ah. simpl negb. cbv iota.
    destruct pk as [|p0 pk]; [discriminate|].
    destruct path as [kp|]; [|discriminate]. destruct kp as [|key [|x kp]]; try discriminate.
    destruct (Attest.is_nil key) eqn:Hk; [discriminate|].
    intros [= <- <-]. repeat split; eauto.
    exists data, sigs, key. repeat split; auto; try discriminate. destruct key; [discriminate|congruence].
  Qed.

  Lemma step_membership_ok st height p path value st' :
    step st (AVerifyMembership height p path value) = (st', Ok) ->
    st' = st /\ at_frozen st = false /\ length value = 32%nat /\
    rev height = 0 /\ (exists ts, cons_get (at_cons st) (ht height) = Some ts) /\
    exists data sigs key packets,
      p = AProofOk data sigs /\ path = PMerkle [key] /\ key <> [] /\
      verify_signatures (at_attestors st) (at_min st) data sigs tag_packet = true /\
      abi_decode_packet data = Some (ht height, packets) /\
      In (keccak key, value) packets.
  Proof.
    cbn [Attest.step].
    destruct (at_frozen st) eqn:Hf; [discriminate|].
    destruct (path_empty path); [discriminate|].
    destruct (Attest.is_nil value); [discriminate|].
    destruct (verify_common st height p path) as [[packets cp]|] eqn:Hc; [|discriminate].
    destruct (length value =? 32)%nat eqn:Hl; [|discriminate]. apply Nat.eqb_eq in Hl. simpl negb. cbv iota.
    match goal with |- context [existsb ?f packets] => destruct (existsb f packets) eqn:He end; [|discriminate].
    intros [= <-].
    apply verify_common_some in Hc as (Hr & Hcs & data & sigs & key & -> & -> & Hk & -> & Hv & Hd & _).
    repeat split; auto. exists data, sigs, key, packets. repeat split; auto.
    apply existsb_exists in He as ([pp pc] & Hin & Hb). simpl in Hb.
    apply andb_true_iff in Hb as [Hb Hp]. apply andb_true_iff in Hb as [_ Hcm].
    apply bytes_eqb_eq in Hp, Hcm. subst. exact Hin.
  Qed.

  Lemma step_non_membership_ok st height p path st' :
    step st (AVerifyNonMembership height p path) = (st', Ok) ->
    st' = st /\ at_frozen st = false /\
    rev height = 0 /\ (exists ts, cons_get (at_cons st) (ht height) = Some ts) /\
    exists data sigs key packets,
      p = AProofOk data sigs /\ path = PMerkle [key] /\ key <> [] /\
      verify_signatures (at_attestors st) (at_min st) data sigs tag_packet = true /\
      abi_decode_packet data = Some (ht height, packets) /\
      (exists c, In (keccak key, c) packets) /\
      (forall c, In (keccak key, c) packets -> c = zero32).
  Proof.
    cbn [Attest.step].
    destruct (at_frozen st) eqn:Hf; [discriminate|].
    destruct (path_empty path); [discriminate|].
    destruct (verify_common st height p path) as [[packets cp]|] eqn:Hc; [|discriminate].
    match goal with |- context [filter ?f packets] => destruct (filter f packets) as [|m0 ms] eqn:Hfl end; [discriminate|].
    match goal with |- context [forallb ?f (m0 :: ms)] => destruct (forallb f (m0 :: ms)) eqn:Hall end; [|discriminate].
    intros [= <-].
    apply verify_common_some in Hc as (Hr & Hcs & data & sigs & key & -> & -> & Hk & -> & Hv & Hd & _).
    repeat split; auto. exists data, sigs, key, packets. repeat split; auto.
    - assert (In m0 (filter (fun pk => bytes_eqb (fst pk) (keccak key)) packets)) as Hin by (rewrite Hfl; now left).
      apply filter_In in Hin as [Hin Hb]. apply bytes_eqb_eq in Hb. destruct m0 as [mp mc]. simpl in Hb. subst mp. eauto.
    - intros c Hin.
      assert (In (keccak key, c) (m0 :: ms)) as Hin'.
      { rewrite <- Hfl. apply filter_In. split; [exact Hin|]. simpl. apply bytes_eqb_refl. }
      rewrite forallb_forall in Hall. specialize (Hall _ Hin'). simpl in Hall.
      apply andb_true_iff in Hall as [_ Hz]. now apply bytes_eqb_eq in Hz.
  Qed.

  (** *** frozen clients accept nothing, forever *)

  Lemma frozen_refuses st op : at_frozen st = true -> snd (step st op) <> Ok /\ fst (step st op) = st.
  Proof.
    intros Hf.
    assert (snd (step st op) <> Ok) as Hn.
    { destruct op; cbn [Attest.step]; rewrite ?Hf; break; simpl; congruence. }
    split; [exact Hn|apply step_fail, Hn].
  Qed.

  Lemma frozen_forever st ops : at_frozen st = true -> final st ops = st.
  Proof.
    revert st; induction ops as [|op ops IH]; intros st Hf; simpl; [reflexivity|].
    destruct (frozen_refuses st op Hf) as [_ E]. rewrite E. now apply IH.
  Qed.

  Lemma step_frozen_mono st op : at_frozen st = true -> at_frozen (fst (step st op)) = true.
  Proof. intros Hf. destruct (frozen_refuses st op Hf) as [_ E]. now rewrite E. Qed.

  (** the attestor set and the quorum never change *)
  Lemma step_config st op :
    at_attestors (fst (step st op)) = at_attestors st /\ at_min (fst (step st op)) = at_min st.
  Proof. destruct op; cbn [Attest.step]; break; simpl; auto. Qed.
End Facts.
