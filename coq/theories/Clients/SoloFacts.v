(** Facts about the solo machine model (C26). *)
From Coq Require Import Sorting.Sorted.
From IBC Require Import Lib.Bytes Lib.BytesFacts Lib.Dec Clients.Proto Clients.ProtoFacts Clients.Localhost Clients.Solo.
Local Open Scope N_scope.

(** ** the sign bytes determine every signed field *)

Definition dec_sign_bytes (s : bytes) : option (N * N * bytes * bytes * bytes) :=
  match dec_varint_field tag_08 s with
  | Some (seq, s1) =>
      match dec_varint_field tag_10 s1 with
      | Some (ts, s2) =>
          match dec_bytes_field tag_1a s2 with
          | Some (div, s3) =>
              match dec_bytes_field tag_22 s3 with
              | Some (path, s4) =>
                  match dec_bytes_field tag_2a s4 with
                  | Some (data, _) => Some (seq, ts, div, path, data)
                  | None => None
                  end
              | None => None
              end
          | None => None
          end
      | None => None
      end
  | None => None
  end.

Ltac solve_starts :=
  repeat first [ apply starts_nil
               | apply starts_field_varint; [reflexivity|]
               | apply starts_field_bytes; [reflexivity|] ].

Lemma dec_sign_bytes_enc seq ts div path data :
  dec_sign_bytes (sign_bytes_enc seq ts div path data) = Some (seq, ts, div, path, data).
Proof.
  unfold dec_sign_bytes, sign_bytes_enc.
  rewrite <- (app_nil_r (field_bytes tag_2a data)).
  rewrite dec_field_varint by solve_starts.
  rewrite dec_field_varint by solve_starts.
  rewrite dec_field_bytes by solve_starts.
  rewrite dec_field_bytes by solve_starts.
  rewrite dec_field_bytes by solve_starts.
  reflexivity.
Qed.

Lemma sign_bytes_enc_inj seq ts div path data seq' ts' div' path' data' :
  sign_bytes_enc seq ts div path data = sign_bytes_enc seq' ts' div' path' data' ->
  seq = seq' /\ ts = ts' /\ div = div' /\ path = path' /\ data = data'.
Proof.
  intros E. pose proof (dec_sign_bytes_enc seq ts div path data) as D.
  rewrite E, dec_sign_bytes_enc in D. injection D. intros. subst. auto.
Qed.

Definition dec_header_data (s : bytes) : option (option bytes * bytes) :=
  match dec_msg_field tag_0a s with
  | Some (pk, s1) =>
      match dec_bytes_field tag_12 s1 with
      | Some (div, _) => Some (pk, div)
      | None => None
      end
  | None => None
  end.

Lemma dec_header_data_enc pk div : dec_header_data (header_data_enc pk div) = Some (pk, div).
Proof.
  unfold dec_header_data, header_data_enc.
  rewrite <- (app_nil_r (field_bytes tag_12 div)).
  rewrite dec_field_msg by solve_starts.
  rewrite dec_field_bytes by solve_starts.
  reflexivity.
Qed.

Lemma header_data_enc_inj pk div pk' div' :
  header_data_enc pk div = header_data_enc pk' div' -> pk = pk' /\ div = div'.
Proof.
  intros E. pose proof (dec_header_data_enc pk div) as D.
  rewrite E, dec_header_data_enc in D. injection D. auto.
Qed.

Section Facts.
  Variable sig_ok : bytes -> bytes -> bytes -> bool.
  Variable sig_malformed : bytes -> bool.

  Notation step := (step sig_ok sig_malformed).
  Notation trace := (trace sig_ok sig_malformed).
  Notation final := (final sig_ok sig_malformed).
  Notation verify_proof := (verify_proof sig_ok sig_malformed).
  Notation verify_sig_and_data := (verify_sig_and_data sig_ok sig_malformed).

  Ltac break :=
    repeat match goal with
           | |- context [if ?c then _ else _] => destruct c eqn:?
           | |- context [match ?x with _ => _ end] => destruct x eqn:?
           end.

  (** *** failures change nothing *)

  Lemma verify_proof_fail st p path data :
    snd (verify_proof st p path data) <> Ok -> fst (verify_proof st p path data) = st.
  Proof. unfold Solo.verify_proof. break; simpl; congruence. Qed.

  Lemma step_fail st op : snd (step st op) <> Ok -> fst (step st op) = st.
  Proof.
    destruct op as [h|q a b|p path v|p path|sub]; cbn [Solo.step].
    - break; simpl; congruence.
    - break; simpl; congruence.
    - destruct (sm_frozen st); [reflexivity|]. apply verify_proof_fail.
    - destruct (sm_frozen st); [reflexivity|]. apply verify_proof_fail.
    - break; simpl; congruence.
  Qed.

  (** *** a successful verification: exact sign bytes, sequence + 1, timestamp *)

  Lemma verify_proof_ok st p path data st' :
    verify_proof st p path data = (st', Ok) ->
    exists sd ts k0 key,
      p = ProofTsd sd ts /\ path = PMerkle [k0; key] /\ sd <> [] /\ sm_ts st <= ts /\
      sig_ok (sm_pk st) (sign_bytes_enc (sm_seq st) ts (sm_div st) key data) sd = true /\
      st' = mkSm (next_seq (sm_seq st)) (sm_frozen st) (sm_pk st) (sm_div st) ts.
  Proof.
    unfold Solo.verify_proof.
    destruct p as [| |sd ts]; try discriminate.
    destruct (is_nil sd) eqn:Hn; [discriminate|].
    destruct (sig_malformed sd); [discriminate|].
    destruct (ts <? sm_ts st) eqn:Ht; [discriminate|].
    destruct path as [kp|]; [|discriminate].
    destruct kp as [|k0 [|key [|x kp]]]; try discriminate.
    destruct (sig_ok _ _ sd) eqn:Hs; [|discriminate].
    intros [= <-]. exists sd, ts, k0, key. repeat split; auto.
    - destruct sd; [discriminate|congruence].
    - apply N.ltb_ge in Ht. exact Ht.
  Qed.

  Lemma step_ok_verification st op st' :
    is_verification op = true -> step st op = (st', Ok) ->
    exists m s ts,
      checked st op = Some (m, s) /\ sig_ok (sm_pk st) m s = true /\
      sm_seq st' = next_seq (sm_seq st) /\ sm_ts st <= ts /\ sm_ts st' = ts /\
      sm_frozen st = false /\ sm_frozen st' = false.
  Proof.
    destruct op as [h|q a b|p path v|p path|sub]; try discriminate; intros _; cbn [Solo.step].
    - destruct (h_ts h =? 0); [discriminate|].
      destruct (blank_nonempty (h_newdiv h)); [discriminate|].
      destruct (is_nil (h_sig h)); [discriminate|].
      destruct (h_newpk h) as [npk|] eqn:Hpk; [|discriminate].
      destruct (sm_frozen st) eqn:Hf; [discriminate|].
      destruct (h_ts h <? sm_ts st) eqn:Ht; [discriminate|].
      destruct (sig_malformed (h_sig h)); [discriminate|].
      destruct (sig_ok _ _ (h_sig h)) eqn:Hs; [|discriminate].
      intros [= <-]. eexists _, _, (h_ts h). cbn [checked]. rewrite Hpk.
      repeat split; auto. apply N.ltb_ge in Ht. exact Ht.
    - destruct (sm_frozen st) eqn:Hf; [discriminate|]. intros Hv.
      apply verify_proof_ok in Hv as (sd & ts & k0 & key & -> & -> & _ & Hts & Hs & ->).
      eexists _, _, ts. cbn [checked]. repeat split; auto.
    - destruct (sm_frozen st) eqn:Hf; [discriminate|]. intros Hv.
      apply verify_proof_ok in Hv as (sd & ts & k0 & key & -> & -> & _ & Hts & Hs & ->).
      eexists _, _, ts. cbn [checked]. repeat split; auto.
  Qed.

  (** the message checked by a verification is the encoding of the current sequence *)
  Lemma checked_form st op m s :
    checked st op = Some (m, s) ->
    exists ts path data, m = sign_bytes_enc (sm_seq st) ts (sm_div st) path data.
  Proof.
    destruct op as [h|q a b|p path v|p path|sub]; cbn [checked]; try discriminate.
    - destruct (h_newpk h); [|discriminate]. intros [= <- <-]. eauto.
    - destruct p as [| |sd ts]; try discriminate.
      destruct path as [kp|]; [|discriminate]. destruct kp as [|k0 [|key [|x kp]]]; try discriminate.
      intros [= <- <-]. eauto.
    - destruct p as [| |sd ts]; try discriminate.
      destruct path as [kp|]; [|discriminate]. destruct kp as [|k0 [|key [|x kp]]]; try discriminate.
      intros [= <- <-]. eauto.
  Qed.

  (** *** sequences *)

  Definition wf_op (op : Op) : Prop :=
    match op with OpRecover (Some s) => sm_seq s < two64 | _ => True end.

  Lemma next_seq_small s : s < two64 -> s <> two64 - 1 -> next_seq s = s + 1.
  Proof. intros H1 H2. unfold next_seq. apply N.mod_small. unfold two64 in *. lia. Qed.

  Lemma next_seq_lt s : next_seq s < two64.
  Proof. unfold next_seq. apply N.mod_lt. discriminate. Qed.

  Lemma step_seq st op :
    wf_op op -> sm_seq st < two64 -> sm_seq st <> two64 - 1 ->
    sm_seq st <= sm_seq (fst (step st op)) /\ sm_seq (fst (step st op)) < two64 /\
    (is_verification op = true -> snd (step st op) = Ok -> sm_seq (fst (step st op)) = sm_seq st + 1).
  Proof.
    intros Hwf Hlt Hmax.
    destruct (snd (step st op)) eqn:Ho.
    2,3: rewrite (step_fail st op) by congruence; repeat split; try lia; discriminate.
    destruct (is_verification op) eqn:Hv.
    - destruct (step st op) as [st' o] eqn:Hs. simpl in Ho. subst o.
      apply step_ok_verification in Hs as (m & s & ts & _ & _ & Hq & _); [|exact Hv].
      simpl. rewrite Hq, next_seq_small by assumption. repeat split; lia.
    - destruct op as [h|q a b|p path v|p path|sub]; try discriminate.
      + (* misbehaviour: sequence unchanged *)
        revert Ho. cbn [Solo.step]. break; simpl; try discriminate; intros _; repeat split; try lia; discriminate.
      + (* recovery: strictly greater *)
        revert Ho. cbn [Solo.step].
        destruct (negb (sm_frozen st)); [discriminate|].
        destruct sub as [s|]; [|discriminate].
        destruct (sm_frozen s); [discriminate|].
        destruct (sm_seq s <=? sm_seq st) eqn:Hle; [discriminate|].
        destruct (bytes_eqb (sm_pk st) (sm_pk s)); [discriminate|].
        intros _. simpl. apply N.leb_gt in Hle. simpl in Hwf. repeat split; try lia; discriminate.
  Qed.

  (** *** histories *)

  Definition seqs (l : list (N * bytes * bytes)) : list N := map (fun x => fst (fst x)) l.
  Definition msgs (l : list (N * bytes * bytes)) : list bytes := map (fun x => snd (fst x)) l.
  Definition sigs (l : list (N * bytes * bytes)) : list bytes := map (fun x => snd x) l.

  Definition no_wrap (tr : list Entry) : Prop :=
    Forall (fun e => sm_seq (e_before e) <> two64 - 1) tr.

  Lemma accepted_seqs st ops :
    sm_seq st < two64 -> Forall wf_op ops -> no_wrap (trace st ops) ->
    Forall (fun q => sm_seq st <= q) (seqs (accepted (trace st ops))) /\
    StronglySorted N.lt (seqs (accepted (trace st ops))).
  Proof.
    revert st; induction ops as [|op ops IH]; intros st Hlt Hwf Hnw.
    - simpl. split; constructor.
    - cbn [Solo.trace] in *. inversion Hwf as [|? ? Hop Hwf']; subst.
      inversion Hnw as [|? ? Hmax Hnw']; subst. cbn [e_before] in Hmax.
      destruct (step_seq st op Hop Hlt Hmax) as (Hle & Hlt' & Hinc).
      destruct (IH _ Hlt' Hwf' Hnw') as [IHa IHs].
      cbn [accepted e_op e_out e_before].
      destruct (is_verification op && is_ok (snd (step st op))) eqn:Hacc.
      + apply andb_true_iff in Hacc as [Hv Hok].
        assert (snd (step st op) = Ok) as Hok' by (destruct (snd (step st op)); try discriminate; reflexivity).
        specialize (Hinc Hv Hok').
        destruct (checked st op) as [[m s]|].
        * cbn [seqs map fst]. split.
          -- constructor; [lia|]. eapply Forall_impl; [|exact IHa]. simpl. intros; lia.
          -- constructor; [exact IHs|]. eapply Forall_impl; [|exact IHa]. simpl. intros; lia.
        * split; [|exact IHs]. eapply Forall_impl; [|exact IHa]. simpl. intros; lia.
      + split; [|exact IHs]. eapply Forall_impl; [|exact IHa]. simpl. intros; lia.
  Qed.

  Lemma accepted_forms st ops :
    Forall (fun x => (exists ts dv path data, snd (fst x) = sign_bytes_enc (fst (fst x)) ts dv path data) /\
                     exists pk, sig_ok pk (snd (fst x)) (snd x) = true)
           (accepted (trace st ops)).
  Proof.
    revert st; induction ops as [|op ops IH]; intros st; [constructor|].
    cbn [Solo.trace accepted e_op e_out e_before].
    destruct (is_verification op && is_ok (snd (step st op))) eqn:Hacc; [|apply IH].
    apply andb_true_iff in Hacc as [Hv Hok].
    destruct (checked st op) as [[m s]|] eqn:Hc; [|apply IH].
    constructor; [|apply IH]. simpl.
    destruct (step st op) as [st' o] eqn:Hs. simpl in Hok. destruct o; try discriminate.
    pose proof (step_ok_verification st op st' Hv Hs) as (m' & s' & ts & Hc' & Hsig & _).
    rewrite Hc in Hc'. injection Hc' as <- <-.
    destruct (checked_form st op m s Hc) as (ts' & path & data & ->).
    split; [eauto|]. eauto.
  Qed.

  Lemma sorted_forms_nodup (l : list (N * bytes * bytes)) :
    StronglySorted N.lt (seqs l) ->
    Forall (fun x => exists ts dv path data, snd (fst x) = sign_bytes_enc (fst (fst x)) ts dv path data) l ->
    NoDup (msgs l).
  Proof.
    induction l as [|[[q m] s] l IH]; intros Hs Hf; [constructor|].
    cbn [seqs msgs map fst snd] in *. inversion Hs as [|? ? Hs' Hall]; subst.
    inversion Hf as [|? ? Hx Hf']; subst. constructor; [|apply IH; assumption].
    intros Hin. apply in_map_iff in Hin as ([[q' m'] s'] & Hm & Hin'). simpl in Hm. subst m'.
    rewrite Forall_forall in Hall, Hf'.
    assert (q < q') as Hlt by (apply Hall; apply in_map_iff; exists (q', m, s'); auto).
    destruct Hx as (ts & dv & path & data & E1). simpl in E1.
    destruct (Hf' _ Hin') as (ts' & dv' & path' & data' & E2). simpl in E2.
    rewrite E1 in E2. apply sign_bytes_enc_inj in E2 as [-> _]. lia.
  Qed.

  (** no sign bytes are accepted twice in a history *)
  Lemma accepted_msgs_nodup st ops :
    sm_seq st < two64 -> Forall wf_op ops -> no_wrap (trace st ops) ->
    NoDup (msgs (accepted (trace st ops))).
  Proof.
    intros H1 H2 H3. apply sorted_forms_nodup.
    - apply accepted_seqs; assumption.
    - eapply Forall_impl; [|apply accepted_forms]. simpl. intros x [H _]. exact H.
  Qed.

  (** if a signature value verifies for one message only, no signature is accepted twice *)
  Lemma accepted_sigs_nodup st ops :
    (forall pk pk' m m' s, sig_ok pk m s = true -> sig_ok pk' m' s = true -> m = m') ->
    sm_seq st < two64 -> Forall wf_op ops -> no_wrap (trace st ops) ->
    NoDup (sigs (accepted (trace st ops))).
  Proof.
    intros Hb H1 H2 H3.
    pose proof (accepted_msgs_nodup st ops H1 H2 H3) as Hm.
    pose proof (accepted_forms st ops) as Hf.
    induction (accepted (trace st ops)) as [|[[q m] s] l IH]; [constructor|].
    cbn [sigs msgs map fst snd] in *. inversion Hm as [|? ? Hnin Hm']; subst.
    inversion Hf as [|? ? Hx Hf']; subst. constructor; [|apply IH; assumption].
    intros Hin. apply Hnin. apply in_map_iff in Hin as ([[q' m'] s'] & Hs & Hin'). simpl in Hs. subst s'.
    rewrite Forall_forall in Hf'. destruct (Hf' _ Hin') as [_ [pk' Hok']]. destruct Hx as [_ [pk Hok]].
    simpl in Hok, Hok'. rewrite (Hb _ _ _ _ _ Hok Hok').
    apply in_map_iff. exists (q', m', s). auto.
  Qed.

  (** *** timestamps *)

  Definition is_recover (op : Op) : bool := match op with OpRecover _ => true | _ => false end.

  Lemma step_ts st op : is_recover op = false -> sm_ts st <= sm_ts (fst (step st op)).
  Proof.
    intros Hr. destruct (snd (step st op)) eqn:Ho.
    2,3: rewrite (step_fail st op) by congruence; lia.
    destruct (is_verification op) eqn:Hv.
    - destruct (step st op) as [st' o] eqn:Hs. simpl in Ho. subst o.
      apply step_ok_verification in Hs as (m & s & ts & _ & _ & _ & Hle & Hts & _); [|exact Hv].
      simpl. lia.
    - destruct op as [h|q a b|p path v|p path|sub]; try discriminate.
      revert Ho. cbn [Solo.step]. break; simpl; try discriminate; intros _; lia.
  Qed.

  Lemma trace_ts st ops :
    Forall (fun e => is_recover (e_op e) = false -> sm_ts (e_before e) <= sm_ts (e_after e)) (trace st ops).
  Proof.
    revert st; induction ops as [|op ops IH]; intros st; [constructor|].
    cbn [Solo.trace]. constructor; [|apply IH]. cbn [e_op e_before e_after]. apply step_ts.
  Qed.

  Lemma final_ts st ops : forallb (fun op => negb (is_recover op)) ops = true -> sm_ts st <= sm_ts (final st ops).
  Proof.
    revert st; induction ops as [|op ops IH]; intros st H; simpl in *; [lia|].
    apply andb_true_iff in H as [H1 H2]. apply negb_true_iff in H1.
    pose proof (step_ts st op H1). specialize (IH (fst (step st op)) H2). lia.
  Qed.

  (** *** misbehaviour and frozen clients *)

  Definition frozen_of (st : SmState) : SmState := mkSm (sm_seq st) true (sm_pk st) (sm_div st) (sm_ts st).

  Lemma step_misbehaviour_ok st q a b st' :
    step st (OpMisbehaviour q a b) = (st', Ok) ->
    st' = frozen_of st /\ sm_frozen st = false /\ q <> 0 /\
    exists sa sb, a = Some sa /\ b = Some sb /\
      sd_sig sa <> sd_sig sb /\ ~ (sd_path sa = sd_path sb /\ sd_data sa = sd_data sb) /\
      sig_ok (sm_pk st) (sign_bytes_enc q (sd_ts sa) (sm_div st) (sd_path sa) (sd_data sa)) (sd_sig sa) = true /\
      sig_ok (sm_pk st) (sign_bytes_enc q (sd_ts sb) (sm_div st) (sd_path sb) (sd_data sb)) (sd_sig sb) = true.
  Proof.
    cbn [Solo.step].
    destruct (q =? 0) eqn:Hq; [discriminate|]. apply N.eqb_neq in Hq.
    destruct a as [sa|]; [|discriminate]. destruct b as [sb|]; [|discriminate].
    destruct (negb (sd_valid sa)); [discriminate|]. destruct (negb (sd_valid sb)); [discriminate|].
    destruct (bytes_eqb (sd_sig sa) (sd_sig sb)) eqn:Hsg; [discriminate|]. apply bytes_eqb_neq in Hsg.
    destruct (bytes_eqb (sd_path sa) (sd_path sb) && bytes_eqb (sd_data sa) (sd_data sb)) eqn:Hpd; [discriminate|].
    destruct (sm_frozen st) eqn:Hf; [discriminate|].
    unfold Solo.verify_sig_and_data.
    destruct (negb (sd_path_ok sa)); [discriminate|]. destruct (sig_malformed (sd_sig sa)); [discriminate|].
    destruct (sig_ok _ _ (sd_sig sa)) eqn:H1; [|discriminate].
    destruct (negb (sd_path_ok sb)); [discriminate|]. destruct (sig_malformed (sd_sig sb)); [discriminate|].
    destruct (sig_ok _ _ (sd_sig sb)) eqn:H2; [|discriminate].
    intros [= <-]. repeat split; auto. exists sa, sb. repeat split; auto.
    intros [E1 E2]. rewrite E1, E2, !bytes_eqb_refl in Hpd. discriminate.
  Qed.

  (** two valid signatures of the registered key over different (path, data) for one sequence freeze the client *)
  Lemma valid_misbehaviour_freezes st q sa sb :
    sm_frozen st = false -> q <> 0 -> sd_valid sa = true -> sd_valid sb = true ->
    sd_sig sa <> sd_sig sb -> ~ (sd_path sa = sd_path sb /\ sd_data sa = sd_data sb) ->
    verify_sig_and_data st q sa = Ok -> verify_sig_and_data st q sb = Ok ->
    step st (OpMisbehaviour q (Some sa) (Some sb)) = (frozen_of st, Ok).
  Proof.
    intros Hf Hq Va Vb Hs Hpd Ha Hb. cbn [Solo.step].
    apply N.eqb_neq in Hq. rewrite Hq, Va, Vb. simpl negb. cbv iota.
    apply bytes_eqb_neq in Hs. rewrite Hs.
    destruct (bytes_eqb (sd_path sa) (sd_path sb) && bytes_eqb (sd_data sa) (sd_data sb)) eqn:E.
    { apply andb_true_iff in E as [E1 E2]. apply bytes_eqb_eq in E1, E2. tauto. }
    rewrite Hf, Ha, Hb. reflexivity.
  Qed.

  Lemma frozen_refuses st op :
    sm_frozen st = true -> is_recover op = false -> snd (step st op) <> Ok /\ fst (step st op) = st.
  Proof.
    intros Hf Hr.
    assert (snd (step st op) <> Ok) as H.
    { destruct op as [h|q a b|p path v|p path|sub]; try discriminate; cbn [Solo.step]; rewrite ?Hf.
      - break; simpl; congruence.
      - break; simpl; congruence.
      - simpl; congruence.
      - simpl; congruence. }
    split; [exact H|]. apply step_fail, H.
  Qed.

  (** a frozen client stays frozen until a recovery succeeds *)
  Lemma frozen_stays st ops :
    sm_frozen st = true -> forallb (fun op => negb (is_recover op)) ops = true -> final st ops = st.
  Proof.
    revert st; induction ops as [|op ops IH]; intros st Hf H; simpl in *; [reflexivity|].
    apply andb_true_iff in H as [H1 H2]. apply negb_true_iff in H1.
    destruct (frozen_refuses st op Hf H1) as [_ E]. rewrite E. apply IH; assumption.
  Qed.
End Facts.
