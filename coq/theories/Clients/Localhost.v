(** C27 — 09-localhost light client module.
    Model of /repo/modules/light-clients/09-localhost/light_client_module.go
    (VerifyMembership, VerifyNonMembership, Initialize, VerifyClientMessage, CheckForMisbehaviour,
    UpdateState, RecoverClient, VerifyUpgradeAndUpdateState, Status) as the code is after the /repo commit
    f427dd0 "fix: localhost client rejects proof heights above the chain's own height", and of the way
    02-client/keeper/client.go (CreateClient, UpdateClient, UpgradeClient, RecoverClient) treats the
    localhost client type / identifier.

    The chain's IBC store is an association list (first match wins = a finite map); [kv_get] = Some v
    models a non-nil result of the SDK store's Get (a stored empty value is returned as an empty
    NON-nil slice, so it is [Some []]), None models nil = absent.  The SDK stores the context uses
    (cachekv) panic on an empty key (types.AssertValidKey): explicit [Panic]. *)
From IBC Require Import Lib.Bytes Lib.BytesFacts Core.Height Clients.WasmStore.

Inductive Outcome := Ok | Err | Panic.

Definition outcome_eqb (a b : Outcome) : bool :=
  match a, b with Ok, Ok | Err, Err | Panic, Panic => true | _, _ => false end.

(** light_client_module.go: SentinelProof = []byte{0x01} *)
Definition sentinel_proof : bytes := [ascii_of_N 1].

(** exported.Path: the v2 MerklePath with its key path, or any other implementation of the interface *)
Inductive Path := PMerkle (keypath : list bytes) | POther.

Record Ctx := mkCtx {
  self_height : Height;       (* clienttypes.GetSelfHeight(ctx) *)
  ibc_store : kv              (* storeService.OpenKVStore(ctx) *)
}.

(** VerifyMembership, in the order of the code's checks *)
Definition verify_membership (c : Ctx) (height : Height) (proof : bytes) (path : Path) (value : bytes) : Outcome :=
  if h_gt height (self_height c) then Err                       (* height.GT(selfHeight) *)
  else if negb (bytes_eqb proof sentinel_proof) then Err        (* !bytes.Equal(proof, SentinelProof) *)
  else match path with
       | POther => Err                                          (* path.(MerklePath) fails *)
       | PMerkle kp =>
           match kp with
           | [_; key] =>                                        (* len(KeyPath) == 2 ; KeyPath[1] *)
               match key with
               | [] => Panic                                    (* store Get: AssertValidKey *)
               | _ =>
                   match kv_get (ibc_store c) key with
                   | None => Err                                (* bz == nil *)
                   | Some bz => if bytes_eqb bz value then Ok else Err
                   end
               end
           | _ => Err                                           (* len(KeyPath) != 2 *)
           end
       end.

(** VerifyNonMembership *)
Definition verify_non_membership (c : Ctx) (height : Height) (proof : bytes) (path : Path) : Outcome :=
  if h_gt height (self_height c) then Err
  else if negb (bytes_eqb proof sentinel_proof) then Err
  else match path with
       | POther => Err
       | PMerkle kp =>
           match kp with
           | [_; key] =>
               match key with
               | [] => Panic                                    (* store Has: AssertValidKey *)
               | _ =>
                   match kv_get (ibc_store c) key with
                   | None => Ok                                 (* !has *)
                   | Some _ => Err
                   end
               end
           | _ => Err
           end
       end.

(** ** client operations addressed to the localhost client *)

Inductive Status := Active | Frozen | Expired | Unknown | Unauthorized.

(** light_client_module.go: every argument is ignored by the code *)
Definition lh_initialize (client_id cs cns : bytes) : Outcome := Err.
Definition lh_verify_client_message (client_id msg : bytes) : Outcome := Err.
Definition lh_check_for_misbehaviour (client_id msg : bytes) : bool := false.
Definition lh_recover_client (client_id substitute : bytes) : Outcome := Err.
Definition lh_verify_upgrade (client_id a b c d : bytes) : Outcome := Err.
Definition lh_status (client_id : bytes) : Status := Active.

Definition localhost_id : bytes := B "09-localhost".

(** 02-client/keeper/keeper.go:Route for the identifier "09-localhost": ParseClientIdentifier returns the
    identifier itself as client type; then the allow-list of the params, then the router lookup. *)
Definition route_localhost (allowed registered : bool) : bool := allowed && registered.

Inductive ClientOp :=
| KCreateClient (cs cns : bytes)                     (* keeper.CreateClient(ctx, "09-localhost", cs, cons) *)
| KUpdateClient (msg : bytes)                          (* keeper.UpdateClient(ctx, "09-localhost", msg) *)
| KUpgradeClient (a b c d : bytes)                     (* keeper.UpgradeClient(ctx, "09-localhost", ...) *)
| KRecoverClient (substitute : bytes)                  (* keeper.RecoverClient(ctx, "09-localhost", substitute) *)
| MInitialize (cs cns : bytes)                        (* module methods called directly *)
| MVerifyClientMessage (msg : bytes)
| MRecoverClient (substitute : bytes)
| MVerifyUpgrade (a b c d : bytes).

Definition status_eqb_active (s : Status) : bool := match s with Active => true | _ => false end.

Definition client_op (allowed registered : bool) (op : ClientOp) : Outcome :=
  match op with
  | KCreateClient cs cns => Err        (* clientType == exported.Localhost => ErrInvalidClientType, first check *)
  | KUpdateClient msg =>
      if negb (route_localhost allowed registered) then Err
      else if negb (status_eqb_active (lh_status localhost_id)) then Err
      else match lh_verify_client_message localhost_id msg with
           | Ok => if lh_check_for_misbehaviour localhost_id msg then Ok else Ok
           | o => o
           end
  | KUpgradeClient a b c d =>
      if negb (route_localhost allowed registered) then Err
      else if negb (status_eqb_active (lh_status localhost_id)) then Err
      else lh_verify_upgrade localhost_id a b c d
  | KRecoverClient substitute =>
      if negb (route_localhost allowed registered) then Err
      else if status_eqb_active (lh_status localhost_id) then Err   (* subject must not be Active *)
      else lh_recover_client localhost_id substitute
  | MInitialize cs cns => lh_initialize localhost_id cs cns
  | MVerifyClientMessage msg => lh_verify_client_message localhost_id msg
  | MRecoverClient substitute => lh_recover_client localhost_id substitute
  | MVerifyUpgrade a b c d => lh_verify_upgrade localhost_id a b c d
  end.
