(** Facts about the localhost client model (C27). *)
From IBC Require Import Lib.Bytes Lib.BytesFacts Core.Height Clients.WasmStore Clients.Localhost.

Lemma verify_membership_ok c h proof path value :
  verify_membership c h proof path value = Ok <->
  h_gt h (self_height c) = false /\ proof = sentinel_proof /\
  exists k0 key, path = PMerkle [k0; key] /\ key <> [] /\ kv_get (ibc_store c) key = Some value.
Proof.
  unfold verify_membership.
  destruct (h_gt h (self_height c)) eqn:G.
  { split; [discriminate|intros [? _]; discriminate]. }
  destruct (bytes_eqb proof sentinel_proof) eqn:P; simpl.
  2:{ apply bytes_eqb_neq in P. split; [discriminate|intros (_ & ? & _); contradiction]. }
  apply bytes_eqb_eq in P.
  destruct path as [kp|].
  2:{ split; [discriminate|intros (_ & _ & k0 & key & ? & _); discriminate]. }
  destruct kp as [|k0 [|key [|x kp]]];
    try (split; [discriminate|intros (_ & _ & a & b & [=] & _)]).
  destruct key as [|c0 key].
  { split; [discriminate|intros (_ & _ & a & b & [= <- <-] & ? & _); contradiction]. }
  destruct (kv_get (ibc_store c) (c0 :: key)) as [bz|] eqn:E.
  - destruct (bytes_eqb bz value) eqn:V.
    + apply bytes_eqb_eq in V. subst bz. split; [intros _|reflexivity].
      repeat split; auto. exists k0, (c0 :: key). repeat split; auto. discriminate.
    + apply bytes_eqb_neq in V. split; [discriminate|].
      intros (_ & _ & a & b & [= <- <-] & _ & E2). rewrite E in E2. congruence.
  - split; [discriminate|]. intros (_ & _ & a & b & [= <- <-] & _ & E2). rewrite E in E2. discriminate.
Qed.

Lemma verify_non_membership_ok c h proof path :
  verify_non_membership c h proof path = Ok <->
  h_gt h (self_height c) = false /\ proof = sentinel_proof /\
  exists k0 key, path = PMerkle [k0; key] /\ key <> [] /\ kv_get (ibc_store c) key = None.
Proof.
  unfold verify_non_membership.
  destruct (h_gt h (self_height c)) eqn:G.
  { split; [discriminate|intros [? _]; discriminate]. }
  destruct (bytes_eqb proof sentinel_proof) eqn:P; simpl.
  2:{ apply bytes_eqb_neq in P. split; [discriminate|intros (_ & ? & _); contradiction]. }
  apply bytes_eqb_eq in P.
  destruct path as [kp|].
  2:{ split; [discriminate|intros (_ & _ & k0 & key & ? & _); discriminate]. }
  destruct kp as [|k0 [|key [|x kp]]];
    try (split; [discriminate|intros (_ & _ & a & b & [=] & _)]).
  destruct key as [|c0 key].
  { split; [discriminate|intros (_ & _ & a & b & [= <- <-] & ? & _); contradiction]. }
  destruct (kv_get (ibc_store c) (c0 :: key)) as [bz|] eqn:E.
  - split; [discriminate|]. intros (_ & _ & a & b & [= <- <-] & _ & E2). rewrite E in E2. discriminate.
  - split; [intros _|reflexivity]. repeat split; auto. exists k0, (c0 :: key). repeat split; auto. discriminate.
Qed.

(** for admissible heights and well-formed arguments the verdicts are exactly the store lookups *)
Lemma membership_store_equiv c h k0 key value :
  h_gt h (self_height c) = false -> key <> [] ->
  (verify_membership c h sentinel_proof (PMerkle [k0; key]) value = Ok <-> kv_get (ibc_store c) key = Some value) /\
  (verify_non_membership c h sentinel_proof (PMerkle [k0; key]) = Ok <-> kv_get (ibc_store c) key = None).
Proof.
  intros G K. rewrite verify_membership_ok, verify_non_membership_ok. split; split.
  - intros (_ & _ & a & b & [= <- <-] & _ & E). exact E.
  - intros E. repeat split; auto. exists k0, key. auto.
  - intros (_ & _ & a & b & [= <- <-] & _ & E). exact E.
  - intros E. repeat split; auto. exists k0, key. auto.
Qed.

(** membership and non-membership are never both accepted, and with the sentinel, an admissible height
    and a well-formed path one of "member with the stored value" / "non-member" is accepted *)
Lemma membership_exclusive c h proof path value :
  ~ (verify_membership c h proof path value = Ok /\ verify_non_membership c h proof path = Ok).
Proof.
  rewrite verify_membership_ok, verify_non_membership_ok.
  intros [(_ & _ & a & b & -> & _ & E1) (_ & _ & a' & b' & [= <- <-] & _ & E2)]. congruence.
Qed.

Lemma panic_only_empty_key c h proof path value :
  (verify_membership c h proof path value = Panic \/ verify_non_membership c h proof path = Panic) ->
  exists k0, path = PMerkle [k0; []].
Proof.
  unfold verify_membership, verify_non_membership.
  destruct (h_gt h (self_height c)); [intros [|]; discriminate|].
  destruct (negb (bytes_eqb proof sentinel_proof)); [intros [|]; discriminate|].
  destruct path as [kp|]; [|intros [|]; discriminate].
  destruct kp as [|k0 [|key [|x kp]]]; try (intros [|]; discriminate).
  destruct key as [|c0 key]; [intros _; eauto|].
  destruct (kv_get (ibc_store c) (c0 :: key)) as [bz|]; [destruct (bytes_eqb bz value)|]; intros [|]; discriminate.
Qed.

Lemma client_op_refused allowed registered op : client_op allowed registered op = Err.
Proof.
  destruct op; simpl; try reflexivity;
    destruct (route_localhost allowed registered); reflexivity.
Qed.
