(** C29 — 08-wasm client recovery store.
    Model of /repo/modules/light-clients/08-wasm/internal/types/store.go
    (ClientRecoveryStore.{Get,Has,Set,Delete,Iterator,ReverseIterator,GetStore,closedIterator}, SplitPrefix)
    over two underlying SDK KV stores (cosmos-sdk store/v2 prefix.Store over one parent store).

    Underlying stores (modelled, not verified; tied by the correspondence only):
    - prefix.Store.Set panics on an empty key (types.AssertValidKey) and on a nil value
      (AssertValidValueGeneric / BytesIsZero); Get/Has/Delete accept the empty key (the parent key is then
      the prefix itself).  Key/value length limits (128 KiB / 2 GiB) are out of the modelled range.
    - Iterator(start,end) yields the keys with start <= k < end in ascending bytes.Compare order,
      ReverseIterator the same keys descending.  The recovery store can never pass a nil end to the
      underlying store (TrimPrefix of a non-nil key is non-nil), so "nil = unbounded" is unreachable.
    - [closedIterator] returns the dedicated [emptyIterator{}] (Valid() = false always), so a reader
      (Valid/Key/Value/Next loop, which is also what wasmvm's db_next does) sees no entry.
      History: before /repo commit 71f1b5a ("fix: wasm client recovery store returns a truly empty
      iterator for inconsistent ranges") it was [subjectStore.Iterator([0],[1])] followed by [Close()],
      which on a cachekv parent stays Valid() and yields the first subject entry in [0x00,0x01)
      (finding F7, found with this model; the witness is kept in the harness corpus and the revert of
      that commit is one of the mutation tests, see docs/clients.md). *)
From IBC Require Import Lib.Bytes Lib.BytesFacts Lib.BE64.

Definition kv := list (bytes * bytes).

Fixpoint kv_get (m : kv) (k : bytes) : option bytes :=
  match m with
  | [] => None
  | (k', v) :: m' => if bytes_eqb k' k then Some v else kv_get m' k
  end.

(** sorted insert / replace (the dumps the harness takes are in ascending key order) *)
Fixpoint kv_set (m : kv) (k v : bytes) : kv :=
  match m with
  | [] => [(k, v)]
  | (k', v') :: m' =>
      match bytes_cmp k k' with
      | Lt => (k, v) :: m
      | Eq => (k, v) :: m'
      | Gt => (k', v') :: kv_set m' k v
      end
  end.

Fixpoint kv_del (m : kv) (k : bytes) : kv :=
  match m with
  | [] => []
  | (k', v') :: m' => if bytes_eqb k' k then kv_del m' k else (k', v') :: kv_del m' k
  end.

Definition cmp_le (a b : bytes) : bool := match bytes_cmp a b with Gt => false | _ => true end.
Definition cmp_lt (a b : bytes) : bool := match bytes_cmp a b with Lt => true | _ => false end.

Definition in_range (s e k : bytes) : bool := cmp_le s k && cmp_lt k e.

Definition kv_iter (m : kv) (s e : bytes) : kv := filter (fun p => in_range s e (fst p)) m.
Definition kv_riter (m : kv) (s e : bytes) : kv := rev (kv_iter m s e).

(** store.go: SubjectPrefix / SubstitutePrefix *)
Definition subject_prefix : bytes := B "subject/".
Definition substitute_prefix : bytes := B "substitute/".

Inductive Pfx := PSubject | PSubstitute | PNone.

Definition pfx_eqb (a b : Pfx) : bool :=
  match a, b with
  | PSubject, PSubject | PSubstitute, PSubstitute | PNone, PNone => true
  | _, _ => false
  end.

(** store.go:SplitPrefix — HasPrefix(subject) first, then HasPrefix(substitute), else (nil, key) *)
Definition split_prefix (k : bytes) : Pfx * bytes :=
  match strip_prefix subject_prefix k with
  | Some r => (PSubject, r)
  | None =>
      match strip_prefix substitute_prefix k with
      | Some r => (PSubstitute, r)
      | None => (PNone, k)
      end
  end.

Record St := mkSt { subj : kv; subst : kv }.

Inductive Op :=
| OGet (k : bytes)
| OHas (k : bytes)
| OSet (k : bytes) (v : option bytes)     (* None = nil value *)
| ODel (k : bytes)
| OIter (s e : bytes)
| ORIter (s e : bytes).

Inductive Res :=
| RUnit
| RGet (v : option bytes)
| RHas (b : bool)
| RIter (l : kv)
| RPanic.

(** store.go:GetStore *)
Definition get_store (st : St) (p : Pfx) : option kv :=
  match p with
  | PSubject => Some (subj st)
  | PSubstitute => Some (subst st)
  | PNone => None
  end.

(** store.go:closedIterator = emptyIterator{}, as observed by a Valid/Key/Value/Next reader *)
Definition closed_read (st : St) : Res := RIter [].

Definition with_subj (st : St) (m : kv) : St := mkSt m (subst st).

Definition step (st : St) (op : Op) : St * Res :=
  match op with
  | OGet k =>
      let '(p, k') := split_prefix k in
      match get_store st p with
      | None => (st, RGet None)
      | Some m => (st, RGet (kv_get m k'))
      end
  | OHas k =>
      let '(p, k') := split_prefix k in
      match get_store st p with
      | None => (st, RHas false)
      | Some m => (st, RHas (match kv_get m k' with Some _ => true | None => false end))
      end
  | OSet k v =>
      let '(p, k') := split_prefix k in
      if pfx_eqb p PSubject then
        (* prefix.Store.Set: AssertValidKey, AssertValidValue *)
        match k', v with
        | [], _ => (st, RPanic)
        | _, None => (st, RPanic)
        | _, Some v' => (with_subj st (kv_set (subj st) k' v'), RUnit)
        end
      else (st, RUnit)
  | ODel k =>
      let '(p, k') := split_prefix k in
      if pfx_eqb p PSubject then (with_subj st (kv_del (subj st) k'), RUnit)
      else (st, RUnit)
  | OIter s e =>
      let '(ps, s') := split_prefix s in
      let '(pe, e') := split_prefix e in
      if pfx_eqb ps pe then
        match get_store st ps with
        | None => (st, closed_read st)
        | Some m => (st, RIter (kv_iter m s' e'))
        end
      else (st, closed_read st)
  | ORIter s e =>
      let '(ps, s') := split_prefix s in
      let '(pe, e') := split_prefix e in
      if pfx_eqb ps pe then
        match get_store st ps with
        | None => (st, closed_read st)
        | Some m => (st, RIter (kv_riter m s' e'))
        end
      else (st, closed_read st)
  end.

(** a history: the state and result after every operation *)
Fixpoint run (st : St) (ops : list Op) : list (St * Res) :=
  match ops with
  | [] => []
  | op :: ops' => let r := step st op in r :: run (fst r) ops'
  end.

Fixpoint final (st : St) (ops : list Op) : St :=
  match ops with
  | [] => st
  | op :: ops' => final (fst (step st op)) ops'
  end.
