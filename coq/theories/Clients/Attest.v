(** C28 — attestations light client, driven through the 02-client keeper.

    Model of /repo/modules/light-clients/attestations:
      signature.go      TaggedSigningInput, verifySignatures, normalizeSignature
      client_state.go   verifyMembership, verifyNonMembership
      update.go         VerifyClientMessage, UpdateState
      light_client_module.go  CheckForMisbehaviour, UpdateStateOnMisbehaviour, Status, RecoverClient,
                              VerifyUpgradeAndUpdateState
      attestation_proof.go    ValidateBasic (run by MsgUpdateClient.ValidateBasic before the handler)
    and of the status gates of 02-client/keeper (UpdateClient, VerifyMembership, VerifyNonMembership,
    UpgradeClient, RecoverClient).

    Section variables (externals, not modelled):
      [H]        SHA-256 (instantiated by Lib/Sha256 in the correspondence),
      [recover]  go-ethereum crypto.SigToPub + PubkeyToAddress on (32-byte hash, 65-byte r||s||v with v
                 already normalised): the signer's 20-byte address, or None when recovery fails,
      [keccak]   crypto.Keccak256,
      [abi_decode_packet], [abi_decode_state]  ABIDecodePacketAttestation / ABIDecodeStateAttestation
                 (go-ethereum ABI; the state decoder includes the seconds -> nanoseconds multiplication).
    Attestor addresses are the 20-byte values common.HexToAddress yields for the configured strings
    (ClientState.Validate only admits well-formed hex addresses). *)
From IBC Require Import Lib.Bytes Lib.BytesFacts Lib.Dec Core.Height Clients.Localhost.
Local Open Scope N_scope.

Record AttState := mkAtt {
  at_attestors : list bytes;
  at_min : N;                    (* MinRequiredSigs (uint32) *)
  at_latest : N;
  at_frozen : bool;
  at_cons : list (N * N)         (* consensus states: revision-0 height -> timestamp, ascending heights *)
}.

Fixpoint cons_get (l : list (N * N)) (h : N) : option N :=
  match l with
  | [] => None
  | (h', t) :: l' => if h' =? h then Some t else cons_get l' h
  end.

Fixpoint cons_set (l : list (N * N)) (h t : N) : list (N * N) :=
  match l with
  | [] => [(h, t)]
  | (h', t') :: l' =>
      if h <? h' then (h, t) :: l
      else if h =? h' then (h, t) :: l'
      else (h', t') :: cons_set l' h t
  end.

Fixpoint mem (a : bytes) (l : list bytes) : bool :=
  match l with
  | [] => false
  | x :: l' => bytes_eqb x a || mem a l'
  end.

(** signature.go: AttestationTypeState = 0x01, AttestationTypePacket = 0x02 *)
Definition tag_state : ascii := ascii_of_N 1.
Definition tag_packet : ascii := ascii_of_N 2.

(** signature.go:normalizeSignature (applied to 65-byte signatures only): v = 27 -> 0, 28 -> 1 *)
Definition normalize (sg : bytes) : bytes :=
  let body := firstn 64 sg in
  match skipn 64 sg with
  | [v] => let n := N_of_ascii v in
           body ++ [if n =? 27 then ascii_of_N 0 else if n =? 28 then ascii_of_N 1 else v]
  | _ => sg
  end.

Definition zero32 : bytes := repeat (ascii_of_N 0) 32.

(** the proof argument of VerifyMembership: bytes that do not unmarshal, or an AttestationProof *)
Inductive AProof := AProofBad | AProofOk (data : bytes) (sigs : list bytes).

Inductive Op :=
| AUpdate (data : bytes) (sigs : list bytes)      (* MsgUpdateClient with an AttestationProof *)
| AUpdateOther                                    (* a valid client message of another type *)
| AVerifyMembership (height : Height) (p : AProof) (path : Path) (value : bytes)
| AVerifyNonMembership (height : Height) (p : AProof) (path : Path)
| ARecover
| AUpgrade.

Section Attest.
  Variable H : bytes -> bytes.
  Variable recover : bytes -> bytes -> option bytes.
  Variable keccak : bytes -> bytes.
  Variable abi_decode_packet : bytes -> option (N * list (bytes * bytes)).
  Variable abi_decode_state : bytes -> option (N * N).

  (** signature.go:TaggedSigningInput = sha256(type_tag || sha256(data)) *)
  Definition tagged_hash (tag : ascii) (data : bytes) : bytes := H (tag :: H data).

  (** the loop of verifySignatures: length, recovery, duplicate signer, unknown signer — in that order *)
  Fixpoint check_sigs (hash : bytes) (attestors seen : list bytes) (sigs : list bytes) : bool :=
    match sigs with
    | [] => true
    | sg :: rest =>
        if negb (length sg =? 65)%nat then false
        else match recover hash (normalize sg) with
             | None => false
             | Some a =>
                 if mem a seen then false
                 else if negb (mem a attestors) then false
                 else check_sigs hash attestors (a :: seen) rest
             end
    end.

  Definition verify_signatures (attestors : list bytes) (minsigs : N) (data : bytes) (sigs : list bytes)
             (tag : ascii) : bool :=
    match sigs with
    | [] => false                                                   (* len(Signatures) == 0 *)
    | _ => if N.of_nat (length sigs) <? minsigs then false          (* quorum not met *)
           else check_sigs (tagged_hash tag data) attestors [] sigs
    end.

  (** attestation_proof.go:ValidateBasic *)
  Definition validate_basic (data : bytes) (sigs : list bytes) : bool :=
    match data with
    | [] => false
    | _ =>
        (match abi_decode_packet data with
         | Some (_, packets) => match packets with [] => false | _ => true end
         | None => match abi_decode_state data with Some _ => true | None => false end
         end) &&
        (match sigs with [] => false | _ => true end) &&
        forallb (fun sg => (length sg =? 65)%nat) sigs
    end.

  Definition freeze (st : AttState) : AttState :=
    mkAtt (at_attestors st) (at_min st) (at_latest st) true (at_cons st).

  Definition is_nil (s : bytes) : bool := match s with [] => true | _ => false end.

  (** consensus state lookup by full height: only revision-0 heights are ever stored *)
  Definition cons_at (st : AttState) (h : Height) : option N :=
    if rev h =? 0 then cons_get (at_cons st) (ht h) else None.

  (** shared prefix of verifyMembership / verifyNonMembership after the value check; returns the attested
      packets and the hashed path when everything up to the matching loop passes *)
  Definition verify_common (st : AttState) (height : Height) (p : AProof) (path : Path)
    : option (list (bytes * bytes) * bytes) :=
    match cons_at st height with
    | None => None                                                  (* consensus state not found *)
    | Some _ =>
        match p with
        | AProofBad => None                                         (* cdc.Unmarshal fails *)
        | AProofOk data sigs =>
            if negb (verify_signatures (at_attestors st) (at_min st) data sigs tag_packet) then None
            else match abi_decode_packet data with
                 | None => None
                 | Some (ah, packets) =>
                     if negb (ah =? ht height) then None            (* height mismatch *)
                     else match packets with
                          | [] => None                              (* packets cannot be empty *)
                          | _ =>
                              match path with
                              | POther => None
                              | PMerkle [key] =>
                                  if is_nil key then None else Some (packets, keccak key)
                              | PMerkle _ => None                   (* len(KeyPath) != 1 *)
                              end
                          end
                 end
        end
    end.

  Definition path_empty (path : Path) : bool :=
    match path with PMerkle [] => true | _ => false end.

  Definition step (st : AttState) (op : Op) : AttState * Outcome :=
    match op with
    | AUpdate data sigs =>
        if negb (validate_basic data sigs) then (st, Err)
        else if at_frozen st then (st, Err)                         (* keeper status gate; ErrClientFrozen *)
        else if negb (verify_signatures (at_attestors st) (at_min st) data sigs tag_state) then (st, Err)
        else match abi_decode_state data with
             | None => (st, Panic)                                  (* CheckForMisbehaviour panics *)
             | Some (h, ts) =>
                 match cons_get (at_cons st) h with
                 | Some ts0 =>
                     if negb (ts0 =? ts) then (freeze st, Ok)       (* conflicting timestamp => frozen *)
                     else (mkAtt (at_attestors st) (at_min st) (N.max (at_latest st) h) (at_frozen st)
                                 (cons_set (at_cons st) h ts), Ok)
                 | None =>
                     (mkAtt (at_attestors st) (at_min st) (N.max (at_latest st) h) (at_frozen st)
                            (cons_set (at_cons st) h ts), Ok)
                 end
             end
    | AUpdateOther =>
        (st, Err)                                                   (* frozen, or wrong client message type *)
    | AVerifyMembership height p path value =>
        if at_frozen st then (st, Err)
        else if path_empty path then (st, Err)
        else if is_nil value then (st, Err)
        else match verify_common st height p path with
             | None => (st, Err)
             | Some (packets, cp) =>
                 if negb (length value =? 32)%nat then (st, Err)
                 else if existsb (fun pk => (length (snd pk) =? 32)%nat && (length (fst pk) =? 32)%nat &&
                                            bytes_eqb (snd pk) value && bytes_eqb (fst pk) cp) packets
                      then (st, Ok) else (st, Err)
             end
    | AVerifyNonMembership height p path =>
        if at_frozen st then (st, Err)
        else if path_empty path then (st, Err)
        else match verify_common st height p path with
             | None => (st, Err)
             | Some (packets, cp) =>
                 let matching := filter (fun pk => bytes_eqb (fst pk) cp) packets in
                 match matching with
                 | [] => (st, Err)                                  (* ErrNotMember *)
                 | _ => if forallb (fun pk => (length (snd pk) =? 32)%nat && bytes_eqb (snd pk) zero32) matching
                        then (st, Ok) else (st, Err)
                 end
             end
    | ARecover => (st, Err)
    | AUpgrade => (st, Err)
    end.

  Fixpoint run (st : AttState) (ops : list Op) : list (AttState * Outcome) :=
    match ops with
    | [] => []
    | op :: ops' => let r := step st op in r :: run (fst r) ops'
    end.

  Fixpoint final (st : AttState) (ops : list Op) : AttState :=
    match ops with
    | [] => st
    | op :: ops' => final (fst (step st op)) ops'
    end.
End Attest.
