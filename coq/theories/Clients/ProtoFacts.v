(** Round-trip (hence injectivity) lemmas for the proto3 wire encoders of Clients/Proto.v. *)
From IBC Require Import Lib.Bytes Lib.BytesFacts Lib.Dec Lib.BE64 Lib.BE64Facts Clients.Proto.
Local Open Scope N_scope.

Lemma parse_varint_fuel f v rest :
  v < 2 ^ N.of_nat (S f) -> parse_varint (varint_fuel (S f) v ++ rest) = Some (v, rest).
Proof.
  revert v; induction f as [|f IH]; intros v Hv.
  - assert (v < 128) as H by (change (2 ^ N.of_nat 1) with 2 in Hv; lia).
    cbn [varint_fuel]. apply N.ltb_lt in H as Hb. rewrite Hb. cbn [app parse_varint].
    rewrite byte_embed by lia. now rewrite Hb.
  - change (varint_fuel (S (S f)) v)
      with (if v <? 128 then [ascii_of_N v] else ascii_of_N (v mod 128 + 128) :: varint_fuel (S f) (v / 128)).
    destruct (v <? 128) eqn:Hb.
    + cbn [app parse_varint]. apply N.ltb_lt in Hb as H. rewrite byte_embed by lia. now rewrite Hb.
    + apply N.ltb_ge in Hb.
      assert (v mod 128 < 128) as Hm by (apply N.mod_lt; discriminate).
      change ((ascii_of_N (v mod 128 + 128) :: varint_fuel (S f) (v / 128)) ++ rest)
        with (ascii_of_N (v mod 128 + 128) :: (varint_fuel (S f) (v / 128) ++ rest)).
      assert (v mod 128 + 128 < 256) as Hlt by (revert Hm; generalize (v mod 128); intros; lia).
      cbn [parse_varint]. rewrite byte_embed by exact Hlt.
      assert (v mod 128 + 128 <? 128 = false) as -> by (apply N.ltb_ge; generalize (v mod 128); intros; lia).
      rewrite IH.
      * f_equal. f_equal. pose proof (N.div_mod' v 128) as D. revert D. generalize (v mod 128) (v / 128). intros; lia.
      * apply N.div_lt_upper_bound; [discriminate|].
        rewrite Nat2N.inj_succ, N.pow_succ_r' in Hv.
        assert (0 < 2 ^ N.of_nat (S f)) by (apply N.neq_0_lt_0, N.pow_nonzero; discriminate). lia.
Qed.

Lemma parse_varint_varint v rest : parse_varint (varint v ++ rest) = Some (v, rest).
Proof.
  unfold varint. apply parse_varint_fuel.
  rewrite Nat2N.inj_succ, N2Nat.id.
  destruct v as [|p]; [reflexivity|].
  apply N.log2_spec. reflexivity.
Qed.

Lemma take_len_app (b rest : bytes) : take_len (varint (N.of_nat (length b)) ++ b ++ rest) = Some (b, rest).
Proof.
  unfold take_len. rewrite parse_varint_varint, Nat2N.id.
  assert ((length b <=? length (b ++ rest))%nat = true) as ->
    by (apply Nat.leb_le; rewrite app_length; lia).
  f_equal. f_equal.
  - rewrite firstn_app, Nat.sub_diag, firstn_all. simpl. apply app_nil_r.
  - rewrite skipn_app, Nat.sub_diag, skipn_all. reflexivity.
Qed.

Lemma dec_field_varint tag v rest :
  starts_with tag rest = false -> dec_varint_field tag (field_varint tag v ++ rest) = Some (v, rest).
Proof.
  intros H. unfold field_varint. destruct (v =? 0) eqn:E.
  - apply N.eqb_eq in E. subst v. simpl. destruct rest as [|c r]; [reflexivity|].
    simpl in *. now rewrite H.
  - cbn [app dec_varint_field]. rewrite Ascii.eqb_refl. apply parse_varint_varint.
Qed.

Lemma dec_field_bytes tag (b rest : bytes) :
  starts_with tag rest = false -> dec_bytes_field tag (field_bytes tag b ++ rest) = Some (b, rest).
Proof.
  intros H. unfold field_bytes. destruct b as [|x b].
  - simpl. destruct rest as [|c r]; [reflexivity|]. simpl in *. now rewrite H.
  - cbn [app dec_bytes_field]. rewrite Ascii.eqb_refl. rewrite <- app_assoc. apply take_len_app.
Qed.

Lemma dec_field_msg tag (m : option bytes) (rest : bytes) :
  starts_with tag rest = false -> dec_msg_field tag (field_msg tag m ++ rest) = Some (m, rest).
Proof.
  intros H. unfold field_msg. destruct m as [b|].
  - cbn [app dec_msg_field]. rewrite Ascii.eqb_refl. rewrite <- app_assoc. now rewrite take_len_app.
  - simpl. destruct rest as [|c r]; [reflexivity|]. simpl in *. now rewrite H.
Qed.

(** what an encoded field can start with *)
Lemma starts_field_varint t t' v r :
  Ascii.eqb t' t = false -> starts_with t r = false -> starts_with t (field_varint t' v ++ r) = false.
Proof. intros Ht Hr. unfold field_varint. destruct (v =? 0); simpl; auto. Qed.

Lemma starts_field_bytes t t' (b r : bytes) :
  Ascii.eqb t' t = false -> starts_with t r = false -> starts_with t (field_bytes t' b ++ r) = false.
Proof. intros Ht Hr. unfold field_bytes. destruct b; simpl; auto. Qed.

Lemma starts_nil t : starts_with t [] = false.
Proof. reflexivity. Qed.
