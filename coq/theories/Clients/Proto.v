(** proto3 wire encoding as emitted by gogoproto's generated MarshalToSizedBuffer, for the message shapes the
    solo machine signs (06-solomachine/solomachine.pb.go: SignBytes, HeaderData): base-128 varints,
    one-byte tags, length-delimited fields, scalar/bytes fields omitted when zero/empty, fields in
    ascending field-number order.  With decoders and the round-trip lemmas that give injectivity. *)
From IBC Require Import Lib.Bytes Lib.BytesFacts.
Local Open Scope N_scope.

(** encodeVarintSolomachine: 7 bits per byte, least significant group first, high bit = continuation *)
Fixpoint varint_fuel (fuel : nat) (v : N) : bytes :=
  match fuel with
  | O => []
  | S f => if v <? 128 then [ascii_of_N v]
           else ascii_of_N (v mod 128 + 128) :: varint_fuel f (v / 128)
  end.

Definition varint (v : N) : bytes := varint_fuel (S (N.to_nat (N.log2 v))) v.

Fixpoint parse_varint (s : bytes) : option (N * bytes) :=
  match s with
  | [] => None
  | c :: s' =>
      let n := N_of_ascii c in
      if n <? 128 then Some (n, s')
      else match parse_varint s' with
           | Some (hi, r) => Some (n - 128 + 128 * hi, r)
           | None => None
           end
  end.

(** uint64 field: omitted when zero *)
Definition field_varint (tag : ascii) (v : N) : bytes :=
  if v =? 0 then [] else tag :: varint v.

(** bytes / string field: omitted when empty *)
Definition field_bytes (tag : ascii) (b : bytes) : bytes :=
  match b with
  | [] => []
  | _ => tag :: varint (N.of_nat (length b)) ++ b
  end.

(** embedded message field (pointer): omitted when nil, emitted (possibly with length 0) otherwise *)
Definition field_msg (tag : ascii) (m : option bytes) : bytes :=
  match m with
  | None => []
  | Some b => tag :: varint (N.of_nat (length b)) ++ b
  end.

(** decoders: a field is present iff the next byte is its tag *)
Definition starts_with (tag : ascii) (s : bytes) : bool :=
  match s with c :: _ => Ascii.eqb c tag | [] => false end.

Definition take_len (s : bytes) : option (bytes * bytes) :=
  match parse_varint s with
  | Some (n, r) =>
      let k := N.to_nat n in
      if (k <=? length r)%nat then Some (firstn k r, skipn k r) else None
  | None => None
  end.

Definition dec_varint_field (tag : ascii) (s : bytes) : option (N * bytes) :=
  match s with
  | c :: s' => if Ascii.eqb c tag then parse_varint s' else Some (0, s)
  | [] => Some (0, [])
  end.

Definition dec_bytes_field (tag : ascii) (s : bytes) : option (bytes * bytes) :=
  match s with
  | c :: s' => if Ascii.eqb c tag then take_len s' else Some ([], s)
  | [] => Some ([], [])
  end.

Definition dec_msg_field (tag : ascii) (s : bytes) : option (option bytes * bytes) :=
  match s with
  | c :: s' => if Ascii.eqb c tag then
                 match take_len s' with Some (b, r) => Some (Some b, r) | None => None end
               else Some (None, s)
  | [] => Some (None, [])
  end.

(** tags of the solo machine messages *)
Definition tag_08 : ascii := ascii_of_N 8.     (* field 1, varint *)
Definition tag_10 : ascii := ascii_of_N 16.    (* field 2, varint *)
Definition tag_0a : ascii := ascii_of_N 10.    (* field 1, length-delimited *)
Definition tag_12 : ascii := ascii_of_N 18.    (* field 2, length-delimited *)
Definition tag_1a : ascii := ascii_of_N 26.    (* field 3, length-delimited *)
Definition tag_22 : ascii := ascii_of_N 34.    (* field 4, length-delimited *)
Definition tag_2a : ascii := ascii_of_N 42.    (* field 5, length-delimited *)
