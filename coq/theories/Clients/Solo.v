(** C26 — 06-solomachine light client, driven through the 02-client keeper.

    Model of /repo/modules/light-clients/06-solomachine:
      client_state.go  verifyMembership / verifyNonMembership / produceVerificationArgs
      update.go        VerifyClientMessage / verifyHeader / UpdateState
      misbehaviour_handle.go  verifyMisbehaviour / verifySignatureAndData / CheckForMisbehaviour
      misbehaviour.go, header.go  ValidateBasic (run by MsgUpdateClient.ValidateBasic before the handler)
      light_client_module.go   UpdateStateOnMisbehaviour, Status, RecoverClient
      proposal_handle.go       CheckSubstituteAndUpdateState
    and of the status gates of modules/core/02-client/keeper (UpdateClient, VerifyMembership,
    VerifyNonMembership: client must be Active; RecoverClient: subject not Active, substitute Active,
    substitute height strictly greater).

    Externals are Section variables: [sig_ok pk msg sigbz] stands for
    "UnmarshalSignatureData(sigbz) succeeds and VerifySignature(pk, msg, sigData) = nil"
    (proof.go:VerifySignature: secp256k1 / multisig verification of the SDK) for the public key whose
    protobuf Any encoding is [pk].  Public keys are carried as the bytes of their Any encoding (that is
    what HeaderData signs over and what the consensus state stores). *)
From IBC Require Import Lib.Bytes Lib.BytesFacts Lib.Dec Clients.Proto Clients.Localhost.
Local Open Scope N_scope.

(** solomachine.pb.go: SignBytes.MarshalToSizedBuffer — sequence=1 (varint), timestamp=2 (varint),
    diversifier=3 (string), path=4 (bytes), data=5 (bytes); zero / empty fields are omitted *)
Definition sign_bytes_enc (seq ts : N) (div path data : bytes) : bytes :=
  field_varint tag_08 seq ++ field_varint tag_10 ts ++ field_bytes tag_1a div ++
  field_bytes tag_22 path ++ field_bytes tag_2a data.

(** HeaderData: new_pub_key=1 (Any, embedded message), new_diversifier=2 (string) *)
Definition header_data_enc (pk : option bytes) (div : bytes) : bytes :=
  field_msg tag_0a pk ++ field_bytes tag_12 div.

(** header.go: SentinelHeaderPath *)
Definition sentinel_header_path : bytes := B "solomachine:header".

(** strings.TrimSpace(s) == "" for s <> "" — modelled for ASCII white space (\t \n \v \f \r and space) *)
Definition is_space (c : ascii) : bool :=
  let n := N_of_ascii c in ((9 <=? n) && (n <=? 13)) || (n =? 32).
Definition blank_nonempty (s : bytes) : bool :=
  match s with [] => false | _ => forallb is_space s end.

Definition is_nil (s : bytes) : bool := match s with [] => true | _ => false end.

(** ClientState{Sequence, IsFrozen, ConsensusState{PublicKey, Diversifier, Timestamp}} *)
Record SmState := mkSm { sm_seq : N; sm_frozen : bool; sm_pk : bytes; sm_div : bytes; sm_ts : N }.

Record Header := mkHeader {
  h_ts : N;
  h_sig : bytes;
  h_newpk : option bytes;     (* None: nil Any, not a PubKey, or empty key bytes (Header.ValidateBasic) *)
  h_newdiv : bytes
}.

Record SigAndData := mkSD {
  sd_sig : bytes;
  sd_path : bytes;
  sd_path_ok : bool;          (* cdc.Unmarshal(Path, MerklePath) succeeds (protobuf decoding, not modelled) *)
  sd_data : bytes;
  sd_ts : N
}.

(** the proof argument of VerifyMembership: nil, not a TimestampedSignatureData, or one *)
Inductive Proof := ProofNil | ProofBad | ProofTsd (sigdata : bytes) (ts : N).

Inductive Op :=
| OpUpdate (h : Header)
| OpMisbehaviour (mseq : N) (s1 s2 : option SigAndData)   (* None: nil pointer in the decoded message *)
| OpVerifyMembership (p : Proof) (path : Path) (value : bytes)
| OpVerifyNonMembership (p : Proof) (path : Path)
| OpRecover (substitute : option SmState).  (* None: no solo machine client state under that identifier *)

Section Solo.
  Variable sig_ok : bytes -> bytes -> bytes -> bool.
  (** [sig_malformed sigbz]: the bytes unmarshal into a signing.SignatureDescriptor_Data whose [Sum] (or that
      of a nested multi-signature entry) is unset, on which the SDK's signing.SignatureDataFromProto —
      called by codec.go:UnmarshalSignatureData — panics ("unexpected case <nil>"). *)
  Variable sig_malformed : bytes -> bool.

  Definition next_seq (s : N) : N := (s + 1) mod two64.    (* cs.Sequence++ on a uint64 *)

  (** misbehaviour.go: SignatureAndData.ValidateBasic *)
  Definition sd_valid (s : SigAndData) : bool :=
    negb (is_nil (sd_sig s)) && negb (is_nil (sd_data s)) && negb (is_nil (sd_path s)) && negb (sd_ts s =? 0).

  (** misbehaviour_handle.go: verifySignatureAndData — path must unmarshal, then UnmarshalSignatureData
      (may panic), then VerifySignature *)
  Definition verify_sig_and_data (st : SmState) (mseq : N) (s : SigAndData) : Outcome :=
    if negb (sd_path_ok s) then Err
    else if sig_malformed (sd_sig s) then Panic
    else if sig_ok (sm_pk st) (sign_bytes_enc mseq (sd_ts s) (sm_div st) (sd_path s) (sd_data s)) (sd_sig s)
         then Ok else Err.

  (** the message and signature a verification operation checks in state [st] (None: it never gets there
      for structural reasons) *)
  Definition checked (st : SmState) (op : Op) : option (bytes * bytes) :=
    match op with
    | OpUpdate h =>
        match h_newpk h with
        | Some npk =>
            Some (sign_bytes_enc (sm_seq st) (h_ts h) (sm_div st) sentinel_header_path
                                 (header_data_enc (Some npk) (h_newdiv h)), h_sig h)
        | None => None
        end
    | OpVerifyMembership (ProofTsd sd ts) (PMerkle [_; key]) value =>
        Some (sign_bytes_enc (sm_seq st) ts (sm_div st) key value, sd)
    | OpVerifyNonMembership (ProofTsd sd ts) (PMerkle [_; key]) =>
        Some (sign_bytes_enc (sm_seq st) ts (sm_div st) key [], sd)
    | _ => None
    end.

  (** produceVerificationArgs + path checks + signature check, shared by membership / non-membership;
      [data] is the value ([] for non-membership: Data: nil) *)
  Definition verify_proof (st : SmState) (p : Proof) (path : Path) (data : bytes) : SmState * Outcome :=
    match p with
    | ProofNil => (st, Err)                                    (* proof == nil *)
    | ProofBad => (st, Err)                                    (* cdc.Unmarshal fails *)
    | ProofTsd sd ts =>
        if is_nil sd then (st, Err)                            (* len(SignatureData) == 0 *)
        else if sig_malformed sd then (st, Panic)              (* UnmarshalSignatureData -> SignatureDataFromProto *)
        else if ts <? sm_ts st then (st, Err)                  (* cs.ConsensusState.GetTimestamp() > timestamp *)
        else match path with
             | POther => (st, Err)
             | PMerkle [_; key] =>
                 if sig_ok (sm_pk st) (sign_bytes_enc (sm_seq st) ts (sm_div st) key data) sd
                 then (mkSm (next_seq (sm_seq st)) (sm_frozen st) (sm_pk st) (sm_div st) ts, Ok)
                 else (st, Err)
             | PMerkle _ => (st, Err)                          (* len(KeyPath) != 2 *)
             end
    end.

  Definition step (st : SmState) (op : Op) : SmState * Outcome :=
    match op with
    | OpUpdate h =>
        (* Header.ValidateBasic *)
        if h_ts h =? 0 then (st, Err)
        else if blank_nonempty (h_newdiv h) then (st, Err)
        else if is_nil (h_sig h) then (st, Err)
        else match h_newpk h with
             | None => (st, Err)
             | Some npk =>
                 (* keeper.UpdateClient: Status must be Active *)
                 if sm_frozen st then (st, Err)
                 (* verifyHeader *)
                 else if h_ts h <? sm_ts st then (st, Err)
                 else if sig_malformed (h_sig h) then (st, Panic)   (* UnmarshalSignatureData *)
                 else if sig_ok (sm_pk st)
                           (sign_bytes_enc (sm_seq st) (h_ts h) (sm_div st) sentinel_header_path
                                           (header_data_enc (Some npk) (h_newdiv h)))
                           (h_sig h)
                 (* CheckForMisbehaviour = false for a Header; UpdateState *)
                 then (mkSm (next_seq (sm_seq st)) (sm_frozen st) npk (h_newdiv h) (h_ts h), Ok)
                 else (st, Err)
             end
    | OpMisbehaviour mseq s1 s2 =>
        (* Misbehaviour.ValidateBasic *)
        if mseq =? 0 then (st, Err)
        else match s1, s2 with
             | Some a, Some b =>
                 if negb (sd_valid a) then (st, Err)
                 else if negb (sd_valid b) then (st, Err)
                 else if bytes_eqb (sd_sig a) (sd_sig b) then (st, Err)
                 else if bytes_eqb (sd_path a) (sd_path b) && bytes_eqb (sd_data a) (sd_data b) then (st, Err)
                 (* keeper.UpdateClient: Status must be Active *)
                 else if sm_frozen st then (st, Err)
                 (* verifyMisbehaviour *)
                 else match verify_sig_and_data st mseq a with
                      | Ok =>
                          match verify_sig_and_data st mseq b with
                          (* CheckForMisbehaviour = true; UpdateStateOnMisbehaviour *)
                          | Ok => (mkSm (sm_seq st) true (sm_pk st) (sm_div st) (sm_ts st), Ok)
                          | o => (st, o)
                          end
                      | o => (st, o)
                      end
             (* SignatureOne == nil || SignatureTwo == nil (since /repo commit 6331512; a nil dereference before) *)
             | _, _ => (st, Err)
             end
    | OpVerifyMembership p path value =>
        if sm_frozen st then (st, Err) else verify_proof st p path value
    | OpVerifyNonMembership p path =>
        if sm_frozen st then (st, Err) else verify_proof st p path []
    | OpRecover substitute =>
        (* keeper.RecoverClient *)
        if negb (sm_frozen st) then (st, Err)                  (* subject Active *)
        else match substitute with
             | None => (st, Err)                               (* substitute status Unknown *)
             | Some s =>
                 if sm_frozen s then (st, Err)                 (* substitute not Active *)
                 else if sm_seq s <=? sm_seq st then (st, Err) (* subjectLatestHeight.GTE(substituteLatestHeight) *)
                 (* CheckSubstituteAndUpdateState *)
                 else if bytes_eqb (sm_pk st) (sm_pk s) then (st, Err)
                 else (mkSm (sm_seq s) false (sm_pk s) (sm_div s) (sm_ts s), Ok)
             end
    end.

  (** one entry of a history: state before, operation, outcome, state after *)
  Record Entry := mkEntry { e_before : SmState; e_op : Op; e_out : Outcome; e_after : SmState }.

  Fixpoint trace (st : SmState) (ops : list Op) : list Entry :=
    match ops with
    | [] => []
    | op :: ops' =>
        let r := step st op in
        mkEntry st op (snd r) (fst r) :: trace (fst r) ops'
    end.

  Fixpoint final (st : SmState) (ops : list Op) : SmState :=
    match ops with
    | [] => st
    | op :: ops' => final (fst (step st op)) ops'
    end.

  Definition is_verification (op : Op) : bool :=
    match op with OpUpdate _ | OpVerifyMembership _ _ _ | OpVerifyNonMembership _ _ => true | _ => false end.

  Definition is_ok (o : Outcome) : bool := match o with Ok => true | _ => false end.

  (** the accepted verifications of a history, in order: (sequence consumed, sign bytes, signature) *)
  Fixpoint accepted (tr : list Entry) : list (N * bytes * bytes) :=
    match tr with
    | [] => []
    | e :: tr' =>
        if is_verification (e_op e) && is_ok (e_out e) then
          match checked (e_before e) (e_op e) with
          | Some (m, s) => (sm_seq (e_before e), m, s) :: accepted tr'
          | None => accepted tr'
          end
        else accepted tr'
    end.
End Solo.
