(** Facts about the client recovery store model (C29). *)
From IBC Require Import Lib.Bytes Lib.BytesFacts Lib.BE64 Clients.WasmStore.

(** ** byte-string comparison *)

Lemma N_of_ascii_inj a b : N_of_ascii a = N_of_ascii b -> a = b.
Proof. intros E. rewrite <- (ascii_N_embedding a), <- (ascii_N_embedding b). now rewrite E. Qed.

Lemma bytes_cmp_eq a b : bytes_cmp a b = Eq <-> a = b.
Proof.
  revert b; induction a as [|x a IH]; intros [|y b]; simpl; try (split; [discriminate|discriminate]); [tauto|].
  destruct (N.compare_spec (N_of_ascii x) (N_of_ascii y)) as [E|L|G].
  - apply N_of_ascii_inj in E. subst y. rewrite IH. split; [intros ->; reflexivity|intros [= ->]; reflexivity].
  - split; [discriminate|intros [= -> ->]; lia].
  - split; [discriminate|intros [= -> ->]; lia].
Qed.

Lemma bytes_cmp_refl a : bytes_cmp a a = Eq.
Proof. now apply bytes_cmp_eq. Qed.

(** ** the association-list store *)

Lemma kv_get_set_same m k v : kv_get (kv_set m k v) k = Some v.
Proof.
  induction m as [|[k' v'] m IH]; simpl.
  - now rewrite bytes_eqb_refl.
  - destruct (bytes_cmp k k') eqn:C; simpl.
    + now rewrite bytes_eqb_refl.
    + now rewrite bytes_eqb_refl.
    + destruct (bytes_eqb k' k) eqn:E; [|exact IH].
      apply bytes_eqb_eq in E. subst k'. now rewrite bytes_cmp_refl in C.
Qed.

Lemma kv_get_set_other m k v k0 : k0 <> k -> kv_get (kv_set m k v) k0 = kv_get m k0.
Proof.
  intros Hne. induction m as [|[k' v'] m IH]; simpl.
  - destruct (bytes_eqb k k0) eqn:E; [apply bytes_eqb_eq in E; congruence|reflexivity].
  - destruct (bytes_cmp k k') eqn:C; simpl.
    + apply bytes_cmp_eq in C. subst k'.
      destruct (bytes_eqb k k0) eqn:E; [apply bytes_eqb_eq in E; congruence|reflexivity].
    + destruct (bytes_eqb k k0) eqn:E; [apply bytes_eqb_eq in E; congruence|reflexivity].
    + now rewrite IH.
Qed.

Lemma kv_get_del_same m k : kv_get (kv_del m k) k = None.
Proof.
  induction m as [|[k' v'] m IH]; simpl; [reflexivity|].
  destruct (bytes_eqb k' k) eqn:E; [exact IH|]. simpl. now rewrite E.
Qed.

Lemma kv_get_del_other m k k0 : k0 <> k -> kv_get (kv_del m k) k0 = kv_get m k0.
Proof.
  intros Hne. induction m as [|[k' v'] m IH]; simpl; [reflexivity|].
  destruct (bytes_eqb k' k) eqn:E.
  - apply bytes_eqb_eq in E. subst k'.
    destruct (bytes_eqb k k0) eqn:E2; [apply bytes_eqb_eq in E2; congruence|exact IH].
  - simpl. now rewrite IH.
Qed.

Lemma kv_iter_in m s e k v :
  In (k, v) (kv_iter m s e) <-> In (k, v) m /\ bytes_cmp s k <> Gt /\ bytes_cmp k e = Lt.
Proof.
  unfold kv_iter. rewrite filter_In. unfold in_range, cmp_le, cmp_lt. simpl.
  rewrite andb_true_iff.
  destruct (bytes_cmp s k), (bytes_cmp k e); intuition congruence.
Qed.

Lemma kv_riter_in m s e k v : In (k, v) (kv_riter m s e) <-> In (k, v) (kv_iter m s e).
Proof. unfold kv_riter. now rewrite <- in_rev. Qed.

(** ** SplitPrefix *)

Lemma split_subject k : split_prefix (subject_prefix ++ k) = (PSubject, k).
Proof. unfold split_prefix. now rewrite strip_prefix_app. Qed.

Lemma split_substitute k : split_prefix (substitute_prefix ++ k) = (PSubstitute, k).
Proof. reflexivity. Qed.

Lemma split_subject_inv k r : split_prefix k = (PSubject, r) -> k = subject_prefix ++ r.
Proof.
  unfold split_prefix. destruct (strip_prefix subject_prefix k) eqn:E.
  - intros [= ->]. now apply strip_prefix_spec.
  - destruct (strip_prefix substitute_prefix k); discriminate.
Qed.

Lemma split_substitute_inv k r : split_prefix k = (PSubstitute, r) -> k = substitute_prefix ++ r.
Proof.
  unfold split_prefix. destruct (strip_prefix subject_prefix k) eqn:E; [discriminate|].
  destruct (strip_prefix substitute_prefix k) eqn:E2; [|discriminate].
  intros [= ->]. now apply strip_prefix_spec.
Qed.

Definition unprefixed (k : bytes) : Prop :=
  is_prefix subject_prefix k = false /\ is_prefix substitute_prefix k = false.

Lemma strip_none_iff p k : strip_prefix p k = None <-> is_prefix p k = false.
Proof.
  split; intros H.
  - destruct (is_prefix p k) eqn:E; [|reflexivity].
    apply is_prefix_spec in E as [r ->]. now rewrite strip_prefix_app in H.
  - destruct (strip_prefix p k) eqn:E; [|reflexivity].
    apply strip_prefix_spec in E. subst k. now rewrite is_prefix_app in H.
Qed.

Lemma split_none_iff k : fst (split_prefix k) = PNone <-> unprefixed k.
Proof.
  unfold split_prefix, unprefixed. rewrite <- !strip_none_iff.
  destruct (strip_prefix subject_prefix k); [simpl; split; [discriminate|intros [? _]; discriminate]|].
  destruct (strip_prefix substitute_prefix k); simpl; split; try discriminate; auto.
  intros [_ ?]; discriminate.
Qed.

Lemma split_none k : unprefixed k -> split_prefix k = (PNone, k).
Proof.
  intros [H1 H2]. apply strip_none_iff in H1, H2. unfold split_prefix. now rewrite H1, H2.
Qed.

(** ** the substitute store is never written *)

Lemma step_subst st op : subst (fst (step st op)) = subst st.
Proof.
  destruct op as [k|k|k v|k|s e|s e]; simpl.
  - destruct (split_prefix k) as [p k']. destruct (get_store st p); reflexivity.
  - destruct (split_prefix k) as [p k']. destruct (get_store st p); reflexivity.
  - destruct (split_prefix k) as [p k']. destruct (pfx_eqb p PSubject); [|reflexivity].
    destruct k'; [reflexivity|]. destruct v; reflexivity.
  - destruct (split_prefix k) as [p k']. destruct (pfx_eqb p PSubject); reflexivity.
  - destruct (split_prefix s) as [ps s']. destruct (split_prefix e) as [pe e'].
    destruct (pfx_eqb ps pe); [|reflexivity]. destruct (get_store st ps); reflexivity.
  - destruct (split_prefix s) as [ps s']. destruct (split_prefix e) as [pe e'].
    destruct (pfx_eqb ps pe); [|reflexivity]. destruct (get_store st ps); reflexivity.
Qed.

Lemma final_subst st ops : subst (final st ops) = subst st.
Proof.
  revert st; induction ops as [|op ops IH]; intros st; simpl; [reflexivity|].
  now rewrite IH, step_subst.
Qed.

(** every intermediate state of a history has the initial substitute store *)
Lemma run_subst st ops : Forall (fun r => subst (fst r) = subst st) (run st ops).
Proof.
  revert st; induction ops as [|op ops IH]; intros st; simpl; constructor.
  - apply step_subst.
  - specialize (IH (fst (step st op))). rewrite step_subst in IH. exact IH.
Qed.

(** ** writes reach the subject store iff the key carries the subject prefix (stripped) *)

Lemma step_set_subject st k v :
  k <> [] -> step st (OSet (subject_prefix ++ k) (Some v)) = (with_subj st (kv_set (subj st) k v), RUnit).
Proof.
  intros Hk. cbn [step]. rewrite split_subject. simpl pfx_eqb. cbv iota.
  destruct k; [congruence|reflexivity].
Qed.

Lemma step_del_subject st k :
  step st (ODel (subject_prefix ++ k)) = (with_subj st (kv_del (subj st) k), RUnit).
Proof. cbn [step]. now rewrite split_subject. Qed.

Lemma pfx_eqb_subject p : pfx_eqb p PSubject = true <-> p = PSubject.
Proof. destruct p; simpl; split; congruence. Qed.

(** the only operations that can change the subject store are Set/Delete of a subject/-prefixed key,
    and their effect is exactly set/delete of the stripped key *)
Lemma step_subj_changed st op :
  subj (fst (step st op)) <> subj st ->
  exists k, (exists v, op = OSet (subject_prefix ++ k) (Some v) /\ k <> [] /\
                       subj (fst (step st op)) = kv_set (subj st) k v)
            \/ (op = ODel (subject_prefix ++ k) /\ subj (fst (step st op)) = kv_del (subj st) k).
Proof.
  destruct op as [k|k|k v|k|s e|s e]; simpl.
  - destruct (split_prefix k) as [p k']. destruct (get_store st p); simpl; congruence.
  - destruct (split_prefix k) as [p k']. destruct (get_store st p); simpl; congruence.
  - destruct (split_prefix k) as [p k'] eqn:S. destruct (pfx_eqb p PSubject) eqn:P; [|simpl; congruence].
    apply pfx_eqb_subject in P. subst p. apply split_subject_inv in S. subst k.
    destruct k' as [|c k']; [simpl; congruence|]. destruct v as [v|]; [|simpl; congruence].
    simpl. intros _. exists (c :: k'). left. exists v. repeat split; congruence.
  - destruct (split_prefix k) as [p k'] eqn:S. destruct (pfx_eqb p PSubject) eqn:P; [|simpl; congruence].
    apply pfx_eqb_subject in P. subst p. apply split_subject_inv in S. subst k.
    simpl. intros _. exists k'. right. split; reflexivity.
  - destruct (split_prefix s) as [ps s']. destruct (split_prefix e) as [pe e'].
    destruct (pfx_eqb ps pe); [|simpl; congruence]. destruct (get_store st ps); simpl; congruence.
  - destruct (split_prefix s) as [ps s']. destruct (split_prefix e) as [pe e'].
    destruct (pfx_eqb ps pe); [|simpl; congruence]. destruct (get_store st ps); simpl; congruence.
Qed.

(** keys that do not carry the subject prefix (substitute/, unprefixed, anything else) never write *)
Lemma step_write_not_subject st k v :
  fst (split_prefix k) <> PSubject ->
  step st (OSet k v) = (st, RUnit) /\ step st (ODel k) = (st, RUnit).
Proof.
  intros H. cbn [step]. destruct (split_prefix k) as [p k']. simpl in H.
  destruct p; simpl; try tauto; split; reflexivity.
Qed.

(** ** reads are routed by prefix *)

Lemma step_get_subject st k : step st (OGet (subject_prefix ++ k)) = (st, RGet (kv_get (subj st) k)).
Proof. cbn [step]. now rewrite split_subject. Qed.

Lemma step_get_substitute st k : step st (OGet (substitute_prefix ++ k)) = (st, RGet (kv_get (subst st) k)).
Proof. reflexivity. Qed.

Lemma step_has_subject st k :
  step st (OHas (subject_prefix ++ k)) = (st, RHas (match kv_get (subj st) k with Some _ => true | None => false end)).
Proof. cbn [step]. now rewrite split_subject. Qed.

Lemma step_has_substitute st k :
  step st (OHas (substitute_prefix ++ k)) = (st, RHas (match kv_get (subst st) k with Some _ => true | None => false end)).
Proof. reflexivity. Qed.

Lemma step_iter_subject st s e :
  step st (OIter (subject_prefix ++ s) (subject_prefix ++ e)) = (st, RIter (kv_iter (subj st) s e)) /\
  step st (ORIter (subject_prefix ++ s) (subject_prefix ++ e)) = (st, RIter (kv_riter (subj st) s e)).
Proof. cbn [step]. now rewrite !split_subject. Qed.

Lemma step_iter_substitute st s e :
  step st (OIter (substitute_prefix ++ s) (substitute_prefix ++ e)) = (st, RIter (kv_iter (subst st) s e)) /\
  step st (ORIter (substitute_prefix ++ s) (substitute_prefix ++ e)) = (st, RIter (kv_riter (subst st) s e)).
Proof. split; reflexivity. Qed.

(** ** keys / ranges without one consistent prefix read as empty and write nothing *)

Lemma step_unprefixed_key st k :
  unprefixed k ->
  step st (OGet k) = (st, RGet None) /\ step st (OHas k) = (st, RHas false) /\
  (forall v, step st (OSet k v) = (st, RUnit)) /\ step st (ODel k) = (st, RUnit).
Proof.
  intros U. cbn [step]. rewrite (split_none k U). simpl. auto.
Qed.

Lemma step_inconsistent_range st s e :
  fst (split_prefix s) <> fst (split_prefix e) \/ fst (split_prefix s) = PNone ->
  step st (OIter s e) = (st, RIter []) /\ step st (ORIter s e) = (st, RIter []).
Proof.
  intros H. cbn [step]. destruct (split_prefix s) as [ps s']. destruct (split_prefix e) as [pe e'].
  simpl in H. destruct ps, pe; simpl; try (split; reflexivity); destruct H; congruence.
Qed.

(** conversely a range is served from a store only when both ends carry that store's prefix *)
Lemma step_iter_nonempty st s e l :
  (step st (OIter s e) = (st, RIter l) \/ step st (ORIter s e) = (st, RIter l)) -> l <> [] ->
  exists s' e', (s = subject_prefix ++ s' /\ e = subject_prefix ++ e') \/
                (s = substitute_prefix ++ s' /\ e = substitute_prefix ++ e').
Proof.
  intros H Hl.
  destruct (split_prefix s) as [ps s'] eqn:Ss. destruct (split_prefix e) as [pe e'] eqn:Se.
  exists s', e'.
  destruct ps, pe;
    try (exfalso; destruct H as [H|H]; cbn [step] in H; rewrite Ss, Se in H; simpl in H;
         unfold closed_read in H; congruence).
  - left. split; now apply split_subject_inv.
  - right. split; now apply split_substitute_inv.
Qed.

(** ** reads never panic and never change anything; a panicking Set changes nothing *)

Lemma step_read_pure st op :
  match op with OSet _ _ | ODel _ => True | _ => fst (step st op) = st /\ snd (step st op) <> RPanic end.
Proof.
  destruct op as [k|k|k v|k|s e|s e]; cbn [step]; try exact I.
  - destruct (split_prefix k) as [p k']. destruct (get_store st p); simpl; split; congruence.
  - destruct (split_prefix k) as [p k']. destruct (get_store st p); simpl; split; congruence.
  - destruct (split_prefix s) as [ps s']. destruct (split_prefix e) as [pe e'].
    destruct (pfx_eqb ps pe); [destruct (get_store st ps)|]; simpl; split; unfold closed_read; congruence.
  - destruct (split_prefix s) as [ps s']. destruct (split_prefix e) as [pe e'].
    destruct (pfx_eqb ps pe); [destruct (get_store st ps)|]; simpl; split; unfold closed_read; congruence.
Qed.

Lemma step_panic st op :
  snd (step st op) = RPanic ->
  fst (step st op) = st /\
  exists k v, op = OSet (subject_prefix ++ k) v /\ (k = [] \/ v = None).
Proof.
  destruct op as [k|k|k v|k|s e|s e]; cbn [step].
  - destruct (split_prefix k) as [p k']. destruct (get_store st p); simpl; congruence.
  - destruct (split_prefix k) as [p k']. destruct (get_store st p); simpl; congruence.
  - destruct (split_prefix k) as [p k'] eqn:S. destruct (pfx_eqb p PSubject) eqn:P; [|simpl; congruence].
    apply pfx_eqb_subject in P. subst p. apply split_subject_inv in S. subst k.
    destruct k' as [|c k'].
    + simpl. intros _. split; [reflexivity|]. exists [], v. auto.
    + destruct v as [v|]; simpl; [congruence|]. intros _. split; [reflexivity|]. exists (c :: k'), None. auto.
  - destruct (split_prefix k) as [p k']. destruct (pfx_eqb p PSubject); simpl; congruence.
  - destruct (split_prefix s) as [ps s']. destruct (split_prefix e) as [pe e'].
    destruct (pfx_eqb ps pe); [destruct (get_store st ps)|]; simpl; unfold closed_read; congruence.
  - destruct (split_prefix s) as [ps s']. destruct (split_prefix e) as [pe e'].
    destruct (pfx_eqb ps pe); [destruct (get_store st ps)|]; simpl; unfold closed_read; congruence.
Qed.
