(** Proofs for [Sys/Determinism.v] (C45). *)
From Coq Require Import Permutation.
From IBC Require Import Lib.Bytes Lib.BytesFacts Lib.CorrLib Lib.BE64 Sys.Determinism Sys.Genesis Sys.GenesisFacts.

(** ** sort of a permutation is equal, for any total, antisymmetric, transitive order *)
Section SortFacts.
  Variable A : Type.
  Variable le : A -> A -> bool.
  Hypothesis le_total : forall a b, le a b = true \/ le b a = true.
  Hypothesis le_antisym : forall a b, le a b = true -> le b a = true -> a = b.
  Hypothesis le_trans : forall a b c, le a b = true -> le b c = true -> le a c = true.

  Inductive sorted : list A -> Prop :=
  | sorted_nil : sorted []
  | sorted_cons x l : (forall y, In y l -> le x y = true) -> sorted l -> sorted (x :: l).

  Lemma insert_In x l y : In y (insert le x l) <-> y = x \/ In y l.
  Proof.
    induction l as [|z t IH]; simpl.
    - intuition.
    - destruct (le x z); simpl; [intuition|]. rewrite IH. intuition.
  Qed.

  Lemma insert_sorted x l : sorted l -> sorted (insert le x l).
  Proof.
    induction 1 as [|z t Hz Hs IH]; simpl.
    - constructor; [intros y []|constructor].
    - destruct (le x z) eqn:E.
      + constructor; [|constructor; auto]. intros y [<-|Hy]; auto. eapply le_trans; eauto.
      + constructor; auto. intros y Hy. apply insert_In in Hy. destruct Hy as [->|Hy]; auto.
        destruct (le_total x z); congruence.
  Qed.

  Lemma isort_sorted l : sorted (isort le l).
  Proof. induction l; simpl; [constructor|now apply insert_sorted]. Qed.

  Lemma insert_perm x l : Permutation (insert le x l) (x :: l).
  Proof.
    induction l as [|z t IH]; simpl; auto. destruct (le x z); auto.
    eapply perm_trans; [apply perm_skip, IH|apply perm_swap].
  Qed.

  Lemma isort_perm l : Permutation (isort le l) l.
  Proof. induction l; simpl; auto. eapply perm_trans; [apply insert_perm|auto]. Qed.

  Lemma sorted_perm_eq l : forall l', sorted l -> sorted l' -> Permutation l l' -> l = l'.
  Proof.
    induction l as [|x t IH]; intros l' Hs Hs' P.
    - apply Permutation_nil in P. now subst.
    - destruct l' as [|y t']; [apply Permutation_sym, Permutation_nil in P; discriminate|].
      inversion Hs as [|? ? Hx Ht]; subst. inversion Hs' as [|? ? Hy Ht']; subst.
      assert (x = y).
      { assert (I1 : In x (y :: t')) by (eapply Permutation_in; [exact P|now left]).
        assert (I2 : In y (x :: t)) by (eapply Permutation_in; [apply Permutation_sym; exact P|now left]).
        destruct I1 as [->|I1]; auto. destruct I2 as [->|I2]; auto; try (apply le_antisym; auto). }
      subst y. f_equal. apply IH; auto. eapply Permutation_cons_inv; eauto.
  Qed.

  (** slices.Sort / sort.Sort of a collection of pairwise distinct keys returns the same list whatever order the
      map iteration (or the store) delivered the elements in *)
  Theorem sort_canonical l l' : Permutation l l' -> isort le l = isort le l'.
  Proof.
    intros P. apply sorted_perm_eq; try apply isort_sorted.
    eapply perm_trans; [apply isort_perm|]. eapply perm_trans; [exact P|]. apply Permutation_sym, isort_perm.
  Qed.
End SortFacts.

(** ** loops that only test for existence *)
Lemma existsb_perm {A} (f : A -> bool) l l' : Permutation l l' -> existsb f l = existsb f l'.
Proof.
  induction 1; simpl; auto.
  - now rewrite IHPermutation.
  - destruct (f x), (f y); auto.
  - congruence.
Qed.

Theorem add_route_order_irrelevant prefixes prefixes' port :
  Permutation prefixes prefixes' -> add_route_collides prefixes port = add_route_collides prefixes' port.
Proof. apply existsb_perm. Qed.

Theorem add_prefix_order_irrelevant routes routes' prefixes prefixes' np :
  Permutation routes routes' -> Permutation prefixes prefixes' ->
  add_prefix_collides routes prefixes np = add_prefix_collides routes' prefixes' np.
Proof. intros P Q. unfold add_prefix_collides. now rewrite (existsb_perm _ _ _ P), (existsb_perm _ _ _ Q). Qed.

(** ** getRoute: first match of a loop with at most one match *)
Lemma find_unique_perm {A} (f : A -> bool) l l' :
  (forall x y, In x l -> In y l -> f x = true -> f y = true -> x = y) ->
  Permutation l l' -> find f l = find f l'.
Proof.
  intros U P. destruct (find f l) as [x|] eqn:F.
  - apply find_some in F. destruct F as [Hin Hf].
    destruct (find f l') as [y|] eqn:F'.
    + apply find_some in F'. destruct F' as [Hin' Hf']. f_equal. symmetry. apply U; auto.
      eapply Permutation_in; [apply Permutation_sym; exact P|auto].
    + exfalso. eapply find_none in F'; [|eapply Permutation_in; eauto]. congruence.
  - destruct (find f l') as [y|] eqn:F'; auto. apply find_some in F'. destruct F' as [Hin' Hf'].
    eapply find_none in F; [|eapply Permutation_in; [apply Permutation_sym; exact P|exact Hin']]. congruence.
Qed.

Lemma prefix_comparable : forall p q s : bytes,
  is_prefix p s = true -> is_prefix q s = true -> is_prefix p q = true \/ is_prefix q p = true.
Proof.
  induction p as [|a p IH]; intros q s Hp Hq; [left; reflexivity|].
  destruct q as [|b q]; [right; reflexivity|].
  destruct s as [|c s]; [discriminate|]. simpl in *.
  apply andb_true_iff in Hp. destruct Hp as [E1 Hp]. apply andb_true_iff in Hq. destruct Hq as [E2 Hq].
  apply Ascii.eqb_eq in E1, E2. subst. rewrite ascii_eqb_refl. simpl. eauto.
Qed.

Theorem get_route_order_irrelevant {M} (entries entries' : list (bytes * M)) port :
  non_nested entries -> Permutation entries entries' ->
  get_prefix_route entries port = get_prefix_route entries' port.
Proof.
  intros NN P. apply find_unique_perm; auto.
  intros x y Hx Hy Fx Fy. destruct (prefix_comparable _ _ _ Fx Fy) as [H|H].
  - now apply NN.
  - symmetry. now apply NN.
Qed.

(** ** Router.Keys: collected in map order, then sorted *)
Theorem router_keys_order_irrelevant {M}
  (le_total : forall a b, ble a b = true \/ ble b a = true)
  (le_antisym : forall a b, ble a b = true -> ble b a = true -> a = b)
  (le_trans : forall a b c, ble a b = true -> ble b c = true -> ble a c = true)
  (entries entries' : list (bytes * M)) :
  Permutation entries entries' -> router_keys entries = router_keys entries'.
Proof.
  intros P. unfold router_keys. apply sort_canonical; auto. now apply Permutation_map.
Qed.

(** ** packet-forward InitGenesis: store.Set for every map entry; distinct keys commute *)
Lemma lookup_app k a b : lookup k (a ++ b) = match lookup k a with Some v => Some v | None => lookup k b end.
Proof. induction a as [|[k' v] t IH]; simpl; auto. destruct (key_eqb k' k); auto. Qed.

Theorem init_order_irrelevant (l l' st : State) k :
  functional l -> Permutation l l' ->
  lookup k (fold_left set l st) = lookup k (fold_left set l' st).
Proof.
  intros F P. rewrite !fold_set, !lookup_app.
  replace (lookup k (List.rev l')) with (lookup k (List.rev l)); auto.
  apply lookup_ext.
  - intros a b c Hb Hc. apply in_rev in Hb, Hc. eapply F; eauto.
  - intros a b c Hb Hc. apply in_rev in Hb, Hc.
    eapply F; eapply Permutation_in; try (apply Permutation_sym; exact P); eauto.
  - intros e. rewrite <- !in_rev. split; apply Permutation_in; auto. now apply Permutation_sym.
Qed.
