(** C46 — signer gating.  Executable model of the gate of every privileged / client-scoped handler,
    written branch by branch in the order the Go code checks things.

    Sources (all under /repo/modules):
      core/keeper/msg_server.go            CreateClient, RegisterCounterparty, UpdateClient, RecoverClient,
                                           IBCSoftwareUpgrade, UpdateClientParams, UpdateConnectionParams,
                                           UpdateClientConfig, DeleteClientCreator, RecvPacket (v1, "use")
      core/04-channel/v2/keeper/msg_server.go   RecvPacket, Acknowledgement, Timeout
      core/02-client/v2/types/config.go    Config.IsAllowedRelayer
      core/02-client/types/params.go       Params.IsAllowedClient
      core/02-client/keeper/keeper.go      Route, GetClientStatus, GetClientCreator
      core/02-client/keeper/client.go      CreateClient, UpdateClient, RecoverClient
      apps/transfer/keeper/msg_server.go   UpdateParams
      apps/27-interchain-accounts/{host,controller}/keeper/msg_server.go  UpdateParams
      apps/rate-limiting/keeper/msg_server.go   Add/Update/Remove/ResetRateLimit
      light-clients/08-wasm/keeper/msg_server.go StoreCode, RemoveChecksum, MigrateContract
      cosmos-sdk types/authority.go        ValidateAuthority   (dependency, modelled from source)
      cosmos-sdk types/address.go          AccAddress.Equals   (dependency, modelled from source)

    Unmodelled externals:
      * bech32 decoding ([sdk.AccAddressFromBech32]) is the Section variable [acc]; its only assumed property
        (used by the theorems, not by the definitions) is that it never returns the empty address.
      * everything a handler does after its gate (light-client verification, packet handling, keeper
        validation of the new value) is one boolean input [body]: "the rest of the handler succeeds".
        Likewise [pre]: the stateless decoding a handler performs before the gate (Any unpacking).  *)
From IBC Require Import Lib.Bytes Lib.CorrLib.

Inductive Outcome := Ok | Err | Panic.

Definition outcome_eqb (a b : Outcome) : bool :=
  match a, b with Ok, Ok | Err, Err | Panic, Panic => true | _, _ => false end.

(** cosmos-sdk types/authority.go ValidateAuthority: the consensus-params authority, when set, replaces the
    keeper's authority; the comparison is on the bech32 *text*. *)
Record Env := mkEnv { keeper_auth : bytes; cp_auth : bytes }.

Definition expected_authority (e : Env) : bytes :=
  match cp_auth e with [] => keeper_auth e | _ => cp_auth e end.

Definition validate_authority (e : Env) (signer : bytes) : bool :=
  bytes_eqb (expected_authority e) signer.

(** 02-client/types/params.go IsAllowedClient.  strings.TrimSpace(clientType) == "" is modelled for ASCII
    white space (the identifiers reaching it are ASCII). *)
Definition is_ascii_space (c : ascii) : bool :=
  let n := N_of_ascii c in ((9 <=? n) && (n <=? 13) || (n =? 32))%N.

Definition allow_all : bytes := B "*".

Definition is_allowed_client (allowed : list bytes) (ct : bytes) : bool :=
  if forallb is_ascii_space ct then false
  else match allowed with
       | [w] => bytes_eqb w allow_all || bytes_eqb w ct
       | _ => existsb (fun a => bytes_eqb a ct) allowed
       end.

(** 02-client/keeper/keeper.go Route: ParseClientIdentifier (its result is the input [ct]; [None] = parse
    error), IsAllowedClient, router lookup ([routed]). *)
Definition route (allowed : list bytes) (ct : option bytes) (routed : bool) : bool :=
  match ct with
  | None => false
  | Some t => if is_allowed_client allowed t then routed else false
  end.

Section WithBech32.
  (** sdk.AccAddressFromBech32: [None] = error. *)
  Variable acc : bytes -> option bytes.

  (** 02-client/v2/types/config.go IsAllowedRelayer; [None] = MustAccAddressFromBech32 panicked on a list
      entry reached before a match. sdk.AccAddress.Equals = both empty or bytes.Equal = [bytes_eqb]. *)
  Fixpoint relayer_loop (rs : list bytes) (a : bytes) : option bool :=
    match rs with
    | [] => Some false
    | r :: rs' => match acc r with
                  | None => None
                  | Some x => if bytes_eqb a x then Some true else relayer_loop rs' a
                  end
    end.

  Definition is_allowed_relayer (rs : list bytes) (a : bytes) : option bool :=
    match rs with [] => Some true | _ => relayer_loop rs a end.

  (** Everything a gate can look at. [creator] = GetClientCreator (nil/empty when absent). *)
  Record Ctx := mkCtx {
    env : Env;
    signer : bytes;               (* msg.Signer, the bech32 text *)
    creator : bytes;              (* stored creator address bytes, [] = none *)
    cp_set : bool;                (* a v2 counterparty is already registered for the client *)
    relayers : list bytes;        (* Config.AllowedRelayers of the client the message is scoped to *)
    allowed : list bytes;         (* Params.AllowedClients *)
    ctype : option bytes;         (* ParseClientIdentifier of the client id the handler routes on *)
    routed : bool;                (* the router has a module for that type *)
    pre : bool;                   (* stateless decoding before the gate succeeds *)
    body : bool                   (* the remainder of the handler succeeds *)
  }.

  Definition of_body (b : bool) : Outcome := if b then Ok else Err.

  (** if err := sdk.ValidateAuthority(...); err != nil { return err }; <body> *)
  Definition authority_then (c : Ctx) (k : Outcome) : Outcome :=
    if validate_authority (env c) (signer c) then k else Err.

  (** `config.IsAllowedRelayer(addr)` with the Must-decoding inside the loop *)
  Definition relayer_then (c : Ctx) (a : bytes) (k : Outcome) : Outcome :=
    match is_allowed_relayer (relayers c) a with
    | None => Panic
    | Some false => Err
    | Some true => k
    end.

  Definition route_then (c : Ctx) (k : Outcome) : Outcome :=
    if route (allowed c) (ctype c) (routed c) then k else Err.

  (** authority ∨ creator, as written in UpdateClientConfig / DeleteClientCreator:
      if ValidateAuthority fails { if !creator.Equals(MustAccAddressFromBech32(signer)) { return err } } *)
  Definition authority_or_creator (c : Ctx) (k : Outcome) : Outcome :=
    if validate_authority (env c) (signer c) then k
    else match acc (signer c) with
         | None => Panic
         | Some a => if bytes_eqb (creator c) a then k else Err
         end.

  Inductive Op :=
  | RecoverClient | SoftwareUpgrade | ClientParams | ConnParams
  | TransferParams | IcaHostParams | IcaCtrlParams
  | RlAdd | RlUpdate | RlRemove | RlReset
  | WasmStore | WasmRemove | WasmMigrate
  | RegisterCounterparty | UpdateClientConfig | DeleteClientCreator
  | CreateClient | UpdateClient
  | RecvV2 | AckV2 | TimeoutV2
  | RecvV1Use | ClientStatus.

  Definition handler (op : Op) (c : Ctx) : Outcome :=
    match op with
    (* core msg_server.go RecoverClient: authority; ClientKeeper.RecoverClient routes on the subject id *)
    | RecoverClient => authority_then c (route_then c (of_body (body c)))
    (* IBCSoftwareUpgrade: authority; UnpackClientState ([pre]); ScheduleIBCSoftwareUpgrade *)
    | SoftwareUpgrade => authority_then c (if pre c then of_body (body c) else Err)
    (* UpdateClientParams / UpdateConnectionParams / transfer, ICA host, ICA controller UpdateParams:
       authority; SetParams cannot fail *)
    | ClientParams | ConnParams | TransferParams | IcaHostParams | IcaCtrlParams => authority_then c Ok
    (* rate-limiting msg_server.go: addressCodec.StringToBytes(signer) first, then authority, then keeper *)
    | RlAdd | RlUpdate | RlRemove | RlReset =>
        match acc (signer c) with
        | None => Err
        | Some _ => authority_then c (of_body (body c))
        end
    (* 08-wasm msg_server.go: authority, then the VM work *)
    | WasmStore | WasmRemove | WasmMigrate => authority_then c (of_body (body c))
    (* RegisterCounterparty: creator.Equals(Must(signer)) else Err; already registered => Err *)
    | RegisterCounterparty =>
        match acc (signer c) with
        | None => Panic
        | Some a => if negb (bytes_eqb (creator c) a) then Err
                    else if cp_set c then Err else Ok
        end
    (* UpdateClientConfig: GetClientCreator; authority or creator; SetConfig *)
    | UpdateClientConfig => authority_or_creator c Ok
    (* DeleteClientCreator: creator == nil => NotFound; authority or creator; delete *)
    | DeleteClientCreator =>
        match creator c with
        | [] => Err
        | _ => authority_or_creator c Ok
        end
    (* CreateClient: UnpackClientState; ClientKeeper.CreateClient (localhost refusal is part of [body]'s
       caller: the harness never creates localhost; Route on the generated id; Initialize/Status);
       SetClientCreator(MustAccAddressFromBech32(signer)) *)
    | CreateClient =>
        if pre c then
          route_then c (if body c then match acc (signer c) with None => Panic | Some _ => Ok end else Err)
        else Err
    (* UpdateClient: UnpackClientMessage; config gate; ClientKeeper.UpdateClient (Route, Status, verify) *)
    | UpdateClient =>
        if pre c then
          match acc (signer c) with
          | None => Panic
          | Some a => relayer_then c a (route_then c (of_body (body c)))
          end
        else Err
    (* v2 RecvPacket / Acknowledgement / Timeout: AccAddressFromBech32 error => Err; config gate on the
       destination (recv) or source (ack, timeout) client; then the packet handler, which verifies through
       ClientKeeper.VerifyMembership => Route *)
    | RecvV2 | AckV2 | TimeoutV2 =>
        match acc (signer c) with
        | None => Err
        | Some a => relayer_then c a (route_then c (of_body (body c)))
        end
    (* v1 RecvPacket as the "use" of a client: no signer gate in core for a valid bech32 signer; the proof
       check goes through ClientKeeper.VerifyMembership => Route *)
    | RecvV1Use =>
        match acc (signer c) with
        | None => Err
        | Some _ => route_then c (of_body (body c))
        end
    (* GetClientStatus: Route error => Unauthorized (outcome Err), otherwise the module's status *)
    | ClientStatus => route_then c Ok
    end.

  (** Does an [Ok] outcome of the handler write state?  (everything except the status query) *)
  Definition writes (op : Op) : bool := match op with ClientStatus => false | _ => true end.

  (** ** A small state machine for the client-scoped operations, to state "only once" over histories.
      Clients are numbered by the creation sequence (GenerateClientIdentifier uses NextClientSequence). *)
  Record ClientSt := mkClient { c_creator : bytes; c_cp : bool; c_relayers : list bytes }.

  Record St := mkSt { cl : list (nat * ClientSt); next : nat; st_allowed : list bytes }.

  Inductive HOp :=
  | HCreate (sg : bytes) (ct : bytes) (bd : bool)
  | HRegister (id : nat) (sg : bytes)
  | HConfig (id : nat) (sg : bytes) (rs : list bytes)
  | HDeleteCreator (id : nat) (sg : bytes)
  | HUpdate (id : nat) (sg : bytes) (ct : bytes) (bd : bool)
  | HParams (sg : bytes) (al : list bytes).

  Definition absent : ClientSt := mkClient [] false [].

  (** per-client keys of a client id that was never written read as empty: the map is total *)
  Fixpoint lookup (id : nat) (l : list (nat * ClientSt)) : ClientSt :=
    match l with
    | [] => absent
    | (k, v) :: t => if Nat.eqb k id then v else lookup id t
    end.

  Definition get (s : St) (id : nat) : ClientSt := lookup id (cl s).

  Definition put (s : St) (id : nat) (c : ClientSt) : St := mkSt ((id, c) :: cl s) (next s) (st_allowed s).

  Definition ctx_of (e : Env) (s : St) (id : nat) (sg : bytes) (ct : option bytes) (bd : bool) : Ctx :=
    let c := get s id in
    mkCtx e sg (c_creator c) (c_cp c) (c_relayers c) (st_allowed s) ct true true bd.

  Definition hstep (e : Env) (s : St) (op : HOp) : Outcome * St :=
    match op with
    | HCreate sg ct bd =>
        let o := handler CreateClient (mkCtx e sg [] false [] (st_allowed s) (Some ct) true true bd) in
        match o, acc sg with
        | Ok, Some a =>
            (* SetClientCreator on the generated id; a config written earlier under that id by the authority
               (SetConfig does not require the client to exist) stays in place *)
            let old := get s (next s) in
            (Ok, mkSt ((next s, mkClient a (c_cp old) (c_relayers old)) :: cl s) (S (next s)) (st_allowed s))
        | _, _ => (o, s)
        end
    | HRegister id sg =>
        let o := handler RegisterCounterparty (ctx_of e s id sg None true) in
        match o with
        | Ok => let c := get s id in (Ok, put s id (mkClient (c_creator c) true (c_relayers c)))
        | _ => (o, s)
        end
    | HConfig id sg rs =>
        let o := handler UpdateClientConfig (ctx_of e s id sg None true) in
        match o with
        | Ok => let c := get s id in (Ok, put s id (mkClient (c_creator c) (c_cp c) rs))
        | _ => (o, s)
        end
    | HDeleteCreator id sg =>
        let o := handler DeleteClientCreator (ctx_of e s id sg None true) in
        match o with
        | Ok => let c := get s id in (Ok, put s id (mkClient [] (c_cp c) (c_relayers c)))
        | _ => (o, s)
        end
    | HUpdate id sg ct bd => (handler UpdateClient (ctx_of e s id sg (Some ct) bd), s)
    | HParams sg al =>
        let o := handler ClientParams (mkCtx e sg [] false [] (st_allowed s) None true true true) in
        match o with
        | Ok => (Ok, mkSt (cl s) (next s) al)
        | _ => (o, s)
        end
    end.

  Fixpoint hrun (e : Env) (s : St) (ops : list HOp) : list Outcome * St :=
    match ops with
    | [] => ([], s)
    | op :: ops' => let '(o, s') := hstep e s op in
                    let '(os, s'') := hrun e s' ops' in (o :: os, s'')
    end.
End WithBech32.

(** The decoder used by the correspondence check: the table of (bech32 text, address bytes) pairs the
    harness observed from sdk.AccAddressFromBech32; absent = decoding error. *)
Fixpoint table_acc (t : list (bytes * bytes)) (s : bytes) : option bytes :=
  match t with
  | [] => None
  | (k, v) :: t' => if bytes_eqb k s then Some v else table_acc t' s
  end.
