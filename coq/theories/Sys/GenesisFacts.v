(** Proofs about the genesis model [Sys/Genesis.v] (C44). *)
From IBC Require Import Lib.Bytes Lib.BytesFacts Lib.CorrLib Lib.Dec Core.Height Sys.Genesis.

Lemma v2kind_eqb_eq a b : v2kind_eqb a b = true <-> a = b.
Proof. destruct a, b; simpl; split; congruence. Qed.

Lemma key_eqb_eq a b : key_eqb a b = true <-> a = b.
Proof.
  destruct a, b; simpl; try (split; [discriminate|congruence]);
    rewrite ?andb_true_iff, ?bytes_eqb_eq, ?v2kind_eqb_eq, ?N.eqb_eq.
  - split; congruence.
  - split; congruence.
  - split; [intros [-> ->]; reflexivity | intros [= -> ->]; auto].
  - split; congruence.
  - split; [intros [[-> ->] ->]; reflexivity | intros [= -> -> ->]; auto].
  - split; congruence.
Qed.

Lemma key_eqb_refl a : key_eqb a a = true.
Proof. now apply key_eqb_eq. Qed.

Lemma mem_In id l : mem id l = true <-> In id l.
Proof.
  unfold mem. rewrite existsb_exists. split.
  - intros (x & Hin & E). apply bytes_eqb_eq in E. now subst.
  - intros H. exists id. split; auto. apply bytes_eqb_refl.
Qed.

(** a store holds at most one value per key *)
Definition functional (s : State) : Prop := forall k v v', In (k, v) s -> In (k, v') s -> v = v'.

Lemma lookup_some_In k v s : lookup k s = Some v -> In (k, v) s.
Proof.
  induction s as [|[k' v'] t IH]; simpl; [discriminate|].
  destruct (key_eqb k' k) eqn:E.
  - intros [= ->]. apply key_eqb_eq in E. subst. auto.
  - auto.
Qed.

Lemma In_lookup k v s : functional s -> In (k, v) s -> lookup k s = Some v.
Proof.
  intros F H. induction s as [|[k' v'] t IH]; simpl; [contradiction|].
  destruct (key_eqb k' k) eqn:E.
  - apply key_eqb_eq in E. subst k'. f_equal. eapply F; [left; reflexivity|exact H].
  - destruct H as [H|H]; [inversion H; subst; rewrite key_eqb_refl in E; discriminate|].
    apply IH; auto. intros a b c Hb Hc. eapply F; right; eauto.
Qed.

Lemma lookup_ext a b k :
  functional a -> functional b -> (forall e, In e a <-> In e b) -> lookup k a = lookup k b.
Proof.
  intros Fa Fb H. destruct (lookup k a) as [v|] eqn:A.
  - symmetry. apply In_lookup; auto. apply H. now apply lookup_some_In.
  - destruct (lookup k b) as [v|] eqn:Bq; auto.
    apply lookup_some_In, H, (In_lookup _ _ _ Fa) in Bq. congruence.
Qed.

Lemma fold_set l acc : fold_left set l acc = List.rev l ++ acc.
Proof.
  revert acc. induction l as [|e l IH]; intros acc; simpl; auto.
  rewrite IH. unfold set. now rewrite <- app_assoc.
Qed.

Lemma In_init sentinel g e : In e (init sentinel g) <-> e = (localhost_key, sentinel) \/ In e (entries g).
Proof.
  unfold init, set. rewrite fold_set, app_nil_r. simpl. rewrite <- in_rev. split; intros [H|H]; auto.
Qed.

(** ** what [export] writes out *)
Lemma send_seqs_In s cs l :
  send_seqs s cs = Some l ->
  forall e, In e l <-> exists c v, In c cs /\ lookup (KNextSend c) s = Some v /\ e = (KNextSend c, v).
Proof.
  revert l. induction cs as [|c cs IH]; simpl; intros l H e.
  - inversion H; subst. simpl. split; [contradiction|]. intros (c & v & [] & _).
  - destruct (lookup (KNextSend c) s) as [v|] eqn:L; [|discriminate].
    destruct (send_seqs s cs) as [l'|]; [|discriminate]. inversion H; subst. simpl. rewrite (IH l' eq_refl). split.
    + intros [<-|(c' & v' & Hin & Hl & ->)]; [exists c, v|exists c', v']; auto.
    + intros (c' & v' & [->|Hin] & Hl & ->); [left; congruence|right; exists c', v'; auto].
Qed.

Lemma client_ids_In s id :
  In id (client_ids s) <-> exists p v, In (KClient p, v) s /\ classify p = CState id.
Proof.
  unfold client_ids. rewrite in_flat_map. split.
  - intros ([k v] & Hin & H). unfold client_id_of in H. simpl in H. destruct k; try contradiction.
    destruct (classify path) eqn:C; try contradiction. destruct H as [->|[]]. eauto.
  - intros (p & v & Hin & C). exists (KClient p, v). split; auto. unfold client_id_of. simpl. rewrite C. now left.
Qed.

Lemma channel_ids_In s c : In c (channel_ids s) <-> exists p v, In (KChannel p c, v) s.
Proof.
  unfold channel_ids. rewrite in_flat_map. split.
  - intros ([k v] & Hin & H). simpl in H. destruct k; try contradiction. destruct H as [->|[]]. eauto.
  - intros (p & v & Hin). exists (KChannel p c, v). split; auto. simpl. now left.
Qed.

Theorem entries_spec s g :
  functional s -> export s = Some g ->
  forall e, In e (entries g) <-> In e s /\ exported s e = true.
Proof.
  intros F. unfold export. destruct (existsb is_bad s) eqn:Bad; [discriminate|].
  destruct (send_seqs s (channel_ids s)) as [ss|] eqn:SS; [|discriminate].
  intros [= <-] [k v]. unfold entries; simpl.
  rewrite !in_app_iff, !filter_In, !in_flat_map, (send_seqs_In _ _ _ SS).
  assert (NB : In (k, v) s -> is_bad (k, v) = false).
  { intros Hin. destruct (is_bad (k, v)) eqn:E; auto.
    assert (existsb is_bad s = true) by (apply existsb_exists; eauto). congruence. }
  unfold exported, is_plain, is_cstate, is_ccons, is_channel, is_meta_of, is_v2_of, is_bad in *; simpl in *.
  split.
  - intros [H|[H|[H|[H|[H|[H|[H|H]]]]]]].
    + destruct H as [Hin H]. destruct k; try discriminate. auto.
    + destruct H as (id & Hid & H). apply filter_In in H. destruct H as [Hin H]. simpl in H.
      destruct k; try discriminate. destruct (classify path); try discriminate.
      apply bytes_eqb_eq in H. subst. split; auto. now apply mem_In.
    + destruct H as [Hin H]. destruct k; try discriminate. destruct (classify path); try discriminate. auto.
    + destruct H as [Hin H]. destruct k; try discriminate. destruct (classify path); try discriminate. auto.
    + destruct H as [Hin H]. destruct k; try discriminate. auto.
    + destruct H as (c & v' & Hc & Hl & [= -> ->]). split; [now apply lookup_some_In|].
      apply orb_true_iff. left. now apply mem_In.
    + destruct H as (id & Hid & H). apply filter_In in H. destruct H as [Hin H]. simpl in H.
      destruct k; try discriminate. apply bytes_eqb_eq in H. subst. split; auto. now apply mem_In.
    + destruct H as (id & Hid & H). destruct (lookup (KNextSend id) s) as [v'|] eqn:L; [|contradiction].
      destruct H as [[= <- <-]|[]]. split; [now apply lookup_some_In|].
      apply orb_true_iff. right. now apply mem_In.
  - intros [Hin H]. specialize (NB Hin). destruct k.
    + destruct (classify path) eqn:C; try discriminate.
      * right; right; left. auto.
      * right; right; right; left. auto.
      * right; left. exists id. split; [now apply mem_In|]. apply filter_In. split; auto. simpl. rewrite C. apply bytes_eqb_refl.
    + left. auto.
    + right; right; right; right; left. auto.
    + apply orb_true_iff in H. destruct H as [H|H]; apply mem_In in H.
      * right; right; right; right; right; left. exists id, v. repeat split; auto. now apply In_lookup.
      * do 7 right. exists id. split; auto. rewrite (In_lookup _ _ _ F Hin). now left.
    + do 6 right. left. exists id. split; [now apply mem_In|]. apply filter_In. split; auto. simpl. apply bytes_eqb_refl.
    + discriminate.
Qed.

(** ** export does not panic *)
Theorem export_no_panic s :
  (forall e, In e s -> is_bad e = false) ->
  (forall c, In c (channel_ids s) -> lookup (KNextSend c) s <> None) ->
  export s <> None.
Proof.
  intros HB HC. unfold export.
  assert (E : existsb is_bad s = false).
  { destruct (existsb is_bad s) eqn:E; auto. apply existsb_exists in E. destruct E as (e & Hin & He).
    rewrite HB in He by auto. discriminate. }
  rewrite E. clear E.
  assert (S : forall cs, (forall c, In c cs -> lookup (KNextSend c) s <> None) -> send_seqs s cs <> None).
  { induction cs as [|c cs IH]; simpl; intros H; [discriminate|].
    destruct (lookup (KNextSend c) s) eqn:L; [|exfalso; apply (H c); auto].
    destruct (send_seqs s cs) eqn:R; [discriminate|]. exfalso. apply IH; auto. }
  specialize (S (channel_ids s) HC). destruct (send_seqs s (channel_ids s)); [discriminate|contradiction].
Qed.

(** Keys of the shape clients/<id>/i... — in particular the Tendermint iteration keys
    "iterateConsensusStates"‖<16 arbitrary bytes> — are always plain metadata: never selected as a client state
    or a consensus state, never a key an iterator panics on.  Holds for every continuation [r], whatever bytes
    ('/' included) it contains. *)
Theorem iteration_key_is_metadata id r :
  ~ In slash id -> blank id = false ->
  exists k, classify (clients_pre ++ slash :: id ++ slash :: "i"%char :: r) = CMeta id k.
Proof.
  intros Hs Hb. unfold classify.
  rewrite split_on_app by (vm_compute; intuition discriminate).
  rewrite split_on_app by exact Hs.
  replace (negb (bytes_eqb clients_pre clients_pre)) with false by (now rewrite bytes_eqb_refl).
  rewrite Hb. simpl split_on.
  destruct (split_on slash r) as [|h t].
  - eexists. reflexivity.
  - destruct t as [|h2 [|h3 t]]; eexists; reflexivity.
Qed.

Corollary iteration_key_never_bad id bs :
  ~ In slash id -> blank id = false ->
  is_bad (KClient (clients_pre ++ slash :: id ++ slash :: B "iterateConsensusStates" ++ bs), []) = false /\
  is_cstate (KClient (clients_pre ++ slash :: id ++ slash :: B "iterateConsensusStates" ++ bs), []) = false /\
  is_ccons (KClient (clients_pre ++ slash :: id ++ slash :: B "iterateConsensusStates" ++ bs), []) = false.
Proof.
  intros Hs Hb.
  destruct (iteration_key_is_metadata id (B "terateConsensusStates" ++ bs) Hs Hb) as (k & E).
  assert (P : B "iterateConsensusStates" ++ bs = "i"%char :: (B "terateConsensusStates" ++ bs)) by reflexivity.
  unfold is_bad, is_cstate, is_ccons. cbn [fst]. rewrite P, E. auto.
Qed.

(** ** round trip *)
Definition wf (sentinel : bytes) (s : State) : Prop :=
  functional s /\ In (localhost_key, sentinel) s.

Lemma init_subset sentinel s g :
  wf sentinel s -> export s = Some g ->
  forall e, In e (init sentinel g) <-> In e s /\ exported s e = true.
Proof.
  intros [F L] E e. rewrite In_init, (entries_spec s g F E). split.
  - intros [->|H]; auto.
  - intros H. now right.
Qed.

Theorem roundtrip_guarded sentinel s g :
  wf sentinel s -> no_alias_state s = true -> export s = Some g ->
  forall k, lookup k (init sentinel g) = lookup k s.
Proof.
  intros W G E k. pose proof W as [F L].
  assert (M : forall e, In e (init sentinel g) <-> In e s).
  { intros e. rewrite (init_subset sentinel s g W E). split; [tauto|].
    intros H. split; auto. unfold no_alias_state in G. rewrite forallb_forall in G. auto. }
  apply lookup_ext; auto.
  intros a b c Hb Hc. apply M in Hb, Hc. eapply F; eauto.
Qed.

(** nothing is ever invented: every entry of the restored state was in the exported one (guard-free) *)
Theorem restore_sound sentinel s g :
  wf sentinel s -> export s = Some g -> forall e, In e (init sentinel g) -> In e s.
Proof. intros W E e H. now apply (init_subset sentinel s g W E). Qed.

(** exactly the unexported entries are lost (guard-free): the model's account of F3 *)
Theorem lost_exactly_unexported sentinel s g :
  wf sentinel s -> export s = Some g ->
  forall k v, In (k, v) s -> (lookup k (init sentinel g) = Some v <-> exported s (k, v) = true).
Proof.
  intros W E k v Hin. pose proof W as [F L].
  assert (Fi : functional (init sentinel g)).
  { intros a b c Hb Hc. apply (init_subset sentinel s g W E) in Hb, Hc. eapply F; [apply Hb|apply Hc]. }
  split.
  - intros H. apply lookup_some_In, (init_subset sentinel s g W E) in H. tauto.
  - intros H. apply In_lookup; auto. apply (init_subset sentinel s g W E). auto.
Qed.

(** ** re-export *)
Lemma exported_stable sentinel s g :
  wf sentinel s -> export s = Some g ->
  forall e, In e (init sentinel g) -> exported (init sentinel g) e = exported s e.
Proof.
  intros W E e He. pose proof (init_subset sentinel s g W E) as M.
  assert (CI : forall id, mem id (client_ids (init sentinel g)) = mem id (client_ids s)).
  { intros id. apply eq_true_iff_eq. rewrite !mem_In, !client_ids_In. split; intros (p & v & Hin & C).
    - apply M in Hin. exists p, v. tauto.
    - exists p, v. split; auto. apply M. split; auto. unfold exported. simpl. now rewrite C. }
  assert (CH : forall c, mem c (channel_ids (init sentinel g)) = mem c (channel_ids s)).
  { intros c. apply eq_true_iff_eq. rewrite !mem_In, !channel_ids_In. split; intros (p & v & Hin).
    - apply M in Hin. exists p, v. tauto.
    - exists p, v. apply M. split; auto. }
  unfold exported. destruct (fst e); auto.
  - destruct (classify path); auto.
  - now rewrite CI, CH.
Qed.

Theorem reexport_equiv sentinel s g :
  wf sentinel s -> export s = Some g ->
  exists g', export (init sentinel g) = Some g' /\
             forall e, In e (entries g') <-> In e (init sentinel g).
Proof.
  intros W E. pose proof W as [F L]. pose proof (init_subset sentinel s g W E) as M.
  assert (Fi : functional (init sentinel g)).
  { intros a b c Hb Hc. apply M in Hb, Hc. eapply F; [apply Hb|apply Hc]. }
  destruct (export (init sentinel g)) as [g'|] eqn:E'.
  - exists g'. split; auto. intros e. rewrite (entries_spec _ _ Fi E'). split; [tauto|].
    intros H. split; auto. rewrite (exported_stable sentinel s g W E e H). now apply M.
  - exfalso. revert E'. apply export_no_panic.
    + intros e He. apply M in He. destruct He as [He _].
      unfold export in E. destruct (existsb is_bad s) eqn:Bad; [discriminate|].
      destruct (is_bad e) eqn:Be; auto.
      assert (existsb is_bad s = true) by (apply existsb_exists; eauto). congruence.
    + intros c Hc. apply channel_ids_In in Hc. destruct Hc as (p & v & Hin). apply M in Hin. destruct Hin as [Hin _].
      unfold export in E. destruct (existsb is_bad s); [discriminate|].
      destruct (send_seqs s (channel_ids s)) as [ss|] eqn:SS; [|discriminate].
      assert (Hc : In c (channel_ids s)) by (apply channel_ids_In; eauto).
      assert (exists v', lookup (KNextSend c) s = Some v') as (v' & Lk).
      { clear -SS Hc. revert ss SS. induction (channel_ids s) as [|c0 cs IH]; simpl in *; [contradiction|].
        intros ss. destruct (lookup (KNextSend c0) s) eqn:L0; [|discriminate].
        destruct (send_seqs s cs) eqn:R; [|discriminate]. intros _.
        destruct Hc as [->|Hc]; eauto. }
      assert (In (KNextSend c, v') (init sentinel g)).
      { apply M. split; [now apply lookup_some_In|]. unfold exported. simpl.
        apply orb_true_iff. left. now apply mem_In. }
      rewrite (In_lookup _ _ _ Fi H). discriminate.
Qed.

(** ** InitGenesis validation (F8) *)
Theorem validate_guarded cp_id s g :
  functional s -> export s = Some g -> no_equal_ids cp_id s = true -> validate cp_id g = true.
Proof.
  intros F E G. unfold validate. apply negb_true_iff. apply not_true_is_false. intros H.
  apply existsb_exists in H. destruct H as (e & Hin & Hs).
  assert (He : In e (entries g)) by (unfold entries; rewrite !in_app_iff; auto).
  apply (entries_spec s g F E) in He. destruct He as [He Hx].
  unfold no_equal_ids in G. apply negb_true_iff in G.
  assert (existsb (fun e => self_counterparty cp_id e &&
                            match fst e with
                            | KClient p => match classify p with CMeta id _ => mem id (client_ids s) | _ => false end
                            | _ => false
                            end) s = true); [|congruence].
  apply existsb_exists. exists e. split; auto. rewrite Hs. simpl.
  unfold self_counterparty, exported in *. destruct (fst e); try discriminate.
  destruct (classify path); try discriminate. exact Hx.
Qed.

Theorem restore_guarded cp_id sentinel s :
  wf sentinel s -> no_alias_state s = true -> no_equal_ids cp_id s = true ->
  (forall e, In e s -> is_bad e = false) ->
  (forall c, In c (channel_ids s) -> lookup (KNextSend c) s <> None) ->
  exists s', restore cp_id sentinel s = Some s' /\ forall k, lookup k s' = lookup k s.
Proof.
  intros W GA GE HB HC. unfold restore.
  destruct (export s) as [g|] eqn:E; [|exfalso; revert E; now apply export_no_panic].
  rewrite (validate_guarded cp_id s g (proj1 W) E GE).
  exists (init sentinel g). split; auto. now apply roundtrip_guarded.
Qed.

(** ** witnesses against the unguarded statement (F3, F8) *)
Definition st_base : State :=
  [ (KPlain (B "connections/connection-localhost"), B "L");
    (KPlain (B "nextClientSequence"), B "1");
    (KClient (B "clients/07-tendermint-0/clientState"), B "cs");
    (KClient (B "clients/07-tendermint-0/consensusStates/1-5"), B "cons");
    (KClient (B "clients/07-tendermint-0/creator"), B "alice");
    (KChannel (B "transfer") (B "channel-0"), B "OPEN/UNORDERED");
    (KNextSend (B "channel-0"), B "2") ].

Definition st_f3 : State :=
  st_base ++
  [ (KClient (B "clients/channel-0/counterparty"), B "channel-1");
    (KAlias (B "channel-0"), B "07-tendermint-0");
    (KV2 VCommit (B "channel-0") 1, B "commitment") ].

Definition st_f8 : State :=
  st_base ++ [ (KClient (B "clients/07-tendermint-0/counterparty"), B "07-tendermint-0") ].


Lemma refuted :
  (exists s', restore (fun v => v) (B "L") st_f3 = Some s' /\
              lookup (KV2 VCommit (B "channel-0") 1) s' = None /\
              lookup (KAlias (B "channel-0")) s' = None /\
              lookup (KClient (B "clients/channel-0/counterparty")) s' = None /\
              lookup (KNextSend (B "channel-0")) s' = Some (B "2")) /\
  restore (fun v => v) (B "L") st_f8 = None /\ export st_f8 <> None.
Proof.
  split; [|split].
  - eexists. split; [vm_compute; reflexivity|]. vm_compute. auto.
  - vm_compute. reflexivity.
  - vm_compute. discriminate.
Qed.
