(** C44 — genesis export / import of the IBC core store, as a structured key-value state.

    Sources (all under /repo/modules/core):
      genesis.go                       InitGenesis / ExportGenesis (client, clientv2, connection, channel, channelv2)
      02-client/genesis.go             clients, metadata, consensus states, params, next sequence
      02-client/keeper/keeper.go       IterateClientStates (as fixed: exactly 3 '/'-segments, last = clientState),
                                       IterateConsensusStates, iterateMetadata, GetAllGenesisClients,
                                       GetAllClientMetadata (only for clients that have a client state)
      24-host/parse.go                 MustParseClientStatePath
      02-client/v2/genesis.go          counterparty infos, per client id with a client state
      03-connection/genesis.go         connections, client connection paths, params, sentinel localhost connection
      04-channel/genesis.go            channels, acks, commitments, receipts, recv/ack sequences (prefix iteration),
                                       send sequences (per channel: keeper.GetAllPacketSendSeqs panics when absent)
      04-channel/v2/genesis.go         per client id WITH A CLIENT STATE: acks, commitments, receipts, async packets,
                                       next send sequence
      04-channel/keeper/handshake.go   WriteOpenAckChannel / WriteOpenConfirmChannel write, for an UNORDERED channel c:
                                       clients/c/counterparty (alias counterparty) and c‖"alias" -> client id

    The state is a list of (key, value) pairs. Keys under "clients/" are kept as raw bytes and classified at
    byte level exactly as the keeper's iterators do; the other keys carry the structure the export decisions
    depend on (which identifier they are keyed by); everything exported by plain prefix iteration is [KPlain].
    Values are opaque bytes.  [export] returns [None] where the Go code panics. *)
From IBC Require Import Lib.Bytes Lib.BytesFacts Lib.CorrLib Lib.Dec Core.Height.

Inductive V2Kind := VCommit | VReceipt | VAck | VAsync.

Inductive Key :=
| KClient (path : bytes)                 (* any key with prefix "clients/" , raw *)
| KPlain (raw : bytes)                   (* singletons, connections/, nextSequenceRecv/, nextSequenceAck/, v1 commitments/acks/receipts *)
| KChannel (port chan : bytes)           (* channelEnds/ports/<port>/channels/<chan> *)
| KNextSend (id : bytes)                 (* nextSequenceSend/<id>: id is a channel id (v1 and alias) or a client id (v2) *)
| KV2 (k : V2Kind) (id : bytes) (seq : N)  (* <id>‖1|2|3‖be64(seq), <id>‖"async_packet"‖be64(seq) *)
| KAlias (id : bytes).                   (* <channel id>‖"alias" *)

Definition v2kind_eqb (a b : V2Kind) : bool :=
  match a, b with VCommit, VCommit | VReceipt, VReceipt | VAck, VAck | VAsync, VAsync => true | _, _ => false end.

Definition key_eqb (a b : Key) : bool :=
  match a, b with
  | KClient p, KClient q => bytes_eqb p q
  | KPlain p, KPlain q => bytes_eqb p q
  | KChannel p c, KChannel p' c' => bytes_eqb p p' && bytes_eqb c c'
  | KNextSend i, KNextSend j => bytes_eqb i j
  | KV2 k i n, KV2 k' i' n' => v2kind_eqb k k' && bytes_eqb i i' && (n =? n')%N
  | KAlias i, KAlias j => bytes_eqb i j
  | _, _ => false
  end.

Definition Entry := (Key * bytes)%type.
Definition State := list Entry.

Fixpoint lookup (k : Key) (s : State) : option bytes :=
  match s with
  | [] => None
  | (k', v) :: t => if key_eqb k' k then Some v else lookup k t
  end.

(** ** byte-level classification of the client store namespace *)
Inductive CKind :=
| CState (id : bytes)          (* clients/<id>/clientState *)
| CCons (id h : bytes)         (* clients/<id>/consensusStates/<height> *)
| CMeta (id k : bytes)         (* anything else of that client: processedTime/Height, iteration keys, creator,
                                  counterparty, config, connections *)
| CBad.                        (* an iterator would panic on this key *)

Definition is_space (c : ascii) : bool :=
  let n := N_of_ascii c in ((9 <=? n) && (n <=? 13) || (n =? 32))%N.
Definition blank (s : bytes) : bool := forallb is_space s.

Definition clients_pre : bytes := B "clients".
Definition key_client_state : bytes := B "clientState".
Definition key_cons_prefix : bytes := B "consensusStates".

Definition classify (path : bytes) : CKind :=
  match split_on slash path with
  | pre :: id :: rest =>
      if negb (bytes_eqb pre clients_pre) then CBad
      else
        let meta := if blank id then CBad else CMeta id (join_with slash rest) in
        match rest with
        | [c] =>
            (* IterateClientStates: len(split) == 3 && split[2] == "clientState", then MustParseClientStatePath *)
            if bytes_eqb c key_client_state then (if blank id then CBad else CState id) else meta
        | [c; h] =>
            (* IterateConsensusStates: len == 4 && split[2] == "consensusStates", then MustParseHeight(split[3]) *)
            if bytes_eqb c key_cons_prefix
            then match parse_height h with Some _ => CCons id h | None => CBad end
            else meta
        | _ => meta
        end
  | _ => CBad
  end.

(** the selection used before the F6 fix: strings.Contains(path, "clientState"), then MustParseClientStatePath *)
Definition parse_client_state_path (path : bytes) : option bytes :=
  match split_on slash path with
  | [pre; id; c] =>
      if negb (bytes_eqb pre clients_pre) then None
      else if negb (bytes_eqb c key_client_state) then None
      else if blank id then None else Some id
  | _ => None
  end.
Definition old_selects (path : bytes) : bool := contains key_client_state path.

(** ** export *)
Definition client_id_of (e : Entry) : list bytes :=
  match fst e with
  | KClient p => match classify p with CState id => [id] | _ => [] end
  | _ => []
  end.

(** GetAllGenesisClients (ids; the Sort() by id is treated in C45) *)
Definition client_ids (s : State) : list bytes := flat_map client_id_of s.

Definition mem (id : bytes) (l : list bytes) : bool := existsb (bytes_eqb id) l.

Definition is_bad (e : Entry) : bool :=
  match fst e with KClient p => match classify p with CBad => true | _ => false end | _ => false end.
Definition is_cstate (e : Entry) : bool :=
  match fst e with KClient p => match classify p with CState _ => true | _ => false end | _ => false end.
Definition is_ccons (e : Entry) : bool :=
  match fst e with KClient p => match classify p with CCons _ _ => true | _ => false end | _ => false end.
Definition is_meta_of (id : bytes) (e : Entry) : bool :=
  match fst e with KClient p => match classify p with CMeta i _ => bytes_eqb i id | _ => false end | _ => false end.
Definition is_plain (e : Entry) : bool := match fst e with KPlain _ => true | _ => false end.
Definition is_channel (e : Entry) : bool := match fst e with KChannel _ _ => true | _ => false end.
Definition is_v2_of (id : bytes) (e : Entry) : bool :=
  match fst e with KV2 _ i _ => bytes_eqb i id | _ => false end.

Definition channel_ids (s : State) : list bytes :=
  flat_map (fun e => match fst e with KChannel _ c => [c] | _ => [] end) s.

(** GetAllPacketSendSeqs: IterateChannels + GetNextSequenceSend, panic when a channel has none *)
Fixpoint send_seqs (s : State) (chans : list bytes) : option (list Entry) :=
  match chans with
  | [] => Some []
  | c :: cs => match lookup (KNextSend c) s, send_seqs s cs with
               | Some v, Some l => Some ((KNextSend c, v) :: l)
               | _, _ => None
               end
  end.

Record Genesis := mkGenesis {
  g_plain : list Entry;        (* params, next sequences, connections, v1 packet state, recv/ack sequences *)
  g_meta : list Entry;         (* ClientsMetadata, for the genesis clients only *)
  g_clients : list Entry;      (* Clients *)
  g_cons : list Entry;         (* ClientsConsensus (all of them) *)
  g_channels : list Entry;     (* Channels *)
  g_sendseq : list Entry;      (* SendSequences of the v1 genesis *)
  g_v2 : list Entry;           (* v2 acks / commitments / receipts / async packets per genesis client *)
  g_v2send : list Entry        (* v2 SendSequences per genesis client *)
}.

Definition export (s : State) : option Genesis :=
  if existsb is_bad s then None
  else
    let cids := client_ids s in
    match send_seqs s (channel_ids s) with
    | None => None
    | Some ss =>
        Some (mkGenesis
                (filter is_plain s)
                (flat_map (fun id => filter (is_meta_of id) s) cids)
                (filter is_cstate s)
                (filter is_ccons s)
                (filter is_channel s)
                ss
                (flat_map (fun id => filter (is_v2_of id) s) cids)
                (flat_map (fun id => match lookup (KNextSend id) s with
                                     | Some v => [(KNextSend id, v)]
                                     | None => []
                                     end) cids))
    end.

(** what InitGenesis writes, in the order it writes it (metadata before client and consensus states) *)
Definition entries (g : Genesis) : list Entry :=
  g_plain g ++ g_meta g ++ g_clients g ++ g_cons g ++ g_channels g ++ g_sendseq g ++ g_v2 g ++ g_v2send g.

Definition set (st : State) (e : Entry) : State := e :: st.      (* later writes shadow earlier ones *)

Definition localhost_key : Key := KPlain (B "connections/connection-localhost").

(** InitGenesis; [sentinel] is the encoded sentinel localhost connection end that
    connection.InitGenesis -> CreateSentinelLocalhostConnection always writes last. *)
Definition init (sentinel : bytes) (g : Genesis) : State :=
  set (fold_left set (entries g) []) (localhost_key, sentinel).

(** clientv2.InitGenesis -> GenesisState.Validate (02-client/v2/types/genesis.go): the genesis is rejected (panic)
    when a counterparty info names the same client id as the client it belongs to.  The counterparty infos are the
    "counterparty" metadata entries of the genesis clients; [cp_id] reads CounterpartyInfo.ClientId out of the
    stored value (values are otherwise opaque). *)
Definition counterparty_key : bytes := B "counterparty".

Definition self_counterparty (cp_id : bytes -> bytes) (e : Entry) : bool :=
  match fst e with
  | KClient p => match classify p with
                 | CMeta id k => bytes_eqb k counterparty_key && bytes_eqb id (cp_id (snd e))
                 | _ => false
                 end
  | _ => false
  end.

Definition validate (cp_id : bytes -> bytes) (g : Genesis) : bool :=
  negb (existsb (self_counterparty cp_id) (g_meta g)).

(** export, then InitGenesis into an empty store; [None] = one of the two panics *)
Definition restore (cp_id : bytes -> bytes) (sentinel : bytes) (s : State) : option State :=
  match export s with
  | Some g => if validate cp_id g then Some (init sentinel g) else None
  | None => None
  end.

(** is this entry written out by [export]? — the decision each Go export loop takes *)
Definition exported (s : State) (e : Entry) : bool :=
  match fst e with
  | KClient p => match classify p with
                 | CState _ | CCons _ _ => true
                 | CMeta id _ => mem id (client_ids s)
                 | CBad => false
                 end
  | KPlain _ | KChannel _ _ => true
  | KNextSend id => mem id (channel_ids s) || mem id (client_ids s)
  | KV2 _ id _ => mem id (client_ids s)
  | KAlias _ => false
  end.

(** entries of [s] that the restored state does not hold with the same value *)
Definition entry_in (st : State) (e : Entry) : bool :=
  match lookup (fst e) st with Some v => bytes_eqb v (snd e) | None => false end.

Definition lost (cp_id : bytes -> bytes) (sentinel : bytes) (s : State) : option (list Key) :=
  match restore cp_id sentinel s with
  | Some s' => Some (map fst (filter (fun e => negb (entry_in s' e)) s))
  | None => None
  end.

Definition extra (cp_id : bytes -> bytes) (sentinel : bytes) (s : State) : option (list Key) :=
  match restore cp_id sentinel s with
  | Some s' => Some (map fst (filter (fun e => negb (entry_in s e)) s'))
  | None => None
  end.

(** the guard: nothing is keyed by an identifier the export loops do not visit *)
Definition no_alias_state (s : State) : bool := forallb (exported s) s.

(** the second guard (F8): no genesis client whose registered counterparty carries the same identifier *)
Definition no_equal_ids (cp_id : bytes -> bytes) (s : State) : bool :=
  negb (existsb (fun e => self_counterparty cp_id e &&
                          match fst e with
                          | KClient p => match classify p with CMeta id _ => mem id (client_ids s) | _ => false end
                          | _ => false
                          end) s).
