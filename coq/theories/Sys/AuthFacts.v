(** Proofs about the gate model [Sys/Auth.v] (C46). *)
From IBC Require Import Lib.Bytes Lib.BytesFacts Lib.CorrLib Sys.Auth.

Section Facts.
  Variable acc : bytes -> option bytes.
  (** sdk.AccAddressFromBech32 never returns an empty address (VerifyAddressFormat rejects length 0). *)
  Hypothesis acc_nonempty : forall s a, acc s = Some a -> a <> [].

  Notation handler := (handler acc).
  Notation Ctx := Auth.Ctx.

  (** the signer classes of the property text *)
  Definition is_authority (c : Ctx) : Prop := signer c = expected_authority (env c).
  Definition is_creator (c : Ctx) : Prop := creator c <> [] /\ acc (signer c) = Some (creator c).
  Definition is_listed (c : Ctx) : Prop :=
    exists r a, In r (relayers c) /\ acc r = Some a /\ acc (signer c) = Some a.
  Definition type_allowed (c : Ctx) : Prop :=
    exists t, ctype c = Some t /\ (allowed c = [allow_all] \/ In t (allowed c)).

  Definition authority_op (op : Op) : bool :=
    match op with
    | RecoverClient | SoftwareUpgrade | ClientParams | ConnParams | TransferParams | IcaHostParams
    | IcaCtrlParams | RlAdd | RlUpdate | RlRemove | RlReset | WasmStore | WasmRemove | WasmMigrate => true
    | _ => false
    end.
  Definition relayer_op (op : Op) : bool :=
    match op with UpdateClient | RecvV2 | AckV2 | TimeoutV2 => true | _ => false end.
  Definition routed_op (op : Op) : bool :=
    match op with
    | RecoverClient | CreateClient | UpdateClient | RecvV2 | AckV2 | TimeoutV2 | RecvV1Use | ClientStatus => true
    | _ => false
    end.

  Lemma validate_authority_iff e s : validate_authority e s = true <-> s = expected_authority e.
  Proof. unfold validate_authority. rewrite bytes_eqb_eq. split; congruence. Qed.

  Lemma authority_then_ok c k : authority_then c k = Ok -> is_authority c /\ k = Ok.
  Proof.
    unfold authority_then. destruct (validate_authority (env c) (signer c)) eqn:V; [|discriminate].
    intros ->. split; auto. now apply validate_authority_iff.
  Qed.

  Lemma of_body_ok b : of_body b = Ok -> b = true.
  Proof. destruct b; simpl; congruence. Qed.

  (** Authority-only operations *)
  Lemma authority_only op c : authority_op op = true -> handler op c = Ok -> is_authority c.
  Proof.
    destruct op; simpl; try discriminate; intros _ H;
      try (apply authority_then_ok in H; tauto);
      destruct (acc (signer c)); try discriminate; apply authority_then_ok in H; tauto.
  Qed.

  (** and they are not vacuous: the authority with a succeeding body gets Ok *)
  Lemma authority_suffices_params op c :
    match op with ClientParams | ConnParams | TransferParams | IcaHostParams | IcaCtrlParams => True | _ => False end ->
    is_authority c -> handler op c = Ok.
  Proof.
    intros Hop HA. apply validate_authority_iff in HA.
    destruct op; try contradiction; simpl; unfold authority_then; now rewrite HA.
  Qed.

  (** RegisterCounterparty: creator only, and only while no counterparty is registered *)
  Lemma register_ok c : handler RegisterCounterparty c = Ok -> is_creator c /\ cp_set c = false.
  Proof.
    simpl. destruct (acc (signer c)) as [a|] eqn:A; [|discriminate].
    destruct (bytes_eqb (creator c) a) eqn:E; simpl; [|discriminate].
    destruct (cp_set c); [discriminate|]. intros _. apply bytes_eqb_eq in E. subst a.
    split; auto. split; auto. eapply acc_nonempty; eauto.
  Qed.

  Lemma register_no_creator c : creator c = [] -> handler RegisterCounterparty c <> Ok.
  Proof. intros HC H. apply register_ok in H. destruct H as [[H _] _]. contradiction. Qed.

  Lemma authority_or_creator_ok c k :
    authority_or_creator acc c k = Ok -> (is_authority c \/ is_creator c) /\ k = Ok.
  Proof.
    unfold authority_or_creator. destruct (validate_authority (env c) (signer c)) eqn:V.
    - intros ->. split; auto. left. now apply validate_authority_iff.
    - destruct (acc (signer c)) as [a|] eqn:A; [|discriminate].
      destruct (bytes_eqb (creator c) a) eqn:E; [|discriminate].
      intros ->. apply bytes_eqb_eq in E. subst a. split; auto. right. split; auto.
      eapply acc_nonempty; eauto.
  Qed.

  (** UpdateClientConfig / DeleteClientCreator: authority or creator *)
  Lemma config_ok c : handler UpdateClientConfig c = Ok -> is_authority c \/ is_creator c.
  Proof. simpl. intros H. apply authority_or_creator_ok in H. tauto. Qed.

  Lemma config_no_creator c : creator c = [] -> handler UpdateClientConfig c = Ok -> is_authority c.
  Proof.
    intros HC H. destruct (config_ok c H) as [|[HN _]]; auto. contradiction.
  Qed.

  Lemma delete_ok c :
    handler DeleteClientCreator c = Ok -> creator c <> [] /\ (is_authority c \/ is_creator c).
  Proof.
    simpl. destruct (creator c) eqn:HC; [discriminate|]. intros H.
    apply authority_or_creator_ok in H. split; [discriminate|].
    destruct H as [[H|H] _]; [left|right]; auto.
  Qed.

  (** relayer allow list *)
  Lemma relayer_loop_true rs a :
    relayer_loop acc rs a = Some true -> exists r, In r rs /\ acc r = Some a.
  Proof.
    induction rs as [|r rs IH]; simpl; [discriminate|].
    destruct (acc r) as [x|] eqn:A; [|discriminate].
    destruct (bytes_eqb a x) eqn:E.
    - intros _. apply bytes_eqb_eq in E. subst x. eauto.
    - intros H. destruct (IH H) as (r' & Hin & Hr). eauto.
  Qed.

  Lemma relayer_then_ok c a k :
    relayers c <> [] -> relayer_then acc c a k = Ok -> (exists r, In r (relayers c) /\ acc r = Some a) /\ k = Ok.
  Proof.
    unfold relayer_then, is_allowed_relayer. intros HN.
    destruct (relayers c) as [|r0 rs] eqn:R; [contradiction|].
    destruct (relayer_loop acc (r0 :: rs) a) as [[|]|] eqn:L; try discriminate.
    intros ->. split; auto. now apply relayer_loop_true.
  Qed.

  Lemma relayer_listed op c :
    relayer_op op = true -> relayers c <> [] -> handler op c = Ok -> is_listed c.
  Proof.
    destruct op; simpl; try discriminate; intros _ HN H;
      try (destruct (pre c); [|discriminate]);
      destruct (acc (signer c)) as [a|] eqn:A; try discriminate;
      apply relayer_then_ok in H; auto; destruct H as [(r & Hin & Hr) _];
      exists r, a; auto.
  Qed.

  (** an empty list gates nobody (permissionless default) — the gate is exactly the list *)
  Lemma relayer_empty_open c a k : relayers c = [] -> relayer_then acc c a k = k.
  Proof. unfold relayer_then, is_allowed_relayer. now intros ->. Qed.

  (** allowed clients *)
  Lemma is_allowed_client_true al t :
    is_allowed_client al t = true -> al = [allow_all] \/ In t al.
  Proof.
    unfold is_allowed_client. destruct (forallb is_ascii_space t); [discriminate|].
    assert (G : existsb (fun a => bytes_eqb a t) al = true -> In t al).
    { rewrite existsb_exists. intros (x & Hin & E). apply bytes_eqb_eq in E. now subst. }
    destruct al as [|w [|w' al']]; auto.
    simpl. rewrite orb_true_iff, !bytes_eqb_eq. intros [->| ->]; [left|right; left]; auto.
  Qed.

  Lemma route_then_ok c k : route_then c k = Ok -> type_allowed c /\ k = Ok.
  Proof.
    unfold route_then, route. destruct (ctype c) as [t|] eqn:T; [|discriminate].
    destruct (is_allowed_client (allowed c) t) eqn:A; [|discriminate].
    destruct (routed c); [|discriminate]. intros ->. split; auto.
    exists t. split; auto. now apply is_allowed_client_true.
  Qed.

  Lemma routed_needs_allowed op c : routed_op op = true -> handler op c = Ok -> type_allowed c.
  Proof.
    destruct op; simpl; try discriminate; intros _ H.
    - apply authority_then_ok in H. destruct H as [_ H]. apply route_then_ok in H. tauto.
    - destruct (pre c); [|discriminate]. apply route_then_ok in H. tauto.
    - destruct (pre c); [|discriminate]. destruct (acc (signer c)) as [a|]; [|discriminate].
      unfold relayer_then in H. destruct (is_allowed_relayer acc (relayers c) a) as [[|]|]; try discriminate.
      apply route_then_ok in H. tauto.
    - destruct (acc (signer c)) as [a|]; [|discriminate].
      unfold relayer_then in H. destruct (is_allowed_relayer acc (relayers c) a) as [[|]|]; try discriminate.
      apply route_then_ok in H. tauto.
    - destruct (acc (signer c)) as [a|]; [|discriminate].
      unfold relayer_then in H. destruct (is_allowed_relayer acc (relayers c) a) as [[|]|]; try discriminate.
      apply route_then_ok in H. tauto.
    - destruct (acc (signer c)) as [a|]; [|discriminate].
      unfold relayer_then in H. destruct (is_allowed_relayer acc (relayers c) a) as [[|]|]; try discriminate.
      apply route_then_ok in H. tauto.
    - destruct (acc (signer c)) as [a|]; [|discriminate]. apply route_then_ok in H. tauto.
    - apply route_then_ok in H. tauto.
  Qed.

  (** the gate never depends on what the handler would do afterwards when it refuses:
      a refused signer is refused whatever [body] is. *)
  Lemma refusal_independent_of_body op c b :
    handler op c <> Ok -> body c = true ->
    handler op (mkCtx (env c) (signer c) (creator c) (cp_set c) (relayers c) (allowed c) (ctype c) (routed c) (pre c) b) <> Ok.
  Proof.
    intros H Hb. destruct c as [e sg cr cp rs al ct rt pr bd]; simpl in *. subst bd.
    destruct b; auto. intros H'. apply H. clear H.
    destruct op; simpl in *; unfold authority_then, route_then, relayer_then, of_body in *; simpl in *;
      repeat match goal with
             | H : context [if ?x then _ else _] |- _ => destruct x; try discriminate
             | H : context [match ?x with _ => _ end] |- _ => destruct x; try discriminate
             end; auto.
  Qed.

  (** ** histories *)
  Notation hstep := (hstep acc).
  Notation hrun := (hrun acc).

  Lemma get_put s id c id' : get (put s id c) id' = if Nat.eqb id id' then c else get s id'.
  Proof. reflexivity. Qed.

  (** once registered, always registered: no operation clears the counterparty *)
  Lemma hstep_cp_mono e s op id : c_cp (get s id) = true -> c_cp (get (snd (hstep e s op)) id) = true.
  Proof.
    intros H.
    destruct op as [sg ct bd|i sg|i sg rs|i sg|i sg ct bd|sg al]; unfold Auth.hstep.
    - destruct (Auth.handler acc CreateClient _); simpl; auto.
      destruct (acc sg); simpl; auto. unfold get; simpl.
      destruct (Nat.eqb_spec (next s) id) as [->|]; simpl; auto.
    - destruct (Auth.handler acc RegisterCounterparty _); simpl; auto.
      rewrite get_put. destruct (Nat.eqb i id); auto.
    - destruct (Auth.handler acc UpdateClientConfig _); simpl; auto.
      rewrite get_put. destruct (Nat.eqb_spec i id) as [->|]; simpl; auto.
    - destruct (Auth.handler acc DeleteClientCreator _); simpl; auto.
      rewrite get_put. destruct (Nat.eqb_spec i id) as [->|]; simpl; auto.
    - simpl. auto.
    - destruct (Auth.handler acc ClientParams _); simpl; auto.
  Qed.

  Lemma hrun_cp_mono e ops : forall s id, c_cp (get s id) = true -> c_cp (get (snd (hrun e s ops)) id) = true.
  Proof.
    induction ops as [|op ops IH]; intros s id H; simpl; auto.
    pose proof (hstep_cp_mono e s op id H) as H1.
    destruct (hstep e s op) as [o s'] eqn:E1. simpl in H1.
    specialize (IH s' id H1). destruct (hrun e s' ops) as [os s''] eqn:E2. simpl in *. auto.
  Qed.

  Lemma hstep_register_ok e s id sg s' :
    hstep e s (HRegister id sg) = (Ok, s') ->
    c_creator (get s id) <> [] /\ acc sg = Some (c_creator (get s id)) /\
    c_cp (get s id) = false /\ c_cp (get s' id) = true.
  Proof.
    unfold Auth.hstep. destruct (Auth.handler acc RegisterCounterparty _) eqn:H; intros E; inversion E; subst.
    apply register_ok in H. destruct H as [[HN HA] HC]. simpl in *.
    repeat split; auto. rewrite get_put, Nat.eqb_refl. reflexivity.
  Qed.

  (** Counterparty registration succeeds at most once per client, whatever happens in between. *)
  Theorem register_once e s id sg s' :
    hstep e s (HRegister id sg) = (Ok, s') ->
    forall ops sg', fst (hstep e (snd (hrun e s' ops)) (HRegister id sg')) <> Ok.
  Proof.
    intros H ops sg'. apply hstep_register_ok in H. destruct H as (_ & _ & _ & H).
    pose proof (hrun_cp_mono e ops s' id H) as H2.
    destruct (hstep e (snd (hrun e s' ops)) (HRegister id sg')) as [o s2] eqn:E. simpl.
    intros ->. apply hstep_register_ok in E. destruct E as (_ & _ & E & _). congruence.
  Qed.

  (** The creator recorded for a client is the decoded signer of the CreateClient that made it ... *)
  Lemma hstep_create_ok e s sg ct bd s' :
    hstep e s (HCreate sg ct bd) = (Ok, s') ->
    exists a, acc sg = Some a /\ c_creator (get s' (next s)) = a /\ next s' = S (next s) /\
              (st_allowed s = [allow_all] \/ In ct (st_allowed s)).
  Proof.
    unfold Auth.hstep.
    destruct (Auth.handler acc CreateClient _) eqn:H; destruct (acc sg) as [a|] eqn:A; intros E; inversion E; subst.
    - exists a. repeat split; auto.
      + unfold get; simpl. now rewrite Nat.eqb_refl.
      + apply (routed_needs_allowed CreateClient) in H; auto.
        destruct H as (t & Ht & Hal). simpl in *. inversion Ht; subst. auto.
    - exfalso. simpl in H. unfold route_then in H. simpl in H. rewrite A in H.
      destruct (is_allowed_client (st_allowed s') ct), bd; discriminate.
  Qed.

  (** ... and afterwards it only ever changes by deletion (ids are generated from a counter, so no later
      creation touches it). *)
  Lemma hstep_next_mono e s op : next s <= next (snd (hstep e s op)).
  Proof.
    destruct op as [sg ct bd|i sg|i sg rs|i sg|i sg ct bd|sg al]; unfold Auth.hstep.
    - destruct (Auth.handler acc CreateClient _); simpl; auto. destruct (acc sg); simpl; auto.
    - destruct (Auth.handler acc RegisterCounterparty _); simpl; auto.
    - destruct (Auth.handler acc UpdateClientConfig _); simpl; auto.
    - destruct (Auth.handler acc DeleteClientCreator _); simpl; auto.
    - simpl; auto.
    - destruct (Auth.handler acc ClientParams _); simpl; auto.
  Qed.

  Lemma hstep_creator_stable e s op id :
    id < next s ->
    c_creator (get (snd (hstep e s op)) id) = c_creator (get s id) \/ c_creator (get (snd (hstep e s op)) id) = [].
  Proof.
    intros HL.
    destruct op as [sg ct bd|i sg|i sg rs|i sg|i sg ct bd|sg al]; unfold Auth.hstep.
    - destruct (Auth.handler acc CreateClient _); simpl; auto.
      destruct (acc sg); simpl; auto. left. unfold get; simpl.
      destruct (Nat.eqb_spec (next s) id); auto. lia.
    - destruct (Auth.handler acc RegisterCounterparty _); simpl; auto.
      rewrite get_put. destruct (Nat.eqb_spec i id) as [->|]; simpl; auto.
    - destruct (Auth.handler acc UpdateClientConfig _); simpl; auto.
      rewrite get_put. destruct (Nat.eqb_spec i id) as [->|]; simpl; auto.
    - destruct (Auth.handler acc DeleteClientCreator _); simpl; auto.
      rewrite get_put. destruct (Nat.eqb_spec i id) as [->|]; simpl; auto.
    - simpl. auto.
    - destruct (Auth.handler acc ClientParams _); simpl; auto.
  Qed.

  (** Client-scoped history steps: who may change what. *)
  Theorem hstep_gates e s op o s' :
    hstep e s op = (o, s') -> o = Ok ->
    match op with
    | HCreate sg ct _ => st_allowed s = [allow_all] \/ In ct (st_allowed s)
    | HRegister id sg => c_creator (get s id) <> [] /\ acc sg = Some (c_creator (get s id)) /\ c_cp (get s id) = false
    | HConfig id sg _ | HDeleteCreator id sg =>
        sg = expected_authority e \/ (c_creator (get s id) <> [] /\ acc sg = Some (c_creator (get s id)))
    | HUpdate id sg ct _ =>
        (c_relayers (get s id) <> [] -> exists r a, In r (c_relayers (get s id)) /\ acc r = Some a /\ acc sg = Some a) /\
        (st_allowed s = [allow_all] \/ In ct (st_allowed s))
    | HParams sg _ => sg = expected_authority e
    end.
  Proof.
    intros E ->. destruct op as [sg ct bd|i sg|i sg rs|i sg|i sg ct bd|sg al].
    - apply hstep_create_ok in E. destruct E as (a & _ & _ & _ & H). auto.
    - apply hstep_register_ok in E. tauto.
    - unfold Auth.hstep in E. destruct (Auth.handler acc UpdateClientConfig _) eqn:H; inversion E.
      apply config_ok in H. unfold is_authority, is_creator in H. simpl in H. auto.
    - unfold Auth.hstep in E. destruct (Auth.handler acc DeleteClientCreator _) eqn:H; inversion E.
      apply delete_ok in H. unfold is_authority, is_creator in H. simpl in H. tauto.
    - unfold Auth.hstep in E.
      assert (H : handler UpdateClient (ctx_of e s i sg (Some ct) bd) = Ok) by (inversion E; auto). split.
      + intros HN. exact (relayer_listed UpdateClient (ctx_of e s i sg (Some ct) bd) eq_refl HN H).
      + destruct (routed_needs_allowed UpdateClient (ctx_of e s i sg (Some ct) bd) eq_refl H) as (t & Ht & Hal).
        simpl in *. inversion Ht; subst; auto.
    - unfold Auth.hstep in E. destruct (Auth.handler acc ClientParams _) eqn:H; inversion E.
      apply (authority_only ClientParams) in H; auto.
  Qed.
End Facts.

(** the table decoder satisfies the hypothesis whenever the table holds no empty address *)
Lemma table_acc_nonempty t :
  forallb (fun kv => negb (bytes_eqb (snd kv) [])) t = true ->
  forall s a, table_acc t s = Some a -> a <> [].
Proof.
  induction t as [|[k v] t IH]; simpl; [discriminate|].
  rewrite andb_true_iff. intros [Hv Ht] s a.
  destruct (bytes_eqb k s).
  - intros [= <-]. destruct v; [discriminate|discriminate].
  - now apply IH.
Qed.
