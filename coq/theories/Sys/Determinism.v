(** C45 — iteration-order independence of every map-range site under /repo/modules, and order-canonicity of the
    sorted collections.  A Go map iterated with `range` yields its entries in an unspecified order: the model of a
    site is a function of the *list* of entries, and the lemma is invariance under [Permutation] of that list.

    Sites (tools/mapsites regenerates the list on every run; tools/mapsites/expected.json names the lemma of each):
      core/api/router.go AddRoute        range rtr.prefixRoutes : panic iff some prefix is a prefix of the port
      core/api/router.go AddPrefixRoute  range rtr.routes, range rtr.prefixRoutes : panic iff some collision
      core/api/router.go getRoute        range rtr.prefixRoutes : first prefix that matches
      core/05-port/types/router.go Keys  range rtr.routes : collected, then slices.Sort
      apps/packet-forward-middleware/keeper/genesis.go InitGenesis  range state.InFlightPackets : store.Set each
    Sorted collections: GetAllGenesisClients (Sort by client id), GetAllConsensusStates (Sort by client id),
      transfer Denoms.Sort, Router.Keys. *)
From Coq Require Import Permutation Sorting.Sorted.
From IBC Require Import Lib.Bytes Lib.BytesFacts Lib.CorrLib Lib.BE64.

(** ** sorting: insertion sort as the specification of sort.Sort / slices.Sort on distinct keys *)
Section Sort.
  Variable A : Type.
  Variable le : A -> A -> bool.

  Fixpoint insert (x : A) (l : list A) : list A :=
    match l with
    | [] => [x]
    | y :: t => if le x y then x :: y :: t else y :: insert x t
    end.

  Fixpoint isort (l : list A) : list A :=
    match l with [] => [] | x :: t => insert x (isort t) end.
End Sort.
Arguments insert {A}.
Arguments isort {A}.

(** lexicographic order on byte strings (Go's < on strings) *)
Definition ble (a b : bytes) : bool := match bytes_cmp a b with Gt => false | _ => true end.

(** ** the router sites *)
(** AddRoute: for prefix := range prefixRoutes { if HasPrefix(portID, prefix) panic } *)
Definition add_route_collides (prefixes : list bytes) (port : bytes) : bool :=
  existsb (fun p => is_prefix p port) prefixes.

(** AddPrefixRoute: the two loops *)
Definition add_prefix_collides (routes prefixes : list bytes) (np : bytes) : bool :=
  existsb (fun r => is_prefix np r) routes ||
  existsb (fun p => is_prefix p np || is_prefix np p) prefixes.

(** getRoute: for prefix, cbs := range prefixRoutes { if HasPrefix(portID, prefix) return cbs } *)
Definition get_prefix_route {M} (entries : list (bytes * M)) (port : bytes) : option (bytes * M) :=
  find (fun e => is_prefix (fst e) port) entries.

(** the invariant AddPrefixRoute maintains: no registered prefix is a prefix of another one *)
Definition non_nested {M} (entries : list (bytes * M)) : Prop :=
  forall a b, In a entries -> In b entries -> is_prefix (fst a) (fst b) = true -> a = b.

(** Router.Keys *)
Definition router_keys {M} (entries : list (bytes * M)) : list bytes := isort ble (map fst entries).
