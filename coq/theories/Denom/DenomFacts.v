(** Proofs about Denom/Denom.v (C34, and the denomination lemmas behind C33 and C42). *)
From IBC Require Import Lib.Bytes Lib.BytesFacts Lib.Dec Lib.Sha256 Denom.Ident Denom.Denom.
Local Open Scope N_scope.

(** ** equality tests *)
Lemma hop_eqb_eq a b : hop_eqb a b = true <-> a = b.
Proof.
  destruct a as [p c], b as [p' c']; unfold hop_eqb; simpl.
  rewrite andb_true_iff, !bytes_eqb_eq. split; [intros [-> ->]; reflexivity|intros [= -> ->]; auto].
Qed.

Lemma trace_eqb_eq a b : trace_eqb a b = true <-> a = b.
Proof.
  revert b; induction a as [|x a IH]; destruct b as [|y b]; simpl; split; try congruence; auto.
  - intros Hx. apply andb_true_iff in Hx as [H1 H2]. apply hop_eqb_eq in H1. apply IH in H2. congruence.
  - intros [= -> ->]. apply andb_true_iff. split; [now apply hop_eqb_eq|now apply IH].
Qed.

Lemma denom_eqb_eq a b : denom_eqb a b = true <-> a = b.
Proof.
  destruct a as [ba ta], b as [bb tb]; unfold denom_eqb; simpl.
  rewrite andb_true_iff, bytes_eqb_eq, trace_eqb_eq. split; [intros [-> ->]; reflexivity|intros [= -> ->]; auto].
Qed.

(** ** split/join *)
Lemma join_cons2 sep a b l : join_with sep (a :: b :: l) = a ++ sep :: join_with sep (b :: l).
Proof. reflexivity. Qed.

Lemma join_cons_ne sep a l : l <> [] -> join_with sep (a :: l) = a ++ sep :: join_with sep l.
Proof. destruct l; [congruence|reflexivity]. Qed.

Lemma split_join sep (l : list bytes) :
  l <> [] -> (forall p, In p l -> ~ In sep p) -> split_on sep (join_with sep l) = l.
Proof.
  induction l as [|a l IH]; intros Hne Hall; [congruence|].
  destruct l as [|b l].
  - simpl. apply split_on_nosep. apply Hall. now left.
  - rewrite join_cons2, split_on_app by (apply Hall; now left).
    rewrite IH; [reflexivity|discriminate|]. intros p Hp. apply Hall. now right.
Qed.

Lemma not_in_has_slash s : has_slash s = false <-> ~ In slash s.
Proof.
  unfold has_slash. split.
  - intros Hf Hin. assert (existsb (Ascii.eqb slash) s = true) as E.
    { apply existsb_exists. exists slash. split; [exact Hin|apply Ascii.eqb_refl]. }
    congruence.
  - intros Hn. destruct (existsb (Ascii.eqb slash) s) eqn:E; [|reflexivity].
    apply existsb_exists in E as [x [Hin Hx]]. apply Ascii.eqb_eq in Hx. subst x. contradiction.
Qed.

Lemma validator_no_slash id lo hi : default_identifier_validator id lo hi = true -> ~ In slash id.
Proof.
  unfold default_identifier_validator. destruct (is_blank id); [discriminate|].
  destruct (has_slash id) eqn:E; [discriminate|]. intros _. now apply not_in_has_slash.
Qed.

(** ** ExtractDenomFromPath *)
Definition hop_segs (h : Hop) : list bytes := [h_port h; h_chan h].

Lemma extract_total s : extract_res s = Ok (extract s).
Proof.
  unfold extract. destruct (extract_res s) eqn:E; [reflexivity|].
  unfold extract_res in E. assert (Hn := split_on_nonempty slash s).
  destruct (split_on slash s) as [|s0 r]; [contradiction|].
  destruct (bytes_eqb s0 s); [discriminate|].
  destruct (extract_loop _ _). discriminate.
Qed.

Lemma extract_no_panic s : extract_res s <> Panic.
Proof. rewrite extract_total. discriminate. Qed.

Lemma loop_segs gt2 segs tr bs :
  extract_loop gt2 segs = (tr, bs) -> segs = flat_map hop_segs tr ++ bs.
Proof.
  revert tr bs. induction segs as [segs IH] using (well_founded_induction (Wf_nat.well_founded_ltof _ (@length bytes))).
  intros tr bs E. destruct segs as [|p [|c rest]]; simpl in E; try (injection E as <- <-; reflexivity).
  destruct (gt2 && is_hop_id c).
  - destruct (extract_loop gt2 rest) as [tr' bs'] eqn:E'. injection E as <- <-.
    apply IH in E'; [|unfold ltof; simpl; lia]. simpl. now rewrite E' at 1.
  - injection E as <- <-. reflexivity.
Qed.

Lemma join_hops tr bs :
  bs <> [] -> join_with slash (flat_map hop_segs tr ++ bs) = trace_prefix tr ++ join_with slash bs.
Proof.
  intros Hne. induction tr as [|h tr IH]; [reflexivity|].
  cbn [flat_map hop_segs app trace_prefix]. rewrite join_cons2.
  rewrite join_cons_ne by (destruct (flat_map hop_segs tr); simpl; [exact Hne|discriminate]).
  rewrite IH. unfold hop_string. now rewrite <- !app_assoc.
Qed.

Lemma flat_map_hops_ne tr : tr <> [] -> flat_map hop_segs tr <> [].
Proof. destruct tr; [congruence|discriminate]. Qed.

Lemma join_hops_nil tr :
  tr <> [] -> join_with slash (flat_map hop_segs tr) ++ [slash] = trace_prefix tr.
Proof.
  induction tr as [|h tr IH]; [congruence|]. intros _.
  cbn [flat_map hop_segs app trace_prefix]. unfold hop_string.
  destruct tr as [|h' tr].
  - simpl. now rewrite <- app_assoc.
  - rewrite join_cons2, join_cons_ne by (apply flat_map_hops_ne; discriminate).
    rewrite <- IH by discriminate.
    rewrite <- !app_assoc. cbn [app]. rewrite <- app_assoc. reflexivity.
Qed.

(** the parse result in terms of the segment list *)
Lemma extract_unfold s :
  let segs := split_on slash s in
  (exists s0 r, segs = s0 :: r /\
     ((bytes_eqb s0 s = true /\ extract s = mkDenom s []) \/
      (bytes_eqb s0 s = false /\
       exists tr bs, extract_loop (2 <? N.of_nat (length segs)) segs = (tr, bs) /\
                     extract s = mkDenom (join_with slash bs) tr))).
Proof.
  intros segs. unfold extract, extract_res. fold segs.
  assert (Hn := split_on_nonempty slash s). fold segs in Hn.
  destruct segs as [|s0 r] eqn:Es; [contradiction|]. exists s0, r. split; [reflexivity|].
  destruct (bytes_eqb s0 s) eqn:E0; [left; auto|right]. split; [reflexivity|].
  destruct (extract_loop _ _) as [tr bs] eqn:El. exists tr, bs. auto.
Qed.

(** every string: the path of the parse is the string itself, except when the loop consumed every
    segment (even number >= 4 of segments, every second one a channel/client identifier): then the base is
    empty and the path has one more '/' *)
Lemma path_extract_cases s :
  path (extract s) = s \/
  (d_base (extract s) = [] /\ d_trace (extract s) <> [] /\ path (extract s) = s ++ [slash]).
Proof.
  destruct (extract_unfold s) as [s0 [r [Es [[_ ->]|[_ [tr [bs [El ->]]]]]]]]; [left; reflexivity|].
  pose proof (loop_segs _ _ _ _ El) as Hs.
  unfold path, is_native; simpl.
  destruct tr as [|h tr].
  - left. simpl in Hs. rewrite <- Hs. apply join_split.
  - destruct bs as [|b0 bs].
    + right. split; [reflexivity|]. split; [discriminate|].
      simpl join_with. rewrite app_nil_r. rewrite app_nil_r in Hs.
      rewrite <- join_hops_nil by discriminate. rewrite <- Hs. now rewrite join_split.
    + left. rewrite <- join_hops by discriminate. rewrite <- Hs. apply join_split.
Qed.

Lemma is_blank_nil_false s : is_blank s = false -> s <> [].
Proof. intros H ->. discriminate. Qed.

Theorem path_extract s : denom_validate (extract s) = true -> path (extract s) = s.
Proof.
  intros Hv. destruct (path_extract_cases s) as [E|[Hb _]]; [exact E|].
  unfold denom_validate in Hv. rewrite Hb in Hv. discriminate.
Qed.

Theorem path_extract_res s d : extract_res s = Ok d -> denom_validate d = true -> path d = s.
Proof. rewrite extract_total. intros [= <-]. apply path_extract. Qed.

Ltac norm_app := repeat (rewrite <- ?app_assoc; cbn [app]).

Lemma path_cons p c d :
  path (mkDenom (d_base d) (mkHop p c :: d_trace d)) = p ++ slash :: c ++ slash :: path d.
Proof.
  unfold path, is_native; cbn [d_trace d_base trace_prefix]. unfold hop_string; cbn [h_port h_chan].
  destruct (d_trace d); cbn [trace_prefix]; norm_app; reflexivity.
Qed.

Lemma path_one_hop p c b : path (mkDenom b [mkHop p c]) = p ++ slash :: c ++ slash :: b.
Proof. exact (path_cons p c (mkDenom b [])). Qed.

Lemma hop_prefix_string p c r :
  (hop_string (mkHop p c) ++ [slash]) ++ r = p ++ slash :: c ++ slash :: r.
Proof. unfold hop_string; cbn [h_port h_chan]. norm_app. reflexivity. Qed.

(** ** voucher names *)
Section Hash.
  Variable H : bytes -> bytes.

  Lemma ibc_denom_traced d :
    d_trace d <> [] -> ibc_denom_with H d = B "ibc/" ++ hex_upper (H (path d)).
  Proof. unfold ibc_denom_with, is_native, hash_with. destruct (d_trace d); [congruence|reflexivity]. Qed.

  Lemma ibc_denom_native d : d_trace d = [] -> ibc_denom_with H d = d_base d /\ path d = d_base d.
  Proof. unfold ibc_denom_with, path, is_native. intros ->. auto. Qed.

  (** the voucher name depends on the path only, not on how it is split into trace and base *)
  Lemma ibc_denom_path_only d d' :
    d_trace d <> [] -> d_trace d' <> [] -> path d = path d' -> ibc_denom_with H d = ibc_denom_with H d'.
  Proof. intros Hd Hd' E. rewrite !ibc_denom_traced by assumption. now rewrite E. Qed.

  Lemma ibc_denom_extract s :
    denom_validate (extract s) = true ->
    ibc_denom_with H (extract s) =
      if is_native (extract s) then s else B "ibc/" ++ hex_upper (H s).
  Proof.
    intros Hv. pose proof (path_extract s Hv) as Hp.
    unfold ibc_denom_with, hash_with. rewrite Hp.
    destruct (is_native (extract s)) eqn:En; [|reflexivity].
    unfold path in Hp. now rewrite En in Hp.
  Qed.

  (** the voucher minted on receive: destination hop prepended to the parsed denomination *)
  Lemma voucher_name s port chan :
    denom_validate (extract s) = true ->
    ibc_denom_with H (mkDenom (d_base (extract s)) (mkHop port chan :: d_trace (extract s))) =
      B "ibc/" ++ hex_upper (H (port ++ slash :: chan ++ slash :: s)).
  Proof.
    intros Hv. rewrite ibc_denom_traced by discriminate. do 2 f_equal.
    rewrite path_cons. now rewrite path_extract.
  Qed.

  (** ** escrow addresses *)
  Lemma escrow_preimage_inj p c p' c' :
    ~ In slash p -> ~ In slash p' ->
    escrow_preimage p c = escrow_preimage p' c' -> p = p' /\ c = c'.
  Proof.
    intros Hp Hp' E. unfold escrow_preimage in E.
    apply app_inv_head in E. injection E as E. now apply app_sep_inj in E.
  Qed.

  Lemma escrow_address_inj p c p' c' :
    ~ In slash p -> ~ In slash p' ->
    escrow_address_with H p c = escrow_address_with H p' c' ->
    (p = p' /\ c = c') \/ exists a b : bytes, a <> b /\ firstn 20 (H a) = firstn 20 (H b).
  Proof.
    intros Hp Hp' E. destruct (bytes_eq_dec (escrow_preimage p c) (escrow_preimage p' c')) as [Eq|Ne].
    - left. now apply escrow_preimage_inj.
    - right. exists (escrow_preimage p c), (escrow_preimage p' c'). auto.
  Qed.

  Lemma escrow_address_inj_valid p c p' c' :
    port_identifier_validator p = true -> port_identifier_validator p' = true ->
    escrow_address_with H p c = escrow_address_with H p' c' ->
    (p = p' /\ c = c') \/ exists a b : bytes, a <> b /\ firstn 20 (H a) = firstn 20 (H b).
  Proof.
    intros Hp Hp'. apply escrow_address_inj; eapply validator_no_slash; eassumption.
  Qed.

  (** ** SetDenom *)
  Lemma set_denom_key d : denom_store_key_with H d = ascii_of_N 3 :: H (path d).
  Proof. reflexivity. Qed.

  Lemma get_set_denom st d : get_denom (set_denom_with H st d) (H (path d)) = Some d.
  Proof. unfold set_denom_with, hash_with. simpl. now rewrite bytes_eqb_refl. Qed.

  Lemma get_set_denom_other st d k : k <> H (path d) -> get_denom (set_denom_with H st d) k = get_denom st k.
  Proof.
    intros Hk. unfold set_denom_with, hash_with. simpl.
    destruct (bytes_eqb (H (path d)) k) eqn:E; [apply bytes_eqb_eq in E; congruence|reflexivity].
  Qed.

  (** every entry written by SetDenom sits under the hash of its own full path *)
  Fixpoint store_of (ds : list Denom) : DenomStore :=
    match ds with [] => [] | d :: ds' => set_denom_with H (store_of ds') d end.
  Lemma store_keys ds k d : In (k, d) (store_of ds) -> k = H (path d).
  Proof.
    induction ds as [|d0 ds IH]; simpl; [tauto|]. intros [E|Hin]; [|auto].
    unfold hash_with in E. now injection E as <- <-.
  Qed.
End Hash.

(** ** denom_safe *)
Lemma denom_safe_eq d : denom_safe d = true <-> extract (path d) = d.
Proof. unfold denom_safe. apply denom_eqb_eq. Qed.

(** parses produced by ExtractDenomFromPath and accepted by Validate are safe *)
Lemma extract_safe s : denom_validate (extract s) = true -> denom_safe (extract s) = true.
Proof. intros Hv. apply denom_safe_eq. now rewrite path_extract. Qed.

(** shape of a base denomination that is safe behind any hop whose channel is in ibc-go format:
    no '/' at all, or a second segment that is not a channel/client identifier *)
Definition base_shape_safe (b : bytes) : bool :=
  match split_on slash b with
  | _ :: c :: _ => negb (is_hop_id c)
  | _ => true
  end.

Lemma split_hop_prefix p c r :
  ~ In slash p -> ~ In slash c ->
  split_on slash (p ++ slash :: c ++ slash :: r) = p :: c :: split_on slash r.
Proof. intros Hp Hc. rewrite split_on_app by exact Hp. now rewrite split_on_app by exact Hc. Qed.

Lemma neq_longer (p : bytes) x r : p <> p ++ x :: r.
Proof.
  intros E. apply (f_equal (@length ascii)) in E. rewrite app_length in E. simpl in E. lia.
Qed.

Lemma gt2_three {A} (a b c : A) l : (2 <? N.of_nat (length (a :: b :: c :: l))) = true.
Proof. apply N.ltb_lt. simpl length. lia. Qed.

Lemma extract_hop_prefixed p c r :
  ~ In slash p -> ~ In slash c -> is_hop_id c = true ->
  exists tr bs, extract_loop true (split_on slash r) = (tr, bs) /\
                extract (p ++ slash :: c ++ slash :: r) = mkDenom (join_with slash bs) (mkHop p c :: tr).
Proof.
  intros Hp Hc Hid.
  destruct (extract_loop true (split_on slash r)) as [tr bs] eqn:El. exists tr, bs. split; [reflexivity|].
  unfold extract, extract_res. rewrite split_hop_prefix by assumption. cbv beta iota.
  destruct (bytes_eqb p _) eqn:E0; [apply bytes_eqb_eq in E0; exfalso; eapply neq_longer; exact E0|].
  assert (Hn := split_on_nonempty slash r).
  match goal with |- context [2 <? ?x] => assert (Hg : (2 <? x) = true) end.
  { destruct (split_on slash r); [contradiction|apply gt2_three]. }
  rewrite Hg.
  change (extract_loop true (p :: c :: split_on slash r))
    with (if true && is_hop_id c
          then let '(tr, bs) := extract_loop true (split_on slash r) in (mkHop p c :: tr, bs)
          else ([], p :: c :: split_on slash r)).
  rewrite Hid, El. reflexivity.
Qed.

Lemma base_shape_safe_sound hop b :
  ~ In slash (h_port hop) -> ~ In slash (h_chan hop) -> is_hop_id (h_chan hop) = true ->
  base_shape_safe b = true -> base_safe hop b = true.
Proof.
  intros Hp Hc Hid Hs. destruct hop as [p c]. simpl in *.
  unfold base_safe. apply denom_safe_eq.
  rewrite path_one_hop.
  destruct (extract_hop_prefixed p c b Hp Hc Hid) as [tr [bs [El ->]]].
  unfold base_shape_safe in Hs. pose proof (join_split slash b) as Hj.
  destruct (split_on slash b) as [|x [|y l]] eqn:Eb.
  - exfalso. eapply split_on_nonempty; exact Eb.
  - simpl in El. injection El as <- <-. simpl in *. now rewrite Hj.
  - cbn [extract_loop andb] in El. apply negb_true_iff in Hs. rewrite Hs in El.
    injection El as <- <-. now rewrite Hj.
Qed.

Lemma base_shape_safe_complete hop b :
  ~ In slash (h_port hop) -> ~ In slash (h_chan hop) -> is_hop_id (h_chan hop) = true ->
  base_safe hop b = true -> base_shape_safe b = true.
Proof.
  intros Hp Hc Hid Hs. destruct hop as [p c]. simpl in *.
  unfold base_safe in Hs. apply denom_safe_eq in Hs. revert Hs.
  rewrite path_one_hop.
  destruct (extract_hop_prefixed p c b Hp Hc Hid) as [tr [bs [El ->]]].
  intros [= Hb Ht]. subst tr. unfold base_shape_safe.
  destruct (split_on slash b) as [|x [|y l]]; try reflexivity.
  cbn [extract_loop andb] in El. destruct (is_hop_id y); [|reflexivity].
  destruct (extract_loop true l). discriminate.
Qed.

Lemma slashfree_shape_safe b : ~ In slash b -> base_shape_safe b = true.
Proof. intros Hn. unfold base_shape_safe. now rewrite split_on_nosep. Qed.

(** ** rate limiting vs ICS-20 (C42) *)
Section RL.
  Variable H : bytes -> bytes.

  (** send, v1: the token is what TokenFromCoin produced, the packet denom is its Path *)
  Theorem rl_send_agrees token port chan :
    denom_safe token = true -> is_prefix ibc_slash (path token) = false ->
    rl_send_denom_with H (path token) = send_action_denom (ics20_send_action H token port chan).
  Proof.
    intros Hs Hp. apply denom_safe_eq in Hs. unfold rl_send_denom_with. rewrite Hp, Hs.
    unfold ics20_send_action. destruct (has_prefix token port chan); reflexivity.
  Qed.

  (** send, v2: the transfer module debits the re-parsed packet denomination; the rate limiter charges the
      re-encoded one *)
  Theorem rl_send_agrees_v2 pd port chan :
    denom_validate (extract pd) = true -> is_prefix ibc_slash pd = false ->
    exists pd', v2_reencode_denom pd = Some pd' /\
      rl_send_denom_with H pd' = send_action_denom (ics20_send_action H (extract pd) port chan).
  Proof.
    intros Hv Hp. unfold v2_reencode_denom. rewrite Hv. eexists. split; [reflexivity|].
    apply rl_send_agrees; [now apply extract_safe|]. now rewrite path_extract.
  Qed.

  Theorem v2_reencode_id pd : denom_validate (extract pd) = true -> v2_reencode_denom pd = Some pd.
  Proof. intros Hv. unfold v2_reencode_denom. now rewrite Hv, path_extract. Qed.

  (** if the parsed trace starts with (p, c) the string starts with "p/c/" and, for a parse that Validate
      accepts, the remainder parses to the tail of the trace *)
  Lemma has_prefix_string s p c :
    has_prefix (extract s) p c = true -> denom_validate (extract s) = true ->
    exists r, s = p ++ slash :: c ++ slash :: r /\
              extract r = mkDenom (d_base (extract s)) (tl (d_trace (extract s))).
  Proof.
    intros Hp Hv.
    destruct (extract_unfold s) as [s0 [r0 [Es [[_ E]|[E0 [tr [bs [El E]]]]]]]];
      rewrite E in Hp, Hv |- *; [discriminate|].
    unfold has_prefix in Hp; cbn [d_trace d_base] in *.
    destruct tr as [|h tr]; [discriminate|]. apply andb_true_iff in Hp as [Hp1 Hp2].
    apply bytes_eqb_eq in Hp1, Hp2.
    pose proof (join_split slash s) as Hj.
    assert (Hparts : forall x, In x (split_on slash s) -> ~ In slash x) by (intros x; apply split_on_parts_nosep).
    remember (2 <? N.of_nat (length (split_on slash s))) as g eqn:Eg0.
    destruct (split_on slash s) as [|a [|b rest]] eqn:Esp; cbn [extract_loop] in El; try discriminate El.
    destruct (g && is_hop_id b) eqn:Eg; [|discriminate].
    apply andb_true_iff in Eg as [Eg Hid]. rewrite Eg in Eg0, El.
    destruct (extract_loop true rest) as [tr' bs'] eqn:El'. injection El as <- <- <-. simpl in Hp1, Hp2. subst a b.
    destruct rest as [|r1 rest]; [symmetry in Eg0; apply N.ltb_lt in Eg0; simpl in Eg0; lia|].
    exists (join_with slash (r1 :: rest)). split.
    { rewrite <- Hj. reflexivity. }
    cbn [tl].
    assert (Hsp : split_on slash (join_with slash (r1 :: rest)) = r1 :: rest).
    { apply split_join; [discriminate|]. intros x Hx. apply Hparts. right. right. exact Hx. }
    unfold extract, extract_res. rewrite Hsp.
    destruct (bytes_eqb r1 (join_with slash (r1 :: rest))) eqn:E1.
    - (* single remaining segment *)
      apply bytes_eqb_eq in E1. destruct rest as [|r2 rest].
      + simpl in El'. injection El' as <- <-. reflexivity.
      + exfalso. rewrite join_cons2 in E1. eapply neq_longer. exact E1.
    - destruct rest as [|r2 [|r3 rest]].
      + simpl in E1. now rewrite bytes_eqb_refl in E1.
      + (* exactly two remaining segments: the shifted loop never takes a hop; the original one would
           only with an empty base, which Validate rejects *)
        replace (2 <? N.of_nat (length [r1; r2])) with false by reflexivity.
        cbn [extract_loop andb] in El' |- *.
        destruct (is_hop_id r2).
        * injection El' as <- <-. unfold denom_validate in Hv. simpl in Hv. discriminate.
        * injection El' as <- <-. reflexivity.
      + rewrite gt2_three. rewrite El'. reflexivity.
  Qed.

  (** a string that starts with "p/c/" for an ibc-go-format c parses with first hop (p, c) *)
  Lemma string_prefix_has_prefix s p c r :
    ~ In slash p -> ~ In slash c -> is_hop_id c = true ->
    strip_prefix (hop_string (mkHop p c) ++ [slash]) s = Some r -> has_prefix (extract s) p c = true.
  Proof.
    intros Hp Hc Hid Hs. apply strip_prefix_spec in Hs. rewrite hop_prefix_string in Hs.
    subst s. destruct (extract_hop_prefixed p c r Hp Hc Hid) as [tr [bs [_ ->]]].
    unfold has_prefix; simpl. now rewrite !bytes_eqb_refl.
  Qed.

  (** receive: whenever ICS-20 moves a coin for a packet from an ibc-go-format source channel, it is the
      denomination the rate limiter charged, provided the minted voucher is denom_safe *)
  Theorem rl_recv_agrees sp sc dp dc pd d :
    ~ In slash sp -> ~ In slash sc -> is_hop_id sc = true ->
    (has_prefix (extract pd) sp sc = false ->
       denom_safe (mkDenom (d_base (extract pd)) (mkHop dp dc :: d_trace (extract pd))) = true) ->
    recv_action_denom H (ics20_recv_action H sp sc dp dc pd) = Some d ->
    d = rl_recv_denom_with H sp sc dp dc pd.
  Proof.
    intros Hsp Hsc Hid Hsafe.
    unfold ics20_recv_action, rl_recv_denom_with.
    destruct (denom_validate (extract pd)) eqn:Hv; cbn [negb]; [|discriminate].
    destruct (has_prefix (extract pd) sp sc) eqn:Hp.
    - destruct (has_prefix_string _ _ _ Hp Hv) as [r [Es Er]].
      assert (Hst : strip_prefix (hop_string (mkHop sp sc) ++ [slash]) pd = Some r).
      { apply strip_prefix_spec. rewrite Es at 1. now rewrite hop_prefix_string. }
      rewrite Hst, Er. destruct (sdk_valid_denom _); cbn [recv_action_denom]; [|discriminate].
      now intros [= <-].
    - destruct (strip_prefix _ pd) as [r|] eqn:Hst.
      + exfalso. pose proof (string_prefix_has_prefix _ _ _ _ Hsp Hsc Hid Hst). congruence.
      + cbn [recv_action_denom]. specialize (Hsafe eq_refl). apply denom_safe_eq in Hsafe.
        intros [= <-]. rewrite <- Hsafe at 1. rewrite path_cons, path_extract by exact Hv.
        unfold hop_string; cbn [h_port h_chan]. norm_app. reflexivity.
  Qed.
End RL.

(** ** C42 refuted: the two modules derive the denomination with different code (F5c) *)
Definition differs (a : option bytes) (b : bytes) : bool :=
  match a with Some x => negb (bytes_eqb x b) | None => false end.

Lemma rl_refuted :
  (* (a) a native coin with a hop-shaped name is escrowed under its own name and charged as ibc/... *)
  (let token := mkDenom (B "foo/channel-5/bar") [] in
   sdk_valid_denom (d_base token) = true /\
   ics20_send token (B "transfer") (B "channel-0") = SEscrow (B "foo/channel-5/bar") /\
   rl_send_denom (path token) = B "ibc/EA1484A3305E0DC601247D7D61EDBD3AA0DBDE1EE66AA17195A3DEDAEA949C60") /\
  (* (b) base "transfer/channel-0" received: ICS-20 mints the hash of "transfer/channel-1/transfer/channel-0",
         the rate limiter parses both pairs as hops and hashes the path with a trailing '/' *)
  (differs (recv_action_denom sha256 (ics20_recv (B "transfer") (B "channel-3") (B "transfer") (B "channel-1") (B "transfer/channel-0")))
           (rl_recv_denom (B "transfer") (B "channel-3") (B "transfer") (B "channel-1") (B "transfer/channel-0")) = true) /\
  (* (c) source channel identifier not in ibc-go format: ICS-20 mints a new voucher, the rate limiter strips
         the prefix and charges the inner denomination *)
  (differs (recv_action_denom sha256 (ics20_recv (B "transfer") (B "chan-xyz12") (B "transfer") (B "channel-1") (B "transfer/chan-xyz12/uatom")))
           (rl_recv_denom (B "transfer") (B "chan-xyz12") (B "transfer") (B "channel-1") (B "transfer/chan-xyz12/uatom")) = true /\
   rl_recv_denom (B "transfer") (B "chan-xyz12") (B "transfer") (B "channel-1") (B "transfer/chan-xyz12/uatom") = B "uatom" /\
   channel_identifier_validator (B "chan-xyz12") = true) /\
  (* (d) a voucher whose first hop port is literally "ibc" (only if the transfer app is bound to that port) *)
  (let token := mkDenom (B "uatom") [mkHop (B "ibc") (B "channel-0")] in
   denom_safe token = true /\
   negb (bytes_eqb (rl_send_denom (path token)) (send_action_denom (ics20_send token (B "ibc") (B "channel-0")))) = true).
Proof. vm_compute. repeat split. Qed.
