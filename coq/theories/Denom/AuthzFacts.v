(** Proofs about Denom/Authz.v (C36). *)
From IBC Require Import Lib.Bytes Lib.BytesFacts Lib.Dec Denom.Ident Denom.Authz.
Local Open Scope Z_scope.

(** ** coins as maps *)
Lemma amount_remove_same l d : amount_of (remove_denom l d) d = 0.
Proof.
  induction l as [|[d' v] l IH]; [reflexivity|]. simpl.
  destruct (bytes_eqb d' d) eqn:E; [exact IH|]. simpl. now rewrite E.
Qed.

Lemma amount_remove_other l d d' : d' <> d -> amount_of (remove_denom l d) d' = amount_of l d'.
Proof.
  intros Hne. induction l as [|[k v] l IH]; [reflexivity|]. simpl.
  destruct (bytes_eqb k d) eqn:E.
  - apply bytes_eqb_eq in E. subst k.
    destruct (bytes_eqb d d') eqn:E'; [apply bytes_eqb_eq in E'; congruence|exact IH].
  - simpl. destruct (bytes_eqb k d'); [reflexivity|exact IH].
Qed.

Lemma amount_upd_same l d v : amount_of (upd l d v) d = v.
Proof.
  unfold upd. destruct (Z.eqb_spec v 0) as [->|Hv].
  - apply amount_remove_same.
  - simpl. now rewrite bytes_eqb_refl.
Qed.

Lemma amount_upd_other l d v d' : d' <> d -> amount_of (upd l d v) d' = amount_of l d'.
Proof.
  intros Hne. unfold upd. destruct (v =? 0).
  - now apply amount_remove_other.
  - simpl. destruct (bytes_eqb d d') eqn:E; [apply bytes_eqb_eq in E; congruence|now apply amount_remove_other].
Qed.

Definition pos_coins (l : Coins) : Prop := Forall (fun kv => 0 < snd kv) l.

Lemma pos_remove l d : pos_coins l -> pos_coins (remove_denom l d).
Proof.
  unfold pos_coins. induction l as [|[k v] l IH]; intros Hp; [constructor|]. simpl.
  inversion Hp as [|? ? Hk Hl]; subst. destruct (bytes_eqb k d); [auto|constructor; auto].
Qed.

Lemma pos_upd l d v : pos_coins l -> 0 <= v -> pos_coins (upd l d v).
Proof.
  intros Hp Hv. unfold upd. destruct (Z.eqb_spec v 0); [now apply pos_remove|].
  constructor; [simpl; lia|now apply pos_remove].
Qed.

Lemma pos_amount_nonneg l d : pos_coins l -> 0 <= amount_of l d.
Proof.
  unfold pos_coins. induction l as [|[k v] l IH]; intros Hp; simpl; [lia|].
  inversion Hp; subst. simpl in *. destruct (bytes_eqb k d); [lia|auto].
Qed.

Lemma pos_is_zero l : pos_coins l -> coins_is_zero l = true -> l = [].
Proof.
  destruct l as [|[k v] l]; [reflexivity|]. intros Hp Hz. inversion Hp; subst. simpl in *.
  apply andb_true_iff in Hz as [Hz _]. apply Z.eqb_eq in Hz. lia.
Qed.

Lemma is_zero_amount l d : coins_is_zero l = true -> amount_of l d = 0.
Proof.
  induction l as [|[k v] l IH]; [reflexivity|]. simpl. intros Hz. apply andb_true_iff in Hz as [Hv Hl].
  apply Z.eqb_eq in Hv. destruct (bytes_eqb k d); [exact Hv|auto].
Qed.

Lemma pos_nonempty_has l : pos_coins l -> l <> [] -> exists d, 0 < amount_of l d.
Proof.
  destruct l as [|[k v] l]; [congruence|]. intros Hp _. exists k. simpl. rewrite bytes_eqb_refl.
  inversion Hp; subst. assumption.
Qed.

(** ** allocations *)
Definition same_key (p c p' c' : bytes) : bool := bytes_eqb c' c && bytes_eqb p' p.

Lemma key_eqb_same a p c p' c' : key_eqb a p c = true -> key_eqb a p' c' = same_key p c p' c'.
Proof.
  unfold key_eqb, same_key. intros Hk. apply andb_true_iff in Hk as [Hc Hp].
  apply bytes_eqb_eq in Hc, Hp. subst. f_equal.
  - destruct (bytes_eqb (a_chan a) c') eqn:E, (bytes_eqb c' (a_chan a)) eqn:E'; try reflexivity.
    + apply bytes_eqb_eq in E. subst. now rewrite bytes_eqb_refl in E'.
    + apply bytes_eqb_eq in E'. subst. now rewrite bytes_eqb_refl in E.
  - destruct (bytes_eqb (a_port a) p') eqn:E, (bytes_eqb p' (a_port a)) eqn:E'; try reflexivity.
    + apply bytes_eqb_eq in E. subst. now rewrite bytes_eqb_refl in E'.
    + apply bytes_eqb_eq in E'. subst. now rewrite bytes_eqb_refl in E.
Qed.

Lemma same_key_refl p c : same_key p c p c = true.
Proof. unfold same_key. now rewrite !bytes_eqb_refl. Qed.

Lemma same_key_eq p c p' c' : same_key p c p' c' = true <-> (p' = p /\ c' = c).
Proof. unfold same_key. rewrite andb_true_iff, !bytes_eqb_eq. tauto. Qed.

Lemma find_alloc_key g p c a : find_alloc g p c = Some a -> key_eqb a p c = true.
Proof.
  induction g as [|x g IH]; simpl; [discriminate|]. destruct (key_eqb x p c) eqn:E; [intros [= <-]; exact E|exact IH].
Qed.

Lemma find_set_same g p c l a :
  find_alloc g p c = Some a ->
  find_alloc (set_limit g p c l) p c = Some (mkAlloc (a_port a) (a_chan a) l (a_allow a) (a_memos a)).
Proof.
  induction g as [|x g IH]; simpl; [discriminate|]. destruct (key_eqb x p c) eqn:E.
  - intros [= <-]. simpl. unfold key_eqb in *. simpl. now rewrite E.
  - intros Hf. simpl. rewrite E. auto.
Qed.

Lemma find_set_other g p c l p' c' :
  same_key p c p' c' = false -> find_alloc (set_limit g p c l) p' c' = find_alloc g p' c'.
Proof.
  intros Hk. induction g as [|x g IH]; simpl; [reflexivity|]. destruct (key_eqb x p c) eqn:E.
  - simpl. rewrite (key_eqb_same x p c p' c' E), Hk.
    assert (key_eqb (mkAlloc (a_port x) (a_chan x) l (a_allow x) (a_memos x)) p' c' = key_eqb x p' c') as -> by reflexivity.
    now rewrite (key_eqb_same x p c p' c' E), Hk.
  - simpl. destruct (key_eqb x p' c'); [reflexivity|exact IH].
Qed.

Lemma find_delete_other g p c p' c' :
  same_key p c p' c' = false -> find_alloc (delete_alloc g p c) p' c' = find_alloc g p' c'.
Proof.
  intros Hk. induction g as [|x g IH]; simpl; [reflexivity|]. destruct (key_eqb x p c) eqn:E.
  - now rewrite (key_eqb_same x p c p' c' E), Hk.
  - simpl. destruct (key_eqb x p' c'); [reflexivity|exact IH].
Qed.

(** allocations have pairwise distinct (port, channel) *)
Fixpoint nodup_keys (g : Grant) : Prop :=
  match g with
  | [] => True
  | a :: g' => find_alloc g' (a_port a) (a_chan a) = None /\ nodup_keys g'
  end.

Lemma key_eqb_own a : key_eqb a (a_port a) (a_chan a) = true.
Proof. unfold key_eqb. now rewrite !bytes_eqb_refl. Qed.

Lemma key_eqb_eq a p c : key_eqb a p c = true -> p = a_port a /\ c = a_chan a.
Proof. unfold key_eqb. rewrite andb_true_iff, !bytes_eqb_eq. intros [-> ->]. auto. Qed.

Lemma find_delete_same g p c : nodup_keys g -> find_alloc (delete_alloc g p c) p c = None.
Proof.
  induction g as [|x g IH]; simpl; [reflexivity|]. intros [Hx Hg]. destruct (key_eqb x p c) eqn:E.
  - apply key_eqb_eq in E as [-> ->]. exact Hx.
  - simpl. rewrite E. auto.
Qed.

Lemma find_none_delete g p c p' c' : find_alloc g p' c' = None -> find_alloc (delete_alloc g p c) p' c' = None.
Proof.
  induction g as [|x g IH]; simpl; [reflexivity|]. destruct (key_eqb x p' c') eqn:E'; [discriminate|].
  intros Hf. destruct (key_eqb x p c); [exact Hf|]. simpl. rewrite E'. auto.
Qed.

Lemma find_none_set g p c l p' c' : find_alloc g p' c' = None -> find_alloc (set_limit g p c l) p' c' = None.
Proof.
  induction g as [|x g IH]; simpl; [reflexivity|]. destruct (key_eqb x p' c') eqn:E'; [discriminate|].
  intros Hf. destruct (key_eqb x p c); simpl.
  - assert (key_eqb (mkAlloc (a_port x) (a_chan x) l (a_allow x) (a_memos x)) p' c' = key_eqb x p' c') as -> by reflexivity.
    now rewrite E'.
  - rewrite E'. auto.
Qed.

Lemma nodup_delete g p c : nodup_keys g -> nodup_keys (delete_alloc g p c).
Proof.
  induction g as [|x g IH]; simpl; [auto|]. intros [Hx Hg]. destruct (key_eqb x p c); [exact Hg|].
  simpl. split; [now apply find_none_delete|auto].
Qed.

Lemma nodup_set g p c l : nodup_keys g -> nodup_keys (set_limit g p c l).
Proof.
  induction g as [|x g IH]; simpl; [auto|]. intros [Hx Hg]. destruct (key_eqb x p c); simpl.
  - split; assumption.
  - split; [now apply find_none_set|auto].
Qed.

(** every allocation holds a non-empty limit with positive amounts *)
Definition alloc_ok (a : Alloc) : Prop := pos_coins (a_limit a) /\ a_limit a <> [].
Definition WF (g : Grant) : Prop := g <> [] /\ nodup_keys g /\ Forall alloc_ok g.
Definition SWF (st : State) : Prop := match st with None => True | Some g => WF g end.

Lemma forall_delete g p c : Forall alloc_ok g -> Forall alloc_ok (delete_alloc g p c).
Proof.
  induction g as [|x g IH]; simpl; [auto|]. intros Hf. inversion Hf; subst.
  destruct (key_eqb x p c); [assumption|constructor; auto].
Qed.

Lemma forall_set g p c l : Forall alloc_ok g -> pos_coins l -> l <> [] -> Forall alloc_ok (set_limit g p c l).
Proof.
  intros Hf Hp Hn. induction g as [|x g IH]; simpl; [auto|]. inversion Hf; subst.
  destruct (key_eqb x p c); constructor; auto. split; assumption.
Qed.

Lemma forall_delete_set g p c l : Forall alloc_ok g -> Forall alloc_ok (delete_alloc (set_limit g p c l) p c).
Proof.
  induction g as [|x g IH]; simpl; [auto|]. intros Hf. inversion Hf; subst.
  destruct (key_eqb x p c) eqn:E; simpl.
  - assert (key_eqb (mkAlloc (a_port x) (a_chan x) l (a_allow x) (a_memos x)) p c = key_eqb x p c) as -> by reflexivity.
    now rewrite E.
  - rewrite E. constructor; auto.
Qed.

Lemma find_alloc_ok g p c a : Forall alloc_ok g -> find_alloc g p c = Some a -> alloc_ok a.
Proof.
  induction g as [|x g IH]; simpl; [discriminate|]. intros Hf. inversion Hf; subst.
  destruct (key_eqb x p c); [intros [= <-]; assumption|auto].
Qed.

Lemma remaining_nonneg st p c d : SWF st -> 0 <= remaining st p c d.
Proof.
  destruct st as [g|]; simpl; [|lia]. intros [_ [_ Hf]].
  destruct (find_alloc g p c) as [a|] eqn:E; [|lia].
  apply pos_amount_nonneg. exact (proj1 (find_alloc_ok _ _ _ _ Hf E)).
Qed.

(** ** one step *)
Definition hits (r : Req) (p c d : bytes) : bool :=
  bytes_eqb (r_port r) p && bytes_eqb (r_chan r) c && bytes_eqb (r_denom r) d.

Lemma hits_same_key r p c d : hits r p c d = true -> same_key (r_port r) (r_chan r) p c = true /\ r_denom r = d.
Proof.
  unfold hits. intros Hh. apply andb_true_iff in Hh as [Hh Hd]. apply andb_true_iff in Hh as [Hp Hc].
  apply bytes_eqb_eq in Hp, Hc, Hd. subst. split; [apply same_key_refl|reflexivity].
Qed.

Lemma not_hits r p c d :
  hits r p c d = false -> same_key (r_port r) (r_chan r) p c = false \/ (p = r_port r /\ c = r_chan r /\ d <> r_denom r).
Proof.
  unfold hits. intros Hh. destruct (same_key (r_port r) (r_chan r) p c) eqn:Ek; [right|left; reflexivity].
  apply same_key_eq in Ek as [-> ->]. rewrite !bytes_eqb_refl in Hh. simpl in Hh.
  repeat split. intros ->. now rewrite bytes_eqb_refl in Hh.
Qed.

Theorem step_spec st r st' ok :
  SWF st -> 0 <= r_amt r -> step st r = (st', ok) ->
  SWF st' /\
  (ok = false -> st' = st) /\
  (ok = true ->
     let K := remaining st (r_port r) (r_chan r) (r_denom r) in
     (K <> sentinel -> r_amt r <= K) /\
     forall p c d, remaining st' p c d =
                   remaining st p c d - (if hits r p c d && negb (K =? sentinel) then r_amt r else 0)).
Proof.
  intros Hwf Hamt Hstep. destruct st as [g|]; simpl in Hstep.
  2:{ injection Hstep as <- <-. repeat split; auto; discriminate. }
  destruct Hwf as [Hne [Hnd Hok]].
  unfold accept in Hstep.
  destruct (find_alloc g (r_port r) (r_chan r)) as [a|] eqn:Ef.
  2:{ injection Hstep as <- <-. repeat split; auto; discriminate. }
  destruct (negb (is_allowed (r_receiver r) (a_allow a))).
  { injection Hstep as <- <-. repeat split; auto; discriminate. }
  destruct (negb (memo_ok (r_memo r) (a_memos a))).
  { injection Hstep as <- <-. repeat split; auto; discriminate. }
  destruct (find_alloc_ok _ _ _ _ Hok Ef) as [Hpos Hlne].
  assert (HK : remaining (Some g) (r_port r) (r_chan r) (r_denom r) = amount_of (a_limit a) (r_denom r))
    by (simpl; now rewrite Ef).
  destruct (amount_of (a_limit a) (r_denom r) =? sentinel) eqn:Es.
  - (* unbounded *)
    assert (Hz : coins_is_zero (a_limit a) = false).
    { destruct (coins_is_zero (a_limit a)) eqn:Ez; [|reflexivity].
      apply (is_zero_amount _ (r_denom r)) in Ez. apply Z.eqb_eq in Es. rewrite Ez in Es. discriminate Es. }
    rewrite Hz in Hstep. destruct g as [|x g]; [congruence|]. injection Hstep as <- <-.
    split; [split; [discriminate|split; assumption]|]. split; [discriminate|]. intros _. cbv zeta. rewrite HK, Es.
    split; [intros Hc; apply Z.eqb_eq in Es; congruence|]. intros p c d. rewrite andb_false_r. lia.
  - unfold safe_sub in Hstep. cbv zeta in Hstep.
    destruct (amount_of (a_limit a) (r_denom r) - r_amt r <? 0) eqn:Eneg.
    { injection Hstep as <- <-. repeat split; auto; discriminate. }
    apply Z.ltb_ge in Eneg.
    set (lft := upd (a_limit a) (r_denom r) (amount_of (a_limit a) (r_denom r) - r_amt r)) in *.
    assert (Hpl : pos_coins lft) by (apply pos_upd; assumption).
    set (g1 := set_limit g (r_port r) (r_chan r) lft) in *.
    assert (Hf1 : find_alloc g1 (r_port r) (r_chan r) = Some (mkAlloc (a_port a) (a_chan a) lft (a_allow a) (a_memos a)))
      by (apply find_set_same; exact Ef).
    (* remaining in g1 *)
    assert (Hrem1 : forall p c d, remaining (Some g1) p c d =
                      remaining (Some g) p c d - (if hits r p c d then r_amt r else 0)).
    { intros p c d. simpl. destruct (hits r p c d) eqn:Eh.
      - apply hits_same_key in Eh as [Ek <-]. apply same_key_eq in Ek as [-> ->].
        rewrite Hf1, Ef. simpl. unfold lft. rewrite amount_upd_same. lia.
      - apply not_hits in Eh as [Ek|[-> [-> Hd]]].
        + unfold g1. rewrite find_set_other by exact Ek. lia.
        + rewrite Hf1, Ef. simpl. unfold lft. rewrite amount_upd_other by exact Hd. lia. }
    destruct (coins_is_zero lft) eqn:Ez.
    + (* allocation exhausted: removed *)
      apply pos_is_zero in Ez; [|exact Hpl].
      set (g2 := delete_alloc g1 (r_port r) (r_chan r)) in *.
      assert (Hnd2 : nodup_keys g2) by (apply nodup_delete, nodup_set; exact Hnd).
      assert (Hrem2 : forall p c d, remaining (Some g2) p c d = remaining (Some g1) p c d).
      { intros p c d. simpl. destruct (same_key (r_port r) (r_chan r) p c) eqn:Ek.
        - apply same_key_eq in Ek as [-> ->]. unfold g2. rewrite find_delete_same by (apply nodup_set; exact Hnd).
          rewrite Hf1. simpl. rewrite Ez. reflexivity.
        - unfold g2. now rewrite find_delete_other by exact Ek. }
      assert (Hfinal : forall p c d, remaining (Some g2) p c d =
                 remaining (Some g) p c d - (if hits r p c d && negb (remaining (Some g) (r_port r) (r_chan r) (r_denom r) =? sentinel) then r_amt r else 0)).
      { intros p c d. rewrite Hrem2, Hrem1, HK, Es. cbn [negb]. now rewrite andb_true_r. }
      destruct g2 as [|x g2'] eqn:Eg2.
      * injection Hstep as <- <-. split; [exact I|]. split; [discriminate|]. intros _. cbv zeta.
        split; [rewrite HK; lia|]. intros p c d. rewrite <- Hfinal. reflexivity.
      * injection Hstep as <- <-.
        split; [split; [discriminate|split; [exact Hnd2|]]|].
        { rewrite <- Eg2. unfold g2, g1. apply forall_delete_set. exact Hok. }
        split; [discriminate|]. intros _. cbv zeta. split; [rewrite HK; lia|]. exact Hfinal.
    + assert (Hlne' : lft <> []) by (intros E; rewrite E in Ez; discriminate Ez).
      destruct g1 as [|x g1'] eqn:Eg1.
      { exfalso. unfold g1 in Eg1. destruct g as [|y g]; [congruence|]. simpl in Eg1. destruct (key_eqb y _ _); discriminate. }
      injection Hstep as <- <-.
      split; [split; [discriminate|split]|].
      { rewrite <- Eg1. apply nodup_set. exact Hnd. }
      { rewrite <- Eg1. apply forall_set; assumption. }
      split; [discriminate|]. intros _. cbv zeta. split; [rewrite HK; lia|].
      intros p c d. rewrite Hrem1, HK, Es. cbn [negb]. now rewrite andb_true_r.
Qed.

(** ** runs *)
Lemma run_cons st r rs :
  run st (r :: rs) = (fst (run (fst (step st r)) rs), snd (step st r) :: snd (run (fst (step st r)) rs)).
Proof. simpl. destruct (step st r) as [st1 ok]. simpl. destruct (run st1 rs) as [st2 oks]. reflexivity. Qed.

Theorem run_accounting rs : forall st,
  SWF st -> Forall (fun r => 0 <= r_amt r) rs ->
  SWF (fst (run st rs)) /\
  forall p c d, remaining st p c d < sentinel ->
    remaining (fst (run st rs)) p c d = remaining st p c d - accepted_total st rs p c d /\
    0 <= remaining (fst (run st rs)) p c d.
Proof.
  induction rs as [|r rs IH]; intros st Hwf Hamt.
  - simpl. split; [exact Hwf|]. intros p c d _. split; [lia|now apply remaining_nonneg].
  - inversion Hamt as [|? ? Hr Hrs]; subst. rewrite run_cons. cbn [fst].
    destruct (step st r) as [st1 ok] eqn:Es. cbn [fst snd].
    destruct (step_spec st r st1 ok Hwf Hr Es) as [Hwf1 [Hno Hyes]].
    destruct (IH st1 Hwf1 Hrs) as [Hwf2 Hacc]. split; [exact Hwf2|].
    intros p c d Hlt. cbn [accepted_total]. rewrite Es.
    destruct ok.
    + destruct (Hyes eq_refl) as [Hle Hrem]. cbv zeta in Hle, Hrem.
      assert (Hh : (true && bytes_eqb (r_port r) p && bytes_eqb (r_chan r) c && bytes_eqb (r_denom r) d) = hits r p c d) by reflexivity.
      rewrite Hh. specialize (Hrem p c d).
      destruct (hits r p c d) eqn:Eh.
      * pose proof Eh as Eh'. apply hits_same_key in Eh' as [Ek <-]. apply same_key_eq in Ek as [-> ->].
        assert (Hns : (remaining st (r_port r) (r_chan r) (r_denom r) =? sentinel) = false) by (apply Z.eqb_neq; lia).
        rewrite Hns in Hrem. cbn [negb andb] in Hrem.
        assert (Hlt1 : remaining st1 (r_port r) (r_chan r) (r_denom r) < sentinel) by lia.
        destruct (Hacc _ _ _ Hlt1) as [H1 H2]. split; lia.
      * cbn [andb] in Hrem. assert (Hlt1 : remaining st1 p c d < sentinel) by lia.
        destruct (Hacc _ _ _ Hlt1) as [H1 H2]. split; lia.
    + rewrite (Hno eq_refl) in *. cbn [andb]. destruct (Hacc _ _ _ Hlt) as [H1 H2]. split; lia.
Qed.

Corollary run_bound rs st p c d :
  SWF st -> Forall (fun r => 0 <= r_amt r) rs -> remaining st p c d < sentinel ->
  accepted_total st rs p c d <= remaining st p c d.
Proof.
  intros Hwf Hamt Hlt. destruct (run_accounting rs st Hwf Hamt) as [_ H]. destruct (H p c d Hlt). lia.
Qed.

(** an allocation is gone exactly when nothing remains under it; the grant is gone exactly when nothing remains *)
Theorem exhausted_iff_removed st p c :
  SWF st ->
  ((forall d, remaining st p c d = 0) <->
   match st with Some g => find_alloc g p c = None | None => True end).
Proof.
  intros Hwf. destruct st as [g|]; simpl; [|tauto].
  destruct Hwf as [_ [_ Hok]]. destruct (find_alloc g p c) as [a|] eqn:E.
  - split; [|discriminate]. intros Hz. exfalso.
    destruct (find_alloc_ok _ _ _ _ Hok E) as [Hp Hn]. destruct (pos_nonempty_has _ Hp Hn) as [d Hd].
    specialize (Hz d). lia.
  - tauto.
Qed.

Theorem nothing_left_iff_deleted st :
  SWF st -> ((forall p c d, remaining st p c d = 0) <-> st = None).
Proof.
  intros Hwf. destruct st as [g|]; [|simpl; tauto]. split; [|discriminate]. intros Hz. exfalso.
  destruct Hwf as [Hne [_ Hok]]. destruct g as [|a g]; [congruence|].
  inversion Hok as [|? ? [Hp Hn] _]; subst. destruct (pos_nonempty_has _ Hp Hn) as [d Hd].
  specialize (Hz (a_port a) (a_chan a) d). simpl in Hz. rewrite key_eqb_own in Hz. lia.
Qed.

(** ** accepted => receiver allowed and memo allowed *)
Lemma is_allowed_spec r l : is_allowed r l = true -> l = [] \/ In r l.
Proof.
  destruct l as [|x l]; [auto|]. unfold is_allowed. intros He. right.
  apply existsb_exists in He as [y [Hin Hy]]. apply bytes_eqb_eq in Hy. now subst.
Qed.

Lemma step_accepted_allowed st r st' :
  step st r = (st', true) ->
  exists g a, st = Some g /\ find_alloc g (r_port r) (r_chan r) = Some a /\
              is_allowed (r_receiver r) (a_allow a) = true /\ memo_ok (r_memo r) (a_memos a) = true.
Proof.
  destruct st as [g|]; simpl; [|discriminate]. unfold accept.
  destruct (find_alloc g (r_port r) (r_chan r)) as [a|] eqn:Ef; [|discriminate].
  destruct (is_allowed (r_receiver r) (a_allow a)) eqn:Ea; cbn [negb]; [|discriminate].
  destruct (memo_ok (r_memo r) (a_memos a)) eqn:Em; cbn [negb]; [|discriminate].
  intros _. exists g, a. auto.
Qed.

Definition same_lists (a a0 : Alloc) : Prop := a_allow a = a_allow a0 /\ a_memos a = a_memos a0.

Lemma step_preserves_lists st r st' ok g' p c a' :
  SWF st -> step st r = (st', ok) -> st' = Some g' -> find_alloc g' p c = Some a' ->
  exists g a, st = Some g /\ find_alloc g p c = Some a /\ same_lists a' a.
Proof.
  intros Hwf Hstep -> Hf. destruct st as [g|]; simpl in Hstep; [|discriminate].
  destruct Hwf as [_ [Hnd _]].
  assert (Hsame : exists a, find_alloc g p c = Some a /\ same_lists a' a -> exists g0 a, Some g = Some g0 /\ find_alloc g0 p c = Some a /\ same_lists a' a)
    by (exists a'; intros [H1 H2]; eauto).
  clear Hsame.
  unfold accept in Hstep.
  destruct (find_alloc g (r_port r) (r_chan r)) as [a|] eqn:Ef.
  2:{ injection Hstep as <- <-. exists g, a'. repeat split; auto. }
  destruct (negb (is_allowed (r_receiver r) (a_allow a))).
  { injection Hstep as <- <-. exists g, a'. repeat split; auto. }
  destruct (negb (memo_ok (r_memo r) (a_memos a))).
  { injection Hstep as <- <-. exists g, a'. repeat split; auto. }
  destruct (amount_of (a_limit a) (r_denom r) =? sentinel).
  - destruct (if coins_is_zero (a_limit a) then _ else _); [discriminate|].
    injection Hstep as <- <-. exists g, a'. repeat split; auto.
  - destruct (safe_sub (a_limit a) (r_denom r) (r_amt r)) as [lft|].
    2:{ injection Hstep as <- <-. exists g, a'. repeat split; auto. }
    cbv zeta in Hstep.
    set (g1 := set_limit g (r_port r) (r_chan r) lft) in *.
    assert (H1 : forall a1, find_alloc g1 p c = Some a1 -> exists a0, find_alloc g p c = Some a0 /\ same_lists a1 a0).
    { intros a1 Hf1. destruct (same_key (r_port r) (r_chan r) p c) eqn:Ek.
      - apply same_key_eq in Ek as [-> ->]. unfold g1 in Hf1. rewrite (find_set_same _ _ _ lft _ Ef) in Hf1.
        injection Hf1 as <-. exists a. split; [exact Ef|split; reflexivity].
      - unfold g1 in Hf1. rewrite find_set_other in Hf1 by exact Ek. exists a1. split; [exact Hf1|split; reflexivity]. }
    destruct (coins_is_zero lft).
    + destruct (delete_alloc g1 (r_port r) (r_chan r)) as [|x g2] eqn:Ed; [discriminate|].
      injection Hstep as <- <-. rewrite <- Ed in Hf.
      destruct (same_key (r_port r) (r_chan r) p c) eqn:Ek.
      * apply same_key_eq in Ek as [-> ->]. rewrite find_delete_same in Hf by (apply nodup_set; exact Hnd). discriminate.
      * rewrite find_delete_other in Hf by exact Ek. destruct (H1 _ Hf) as [a0 [Ha0 Hs]]. exists g, a0. auto.
    + destruct g1 as [|x g1'] eqn:Eg1; [discriminate|]. injection Hstep as <- <-.
      destruct (H1 _ Hf) as [a0 [Ha0 Hs]]. exists g, a0. auto.
Qed.

Fixpoint accepted_reqs (st : State) (rs : list Req) : list Req :=
  match rs with
  | [] => []
  | r :: rs' => let '(st1, ok) := step st r in
                if ok then r :: accepted_reqs st1 rs' else accepted_reqs st1 rs'
  end.

Definition allowed_in (g0 : Grant) (r : Req) : Prop :=
  exists a0, find_alloc g0 (r_port r) (r_chan r) = Some a0 /\
             (a_allow a0 = [] \/ In (r_receiver r) (a_allow a0)) /\ memo_ok (r_memo r) (a_memos a0) = true.

Definition refines (st : State) (g0 : Grant) : Prop :=
  forall g p c a, st = Some g -> find_alloc g p c = Some a ->
                  exists a0, find_alloc g0 p c = Some a0 /\ same_lists a a0.

Theorem run_accepted_allowed rs : forall st g0,
  SWF st -> refines st g0 -> Forall (fun r => 0 <= r_amt r) rs -> Forall (allowed_in g0) (accepted_reqs st rs).
Proof.
  induction rs as [|r rs IH]; intros st g0 Hwf Href Hamt; [constructor|].
  inversion Hamt as [|? ? Hr Hrs]; subst. cbn [accepted_reqs].
  destruct (step st r) as [st1 ok] eqn:Es.
  destruct (step_spec st r st1 ok Hwf Hr Es) as [Hwf1 _].
  assert (Href1 : refines st1 g0).
  { intros g' p c a' -> Hf. destruct (step_preserves_lists st r (Some g') ok g' p c a' Hwf Es eq_refl Hf) as [g [a [-> [Ha [Hs1 Hs2]]]]].
    destruct (Href g p c a eq_refl Ha) as [a0 [Ha0 [Hs3 Hs4]]]. exists a0. split; [exact Ha0|split; congruence]. }
  destruct ok; [constructor|]; auto.
  destruct (step_accepted_allowed st r st1 Es) as [g [a [-> [Ha [Hal Hm]]]]].
  destruct (Href g _ _ a eq_refl Ha) as [a0 [Ha0 [Hs1 Hs2]]].
  exists a0. split; [exact Ha0|]. rewrite <- Hs1, <- Hs2. split; [now apply is_allowed_spec|exact Hm].
Qed.

Lemma refines_self g : refines (Some g) g.
Proof. intros g' p c a [= <-] Hf. exists a. split; [exact Hf|split; reflexivity]. Qed.

(** ** the sentinel amount is never accepted against a bounded limit *)
Theorem sentinel_rejected st r :
  SWF st -> remaining st (r_port r) (r_chan r) (r_denom r) < sentinel -> r_amt r = sentinel ->
  step st r = (st, false).
Proof.
  intros Hwf Hlt Hs. destruct st as [g|]; [|reflexivity]. simpl in *. unfold accept.
  destruct (find_alloc g (r_port r) (r_chan r)) as [a|] eqn:Ef; [|reflexivity].
  destruct (negb (is_allowed _ _)); [reflexivity|]. destruct (negb (memo_ok _ _)); [reflexivity|].
  replace (amount_of (a_limit a) (r_denom r) =? sentinel) with false by (symmetry; apply Z.eqb_neq; lia).
  unfold safe_sub. cbv zeta. replace (amount_of (a_limit a) (r_denom r) - r_amt r <? 0) with true; [reflexivity|].
  symmetry. apply Z.ltb_lt. lia.
Qed.

Corollary accepted_bounded_executes_request st r st' :
  SWF st -> step st r = (st', true) -> remaining st (r_port r) (r_chan r) (r_denom r) < sentinel ->
  forall spendable, executed_amount r spendable = r_amt r.
Proof.
  intros Hwf Hstep Hlt spendable. unfold executed_amount. destruct (Z.eqb_spec (r_amt r) sentinel) as [E|]; [|reflexivity].
  rewrite (sentinel_rejected st r Hwf Hlt E) in Hstep. discriminate.
Qed.

(** ** ValidateBasic establishes the invariant *)
Lemma mem_true x l : mem x l = true <-> In x l.
Proof.
  induction l as [|y l IH]; simpl; [split; [discriminate|tauto]|].
  rewrite orb_true_iff, bytes_eqb_eq, IH. split; intros [H|H]; auto.
Qed.

Lemma coins_valid_spec l :
  coins_valid l = true -> pos_coins l /\ l <> [] /\ forall d, amount_of l d <= sentinel.
Proof.
  unfold coins_valid. intros Hv.
  assert (Hn : l <> []) by (destruct l; [discriminate|discriminate]).
  assert (Hall : forallb (fun kv => sdk_valid_denom (fst kv) && (0 <? snd kv) && (snd kv <=? sentinel)) l = true).
  { destruct l; [discriminate|]. apply andb_true_iff in Hv as [Hv _]. exact Hv. }
  clear Hv. split; [|split; [exact Hn|]].
  - unfold pos_coins. apply Forall_forall. intros kv Hin. rewrite forallb_forall in Hall. apply Hall in Hin.
    apply andb_true_iff in Hin as [Hin _]. apply andb_true_iff in Hin as [_ Hp]. now apply Z.ltb_lt in Hp.
  - intros d. clear Hn. induction l as [|[k v] l IHl]; simpl; [unfold sentinel; lia|].
    simpl in Hall. apply andb_true_iff in Hall as [Hkv Hall]. apply andb_true_iff in Hkv as [_ Hs]. apply Z.leb_le in Hs.
    destruct (bytes_eqb k d); auto.
Qed.

Lemma validate_allocs_spec g : forall seen,
  validate_allocs g seen = true ->
  nodup_keys g /\ Forall alloc_ok g /\ (forall c p, In c seen -> find_alloc g p c = None) /\
  Forall (fun a => forall d, amount_of (a_limit a) d <= sentinel) g.
Proof.
  induction g as [|a g IH]; intros seen Hv; simpl in *; [repeat split; auto|].
  repeat (apply andb_true_iff in Hv as [Hv ?]).
  destruct (IH _ H) as [Hnd [Hok [Hseen Hle]]].
  pose proof (coins_valid_spec _ H3) as Hcv.
  destruct Hcv as [Hp [Hn Hs]].
  split; [split; [apply Hseen; now left|exact Hnd]|].
  split; [constructor; [split; assumption|exact Hok]|].
  split; [|constructor; assumption].
  intros c p Hin. unfold key_eqb.
  destruct (bytes_eqb (a_chan a) c) eqn:E.
  - apply bytes_eqb_eq in E. subst c. apply negb_true_iff in Hv. apply mem_true in Hin. congruence.
  - simpl. apply Hseen. now right.
Qed.

Lemma find_alloc_in g p c a : find_alloc g p c = Some a -> In a g.
Proof.
  induction g as [|y g IH]; simpl; [discriminate|].
  destruct (key_eqb y p c); [intros [= <-]; now left|right; auto].
Qed.

Theorem validate_wf g : grant_validate g = true -> WF g /\ forall p c d, remaining (Some g) p c d <= sentinel.
Proof.
  unfold grant_validate. intros Hv.
  assert (Hne : g <> []) by (destruct g; [discriminate|discriminate]).
  assert (Hv' : validate_allocs g [] = true) by (destruct g; [discriminate|exact Hv]).
  destruct (validate_allocs_spec _ _ Hv') as [Hnd [Hok [_ Hle]]].
  split; [split; [exact Hne|split; assumption]|].
  intros p c d. simpl. destruct (find_alloc g p c) as [x|] eqn:Ef.
  - rewrite Forall_forall in Hle. apply Hle. eapply find_alloc_in; exact Ef.
  - unfold sentinel. lia.
Qed.

(** ** the statements of C36 for a grant accepted by ValidateBasic *)
Theorem validated_run g0 rs :
  grant_validate g0 = true -> Forall (fun r => 0 <= r_amt r) rs ->
  SWF (fst (run (Some g0) rs)) /\
  forall p c d, remaining (Some g0) p c d <> sentinel ->
    accepted_total (Some g0) rs p c d <= remaining (Some g0) p c d /\
    remaining (fst (run (Some g0) rs)) p c d = remaining (Some g0) p c d - accepted_total (Some g0) rs p c d /\
    0 <= remaining (fst (run (Some g0) rs)) p c d.
Proof.
  intros Hv Hamt. destruct (validate_wf g0 Hv) as [Hwf Hle].
  destruct (run_accounting rs (Some g0) Hwf Hamt) as [Hwf' Hacc]. split; [exact Hwf'|].
  intros p c d Hne. assert (Hlt : remaining (Some g0) p c d < sentinel) by (specialize (Hle p c d); lia).
  destruct (Hacc p c d Hlt) as [H1 H2]. repeat split; lia.
Qed.

Theorem validated_accepted_allowed g0 rs :
  grant_validate g0 = true -> Forall (fun r => 0 <= r_amt r) rs ->
  Forall (allowed_in g0) (accepted_reqs (Some g0) rs).
Proof.
  intros Hv Hamt. apply run_accepted_allowed; [exact (proj1 (validate_wf g0 Hv))|apply refines_self|exact Hamt].
Qed.

(** the sentinel amount at any point of a run: rejected unless the limit it is charged to is the sentinel *)
Theorem sentinel_rejected_in_run g0 rs r :
  grant_validate g0 = true -> Forall (fun r => 0 <= r_amt r) rs ->
  let st := fst (run (Some g0) rs) in
  r_amt r = sentinel -> remaining st (r_port r) (r_chan r) (r_denom r) < sentinel ->
  step st r = (st, false).
Proof.
  intros Hv Hamt st Hs Hlt. apply sentinel_rejected; auto.
  exact (proj1 (run_accounting rs (Some g0) (proj1 (validate_wf g0 Hv)) Hamt)).
Qed.

Definition ex_grant : Grant :=
  [mkAlloc (B "transfer") (B "channel-0") [(B "stake", 100); (B "uatom", sentinel)] [B "addr1"] [];
   mkAlloc (B "transfer") (B "channel-1") [(B "stake", 5)] [] [B "*"]].
Definition ex_reqs : list Req :=
  [mkReq (B "transfer") (B "channel-0") (B "stake") 60 (B "addr1") (B "");
   mkReq (B "transfer") (B "channel-0") (B "stake") 60 (B "addr1") (B "");          (* over the limit *)
   mkReq (B "transfer") (B "channel-0") (B "stake") 40 (B "addr2") (B "");          (* receiver not allowed *)
   mkReq (B "transfer") (B "channel-0") (B "uatom") sentinel (B "addr1") (B " ");   (* unbounded denom *)
   mkReq (B "transfer") (B "channel-0") (B "stake") sentinel (B "addr1") (B "");    (* sentinel vs bounded *)
   mkReq (B "transfer") (B "channel-1") (B "stake") 5 (B "anyone") (B "memo");      (* exhausts allocation 2 *)
   mkReq (B "transfer") (B "channel-1") (B "stake") 1 (B "anyone") (B "")].
Lemma ex_run :
  grant_validate ex_grant = true /\
  snd (run (Some ex_grant) ex_reqs) = [true; false; false; true; false; true; false] /\
  fst (run (Some ex_grant) ex_reqs) =
    Some [mkAlloc (B "transfer") (B "channel-0") [(B "stake", 40); (B "uatom", sentinel)] [B "addr1"] []] /\
  accepted_total (Some ex_grant) ex_reqs (B "transfer") (B "channel-0") (B "stake") = 60.
Proof. vm_compute. repeat split. Qed.
