(** ICS-20 denominations: modules/apps/transfer/types/denom.go, hop.go, keys.go (GetEscrowAddress),
    keeper/keeper.go (SetDenom/GetDenom/HasDenom), and the denomination decisions of
    keeper/relay.go (SendTransfer / OnRecvPacket), keeper/msg_server.go (TokenFromCoin),
    modules/apps/rate-limiting/keeper/packet.go (ParseDenomFromSendPacket / ParseDenomFromRecvPacket),
    modules/apps/rate-limiting/v2/ibc_middleware.go (v2ToV1Packet re-encoding). *)
From IBC Require Import Lib.Bytes Lib.Dec Lib.Sha256 Denom.Ident.
Local Open Scope N_scope.

Record Hop := mkHop { h_port : bytes; h_chan : bytes }.
Record Denom := mkDenom { d_base : bytes; d_trace : list Hop }.

Definition hop_eqb (a b : Hop) : bool := bytes_eqb (h_port a) (h_port b) && bytes_eqb (h_chan a) (h_chan b).
Fixpoint trace_eqb (a b : list Hop) : bool :=
  match a, b with
  | [], [] => true
  | x :: a', y :: b' => hop_eqb x y && trace_eqb a' b'
  | _, _ => false
  end.
Definition denom_eqb (a b : Denom) : bool := bytes_eqb (d_base a) (d_base b) && trace_eqb (d_trace a) (d_trace b).

(** Hop.String: "%s/%s" *)
Definition hop_string (h : Hop) : bytes := h_port h ++ slash :: h_chan h.

(** Hop.Validate: port validator then channel validator *)
Definition hop_validate (h : Hop) : bool :=
  port_identifier_validator (h_port h) && channel_identifier_validator (h_chan h).

(** Denom.Validate: base not blank, every hop valid *)
Definition denom_validate (d : Denom) : bool :=
  if is_blank (d_base d) then false else forallb hop_validate (d_trace d).

Definition is_native (d : Denom) : bool := match d_trace d with [] => true | _ => false end.

(** Denom.Path: base if native, else every hop followed by '/', then the base *)
Fixpoint trace_prefix (t : list Hop) : bytes :=
  match t with
  | [] => []
  | h :: t' => hop_string h ++ slash :: trace_prefix t'
  end.
Definition path (d : Denom) : bytes :=
  if is_native d then d_base d else trace_prefix (d_trace d) ++ d_base d.

(** Denom.HasPrefix *)
Definition has_prefix (d : Denom) (port chan : bytes) : bool :=
  match d_trace d with
  | [] => false
  | h :: _ => bytes_eqb (h_port h) port && bytes_eqb (h_chan h) chan
  end.

(** outcomes of Go code that indexes slices *)
Inductive res (A : Type) := Ok (a : A) | Panic.
Arguments Ok {A} _.
Arguments Panic {A}.

(** ExtractDenomFromPath, loop body.  [segs] is denomSplit[i:], [gt2] is [length > 2].
    [p :: c :: rest]  means  i < length-1;  the hop test is on denomSplit[i+1] only (the port segment is not
    examined).  Falling off the end (i = length) leaves baseDenomSlice nil, i.e. an empty base. *)
Fixpoint extract_loop (gt2 : bool) (segs : list bytes) : list Hop * list bytes :=
  match segs with
  | p :: c :: rest =>
      if gt2 && is_hop_id c
      then let '(tr, bs) := extract_loop gt2 rest in (mkHop p c :: tr, bs)
      else ([], segs)
  | _ => ([], segs)
  end.

Definition extract_res (s : bytes) : res Denom :=
  match split_on slash s with
  | [] => Panic                                   (* denomSplit[0] on an empty slice *)
  | (s0 :: _) as segs =>
      if bytes_eqb s0 s then Ok (mkDenom s [])
      else let '(tr, bs) := extract_loop (2 <? N.of_nat (length segs)) segs in
           Ok (mkDenom (join_with slash bs) tr)
  end.

(** [extract_res] never panics (DenomFacts.extract_total); [extract] is the value it returns *)
Definition extract (s : bytes) : Denom :=
  match extract_res s with Ok d => d | Panic => mkDenom s [] end.

(** ** hashes, parametric in the hash function so that statements can quantify over it *)
Section WithHash.
  Variable H : bytes -> bytes.

  (** Denom.Hash = H(Path) *)
  Definition hash_with (d : Denom) : bytes := H (path d).

  (** Denom.IBCDenom: base if native, else "ibc/" ++ upper-case hex of the hash *)
  Definition ibc_denom_with (d : Denom) : bytes :=
    if is_native d then d_base d else B "ibc/" ++ hex_upper (hash_with d).

  (** GetEscrowAddress: first 20 bytes of H("ics20-1" ++ 0x00 ++ port ++ "/" ++ channel) *)
  Definition escrow_preimage (port chan : bytes) : bytes :=
    B "ics20-1" ++ zero :: (port ++ slash :: chan).
  Definition escrow_address_with (port chan : bytes) : bytes := firstn 20 (H (escrow_preimage port chan)).

  (** keeper.SetDenom: prefix store DenomKey = 0x03, key = denom.Hash() *)
  Definition denom_store_key_with (d : Denom) : bytes := ascii_of_N 3 :: hash_with d.

  (** the keeper's denom store as an association list hash -> Denom (most recent first) *)
  Definition DenomStore := list (bytes * Denom).
  Definition set_denom_with (st : DenomStore) (d : Denom) : DenomStore := (hash_with d, d) :: st.
  Fixpoint get_denom (st : DenomStore) (h : bytes) : option Denom :=
    match st with
    | [] => None
    | (k, d) :: st' => if bytes_eqb k h then Some d else get_denom st' h
    end.
  Definition has_denom (st : DenomStore) (h : bytes) : bool :=
    match get_denom st h with Some _ => true | None => false end.

  (** *** rate limiting: the denomination a packet is charged to *)
  Definition ibc_slash : bytes := B "ibc/".

  (** ParseDenomFromSendPacket(packet.Denom) *)
  Definition rl_send_denom_with (pd : bytes) : bytes :=
    if is_prefix ibc_slash pd then pd else ibc_denom_with (extract pd).

  (** ParseDenomFromRecvPacket(packet, data): string prefix test on source port/channel *)
  Definition rl_recv_denom_with (src_port src_chan dst_port dst_chan pd : bytes) : bytes :=
    let source_prefix := hop_string (mkHop src_port src_chan) ++ [slash] in
    match strip_prefix source_prefix pd with
    | Some unprefixed => ibc_denom_with (extract unprefixed)
    | None => ibc_denom_with (extract (hop_string (mkHop dst_port dst_chan) ++ slash :: pd))
    end.

  (** *** ICS-20: the bank denomination actually moved *)

  (** SendTransfer(port, channel, token): coin = token.ToCoin() = IBCDenom; burned when the token has the
      (port, channel) prefix, escrowed otherwise — the same coin denom in both branches. *)
  Inductive SendAction := SBurn (coin : bytes) | SEscrow (coin : bytes).
  Definition ics20_send_action (token : Denom) (port chan : bytes) : SendAction :=
    if has_prefix token port chan then SBurn (ibc_denom_with token) else SEscrow (ibc_denom_with token).
  Definition send_action_denom (a : SendAction) : bytes := match a with SBurn c | SEscrow c => c end.

  (** OnRecvPacket(data, srcPort, srcChan, dstPort, dstChan) after PacketDataV1ToV2: data.Token.Denom =
      extract(packet denom), rejected unless Denom.Validate passes; unescrow of the un-prefixed denom when the
      parsed trace starts with the source hop, else mint of the voucher with the destination hop prepended. *)
  Inductive RecvAction := RErr | RPanic | RUnescrow (coin : bytes) | RMint (voucher : Denom).
  Definition ics20_recv_action (src_port src_chan dst_port dst_chan pd : bytes) : RecvAction :=
    let d := extract pd in
    if negb (denom_validate d) then RErr
    else if has_prefix d src_port src_chan
         then let coin := ibc_denom_with (mkDenom (d_base d) (tl (d_trace d))) in   (* Trace[1:], guarded by HasPrefix *)
              (* sdk.NewCoin(denom, amount) panics when the denomination is not a valid SDK coin denom *)
              if sdk_valid_denom coin then RUnescrow coin else RPanic
         else RMint (mkDenom (d_base d) (mkHop dst_port dst_chan :: d_trace d)).
  Definition recv_action_denom (a : RecvAction) : option bytes :=
    match a with RErr | RPanic => None | RUnescrow c => Some c | RMint v => Some (ibc_denom_with v) end.
End WithHash.

(** the rate-limiting v2 middleware re-encodes: UnmarshalPacketData (ValidateBasic, then
    ExtractDenomFromPath) and Denom.Path() of the result; None = conversion error *)
Definition v2_reencode_denom (pd : bytes) : option bytes :=
  let d := extract pd in
  if denom_validate d then Some (path d) else None.

(** ** instances with SHA-256 *)
Definition denom_hash := hash_with sha256.
Definition ibc_denom := ibc_denom_with sha256.
Definition escrow_address := escrow_address_with sha256.
Definition denom_store_key := denom_store_key_with sha256.
Definition set_denom := set_denom_with sha256.
Definition rl_send_denom := rl_send_denom_with sha256.
Definition rl_recv_denom := rl_recv_denom_with sha256.
Definition ics20_send := ics20_send_action sha256.
Definition ics20_recv := ics20_recv_action sha256.

(** ** denom_safe: the path of the denomination parses back to the same (trace, base) *)
Definition denom_safe (d : Denom) : bool := denom_eqb (extract (path d)) d.
(** a base denomination is safe behind a hop when the one-hop voucher is *)
Definition base_safe (hop : Hop) (base : bytes) : bool := denom_safe (mkDenom base [hop]).
