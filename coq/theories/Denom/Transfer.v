(** A two-ended model of an ICS-20 v1 transfer, just detailed enough for C33 (vouchers can return):
    keeper/msg_server.go Transfer (TokenFromCoin, packet data ValidateBasic), keeper/relay.go SendTransfer,
    OnRecvPacket, refundPacketTokens, types/msgs.go MsgTransfer.ValidateBasic (validateIBCDenom), with the
    bank reduced to balances by (account, denom).  The denomination decisions are the functions of
    Denom/Denom.v ([ics20_send], [ics20_recv]) — the same ones C34 and C42 are about.

    Not modelled (assumed to succeed; none depends on the denomination): channel OPEN and capability checks,
    timeouts, params SendEnabled/ReceiveEnabled, blocked addresses, bech32 decoding of sender/receiver,
    rate limits (none set), total-escrow bookkeeping, denom metadata, events. Distinct (port, channel) pairs
    are distinct escrow accounts (C34 escrow injectivity). *)
From IBC Require Import Lib.Bytes Lib.Dec Lib.Sha256 Denom.Ident Denom.Denom.
Local Open Scope Z_scope.

Inductive Acct := User (n : N) | EscrowOf (port chan : bytes).

Definition acct_eqb (a b : Acct) : bool :=
  match a, b with
  | User n, User m => N.eqb n m
  | EscrowOf p c, EscrowOf p' c' => bytes_eqb p p' && bytes_eqb c c'
  | _, _ => false
  end.

(** balances: association list, most recent first; absent = 0 *)
Definition Bank := list ((Acct * bytes) * Z).

Fixpoint bal (b : Bank) (a : Acct) (d : bytes) : Z :=
  match b with
  | [] => 0
  | ((a', d'), v) :: b' => if acct_eqb a a' && bytes_eqb d d' then v else bal b' a d
  end.
Definition set_bal (b : Bank) (a : Acct) (d : bytes) (v : Z) : Bank := ((a, d), v) :: b.

(** bank.SendCoins: fails on insufficient funds *)
Definition send_coins (b : Bank) (from to : Acct) (d : bytes) (amt : Z) : option Bank :=
  if bal b from d <? amt then None
  else let b1 := set_bal b from d (bal b from d - amt) in
       Some (set_bal b1 to d (bal b1 to d + amt)).
(** MintCoins to the module account followed by SendCoins module -> account *)
Definition mint_to (b : Bank) (to : Acct) (d : bytes) (amt : Z) : Bank := set_bal b to d (bal b to d + amt).
(** SendCoinsFromAccountToModule followed by BurnCoins *)
Definition burn_from (b : Bank) (from : Acct) (d : bytes) (amt : Z) : option Bank :=
  if bal b from d <? amt then None else Some (set_bal b from d (bal b from d - amt)).

Record Chain := mkChain { c_bank : Bank; c_denoms : DenomStore }.

(** encoding/hex.DecodeString (both letter cases); None on odd length or a non-hex character *)
Fixpoint hex_decode (s : bytes) : option bytes :=
  match s with
  | [] => Some []
  | a :: b :: s' =>
      match hex_digit_val a, hex_digit_val b, hex_decode s' with
      | Some x, Some y, Some r => Some (ascii_of_N (16 * x + y) :: r)
      | _, _, _ => None
      end
  | _ => None
  end.

(** types.ParseHexHash: hex decode, then cmttypes.ValidateHash (empty or exactly 32 bytes) *)
Definition parse_hex_hash (s : bytes) : option bytes :=
  match hex_decode s with
  | Some h => if (length h =? 0)%nat || (length h =? 32)%nat then Some h else None
  | None => None
  end.

(** types.validateIBCDenom (called by MsgTransfer.ValidateBasic on the coin denom) *)
Definition validate_ibc_denom (coin : bytes) : bool :=
  if negb (sdk_valid_denom coin) then false
  else if bytes_eqb coin (B "ibc") then false
  else match strip_prefix (B "ibc/") coin with
       | Some h => if is_blank h then false
                   else match parse_hex_hash h with Some _ => true | None => false end
       | None => true
       end.

(** keeper.TokenFromCoin *)
Definition token_from_coin (c : Chain) (coin : bytes) : option Denom :=
  match strip_prefix (B "ibc/") coin with
  | None => Some (mkDenom coin [])
  | Some hexhash =>
      match parse_hex_hash hexhash with
      | None => None
      | Some h => get_denom (c_denoms c) h
      end
  end.

Definition transfer_port : bytes := B "transfer".

(** MsgTransfer over an existing v1 channel [chan]: result = new state and the packet denomination *)
Definition msg_transfer (c : Chain) (chan : bytes) (sender : Acct) (coin : bytes) (amt : Z) : option (Chain * bytes) :=
  if negb (validate_ibc_denom coin) || (amt <=? 0) then None            (* MsgTransfer.ValidateBasic *)
  else match token_from_coin c coin with
       | None => None
       | Some token =>
           let pd := path token in
           if negb (denom_validate (extract pd)) then None             (* packetData.ValidateBasic *)
           else
             match ics20_send token transfer_port chan with             (* SendTransfer *)
             | SBurn d =>
                 match burn_from (c_bank c) sender d amt with
                 | Some b' => Some (mkChain b' (c_denoms c), pd)
                 | None => None
                 end
             | SEscrow d =>
                 match send_coins (c_bank c) sender (EscrowOf transfer_port chan) d amt with
                 | Some b' => Some (mkChain b' (c_denoms c), pd)
                 | None => None
                 end
             end
       end.

(** OnRecvPacket: (state, acknowledgement is a success).  On an error acknowledgement the state is unchanged
    (cache context of the receive handler). *)
Definition on_recv (c : Chain) (sp sc dp dc pd : bytes) (amt : Z) (receiver : Acct) : Chain * bool :=
  if amt <=? 0 then (c, false)
  else match ics20_recv sp sc dp dc pd with
       | RErr => (c, false)
       | RPanic => (c, false)       (* sdk.NewCoin panic: the transaction fails, state unchanged; unreachable from
                                       round trips of SDK-valid base denominations (TransferFacts) *)
       | RUnescrow d =>
           match send_coins (c_bank c) (EscrowOf dp dc) receiver d amt with
           | Some b' => (mkChain b' (c_denoms c), true)
           | None => (c, false)
           end
       | RMint v =>
           let ds := if has_denom (c_denoms c) (denom_hash v) then c_denoms c else set_denom (c_denoms c) v in
           (mkChain (mint_to (c_bank c) receiver (ibc_denom v) amt) ds, true)
       end.

(** refundPacketTokens (error acknowledgement or timeout on the sending chain); None = the handler fails *)
Definition refund (c : Chain) (sp sc pd : bytes) (amt : Z) (sender : Acct) : option Chain :=
  let token := extract pd in
  if negb (denom_validate token) then None
  else let d := ibc_denom token in
       if has_prefix token sp sc then Some (mkChain (mint_to (c_bank c) sender d amt) (c_denoms c))
       else match send_coins (c_bank c) (EscrowOf sp sc) sender d amt with
            | Some b' => Some (mkChain b' (c_denoms c))
            | None => None
            end.

(** ** the round trip A -> B -> A over (transfer, ca) <-> (transfer, cb) *)
Definition userA : Acct := User 1.
Definition userB : Acct := User 2.

(** the denomination B's account gained by a receive: the minted voucher or the unescrowed coin *)
Definition recv_coin (sp sc dp dc pd : bytes) : option bytes :=
  recv_action_denom sha256 (ics20_recv sp sc dp dc pd).

Record Trip := mkTrip {
  t_send1 : bool; t_recv1 : bool; t_voucher : bytes;
  t_send2 : bool; t_recv2 : bool;
  t_a_user : Z;      (* A: sender's balance of the base denomination, relative to before the trip *)
  t_a_escrow : Z;    (* A: escrow(transfer, ca) balance of the base denomination, relative *)
  t_b_user : Z       (* B: receiver's balance of the voucher, relative *)
}.

(** funds: the sender's balance of [base] on A; amt out, back <= amt returned *)
Definition roundtrip (ca cb base : bytes) (funds amt back : Z) : Trip :=
  let A0 := mkChain (set_bal [] userA base funds) [] in
  let B0 := mkChain [] [] in
  let esc := EscrowOf transfer_port ca in
  let fin (s1 r1 : bool) (v : bytes) (s2 r2 : bool) (A B : Chain) :=
      mkTrip s1 r1 v s2 r2 (bal (c_bank A) userA base - funds) (bal (c_bank A) esc base) (bal (c_bank B) userB v) in
  match msg_transfer A0 ca userA base amt with
  | None => fin false false [] false false A0 B0
  | Some (A1, pd1) =>
      match on_recv B0 transfer_port ca transfer_port cb pd1 amt userB with
      | (_, false) =>
          (* error acknowledgement: A refunds; the trip ends here *)
          let A2 := match refund A1 transfer_port ca pd1 amt userA with Some a => a | None => A1 end in
          fin true false [] false false A2 B0
      | (B1, true) =>
          let v := match recv_coin transfer_port ca transfer_port cb pd1 with Some d => d | None => [] end in
          match msg_transfer B1 cb userB v back with
          | None => fin true true v false false A1 B1
          | Some (B2, pd2) =>
              match on_recv A1 transfer_port cb transfer_port ca pd2 back userA with
              | (A2, true) => fin true true v true true A2 B2
              | (_, false) =>
                  let B3 := match refund B2 transfer_port cb pd2 back userB with Some b => b | None => B2 end in
                  fin true true v true false A1 B3
              end
          end
      end
  end.
