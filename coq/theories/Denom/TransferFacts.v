(** Proofs about the round-trip model Denom/Transfer.v (C33). *)
From IBC Require Import Lib.Bytes Lib.BytesFacts Lib.Dec Lib.Sha256 Denom.Ident Denom.Denom Denom.DenomFacts Denom.Transfer.
Local Open Scope Z_scope.

(** ** the Gallina SHA-256 returns 32 bytes *)
Lemma round_len st kw : length st = 8%nat -> length (round st kw) = 8%nat.
Proof. do 9 (destruct st as [|? st]; try discriminate). reflexivity. Qed.

Lemma fold_round_len l st : length st = 8%nat -> length (fold_left round l st) = 8%nat.
Proof. revert st; induction l as [|kw l IH]; intros st Hs; simpl; [exact Hs|]. apply IH. now apply round_len. Qed.

Lemma compress_len h blk : length h = 8%nat -> length (compress h blk) = 8%nat.
Proof.
  intros Hh. unfold compress. rewrite map_length, combine_length, fold_round_len by exact Hh. rewrite Hh. reflexivity.
Qed.

Lemma fold_compress_len l h : length h = 8%nat -> length (fold_left compress l h) = 8%nat.
Proof. revert h; induction l as [|b l IH]; intros h Hh; simpl; [exact Hh|]. apply IH. now apply compress_len. Qed.

Lemma flat_map_be4_len l : length (flat_map (be_n 4) l) = (4 * length l)%nat.
Proof. induction l as [|x l IH]; [reflexivity|]. cbn [flat_map]. rewrite app_length, IH. simpl. lia. Qed.

Lemma sha256_len m : length (sha256 m) = 32%nat.
Proof.
  unfold sha256, sha256_N. rewrite map_length, flat_map_be4_len, fold_compress_len; reflexivity.
Qed.

(** ** hex: DecodeString (EncodeToString upper) = id, and the characters are denom characters *)
Lemma hex_byte_roundtrip c :
  let n := N_of_ascii c in
  hex_digit_val (hex_char_upper (n / 16)) = Some (n / 16)%N /\
  hex_digit_val (hex_char_upper (n mod 16)) = Some (n mod 16)%N /\
  ascii_of_N (16 * (n / 16) + n mod 16) = c /\
  is_denom_char (hex_char_upper (n / 16)) = true /\ is_denom_char (hex_char_upper (n mod 16)) = true.
Proof. destruct c as [[] [] [] [] [] [] [] []]; vm_compute; repeat split. Qed.

Lemma hex_decode_upper h : hex_decode (hex_upper h) = Some h.
Proof.
  induction h as [|c h IH]; [reflexivity|].
  destruct (hex_byte_roundtrip c) as [H1 [H2 [H3 _]]].
  cbn [hex_upper hex_decode]. cbv zeta in H1, H2, H3. rewrite H1, H2, IH, H3. reflexivity.
Qed.

Lemma hex_upper_denom_chars h : forallb is_denom_char (hex_upper h) = true.
Proof.
  induction h as [|c h IH]; [reflexivity|].
  destruct (hex_byte_roundtrip c) as [_ [_ [_ [H4 H5]]]].
  cbn [hex_upper forallb]. cbv zeta in H4, H5. now rewrite H4, H5, IH.
Qed.

Lemma hex_upper_len h : length (hex_upper h) = (2 * length h)%nat.
Proof. induction h as [|c h IH]; [reflexivity|]. cbn [hex_upper length]. rewrite IH. lia. Qed.

Lemma hex_upper_not_blank h : h <> [] -> is_blank (hex_upper h) = false.
Proof.
  destruct h as [|c h]; [congruence|]. intros _. cbn [hex_upper].
  generalize (hex_upper h). intros r.
  destruct c as [[] [] [] [] [] [] [] []]; destruct r; reflexivity.
Qed.

Lemma alpha_not_blank c r : is_alpha c = true -> is_blank (c :: r) = false.
Proof.
  intros Ha. destruct c as [[] [] [] [] [] [] [] []]; try discriminate Ha; destruct r as [|c2 [|c3 r]]; reflexivity.
Qed.

(** a voucher coin 'ibc/HEX(sha256 x)' passes validateIBCDenom and parses back to the hash *)
Lemma voucher_coin_valid x :
  validate_ibc_denom (B "ibc/" ++ hex_upper (sha256 x)) = true /\
  strip_prefix (B "ibc/") (B "ibc/" ++ hex_upper (sha256 x)) = Some (hex_upper (sha256 x)) /\
  parse_hex_hash (hex_upper (sha256 x)) = Some (sha256 x).
Proof.
  assert (Hp : parse_hex_hash (hex_upper (sha256 x)) = Some (sha256 x)).
  { unfold parse_hex_hash. rewrite hex_decode_upper, sha256_len. reflexivity. }
  assert (Hs : strip_prefix (B "ibc/") (B "ibc/" ++ hex_upper (sha256 x)) = Some (hex_upper (sha256 x)))
    by apply strip_prefix_app.
  split; [|split; assumption].
  unfold validate_ibc_denom. rewrite Hs, Hp.
  assert (Hne : sha256 x <> []) by (intros E; pose proof (sha256_len x) as L; rewrite E in L; discriminate).
  rewrite (hex_upper_not_blank _ Hne).
  assert (Hv : sdk_valid_denom (B "ibc/" ++ hex_upper (sha256 x)) = true).
  { change (B "ibc/" ++ hex_upper (sha256 x)) with ("i"%char :: ("b"%char :: "c"%char :: "/"%char :: hex_upper (sha256 x))).
    unfold sdk_valid_denom. cbn [forallb length]. rewrite hex_upper_denom_chars, hex_upper_len, sha256_len. reflexivity. }
  rewrite Hv. cbn [negb].
  destruct (bytes_eqb _ (B "ibc")) eqn:E; [|reflexivity].
  apply bytes_eqb_eq in E. discriminate E.
Qed.

(** ** shape-safe bases parse as native *)
Lemma extract_shape_safe b : base_shape_safe b = true -> extract b = mkDenom b [].
Proof.
  intros Hs. destruct (extract_unfold b) as [s0 [r [Es [[_ E]|[_ [tr [bs [El E]]]]]]]]; [exact E|].
  rewrite E. unfold base_shape_safe in Hs. pose proof (join_split slash b) as Hj.
  rewrite Es in *. destruct r as [|y l].
  - simpl in El. injection El as <- <-. simpl in Hj. now rewrite Hj.
  - cbn [extract_loop] in El. apply negb_true_iff in Hs. rewrite Hs, andb_false_r in El.
    injection El as <- <-. now rewrite Hj.
Qed.

Definition the_voucher (cb base : bytes) : Denom := mkDenom base [mkHop transfer_port cb].

(** hypotheses on the channel identifier of the receiving chain (met by every ibc-go channel-N) *)
Definition good_chan (c : bytes) : Prop :=
  ~ In slash c /\ is_hop_id c = true /\ channel_identifier_validator c = true.

Lemma transfer_no_slash : ~ In slash transfer_port.
Proof. apply (validator_no_slash _ 2%N 128%N). reflexivity. Qed.

Lemma voucher_parses cb base :
  good_chan cb -> base_shape_safe base = true -> extract (path (the_voucher cb base)) = the_voucher cb base.
Proof.
  intros [Hns [Hid _]] Hs. apply denom_safe_eq.
  apply (base_shape_safe_sound (mkHop transfer_port cb) base); auto using transfer_no_slash.
Qed.

Lemma voucher_valid cb base :
  good_chan cb -> is_blank base = false -> denom_validate (the_voucher cb base) = true.
Proof.
  intros [_ [_ Hv]] Hb. unfold denom_validate, the_voucher; cbn [d_base d_trace forallb]. rewrite Hb.
  unfold hop_validate; cbn [h_port h_chan]. rewrite Hv. reflexivity.
Qed.

Ltac bank_simpl :=
  unfold send_coins, burn_from, mint_to, set_bal, userA, userB;
  repeat (cbn [c_bank c_denoms bal acct_eqb N.eqb Pos.eqb andb]; rewrite ?bytes_eqb_refl).

(** ** C33: the closed form of the round trip for safe bases *)
Theorem roundtrip_safe ca cb base funds amt back :
  good_chan cb ->
  base_shape_safe base = true ->
  validate_ibc_denom base = true -> strip_prefix (B "ibc/") base = None ->   (* accepted by the origin chain *)
  0 < back <= amt -> amt <= funds ->
  roundtrip ca cb base funds amt back =
    mkTrip true true (ibc_denom (the_voucher cb base)) true true (back - amt) (amt - back) (amt - back).
Proof.
  intros Hcb Hs Hvd Hnp [Hb0 Hba] Haf.
  assert (Hsdk : sdk_valid_denom base = true).
  { unfold validate_ibc_denom in Hvd. destruct (sdk_valid_denom base); [reflexivity|discriminate]. }
  assert (Hnb : is_blank base = false).
  { destruct base as [|c r]; [discriminate Hsdk|]. unfold sdk_valid_denom in Hsdk.
    apply andb_true_iff in Hsdk as [Hsdk _]. apply andb_true_iff in Hsdk as [Hsdk _].
    apply andb_true_iff in Hsdk as [Ha _].
    now apply alpha_not_blank. }
  pose proof (extract_shape_safe base Hs) as Hex.
  set (V := the_voucher cb base).
  assert (HVt : d_trace V <> []) by discriminate.
  pose proof (voucher_parses cb base Hcb Hs) as HVp. fold V in HVp.
  pose proof (voucher_valid cb base Hcb Hnb) as HVv. fold V in HVv.
  assert (Hv : ibc_denom V = B "ibc/" ++ hex_upper (sha256 (path V))) by (apply ibc_denom_traced; exact HVt).
  destruct (voucher_coin_valid (path V)) as [Hc1 [Hc2 Hc3]].
  unfold roundtrip.
  (* leg 1, send on A *)
  assert (L1 : msg_transfer (mkChain (set_bal [] userA base funds) []) ca userA base amt =
               Some (mkChain (set_bal (set_bal (set_bal [] userA base funds) userA base (funds - amt))
                                      (EscrowOf transfer_port ca) base amt) [], base)).
  { unfold msg_transfer. rewrite Hvd. replace (amt <=? 0) with false by (symmetry; apply Z.leb_gt; lia).
    cbn [negb orb]. unfold token_from_coin. rewrite Hnp.
    change (path (mkDenom base [])) with base. rewrite Hex.
    unfold denom_validate at 1; cbn [d_base d_trace forallb]. rewrite Hnb. cbn [negb].
    unfold ics20_send, ics20_send_action, has_prefix; cbn [d_trace].
    change (ibc_denom_with sha256 (mkDenom base [])) with base.
    bank_simpl.
    replace (funds <? amt) with false by (symmetry; apply Z.ltb_ge; lia).
    bank_simpl. reflexivity. }
  rewrite L1. clear L1. cbv beta iota.
  (* leg 1, receive on B *)
  assert (R1 : ics20_recv transfer_port ca transfer_port cb base = RMint V).
  { unfold ics20_recv, ics20_recv_action. rewrite Hex.
    unfold denom_validate; cbn [d_base d_trace forallb]. rewrite Hnb. reflexivity. }
  set (v := ibc_denom V) in *.
  assert (O1 : on_recv (mkChain [] []) transfer_port ca transfer_port cb base amt userB =
               (mkChain (mint_to [] userB v amt) (set_denom [] V), true)).
  { unfold on_recv. replace (amt <=? 0) with false by (symmetry; apply Z.leb_gt; lia). rewrite R1. reflexivity. }
  rewrite O1. clear O1. cbv beta iota.
  unfold recv_coin. rewrite R1. cbn [recv_action_denom]. fold ibc_denom. fold v.
  (* leg 2, send on B *)
  assert (L2 : msg_transfer (mkChain (mint_to [] userB v amt) (set_denom [] V)) cb userB v back =
               Some (mkChain (set_bal (mint_to [] userB v amt) userB v (amt - back)) (set_denom [] V), path V)).
  { unfold msg_transfer. subst v. rewrite Hv, Hc1. replace (back <=? 0) with false by (symmetry; apply Z.leb_gt; lia).
    cbn [negb orb]. unfold token_from_coin. rewrite Hc2, Hc3.
    cbn [c_denoms]. unfold set_denom, set_denom_with, hash_with. cbn [get_denom]. rewrite bytes_eqb_refl.
    rewrite HVp, HVv. cbn [negb].
    unfold ics20_send, ics20_send_action, has_prefix, V, the_voucher; cbn [d_trace h_port h_chan].
    rewrite !bytes_eqb_refl. cbn [andb].
    fold (the_voucher cb base). fold V. fold ibc_denom. rewrite Hv.
    bank_simpl.
    replace (0 + amt <? back) with false by (symmetry; apply Z.ltb_ge; lia).
    repeat f_equal; try lia. }
  rewrite L2. clear L2. cbv beta iota.
  (* leg 2, receive on A *)
  assert (R2 : ics20_recv transfer_port cb transfer_port ca (path V) = RUnescrow base).
  { unfold ics20_recv, ics20_recv_action. rewrite HVp, HVv. cbn [negb].
    unfold has_prefix, V, the_voucher; cbn [d_trace d_base h_port h_chan tl]. rewrite !bytes_eqb_refl. cbn [andb].
    change (ibc_denom_with sha256 (mkDenom base [])) with base. now rewrite Hsdk. }
  unfold on_recv. replace (back <=? 0) with false by (symmetry; apply Z.leb_gt; lia). rewrite R2.
  bank_simpl.
  match goal with |- context [?a <? back] => replace (a <? back) with false by (symmetry; apply Z.ltb_ge; lia) end.
  bank_simpl.
  f_equal; try lia.
Qed.

(** the return leg alone, from any state of B holding the voucher and any state of A whose escrow covers it:
    B's MsgTransfer is accepted and burns the voucher, the packet carries "transfer/cb/base", and A releases
    exactly [back] of [base] from escrow(transfer, ca) to the receiver *)
Theorem return_leg ca cb base back (A Bc : Chain) :
  good_chan cb -> base_shape_safe base = true -> sdk_valid_denom base = true -> is_blank base = false ->
  0 < back ->
  get_denom (c_denoms Bc) (denom_hash (the_voucher cb base)) = Some (the_voucher cb base) ->
  back <= bal (c_bank Bc) userB (ibc_denom (the_voucher cb base)) ->
  back <= bal (c_bank A) (EscrowOf transfer_port ca) base ->
  exists B' A',
    msg_transfer Bc cb userB (ibc_denom (the_voucher cb base)) back = Some (B', path (the_voucher cb base)) /\
    burn_from (c_bank Bc) userB (ibc_denom (the_voucher cb base)) back = Some (c_bank B') /\
    on_recv A transfer_port cb transfer_port ca (path (the_voucher cb base)) back userA = (A', true) /\
    send_coins (c_bank A) (EscrowOf transfer_port ca) userA base back = Some (c_bank A').
Proof.
  intros Hcb Hs Hsdk Hnb Hb0 Hst HbB HbA.
  set (V := the_voucher cb base) in *.
  pose proof (voucher_parses cb base Hcb Hs) as HVp. fold V in HVp.
  pose proof (voucher_valid cb base Hcb Hnb) as HVv. fold V in HVv.
  assert (Hv : ibc_denom V = B "ibc/" ++ hex_upper (sha256 (path V))) by (apply ibc_denom_traced; discriminate).
  destruct (voucher_coin_valid (path V)) as [Hc1 [Hc2 Hc3]].
  assert (Hburn : exists bk, burn_from (c_bank Bc) userB (ibc_denom V) back = Some bk).
  { unfold burn_from. replace (bal (c_bank Bc) userB (ibc_denom V) <? back) with false by (symmetry; apply Z.ltb_ge; lia).
    eauto. }
  destruct Hburn as [bk Hbk].
  assert (Hsend : exists ak, send_coins (c_bank A) (EscrowOf transfer_port ca) userA base back = Some ak).
  { unfold send_coins. replace (bal (c_bank A) (EscrowOf transfer_port ca) base <? back) with false by (symmetry; apply Z.ltb_ge; lia).
    eauto. }
  destruct Hsend as [ak Hak].
  exists (mkChain bk (c_denoms Bc)), (mkChain ak (c_denoms A)).
  split; [|split; [exact Hbk|split; [|exact Hak]]].
  - unfold msg_transfer. rewrite Hv, Hc1. replace (back <=? 0) with false by (symmetry; apply Z.leb_gt; lia).
    cbn [negb orb]. unfold token_from_coin. rewrite Hc2, Hc3.
    unfold denom_hash, hash_with in Hst. rewrite Hst. rewrite HVp, HVv. cbn [negb].
    unfold ics20_send, ics20_send_action, has_prefix, V, the_voucher; cbn [d_trace h_port h_chan].
    rewrite !bytes_eqb_refl. cbn [andb]. fold (the_voucher cb base). fold V. fold ibc_denom.
    rewrite Hbk. reflexivity.
  - unfold on_recv. replace (back <=? 0) with false by (symmetry; apply Z.leb_gt; lia).
    unfold ics20_recv, ics20_recv_action. rewrite HVp, HVv. cbn [negb].
    unfold has_prefix, V, the_voucher; cbn [d_trace d_base h_port h_chan tl]. rewrite !bytes_eqb_refl. cbn [andb].
    change (ibc_denom_with sha256 (mkDenom base [])) with base. rewrite Hsdk, Hak. reflexivity.
Qed.

Lemma good_chan_of_validator c : channel_identifier_validator c = true -> is_hop_id c = true -> good_chan c.
Proof. intros Hv Hid. split; [eapply validator_no_slash; exact Hv|auto]. Qed.

(** ** C33 refuted (F5b): bases the origin chain accepts whose voucher cannot return *)
Lemma roundtrip_refuted :
  (let t := roundtrip (B "channel-0") (B "channel-1") (B "foo/channel-5") 100 40 40 in
   validate_ibc_denom (B "foo/channel-5") = true /\ t_send1 t = true /\ t_recv1 t = true /\
   t_send2 t = false /\ (t_a_user t, t_a_escrow t, t_b_user t) = (-40, 40, 40)) /\
  (let t := roundtrip (B "channel-0") (B "channel-1") (B "foo/channel-5/bar") 100 40 40 in
   validate_ibc_denom (B "foo/channel-5/bar") = true /\ t_send1 t = true /\ t_recv1 t = true /\
   t_send2 t = true /\ t_recv2 t = false /\ (t_a_user t, t_a_escrow t, t_b_user t) = (-40, 40, 40)).
Proof. vm_compute. repeat split. Qed.

Lemma roundtrip_refuted_ex :
  exists ca cb base funds amt back,
    good_chan cb /\ validate_ibc_denom base = true /\ strip_prefix (B "ibc/") base = None /\
    0 < back <= amt /\ amt <= funds /\
    t_recv1 (roundtrip ca cb base funds amt back) = true /\
    t_recv2 (roundtrip ca cb base funds amt back) = false.
Proof.
  exists (B "channel-0"), (B "channel-1"), (B "foo/channel-5/bar"), 100, 40, 40.
  split; [apply good_chan_of_validator; reflexivity|]. vm_compute. repeat split; discriminate.
Qed.

Lemma safe_examples :
  base_shape_safe (B "uatom") = true /\ base_shape_safe (B "gamm/pool/1") = true /\
  base_shape_safe (B "factory/cosmos1xyz/sub") = true /\
  base_shape_safe (B "foo/channel-5") = false /\ base_shape_safe (B "foo/channel-5/bar") = false /\
  base_shape_safe (B "x/07-tendermint-3/y") = false.
Proof. vm_compute. repeat split. Qed.
