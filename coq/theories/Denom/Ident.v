(** Identifier recognisers used by the ICS-20 denomination code.
    modules/core/24-host/validate.go, 24-host/parse.go, 04-channel/types/keys.go, 02-client/types/keys.go.
    Go regexps are hand-written recognisers; the `denom` family compares each with the Go function. *)
From IBC Require Import Lib.Bytes Lib.Dec.
Local Open Scope N_scope.

(** ** strings.TrimSpace(s) == ""  (unicode.IsSpace over the UTF-8 decoding of s)
    White space runes: U+0009..U+000D, U+0020, U+0085, U+00A0, U+1680, U+2000..U+200A, U+2028, U+2029,
    U+202F, U+205F, U+3000.  Any byte that is not part of one of these exact encodings (including invalid
    UTF-8, which Go decodes as U+FFFD) is not white space. *)
Definition is_ascii_space (c : ascii) : bool :=
  let n := N_of_ascii c in ((9 <=? n) && (n <=? 13)) || (n =? 32).

Fixpoint is_blank (s : bytes) : bool :=
  match s with
  | [] => true
  | c :: s1 =>
      if is_ascii_space c then is_blank s1
      else
        let n := N_of_ascii c in
        match s1 with
        | c2 :: s2 =>
            let n2 := N_of_ascii c2 in
            if (n =? 194) && ((n2 =? 133) || (n2 =? 160)) then is_blank s2          (* U+0085, U+00A0 *)
            else match s2 with
                 | c3 :: s3 =>
                     let n3 := N_of_ascii c3 in
                     if ((n =? 225) && (n2 =? 154) && (n3 =? 128))                           (* U+1680 *)
                        || ((n =? 226) && (n2 =? 128) && (((128 <=? n3) && (n3 <=? 138))      (* U+2000..200A *)
                                                         || (n3 =? 168) || (n3 =? 169)       (* U+2028/9 *)
                                                         || (n3 =? 175)))                    (* U+202F *)
                        || ((n =? 226) && (n2 =? 129) && (n3 =? 159))                        (* U+205F *)
                        || ((n =? 227) && (n2 =? 128) && (n3 =? 128))                        (* U+3000 *)
                     then is_blank s3 else false
                 | [] => false
                 end
        | [] => false
        end
  end.

(** ** host.IsValidID: ^[a-zA-Z0-9\.\_\+\-\#\[\]\<\>]+$ *)
Definition is_id_char (c : ascii) : bool :=
  is_alnum c ||
  let n := N_of_ascii c in
  (n =? 46) || (n =? 95) || (n =? 43) || (n =? 45) || (n =? 35) || (n =? 91) || (n =? 93) || (n =? 60) || (n =? 62).

Definition is_valid_id (s : bytes) : bool :=
  match s with [] => false | _ => forallb is_id_char s end.

Definition has_slash (s : bytes) : bool := existsb (Ascii.eqb slash) s.

(** host.defaultIdentifierValidator, checks in the order of the Go code *)
Definition default_identifier_validator (id : bytes) (minlen maxlen : N) : bool :=
  if is_blank id then false
  else if has_slash id then false
  else let l := N.of_nat (length id) in
       if (l <? minlen) || (maxlen <? l) then false
       else is_valid_id id.

Definition port_identifier_validator (id : bytes) : bool := default_identifier_validator id 2 128.
Definition channel_identifier_validator (id : bytes) : bool := default_identifier_validator id 8 64.
Definition client_identifier_validator (id : bytes) : bool := default_identifier_validator id 4 64.

(** ** strings.Split(s, sep) for a non-empty multi-byte separator (host.ParseIdentifier splits on the prefix) *)
Fixpoint split_sub_aux (fuel : nat) (sep s cur : bytes) : list bytes :=
  match fuel with
  | O => [rev cur ++ s]
  | S f =>
      match strip_prefix sep s with
      | Some rest =>
          match sep with
          | [] => [rev cur ++ s]            (* not used with an empty separator *)
          | _ => rev cur :: split_sub_aux f sep rest []
          end
      | None =>
          match s with
          | [] => [rev cur]
          | c :: s' => split_sub_aux f sep s' (c :: cur)
          end
      end
  end.
Definition split_sub (sep s : bytes) : list bytes := split_sub_aux (S (length s)) sep s [].

(** host.ParseIdentifier(identifier, prefix) *)
Definition parse_identifier (id pre : bytes) : option N :=
  if negb (is_prefix pre id) then None
  else match split_sub pre id with
       | [s0; s1] =>
           match s0 with
           | [] => parse_uint64 s1
           | _ => None
           end
       | _ => None
       end.

(** 1 to 20 decimal digits *)
Definition digits_1_20 (s : bytes) : bool :=
  all_digits s && (N.of_nat (length s) <=? 20).

(** channeltypes.IsChannelIDFormat: ^channel-[0-9]{1,20}$ *)
Definition channel_prefix : bytes := B "channel-".
Definition is_channel_id_format (s : bytes) : bool :=
  match strip_prefix channel_prefix s with
  | Some d => digits_1_20 d
  | None => false
  end.

(** channeltypes.IsValidChannelID = ParseChannelSequence succeeds *)
Definition parse_channel_sequence (s : bytes) : option N :=
  if negb (is_channel_id_format s) then None else parse_identifier s channel_prefix.
Definition is_valid_channel_id (s : bytes) : bool :=
  match parse_channel_sequence s with Some _ => true | None => false end.

(** \w of Go's RE2: [0-9A-Za-z_] *)
Definition is_word_char (c : ascii) : bool := is_alnum c || (N_of_ascii c =? 95).
Definition is_word_or_dash (c : ascii) : bool := is_word_char c || Ascii.eqb c dash.

(** [\w+([\w-]+\w)?]: non-empty, every character in [\w-], first and last in \w
    (one- and two-character strings must be all \w; from three characters on the optional group absorbs
    the middle). *)
Definition is_client_type_part (u : bytes) : bool :=
  match u with
  | [] => false
  | c :: _ => is_word_char c && forallb is_word_or_dash u && is_word_char (last u c)
  end.

(** clienttypes.IsClientIDFormat: ^\w+([\w-]+\w)?-[0-9]{1,20}$.  The trailing [-[0-9]{1,20}] contains exactly
    one dash, so the split point is the last dash of the string. *)
Definition split_last_dash (s : bytes) : option (bytes * bytes) :=
  match rev (split_on dash s) with
  | d :: (_ :: _) as rest => Some (join_with dash (rev rest), d)
  | _ => None
  end.

Definition is_client_id_format (s : bytes) : bool :=
  match split_last_dash s with
  | Some (u, d) => is_client_type_part u && digits_1_20 d
  | None => false
  end.

Definition localhost_client_id : bytes := B "09-localhost".

(** clienttypes.ParseClientIdentifier -> (clientType, sequence); IsValidClientID = no error *)
Definition parse_client_identifier (s : bytes) : option (bytes * N) :=
  if bytes_eqb s localhost_client_id then Some (s, 0)
  else if negb (is_client_id_format s) then None
  else match split_last_dash s with
       | Some (u, d) =>
           if is_blank u then None
           else match parse_uint64 d with
                | Some n => Some (u, n)
                | None => None
                end
       | None => None
       end.
Definition is_valid_client_id (s : bytes) : bool :=
  match parse_client_identifier s with Some _ => true | None => false end.

(** the test ExtractDenomFromPath applies to the second segment of a candidate hop *)
Definition is_hop_id (s : bytes) : bool := is_valid_channel_id s || is_valid_client_id s.

(** ** sdk.ValidateDenom: reDnm = ^[a-zA-Z][a-zA-Z0-9/:._-]{2,127}$ (cosmos-sdk types/coin.go) *)
Definition is_denom_char (c : ascii) : bool :=
  is_alnum c ||
  let n := N_of_ascii c in (n =? 47) || (n =? 58) || (n =? 46) || (n =? 95) || (n =? 45).
Definition sdk_valid_denom (s : bytes) : bool :=
  match s with
  | c :: r => is_alpha c && forallb is_denom_char r &&
              (2 <=? N.of_nat (length r)) && (N.of_nat (length r) <=? 127)
  | [] => false
  end.
