(** ICS-20 transfer authorization: modules/apps/transfer/types/transfer_authorization.go
    (Accept, ValidateBasic, isAllowedAddress, validateMemo, getAllocationIndex), the x/authz keeper's handling
    of the AcceptResponse (Delete / Updated / unchanged), and keeper/msg_server.go Transfer's expansion of the
    UnboundedSpendLimit sentinel amount, which happens after Accept.

    Spend limits (sdk.Coins: sorted, dup-free, positive) are finite maps denom -> Z written as association
    lists; amounts are sdkmath.Int values, Z here. *)
From IBC Require Import Lib.Bytes Lib.Dec Denom.Ident.
Local Open Scope Z_scope.

(** types.UnboundedSpendLimit() = MaxUint256 *)
Definition sentinel : Z := 2 ^ 256 - 1.

Definition Coins := list (bytes * Z).

(** Coins.AmountOf *)
Fixpoint amount_of (l : Coins) (d : bytes) : Z :=
  match l with
  | [] => 0
  | (d', v) :: l' => if bytes_eqb d' d then v else amount_of l' d
  end.

(** the map update behind safeAdd + removeZeroCoins: the entry of [d] becomes [v], zero entries are dropped *)
Fixpoint remove_denom (l : Coins) (d : bytes) : Coins :=
  match l with
  | [] => []
  | (d', v) :: l' => if bytes_eqb d' d then remove_denom l' d else (d', v) :: remove_denom l' d
  end.
Definition upd (l : Coins) (d : bytes) (v : Z) : Coins :=
  if v =? 0 then remove_denom l d else (d, v) :: remove_denom l d.

(** Coins.SafeSub(coin): (coins - coin, any negative).  On a limit with positive entries only the entry of
    the coin's denom can become negative. None = isNegative. *)
Definition safe_sub (l : Coins) (d : bytes) (amt : Z) : option Coins :=
  let v' := amount_of l d - amt in
  if v' <? 0 then None else Some (upd l d v').

(** Coins.IsZero: no coins, or all amounts zero *)
Definition coins_is_zero (l : Coins) : bool := forallb (fun kv => snd kv =? 0) l.

Record Alloc := mkAlloc {
  a_port : bytes; a_chan : bytes; a_limit : Coins; a_allow : list bytes; a_memos : list bytes }.
Definition Grant := list Alloc.

Record Req := mkReq {
  r_port : bytes; r_chan : bytes; r_denom : bytes; r_amt : Z; r_receiver : bytes; r_memo : bytes }.

Definition key_eqb (a : Alloc) (port chan : bytes) : bool :=
  bytes_eqb (a_chan a) chan && bytes_eqb (a_port a) port.

(** getAllocationIndex: first allocation with the message's channel and port *)
Fixpoint find_alloc (g : Grant) (port chan : bytes) : option Alloc :=
  match g with
  | [] => None
  | a :: g' => if key_eqb a port chan then Some a else find_alloc g' port chan
  end.

(** a.Allocations[index].SpendLimit = limitLeft, at the first matching index *)
Fixpoint set_limit (g : Grant) (port chan : bytes) (l : Coins) : Grant :=
  match g with
  | [] => []
  | a :: g' => if key_eqb a port chan then mkAlloc (a_port a) (a_chan a) l (a_allow a) (a_memos a) :: g'
               else a :: set_limit g' port chan l
  end.

(** slices.Delete(a.Allocations, index, index+1) at the first matching index *)
Fixpoint delete_alloc (g : Grant) (port chan : bytes) : Grant :=
  match g with
  | [] => []
  | a :: g' => if key_eqb a port chan then g' else a :: delete_alloc g' port chan
  end.

(** isAllowedAddress *)
Definition is_allowed (receiver : bytes) (allow : list bytes) : bool :=
  match allow with [] => true | _ => existsb (fun a => bytes_eqb a receiver) allow end.

(** strings.TrimSpace, ASCII white space (memos in the harness are ASCII) *)
Fixpoint trim_left (s : bytes) : bytes :=
  match s with
  | c :: s' => if is_ascii_space c then trim_left s' else s
  | [] => []
  end.
Definition trim_space (s : bytes) : bytes := rev (trim_left (rev (trim_left s))).

(** validateMemo *)
Definition memo_ok (memo : bytes) (allowed : list bytes) : bool :=
  match allowed with
  | [] => match trim_space memo with [] => true | _ => false end
  | [a] => if bytes_eqb a (B "*") then true else bytes_eqb (trim_space memo) (trim_space a)
  | _ => existsb (fun a => bytes_eqb (trim_space memo) (trim_space a)) allowed
  end.

(** AcceptResponse as the authz keeper consumes it *)
Inductive AcceptRes :=
| Reject                       (* error: the grant in the store is untouched *)
| AcceptKeep                   (* Accept: true, Updated: nil *)
| AcceptUpdate (g : Grant)     (* Accept: true, Updated: the new allocations *)
| AcceptDelete.                (* Accept: true, Delete: true *)

(** TransferAuthorization.Accept, in the order of the Go code *)
Definition accept (g : Grant) (r : Req) : AcceptRes :=
  match find_alloc g (r_port r) (r_chan r) with
  | None => Reject
  | Some a =>
      if negb (is_allowed (r_receiver r) (a_allow a)) then Reject
      else if negb (memo_ok (r_memo r) (a_memos a)) then Reject
      else
        if amount_of (a_limit a) (r_denom r) =? sentinel
        then (* unbounded: nothing is subtracted, allocationModified stays false *)
             let g2 := if coins_is_zero (a_limit a) then delete_alloc g (r_port r) (r_chan r) else g in
             match g2 with [] => AcceptDelete | _ => AcceptKeep end
        else match safe_sub (a_limit a) (r_denom r) (r_amt r) with
             | None => Reject
             | Some lft =>
                 let g1 := set_limit g (r_port r) (r_chan r) lft in
                 let g2 := if coins_is_zero lft then delete_alloc g1 (r_port r) (r_chan r) else g1 in
                 match g2 with [] => AcceptDelete | _ => AcceptUpdate g2 end
             end
  end.

(** the grant as stored by x/authz: None = no grant (never granted, or deleted) *)
Definition State := option Grant.

(** one MsgExec of a MsgTransfer under the grant: new state, accepted? *)
Definition step (st : State) (r : Req) : State * bool :=
  match st with
  | None => (None, false)
  | Some g =>
      match accept g r with
      | Reject => (Some g, false)
      | AcceptKeep => (Some g, true)
      | AcceptUpdate g' => (Some g', true)
      | AcceptDelete => (None, true)
      end
  end.

Fixpoint run (st : State) (rs : list Req) : State * list bool :=
  match rs with
  | [] => (st, [])
  | r :: rs' => let '(st1, ok) := step st r in
                let '(st2, oks) := run st1 rs' in (st2, ok :: oks)
  end.

(** msg_server.go Transfer, after Accept: the sentinel amount is replaced by the sender's spendable balance *)
Definition executed_amount (r : Req) (spendable : Z) : Z :=
  if r_amt r =? sentinel then spendable else r_amt r.

(** what is left to spend for (port, channel, denom); nothing once the allocation or the grant is gone *)
Definition remaining (st : State) (port chan d : bytes) : Z :=
  match st with
  | None => 0
  | Some g => match find_alloc g port chan with None => 0 | Some a => amount_of (a_limit a) d end
  end.

(** total accepted for (port, channel, denom) along a run *)
Fixpoint accepted_total (st : State) (rs : list Req) (port chan d : bytes) : Z :=
  match rs with
  | [] => 0
  | r :: rs' =>
      let '(st1, ok) := step st r in
      (if ok && bytes_eqb (r_port r) port && bytes_eqb (r_chan r) chan && bytes_eqb (r_denom r) d then r_amt r else 0)
      + accepted_total st1 rs' port chan d
  end.

(** ** TransferAuthorization.ValidateBasic *)
Fixpoint mem (x : bytes) (l : list bytes) : bool :=
  match l with [] => false | y :: l' => bytes_eqb x y || mem x l' end.
Fixpoint no_dup (l : list bytes) : bool :=
  match l with [] => true | x :: l' => negb (mem x l') && no_dup l' end.

(** byte-wise lexicographic order (Go string comparison) *)
Fixpoint bytes_ltb (a b : bytes) : bool :=
  match a, b with
  | _, [] => false
  | [], _ :: _ => true
  | x :: a', y :: b' => (N_of_ascii x <? N_of_ascii y)%N || ((N_of_ascii x =? N_of_ascii y)%N && bytes_ltb a' b')
  end.

(** Coins.Validate: valid denoms, positive amounts, strictly increasing denoms; a nil/empty limit is rejected
    by the preceding nil test (an empty slice does not survive the protobuf round trip of MsgGrant) *)
Fixpoint coins_sorted (l : Coins) : bool :=
  match l with
  | (d1, _) :: ((d2, _) :: _) as l' => bytes_ltb d1 d2 && coins_sorted l'
  | _ => true
  end.
Definition coins_valid (l : Coins) : bool :=
  match l with [] => false | _ => forallb (fun kv => sdk_valid_denom (fst kv) && (0 <? snd kv) && (snd kv <=? sentinel)) l && coins_sorted l end.

Fixpoint validate_allocs (g : Grant) (seen : list bytes) : bool :=
  match g with
  | [] => true
  | a :: g' =>
      negb (mem (a_chan a) seen) && coins_valid (a_limit a) &&
      port_identifier_validator (a_port a) && channel_identifier_validator (a_chan a) &&
      no_dup (a_allow a) && validate_allocs g' (a_chan a :: seen)
  end.
Definition grant_validate (g : Grant) : bool :=
  match g with [] => false | _ => validate_allocs g [] end.
