(** Proofs about the ICA channel model (IcaGmp/IcaChan.v). *)
From Coq Require Import ZifyBool ZifyN.
From IBC Require Import Lib.Bytes Lib.BytesFacts IcaGmp.Gmp IcaGmp.IcaHost IcaGmp.IcaChan.
Local Open Scope N_scope.

(** * Maps *)
Lemma chan_get_set m id c id' :
  chan_get (chan_set m id c) id' = if id =? id' then Some c else chan_get m id'.
Proof.
  induction m as [|[k c0] m IH]; simpl.
  - destruct (N.eqb_spec id id'); reflexivity.
  - destruct (N.eqb_spec k id) as [->|Hk]; simpl.
    + destruct (N.eqb_spec id id'); reflexivity.
    + destruct (N.eqb_spec k id') as [->|Hk'].
      * destruct (N.eqb_spec id id'); [congruence|reflexivity].
      * exact IH.
Qed.

Definition key_eqb (a b a' b' : bytes) : bool := bytes_eqb a a' && bytes_eqb b b'.

Lemma key_eqb_eq a b a' b' : key_eqb a b a' b' = true <-> a = a' /\ b = b'.
Proof. unfold key_eqb. now rewrite andb_true_iff, !bytes_eqb_eq. Qed.

Lemma assoc2_set2 {V} (m : list ((bytes * bytes) * V)) a b v a' b' :
  assoc2 (set2 m a b v) a' b' = if key_eqb a b a' b' then Some v else assoc2 m a' b'.
Proof.
  induction m as [|[[x y] w] m IH]; simpl.
  - fold (key_eqb a b a' b'). destruct (key_eqb a b a' b'); reflexivity.
  - fold (key_eqb x y a b). destruct (key_eqb x y a b) eqn:K; simpl.
    + apply key_eqb_eq in K. destruct K as [-> ->]. fold (key_eqb a b a' b').
      destruct (key_eqb a b a' b'); reflexivity.
    + fold (key_eqb x y a' b'). destruct (key_eqb x y a' b') eqn:K'; [|exact IH].
      apply key_eqb_eq in K'. destruct K' as [-> ->].
      destruct (key_eqb a b a' b') eqn:K2; [|reflexivity].
      apply key_eqb_eq in K2. destruct K2 as [-> ->].
      assert (key_eqb a' b' a' b' = true) by now apply key_eqb_eq. congruence.
Qed.

Lemma get_channel_some m port id c :
  get_channel m port id = Some c <-> chan_get m id = Some c /\ ch_port c = port.
Proof.
  unfold get_channel. destruct (chan_get m id) as [c0|]; [|split; [discriminate|intros [X _]; discriminate]].
  destruct (bytes_eqb (ch_port c0) port) eqn:E.
  - apply bytes_eqb_eq in E. split; [intros [= <-]; auto|intros [[= <-] _]; reflexivity].
  - split; [discriminate|]. intros [[= <-] P]. apply bytes_eqb_eq in P. congruence.
Qed.

Lemma chstate_eqb_eq a b : chstate_eqb a b = true <-> a = b.
Proof. destruct a, b; simpl; split; congruence. Qed.

Lemma order_eqb_eq a b : order_eqb a b = true <-> a = b.
Proof. destruct a, b; simpl; split; congruence. Qed.

(** * Controller *)

Definition ctrl_inv (s : Ctrl) : Prop :=
  (forall conn port id, assoc2 (cs_active s) conn port = Some id ->
     exists c, chan_get (cs_chans s) id = Some c /\ ch_port c = port /\ ch_conn c = conn /\
               (ch_state c = StOpen \/ ch_state c = StClosed)) /\
  (forall id c, chan_get (cs_chans s) id = Some c -> ch_state c = StOpen ->
     assoc2 (cs_active s) (ch_conn c) (ch_port c) = Some id) /\
  (forall id c, chan_get (cs_chans s) id = Some c -> id < cs_next s).

Lemma ctrl_inv_init en conns : ctrl_inv (mkCtrl en conns [] [] [] [] 0).
Proof. repeat split; simpl; intros; discriminate. Qed.

Lemma open_active_none_closed s conn port id c :
  ctrl_inv s -> assoc2 (cs_active s) conn port = Some id -> open_active_channel s conn port = None ->
  chan_get (cs_chans s) id = Some c -> ch_state c = StClosed.
Proof.
  intros (I1 & _ & _) A O G. destruct (I1 _ _ _ A) as (c' & G' & P & Cn & St).
  rewrite G in G'. injection G' as <-.
  unfold open_active_channel in O. rewrite A in O.
  assert (GC : get_channel (cs_chans s) port id = Some c) by now apply get_channel_some.
  rewrite GC in O. destruct St as [St|St]; [|assumption]. rewrite St in O. discriminate.
Qed.

(** validate_metadata pins the controller connection id to the channel's first hop *)
Lemma validate_metadata_ctrl m ctrl host : validate_metadata m (Some (ctrl, host)) = true -> md_ctrl m = ctrl /\ md_host m = host.
Proof.
  unfold validate_metadata. intros V. apply andb_true_iff in V. destruct V as [_ V].
  apply andb_true_iff in V. destruct V as [V _]. apply andb_true_iff in V. destruct V as [V _].
  apply andb_true_iff in V. destruct V as [C Hh].
  apply bytes_eqb_eq in C. apply bytes_eqb_eq in Hh. auto.
Qed.

Lemma ctrl_on_ack_ok s port id cpv conn addr :
  ctrl_on_ack s port id cpv = CbOk (conn, addr) ->
  exists m c, cpv = VMeta m /\ conn = md_ctrl m /\ addr = md_addr m /\
    open_active_channel s conn port = None /\
    get_channel (cs_chans s) port id = Some c /\ conn = ch_conn c /\
    is_prefix ctrl_prefix port = true /\ blank addr = false.
Proof.
  unfold ctrl_on_ack. destruct (cs_enabled s); cbn [negb]; [|discriminate].
  destruct (bytes_eqb port host_port); cbn [negb]; [discriminate|].
  destruct (is_prefix ctrl_prefix port) eqn:P; cbn [negb]; [|discriminate].
  destruct cpv as [| |m]; cbn [negb metadata_of]; try discriminate.
  destruct (open_active_channel s (md_ctrl m) port) eqn:O; [discriminate|].
  destruct (get_channel (cs_chans s) port id) as [c|] eqn:G; [|discriminate].
  destruct (validate_metadata m (conn_pair_ctrl s (ch_conn c))) eqn:V; cbn [negb]; [|discriminate].
  destruct (blank (md_addr m)) eqn:Bk; cbn [negb]; [discriminate|].
  intros [= <- <-]. exists m, c. repeat split; auto.
  unfold conn_pair_ctrl in V. destruct (conn_get (cs_conns s) (ch_conn c)); [|unfold validate_metadata in V; rewrite !andb_false_r in V; discriminate].
  now apply validate_metadata_ctrl in V.
Qed.

Lemma ctrl_ack_inv s id cpv : ctrl_inv s -> ctrl_inv (fst (ctrl_chan_open_ack s id cpv)).
Proof.
  intros Inv. unfold ctrl_chan_open_ack.
  destruct (chan_get (cs_chans s) id) as [c|] eqn:G; [|exact Inv].
  destruct (chstate_eqb (ch_state c) StInit) eqn:St; simpl; [|exact Inv].
  apply chstate_eqb_eq in St.
  destruct (ctrl_on_ack s (ch_port c) id cpv) as [[conn addr]| |] eqn:A; try exact Inv.
  apply ctrl_on_ack_ok in A. destruct A as (m & c' & -> & -> & -> & O & GC & Cn & _ & _).
  apply get_channel_some in GC. destruct GC as [GC _]. rewrite G in GC. injection GC as <-.
  destruct Inv as (I1 & I2 & I3). simpl. repeat split; simpl.
  - intros conn port id' E. rewrite assoc2_set2 in E. rewrite chan_get_set.
    destruct (key_eqb (md_ctrl m) (ch_port c) conn port) eqn:K.
    + injection E as <-. apply key_eqb_eq in K. destruct K as [<- <-].
      rewrite N.eqb_refl. eexists. split; [reflexivity|]. simpl. auto.
    + destruct (I1 _ _ _ E) as (c1 & G1 & P1 & C1 & S1).
      destruct (N.eqb_spec id id') as [<-|Hne].
      * rewrite G in G1. injection G1 as <-. rewrite St in S1. destruct S1; discriminate.
      * exists c1. auto.
  - intros id' c1 E S1. rewrite chan_get_set in E. rewrite assoc2_set2.
    destruct (N.eqb_spec id id') as [<-|Hne].
    + injection E as <-. simpl. rewrite Cn.
      assert (key_eqb (ch_conn c) (ch_port c) (ch_conn c) (ch_port c) = true) as -> by now apply key_eqb_eq.
      reflexivity.
    + pose proof (I2 _ _ E S1) as A1.
      destruct (key_eqb (md_ctrl m) (ch_port c) (ch_conn c1) (ch_port c1)) eqn:K; [|exact A1].
      exfalso. apply key_eqb_eq in K. destruct K as [K1 K2].
      unfold open_active_channel in O. rewrite K1, K2, A1 in O.
      assert (GC1 : get_channel (cs_chans s) (ch_port c1) id' = Some c1) by now apply get_channel_some.
      rewrite GC1, S1 in O. discriminate.
  - intros id' c1 E. rewrite chan_get_set in E. destruct (N.eqb_spec id id') as [<-|Hne].
    + now apply (I3 _ _ G).
    + now apply (I3 _ _ E).
Qed.

Lemma ctrl_init_inv s order conn port cp v :
  ctrl_inv s -> ctrl_inv (fst (fst (ctrl_chan_open_init s order conn port cp v))).
Proof.
  intros Inv. unfold ctrl_chan_open_init.
  destruct (conn_get (cs_conns s) conn); [|exact Inv].
  destruct (ctrl_on_init s order conn port cp v) as [m| |]; try exact Inv.
  destruct Inv as (I1 & I2 & I3). simpl. repeat split; simpl.
  - intros conn' port' id' E. destruct (I1 _ _ _ E) as (c1 & G1 & R). rewrite chan_get_set.
    destruct (N.eqb_spec (cs_next s) id') as [<-|Hne].
    + apply I3 in G1. lia.
    + exists c1. auto.
  - intros id' c1 E S1. rewrite chan_get_set in E. destruct (N.eqb_spec (cs_next s) id') as [<-|Hne].
    + injection E as <-. discriminate.
    + now apply I2.
  - intros id' c1 E. rewrite chan_get_set in E. destruct (N.eqb_spec (cs_next s) id') as [<-|Hne]; [lia|].
    apply I3 in E. lia.
Qed.

Lemma ctrl_inv_mw s mw : ctrl_inv s ->
  ctrl_inv (mkCtrl (cs_enabled s) (cs_conns s) (cs_chans s) (cs_active s) (cs_accounts s) mw (cs_next s)).
Proof. intros Inv. exact Inv. Qed.

Lemma ctrl_register_inv s owner conn v order :
  ctrl_inv s -> ctrl_inv (fst (fst (ctrl_register s owner conn v order))).
Proof.
  intros Inv. unfold ctrl_register.
  destruct (controller_port owner) as [port|]; [|exact Inv].
  destruct (_ && _); [exact Inv|].
  destruct (open_active_channel _ conn port); [exact Inv|].
  match goal with |- context [ctrl_chan_open_init ?s1 ?o ?c ?p ?cp ?v] =>
    pose proof (ctrl_init_inv s1 o c p cp v (ctrl_inv_mw s _ Inv)) as X;
    destruct (ctrl_chan_open_init s1 o c p cp v) as [[s2 r] oid] end.
  destruct r; simpl in *; auto.
Qed.

Lemma ctrl_close_inv s id : ctrl_inv s -> ctrl_inv (ctrl_close s id).
Proof.
  intros Inv. unfold ctrl_close. destruct (chan_get (cs_chans s) id) as [c|] eqn:G; [|exact Inv].
  destruct Inv as (I1 & I2 & I3). repeat split; simpl.
  - intros conn port id' E. destruct (I1 _ _ _ E) as (c1 & G1 & P1 & C1 & S1). rewrite chan_get_set.
    destruct (N.eqb_spec id id') as [<-|Hne].
    + rewrite G in G1. injection G1 as <-. eexists. split; [reflexivity|]. simpl. auto.
    + exists c1. auto.
  - intros id' c1 E S1. rewrite chan_get_set in E. destruct (N.eqb_spec id id') as [<-|Hne].
    + injection E as <-. discriminate.
    + now apply I2.
  - intros id' c1 E. rewrite chan_get_set in E. destruct (N.eqb_spec id id') as [<-|Hne].
    + now apply (I3 _ _ G).
    + now apply (I3 _ _ E).
Qed.

Lemma ctrl_step_inv s o : ctrl_inv s -> ctrl_inv (fst (ctrl_step s o)).
Proof.
  intros Inv. destruct o; simpl; auto.
  - pose proof (ctrl_register_inv s owner conn v order Inv) as X.
    destruct (ctrl_register s owner conn v order) as [[s' r] oid]. exact X.
  - pose proof (ctrl_init_inv s order conn port cp_port v Inv) as X.
    destruct (ctrl_chan_open_init s order conn port cp_port v) as [[s' r] oid]. exact X.
  - now apply ctrl_ack_inv.
  - now apply ctrl_close_inv.
Qed.

(** the invariant holds along every history *)
Lemma ctrl_run_inv ops s : ctrl_inv s -> ctrl_inv (ctrl_run s ops).
Proof.
  unfold ctrl_run. revert s. induction ops as [|o ops IH]; intros s Inv; simpl; [exact Inv|].
  apply IH. now apply ctrl_step_inv.
Qed.

(** at most one OPEN channel per (connection, port), and it is the active one *)
Lemma ctrl_unique_open s id1 c1 id2 c2 :
  ctrl_inv s ->
  chan_get (cs_chans s) id1 = Some c1 -> chan_get (cs_chans s) id2 = Some c2 ->
  ch_state c1 = StOpen -> ch_state c2 = StOpen ->
  ch_conn c1 = ch_conn c2 -> ch_port c1 = ch_port c2 ->
  id1 = id2 /\ assoc2 (cs_active s) (ch_conn c1) (ch_port c1) = Some id1.
Proof.
  intros (_ & I2 & _) G1 G2 S1 S2 Cn P.
  pose proof (I2 _ _ G1 S1) as A1. pose proof (I2 _ _ G2 S2) as A2.
  rewrite <- Cn, <- P in A2. split; [congruence|assumption].
Qed.

(** the active entry of a key changes only in ChanOpenAck, and only when the old channel is CLOSED *)
Lemma ctrl_step_active_change s o conn port id0 id1 :
  ctrl_inv s ->
  assoc2 (cs_active s) conn port = Some id0 ->
  assoc2 (cs_active (fst (ctrl_step s o))) conn port = Some id1 -> id0 <> id1 ->
  exists c0 cpv, o = CAck id1 cpv /\ chan_get (cs_chans s) id0 = Some c0 /\ ch_state c0 = StClosed.
Proof.
  intros Inv A0 A1 Hne. destruct o; simpl in A1.
  - exfalso. unfold ctrl_register in A1.
    destruct (controller_port owner) as [p|]; [|simpl in A1; congruence].
    destruct (_ && _); [simpl in A1; congruence|].
    destruct (open_active_channel _ conn0 p); [simpl in A1; congruence|].
    unfold ctrl_chan_open_init in A1. simpl in A1.
    destruct (conn_get (cs_conns s) conn0); [|simpl in A1; congruence].
    match type of A1 with context [ctrl_on_init ?a ?b ?c ?d ?e ?f] => destruct (ctrl_on_init a b c d e f) end;
      simpl in A1; congruence.
  - exfalso. unfold ctrl_chan_open_init in A1.
    destruct (conn_get (cs_conns s) conn0); [|simpl in A1; congruence].
    destruct (ctrl_on_init s order conn0 port0 cp_port v); simpl in A1; congruence.
  - unfold ctrl_chan_open_ack in A1.
    destruct (chan_get (cs_chans s) id) as [c|] eqn:G; [|simpl in A1; congruence].
    destruct (chstate_eqb (ch_state c) StInit) eqn:St; simpl in A1; [|congruence].
    destruct (ctrl_on_ack s (ch_port c) id cpv) as [[cn addr]| |] eqn:A; simpl in A1; try congruence.
    rewrite assoc2_set2 in A1.
    destruct (key_eqb cn (ch_port c) conn port) eqn:K; [|congruence].
    injection A1 as <-. apply key_eqb_eq in K. destruct K as [-> <-].
    apply ctrl_on_ack_ok in A. destruct A as (m & c' & _ & _ & _ & O & _).
    destruct Inv as (I1 & I2 & I3). destruct (I1 _ _ _ A0) as (c0 & G0 & _).
    exists c0, cpv. repeat split; auto.
    eapply open_active_none_closed; eauto. repeat split; auto.
  - exfalso. unfold ctrl_close in A1. destruct (chan_get (cs_chans s) id); simpl in A1; congruence.
  - congruence.
  - congruence.
Qed.

(** OnChanOpenInit with an existing active entry: that channel is CLOSED, same ordering, same metadata
    (all fields but the address); always: controller port prefix, counterparty port icahost *)
Lemma ctrl_on_init_ok s order conn port cp v m :
  ctrl_on_init s order conn port cp v = CbOk m ->
  cs_enabled s = true /\ is_prefix ctrl_prefix port = true /\ cp = host_port /\
  (exists cpc, conn_get (cs_conns s) conn = Some cpc /\ md_ctrl m = conn /\ md_host m = cpc) /\
  forall id, assoc2 (cs_active s) conn port = Some id ->
    exists c, get_channel (cs_chans s) port id = Some c /\ ch_state c = StClosed /\ ch_order c = order /\
              prev_metadata_equal (ch_version c) m = true.
Proof.
  unfold ctrl_on_init. destruct (cs_enabled s); cbn [negb]; [|discriminate].
  destruct (is_prefix ctrl_prefix port); cbn [negb]; [|discriminate].
  destruct (bytes_eqb cp host_port) eqn:Cp; cbn [negb]; [|discriminate]. apply bytes_eqb_eq in Cp.
  match goal with |- match ?om with _ => _ end = _ -> _ => destruct om as [m0|] eqn:Om end; [|discriminate].
  destruct (validate_metadata m0 (conn_pair_ctrl s conn)) eqn:V; cbn [negb]; [|discriminate].
  assert (VC : exists cpc, conn_get (cs_conns s) conn = Some cpc /\ md_ctrl m0 = conn /\ md_host m0 = cpc).
  { unfold conn_pair_ctrl in V. destruct (conn_get (cs_conns s) conn) as [cpc|].
    - exists cpc. split; [reflexivity|]. now apply validate_metadata_ctrl in V.
    - unfold validate_metadata in V. rewrite !andb_false_r in V. discriminate. }
  destruct (assoc2 (cs_active s) conn port) as [id|] eqn:A.
  - destruct (get_channel (cs_chans s) port id) as [c|] eqn:G; [|discriminate].
    destruct (chstate_eqb (ch_state c) StClosed) eqn:S1; cbn [negb]; [|discriminate].
    destruct (order_eqb (ch_order c) order) eqn:O1; cbn [negb]; [|discriminate].
    destruct (prev_metadata_equal (ch_version c) m0) eqn:P1; cbn [negb]; [|discriminate].
    intros [= <-]. repeat split; auto. intros id' [= <-]. exists c.
    apply chstate_eqb_eq in S1. apply order_eqb_eq in O1. auto.
  - intros [= <-]. repeat split; auto. discriminate.
Qed.

Lemma ctrl_on_init_wrong_counterparty s order conn port cp v :
  cp <> host_port -> ctrl_on_init s order conn port cp v = CbErr.
Proof.
  intros Hne. unfold ctrl_on_init. destruct (cs_enabled s); cbn [negb]; [|reflexivity].
  destruct (is_prefix ctrl_prefix port); cbn [negb]; [|reflexivity].
  destruct (bytes_eqb cp host_port) eqn:E; [apply bytes_eqb_eq in E; contradiction|reflexivity].
Qed.

(** SendTx: the signer is the owner, the port is derived from the owner, the channel is the OPEN active one *)
Lemma ctrl_send_tx_ok s signer owner conn tok port id :
  ctrl_send_tx s signer owner conn tok = Some (port, id) ->
  signer = owner /\ port = ctrl_prefix ++ owner /\ blank owner = false /\
  open_active_channel s conn port = Some id.
Proof.
  unfold ctrl_send_tx. destruct (bytes_eqb signer owner) eqn:E; cbn [negb]; [|discriminate].
  apply bytes_eqb_eq in E. unfold controller_port. destruct (blank owner) eqn:Bk; [discriminate|].
  destruct (cs_enabled s); cbn [negb]; [|discriminate].
  destruct (open_active_channel s conn (ctrl_prefix ++ owner)) as [i|] eqn:O; [|discriminate].
  destruct tok; [|discriminate]. intros [= <- <-]. auto.
Qed.

Lemma controller_port_inj o o' p : controller_port o = Some p -> controller_port o' = Some p -> o = o'.
Proof.
  unfold controller_port. destruct (blank o); [discriminate|]. destruct (blank o'); [discriminate|].
  intros [= <-] [= E]. congruence.
Qed.

Lemma open_active_is_open s conn port id :
  open_active_channel s conn port = Some id ->
  assoc2 (cs_active s) conn port = Some id /\
  exists c, get_channel (cs_chans s) port id = Some c /\ ch_state c = StOpen.
Proof.
  unfold open_active_channel. destruct (assoc2 (cs_active s) conn port) as [i|]; [|discriminate].
  destruct (get_channel (cs_chans s) port i) as [c|] eqn:G; [|discriminate].
  destruct (chstate_eqb (ch_state c) StOpen) eqn:S1; [|discriminate]. intros [= <-].
  apply chstate_eqb_eq in S1. eauto.
Qed.

(** * Host *)

Lemma host_on_try_ok h port conn cp cpv gen m accts typed :
  host_on_try h port conn cp cpv gen = CbOk (m, accts, typed) ->
  hs_enabled h = true /\ port = host_port /\
  (forall id, assoc2 (hs_active h) conn cp = Some id ->
     exists c, get_channel (hs_chans h) port id = Some c /\ ch_state c = StClosed) /\
  (forall a, assoc2 (hs_accounts h) conn cp = Some a -> md_addr m = a /\ accts = hs_accounts h /\ typed = hs_ica_typed h) /\
  (assoc2 (hs_accounts h) conn cp = None -> md_addr m = gen /\ accts = set2 (hs_accounts h) conn cp gen) /\
  md_host m = conn.
Proof.
  unfold host_on_try. destruct (hs_enabled h); cbn [negb]; [|discriminate].
  destruct (bytes_eqb port host_port) eqn:P; cbn [negb]; [|discriminate]. apply bytes_eqb_eq in P.
  match goal with |- match ?om with _ => _ end = _ -> _ => destruct om as [m0|] end; [|discriminate].
  destruct (validate_metadata _ _); cbn [negb]; [|discriminate].
  destruct (assoc2 (hs_active h) conn cp) as [id|] eqn:A.
  - destruct (get_channel (hs_chans h) port id) as [c|] eqn:G; [|discriminate].
    destruct (chstate_eqb (ch_state c) StClosed) eqn:S1; [|discriminate]. apply chstate_eqb_eq in S1.
    destruct (assoc2 (hs_accounts h) conn cp) as [a|] eqn:Ac.
    + destruct (mem_bytes a (hs_ica_typed h)); [|discriminate]. intros [= <- <- <-].
      repeat split; auto; try discriminate; try (intros x [= <-]; repeat split; eauto); try (simpl in *; congruence).
    + destruct (_ || _); [discriminate|]. intros [= <- <- <-].
      repeat split; auto; try discriminate; try (intros x [= <-]; repeat split; eauto); try (simpl in *; congruence).
  - destruct (assoc2 (hs_accounts h) conn cp) as [a|] eqn:Ac.
    + destruct (mem_bytes a (hs_ica_typed h)); [|discriminate]. intros [= <- <- <-].
      repeat split; auto; try discriminate; try (intros x [= <-]; repeat split; eauto); try (simpl in *; congruence).
    + destruct (_ || _); [discriminate|]. intros [= <- <- <-].
      repeat split; auto; try discriminate; try (intros x [= <-]; repeat split; eauto); try (simpl in *; congruence).
Qed.

(** the registered account address of a (connection, controller port) never changes *)
Lemma host_step_accounts h o conn cp a :
  assoc2 (hs_accounts h) conn cp = Some a -> assoc2 (hs_accounts (fst (host_step h o))) conn cp = Some a.
Proof.
  intros E. destruct o; simpl; auto.
  - unfold host_chan_open_try. destruct (conn_get (hs_conns h) conn0); [|exact E].
    destruct (host_on_try h host_port conn0 cp_port cpv gen) as [[[m accts] typed]| |] eqn:T; try exact E.
    apply host_on_try_ok in T. destruct T as (_ & _ & _ & Hsome & Hnone & _). simpl.
    destruct (assoc2 (hs_accounts h) conn0 cp_port) as [a0|] eqn:A0.
    + destruct (Hsome a0 eq_refl) as (_ & -> & _). exact E.
    + destruct (Hnone eq_refl) as (_ & ->). rewrite assoc2_set2.
      destruct (key_eqb conn0 cp_port conn cp) eqn:K; [|exact E].
      apply key_eqb_eq in K. destruct K as [-> ->]. congruence.
  - unfold host_chan_open_confirm. destruct (chan_get (hs_chans h) id) as [c|]; [|exact E].
    destruct (negb _); [exact E|]. destruct (negb _); exact E.
  - unfold host_close. destruct (chan_get (hs_chans h) id); exact E.
Qed.

Lemma host_run_accounts ops h conn cp a :
  assoc2 (hs_accounts h) conn cp = Some a -> assoc2 (hs_accounts (host_run h ops)) conn cp = Some a.
Proof.
  unfold host_run. revert h. induction ops as [|o ops IH]; intros h E; simpl; [exact E|].
  apply IH. now apply host_step_accounts.
Qed.

(** OnChanOpenConfirm overwrites the active channel without looking at the previous one: with two
    handshakes in flight the host replaces an active channel that is still OPEN. *)
Definition host_witness_init : Host :=
  mkHost true [(B "connection-0", B "connection-0")] [] [] [] [] [] 0.
Definition host_witness_ops : list HOp :=
  let v := VMeta (mkMd ica_version (B "connection-0") (B "connection-0") [] enc_proto3 tx_multi) in
  [HTry OrdOrdered (B "connection-0") (B "icacontroller-o") v (B "acc1");
   HTry OrdOrdered (B "connection-0") (B "icacontroller-o") v (B "acc2");
   HConfirm 0; HConfirm 1].

Lemma host_confirm_replaces_open_active :
  let h3 := host_run host_witness_init (firstn 3 host_witness_ops) in
  let h4 := host_run host_witness_init host_witness_ops in
  assoc2 (hs_active h3) (B "connection-0") (B "icacontroller-o") = Some 0 /\
  assoc2 (hs_active h4) (B "connection-0") (B "icacontroller-o") = Some 1 /\
  (exists c, chan_get (hs_chans h3) 0 = Some c /\ ch_state c = StOpen) /\
  (exists c, chan_get (hs_chans h4) 0 = Some c /\ ch_state c = StOpen) /\
  (exists c, chan_get (hs_chans h4) 1 = Some c /\ ch_state c = StOpen).
Proof. vm_compute. repeat split; eexists; split; reflexivity. Qed.

(** guarded host invariant: if every ChanOpenConfirm happens while the current active channel of its
    key is that channel or is CLOSED (what the controller-side invariant and core's proofs give when
    the host end is closed before a reopening is confirmed), at most one host channel per key is OPEN. *)
Definition host_inv (h : Host) : Prop :=
  (forall conn cp id, assoc2 (hs_active h) conn cp = Some id ->
     exists c, chan_get (hs_chans h) id = Some c /\ ch_conn c = conn /\ ch_cp_port c = cp /\
               (ch_state c = StOpen \/ ch_state c = StClosed)) /\
  (forall id c, chan_get (hs_chans h) id = Some c -> ch_state c = StOpen ->
     assoc2 (hs_active h) (ch_conn c) (ch_cp_port c) = Some id) /\
  (forall id c, chan_get (hs_chans h) id = Some c -> id < hs_next h).

Definition confirm_guard (h : Host) (id : N) : Prop :=
  forall c id0 c0, chan_get (hs_chans h) id = Some c ->
    assoc2 (hs_active h) (ch_conn c) (ch_cp_port c) = Some id0 -> chan_get (hs_chans h) id0 = Some c0 ->
    id0 = id \/ ch_state c0 = StClosed.

Lemma host_step_inv h o :
  host_inv h -> (forall id, o = HConfirm id -> confirm_guard h id) -> host_inv (fst (host_step h o)).
Proof.
  intros Inv Gd. destruct o; simpl; auto.
  - unfold host_chan_open_try. destruct (conn_get (hs_conns h) conn); [|exact Inv].
    destruct (host_on_try h host_port conn cp_port cpv gen) as [[[m accts] typed]| |]; try exact Inv.
    destruct Inv as (I1 & I2 & I3). repeat split; simpl.
    + intros conn' cp' id' E. destruct (I1 _ _ _ E) as (c1 & G1 & R). rewrite chan_get_set.
      destruct (N.eqb_spec (hs_next h) id') as [<-|Hne]; [apply I3 in G1; lia|]. exists c1. auto.
    + intros id' c1 E S1. rewrite chan_get_set in E. destruct (N.eqb_spec (hs_next h) id') as [<-|Hne].
      * injection E as <-. discriminate.
      * now apply I2.
    + intros id' c1 E. rewrite chan_get_set in E. destruct (N.eqb_spec (hs_next h) id') as [<-|Hne]; [lia|].
      apply I3 in E. lia.
  - unfold host_chan_open_confirm. destruct (chan_get (hs_chans h) id) as [c|] eqn:G; [|exact Inv].
    destruct (chstate_eqb (ch_state c) StTryOpen) eqn:St; simpl; [|exact Inv]. apply chstate_eqb_eq in St.
    destruct (hs_enabled h); simpl; [|exact Inv].
    specialize (Gd id eq_refl). destruct Inv as (I1 & I2 & I3). repeat split; simpl.
    + intros conn cp id' E. rewrite assoc2_set2 in E. rewrite chan_get_set.
      destruct (key_eqb (ch_conn c) (ch_cp_port c) conn cp) eqn:K.
      * injection E as <-. apply key_eqb_eq in K. destruct K as [<- <-]. rewrite N.eqb_refl.
        eexists. split; [reflexivity|]. simpl. auto.
      * destruct (I1 _ _ _ E) as (c1 & G1 & C1 & P1 & S1).
        destruct (N.eqb_spec id id') as [<-|Hne].
        -- rewrite G in G1. injection G1 as <-. rewrite St in S1. destruct S1; discriminate.
        -- exists c1. auto.
    + intros id' c1 E S1. rewrite chan_get_set in E. rewrite assoc2_set2.
      destruct (N.eqb_spec id id') as [<-|Hne].
      * injection E as <-. simpl.
        assert (key_eqb (ch_conn c) (ch_cp_port c) (ch_conn c) (ch_cp_port c) = true) as -> by now apply key_eqb_eq.
        reflexivity.
      * pose proof (I2 _ _ E S1) as A1.
        destruct (key_eqb (ch_conn c) (ch_cp_port c) (ch_conn c1) (ch_cp_port c1)) eqn:K; [|exact A1].
        exfalso. apply key_eqb_eq in K. destruct K as [K1 K2]. rewrite <- K1, <- K2 in A1.
        destruct (Gd c id' c1 G A1 E) as [X|X]; [congruence|]. rewrite S1 in X. discriminate.
    + intros id' c1 E. rewrite chan_get_set in E. destruct (N.eqb_spec id id') as [<-|Hne].
      * now apply (I3 _ _ G).
      * now apply (I3 _ _ E).
  - unfold host_close. destruct (chan_get (hs_chans h) id) as [c|] eqn:G; [|exact Inv].
    destruct Inv as (I1 & I2 & I3). repeat split; simpl.
    + intros conn cp id' E. destruct (I1 _ _ _ E) as (c1 & G1 & C1 & P1 & S1). rewrite chan_get_set.
      destruct (N.eqb_spec id id') as [<-|Hne].
      * rewrite G in G1. injection G1 as <-. eexists. split; [reflexivity|]. simpl. auto.
      * exists c1. auto.
    + intros id' c1 E S1. rewrite chan_get_set in E. destruct (N.eqb_spec id id') as [<-|Hne].
      * injection E as <-. discriminate.
      * now apply I2.
    + intros id' c1 E. rewrite chan_get_set in E. destruct (N.eqb_spec id id') as [<-|Hne].
      * now apply (I3 _ _ G).
      * now apply (I3 _ _ E).
Qed.

Inductive host_reach_guarded (h0 : Host) : Host -> Prop :=
| hrg_refl : host_reach_guarded h0 h0
| hrg_step h o : host_reach_guarded h0 h -> (forall id, o = HConfirm id -> confirm_guard h id) ->
                 host_reach_guarded h0 (fst (host_step h o)).

Lemma host_reach_guarded_inv h0 h : host_inv h0 -> host_reach_guarded h0 h -> host_inv h.
Proof. intros Inv R. induction R; auto using host_step_inv. Qed.

Lemma host_inv_init en conns taken : host_inv (mkHost en conns [] [] [] [] taken 0).
Proof. repeat split; simpl; intros; discriminate. Qed.
