(** ICS-27 interchain-accounts channels: controller and host handshake callbacks, the active-channel
    store, registration and SendTx.  Definitions only; proofs in IcaChanFacts.v.

    Sources modelled, in the order the code checks things:
    - types/port.go                 NewControllerPortID
    - types/metadata.go             MetadataFromVersion (JSON parsing is an input: a version string is blank,
                                    unparseable, or a Metadata), IsPreviousMetadataEqual,
                                    ValidateControllerMetadata / ValidateHostMetadata, ValidateAccountAddress
    - controller/ibc_middleware.go  OnChanOpenInit/Try/Ack/Confirm, OnChanCloseInit/Confirm (ControllerEnabled)
    - controller/keeper/handshake.go OnChanOpenInit, OnChanOpenAck
    - controller/keeper/account.go  registerInterchainAccount;  controller/keeper/msg_server.go
                                    RegisterInterchainAccount, SendTx;  controller/keeper/relay.go sendTx
    - controller/keeper/keeper.go   GetActiveChannelID, GetOpenActiveChannel, IsActiveChannelClosed, Set*
    - host/ibc_module.go, host/keeper/handshake.go  OnChanOpenInit/Try/Confirm, account reuse
    The core channel state machine is an input: an operation says which handshake step core runs; the
    model contains only core's own state guard for that step (ChanOpenAck needs INIT, ChanOpenConfirm
    needs TRYOPEN), the identifier allocation, and the state core writes when the callback succeeds. *)
From IBC Require Import Lib.Bytes Lib.Dec IcaGmp.Gmp IcaGmp.IcaHost.
Local Open Scope N_scope.

Inductive ChState := StInit | StTryOpen | StOpen | StClosed.
Definition chstate_eqb (a b : ChState) : bool :=
  match a, b with StInit, StInit | StTryOpen, StTryOpen | StOpen, StOpen | StClosed, StClosed => true | _, _ => false end.

Inductive Order := OrdNone | OrdUnordered | OrdOrdered.
Definition order_eqb (a b : Order) : bool :=
  match a, b with OrdNone, OrdNone | OrdUnordered, OrdUnordered | OrdOrdered, OrdOrdered => true | _, _ => false end.

Record Metadata := mkMd { md_version : bytes; md_ctrl : bytes; md_host : bytes; md_addr : bytes; md_enc : bytes; md_tx : bytes }.

(** what a version string is to the code *)
Inductive VersionStr :=
| VBlank                 (* strings.TrimSpace(v) == "" *)
| VBad                   (* not blank, MetadataFromVersion fails *)
| VMeta (m : Metadata).

Definition metadata_of (v : VersionStr) : option Metadata := match v with VMeta m => Some m | _ => None end.

Definition ica_version : bytes := B "ics27-1".
Definition host_port : bytes := B "icahost".
Definition ctrl_prefix : bytes := B "icacontroller-".
Definition enc_proto3 : bytes := B "proto3".
Definition enc_proto3json : bytes := B "proto3json".
Definition tx_multi : bytes := B "sdk_multi_msg".

Definition default_metadata (ctrl host : bytes) : Metadata := mkMd ica_version ctrl host [] enc_proto3 tx_multi.

(** IsPreviousMetadataEqual: every field but the address *)
Definition prev_metadata_equal (prev : VersionStr) (m : Metadata) : bool :=
  match metadata_of prev with
  | None => false
  | Some p => bytes_eqb (md_version p) (md_version m) && bytes_eqb (md_ctrl p) (md_ctrl m) &&
              bytes_eqb (md_host p) (md_host m) && bytes_eqb (md_enc p) (md_enc m) && bytes_eqb (md_tx p) (md_tx m)
  end.

(** ValidateAccountAddress: ^[a-zA-Z0-9]+$ and at most 128 bytes *)
Definition addr_valid (a : bytes) : bool :=
  negb (lenN a =? 0) && forallb is_alnum a && (lenN a <=? 128).

(** Validate{Controller,Host}Metadata given the connection pair the channel's first hop stands for *)
Definition validate_metadata (m : Metadata) (conns : option (bytes * bytes)) : bool :=
  (bytes_eqb (md_enc m) enc_proto3 || bytes_eqb (md_enc m) enc_proto3json) &&
  bytes_eqb (md_tx m) tx_multi &&
  match conns with
  | None => false                                          (* GetConnection fails *)
  | Some (ctrl, host) =>
      bytes_eqb (md_ctrl m) ctrl && bytes_eqb (md_host m) host &&
      (match md_addr m with [] => true | a => addr_valid a end) &&
      bytes_eqb (md_version m) ica_version
  end.

Record Chan := mkChan { ch_port : bytes; ch_conn : bytes; ch_state : ChState; ch_order : Order;
                        ch_version : VersionStr; ch_cp_port : bytes }.

Fixpoint chan_get (m : list (N * Chan)) (id : N) : option Chan :=
  match m with [] => None | (k, c) :: m' => if k =? id then Some c else chan_get m' id end.
Fixpoint chan_set (m : list (N * Chan)) (id : N) (c : Chan) : list (N * Chan) :=
  match m with
  | [] => [(id, c)]
  | (k, c0) :: m' => if k =? id then (k, c) :: m' else (k, c0) :: chan_set m' id c
  end.

(** channelKeeper.GetChannel(port, id) *)
Definition get_channel (m : list (N * Chan)) (port : bytes) (id : N) : option Chan :=
  match chan_get m id with
  | Some c => if bytes_eqb (ch_port c) port then Some c else None
  | None => None
  end.

Fixpoint set2 {V} (m : list ((bytes * bytes) * V)) (a b : bytes) (v : V) : list ((bytes * bytes) * V) :=
  match m with
  | [] => [((a, b), v)]
  | ((x, y), w) :: m' => if bytes_eqb x a && bytes_eqb y b then ((x, y), v) :: m' else ((x, y), w) :: set2 m' a b v
  end.

Fixpoint conn_get (m : list (bytes * bytes)) (c : bytes) : option bytes :=
  match m with [] => None | (k, v) :: m' => if bytes_eqb k c then Some v else conn_get m' c end.

Inductive CbRes (T : Type) := CbOk (x : T) | CbErr | CbPanic.
Arguments CbOk {T}. Arguments CbErr {T}. Arguments CbPanic {T}.

(** * Controller chain *)
Record Ctrl := mkCtrl {
  cs_enabled : bool;                              (* params.ControllerEnabled *)
  cs_conns : list (bytes * bytes);                (* connection -> counterparty connection *)
  cs_chans : list (N * Chan);                     (* channels on icacontroller-* ports, by sequence number *)
  cs_active : list ((bytes * bytes) * N);         (* (connection, port) -> active channel *)
  cs_accounts : list ((bytes * bytes) * bytes);   (* (connection, port) -> interchain account address *)
  cs_mw : list ((bytes * bytes) * bool);          (* (connection, port) -> middleware enabled(true)/disabled(false) *)
  cs_next : N }.                                  (* next channel sequence *)

Definition open_active_channel (s : Ctrl) (conn port : bytes) : option N :=
  match assoc2 (cs_active s) conn port with
  | None => None
  | Some id => match get_channel (cs_chans s) port id with
               | Some c => if chstate_eqb (ch_state c) StOpen then Some id else None
               | None => None
               end
  end.

Definition is_active_channel_closed (s : Ctrl) (conn port : bytes) : bool :=
  match assoc2 (cs_active s) conn port with
  | None => false
  | Some id => match get_channel (cs_chans s) port id with
               | Some c => chstate_eqb (ch_state c) StClosed
               | None => false
               end
  end.

Definition conn_pair_ctrl (s : Ctrl) (conn : bytes) : option (bytes * bytes) :=
  match conn_get (cs_conns s) conn with Some cp => Some (conn, cp) | None => None end.

(** NewControllerPortID *)
Definition controller_port (owner : bytes) : option bytes :=
  if blank owner then None else Some (ctrl_prefix ++ owner).

(** controller keeper.OnChanOpenInit (behind the middleware's ControllerEnabled check) *)
Definition ctrl_on_init (s : Ctrl) (order : Order) (conn port cp_port : bytes) (v : VersionStr) : CbRes Metadata :=
  if negb (cs_enabled s) then CbErr
  else if negb (is_prefix ctrl_prefix port) then CbErr
  else if negb (bytes_eqb cp_port host_port) then CbErr
  else
    let om := match v with
              | VBlank => match conn_get (cs_conns s) conn with
                          | Some cp => Some (default_metadata conn cp)
                          | None => None
                          end
              | VBad => None
              | VMeta m => Some m
              end in
    match om with
    | None => CbErr
    | Some m =>
        if negb (validate_metadata m (conn_pair_ctrl s conn)) then CbErr
        else match assoc2 (cs_active s) conn port with
             | None => CbOk m
             | Some id =>
                 match get_channel (cs_chans s) port id with
                 | None => CbPanic
                 | Some c =>
                     if negb (chstate_eqb (ch_state c) StClosed) then CbErr
                     else if negb (order_eqb (ch_order c) order) then CbErr
                     else if negb (prev_metadata_equal (ch_version c) m) then CbErr
                     else CbOk m
                 end
             end
    end.

(** core ChanOpenInit around the callback: the connection must exist; on success the channel is
    written in INIT with the returned version and the sequence is consumed *)
Definition ctrl_chan_open_init (s : Ctrl) (order : Order) (conn port cp_port : bytes) (v : VersionStr) : Ctrl * Res * option N :=
  match conn_get (cs_conns s) conn with
  | None => (s, RErr, None)
  | Some _ =>
      match ctrl_on_init s order conn port cp_port v with
      | CbOk m =>
          let id := cs_next s in
          (mkCtrl (cs_enabled s) (cs_conns s)
                  (chan_set (cs_chans s) id (mkChan port conn StInit order (VMeta m) cp_port))
                  (cs_active s) (cs_accounts s) (cs_mw s) (id + 1), ROk, Some id)
      | CbErr => (s, RErr, None)
      | CbPanic => (s, RPanic, None)
      end
  end.

(** msg server RegisterInterchainAccount (+ keeper.registerInterchainAccount) *)
Definition ctrl_register (s : Ctrl) (owner conn : bytes) (v : VersionStr) (order : Order) : Ctrl * Res * option N :=
  match controller_port owner with
  | None => (s, RErr, None)
  | Some port =>
      if (match assoc2 (cs_mw s) conn port with Some true => true | _ => false end)
         && negb (is_active_channel_closed s conn port) then (s, RErr, None)
      else
        let s1 := mkCtrl (cs_enabled s) (cs_conns s) (cs_chans s) (cs_active s) (cs_accounts s)
                         (set2 (cs_mw s) conn port false) (cs_next s) in
        let order' := match order with OrdNone => OrdUnordered | o => o end in
        match open_active_channel s1 conn port with
        | Some _ => (s, RErr, None)
        | None =>
            match ctrl_chan_open_init s1 order' conn port host_port v with
            | (s2, ROk, id) => (s2, ROk, id)
            | (_, r, _) => (s, r, None)                       (* the transaction is reverted *)
            end
        end
  end.

(** controller keeper.OnChanOpenAck *)
Definition ctrl_on_ack (s : Ctrl) (port : bytes) (id : N) (cpv : VersionStr) : CbRes (bytes * bytes) :=
  if negb (cs_enabled s) then CbErr
  else if bytes_eqb port host_port then CbErr
  else if negb (is_prefix ctrl_prefix port) then CbErr
  else match metadata_of cpv with
       | None => CbErr
       | Some m =>
           match open_active_channel s (md_ctrl m) port with
           | Some _ => CbErr
           | None =>
               match get_channel (cs_chans s) port id with
               | None => CbErr
               | Some c =>
                   if negb (validate_metadata m (conn_pair_ctrl s (ch_conn c))) then CbErr
                   else if blank (md_addr m) then CbErr
                   else CbOk (md_ctrl m, md_addr m)
               end
           end
       end.

(** core ChanOpenAck around the callback: the channel must be INIT; on success OPEN with the counterparty version *)
Definition ctrl_chan_open_ack (s : Ctrl) (id : N) (cpv : VersionStr) : Ctrl * Res :=
  match chan_get (cs_chans s) id with
  | None => (s, RErr)
  | Some c =>
      if negb (chstate_eqb (ch_state c) StInit) then (s, RErr)
      else match ctrl_on_ack s (ch_port c) id cpv with
           | CbOk (conn, addr) =>
               (mkCtrl (cs_enabled s) (cs_conns s)
                       (chan_set (cs_chans s) id (mkChan (ch_port c) (ch_conn c) StOpen (ch_order c) cpv (ch_cp_port c)))
                       (set2 (cs_active s) conn (ch_port c) id)
                       (set2 (cs_accounts s) conn (ch_port c) addr) (cs_mw s) (cs_next s), ROk)
           | CbErr => (s, RErr)
           | CbPanic => (s, RPanic)
           end
  end.

(** a channel end is closed (timeout on an ORDERED channel, ChanCloseConfirm): the callbacks are no-ops *)
Definition ctrl_close (s : Ctrl) (id : N) : Ctrl :=
  match chan_get (cs_chans s) id with
  | None => s
  | Some c => mkCtrl (cs_enabled s) (cs_conns s)
                     (chan_set (cs_chans s) id (mkChan (ch_port c) (ch_conn c) StClosed (ch_order c) (ch_version c) (ch_cp_port c)))
                     (cs_active s) (cs_accounts s) (cs_mw s) (cs_next s)
  end.

(** msg server SendTx: [signer] is the transaction signer the SDK verified; the cosmos.msg.v1.signer
    annotation of MsgSendTx binds it to msg.Owner.  [timeout_ok]: block time < absolute timeout and the
    packet data passes ValidateBasic.  Result: the (port, channel) the packet is sent on. *)
Definition ctrl_send_tx (s : Ctrl) (signer owner conn : bytes) (timeout_ok : bool) : option (bytes * N) :=
  if negb (bytes_eqb signer owner) then None
  else match controller_port owner with
       | None => None
       | Some port =>
           if negb (cs_enabled s) then None
           else match open_active_channel s conn port with
                | None => None
                | Some id => if timeout_ok then Some (port, id) else None
                end
       end.

(** * Host chain *)
Record Host := mkHost {
  hs_enabled : bool;
  hs_conns : list (bytes * bytes);
  hs_chans : list (N * Chan);
  hs_active : list ((bytes * bytes) * N);         (* (connection, controller port) -> active channel *)
  hs_accounts : list ((bytes * bytes) * bytes);   (* (connection, controller port) -> account address *)
  hs_ica_typed : list bytes;                      (* addresses whose sdk account has the InterchainAccount type *)
  hs_taken : list bytes;                          (* other existing sdk account addresses *)
  hs_next : N }.

Definition mem_bytes (a : bytes) (l : list bytes) : bool := existsb (bytes_eqb a) l.

(** host keeper.OnChanOpenTry (behind HostEnabled). [gen]: the address GenerateAddress derives in this
    block (depends on the block's app hash: an input).  Returns the version (metadata with the address)
    and the new accounts / account-type sets. *)
Definition host_on_try (h : Host) (port conn cp_port : bytes) (cpv : VersionStr) (gen : bytes)
  : CbRes (Metadata * list ((bytes * bytes) * bytes) * list bytes) :=
  if negb (hs_enabled h) then CbErr
  else if negb (bytes_eqb port host_port) then CbErr
  else
    let om := match metadata_of cpv with
              | Some m => Some m
              | None => match conn_get (hs_conns h) conn with
                        | Some cp => Some (default_metadata cp conn)
                        | None => None
                        end
              end in
    match om with
    | None => CbErr
    | Some m0 =>
        let m := mkMd (md_version m0) (md_ctrl m0) conn (md_addr m0) (md_enc m0) (md_tx m0) in
        let conns := match conn_get (hs_conns h) conn with Some cp => Some (cp, conn) | None => None end in
        if negb (validate_metadata m conns) then CbErr
        else
          let active_ok :=
            match assoc2 (hs_active h) conn cp_port with
            | None => CbOk tt
            | Some id => match get_channel (hs_chans h) port id with
                         | None => CbPanic
                         | Some c => if chstate_eqb (ch_state c) StClosed then CbOk tt else CbErr
                         end
            end in
          match active_ok with
          | CbPanic => CbPanic
          | CbErr => CbErr
          | CbOk _ =>
              match assoc2 (hs_accounts h) conn cp_port with
              | Some a =>                                              (* reopening: reuse the registered address *)
                  if mem_bytes a (hs_ica_typed h)
                  then CbOk (mkMd (md_version m) (md_ctrl m) (md_host m) a (md_enc m) (md_tx m), hs_accounts h, hs_ica_typed h)
                  else CbErr
              | None =>                                                (* createInterchainAccount *)
                  if mem_bytes gen (hs_ica_typed h) || mem_bytes gen (hs_taken h) then CbErr
                  else CbOk (mkMd (md_version m) (md_ctrl m) (md_host m) gen (md_enc m) (md_tx m),
                             set2 (hs_accounts h) conn cp_port gen, gen :: hs_ica_typed h)
              end
          end
    end.

(** core ChanOpenTry around the callback *)
Definition host_chan_open_try (h : Host) (order : Order) (conn cp_port : bytes) (cpv : VersionStr) (gen : bytes)
  : Host * Res * option N :=
  match conn_get (hs_conns h) conn with
  | None => (h, RErr, None)
  | Some _ =>
      match host_on_try h host_port conn cp_port cpv gen with
      | CbOk (m, accts, typed) =>
          let id := hs_next h in
          (mkHost (hs_enabled h) (hs_conns h)
                  (chan_set (hs_chans h) id (mkChan host_port conn StTryOpen order (VMeta m) cp_port))
                  (hs_active h) accts typed (hs_taken h) (id + 1), ROk, Some id)
      | CbErr => (h, RErr, None)
      | CbPanic => (h, RPanic, None)
      end
  end.

(** core ChanOpenConfirm + host keeper.OnChanOpenConfirm: the active channel is set unconditionally *)
Definition host_chan_open_confirm (h : Host) (id : N) : Host * Res :=
  match chan_get (hs_chans h) id with
  | None => (h, RErr)
  | Some c =>
      if negb (chstate_eqb (ch_state c) StTryOpen) then (h, RErr)
      else if negb (hs_enabled h) then (h, RErr)
      else (mkHost (hs_enabled h) (hs_conns h)
                   (chan_set (hs_chans h) id (mkChan (ch_port c) (ch_conn c) StOpen (ch_order c) (ch_version c) (ch_cp_port c)))
                   (set2 (hs_active h) (ch_conn c) (ch_cp_port c) id)
                   (hs_accounts h) (hs_ica_typed h) (hs_taken h) (hs_next h), ROk)
  end.

Definition host_close (h : Host) (id : N) : Host :=
  match chan_get (hs_chans h) id with
  | None => h
  | Some c => mkHost (hs_enabled h) (hs_conns h)
                     (chan_set (hs_chans h) id (mkChan (ch_port c) (ch_conn c) StClosed (ch_order c) (ch_version c) (ch_cp_port c)))
                     (hs_active h) (hs_accounts h) (hs_ica_typed h) (hs_taken h) (hs_next h)
  end.

(** * Histories *)
Inductive COp :=
| CRegister (owner conn : bytes) (v : VersionStr) (order : Order)
| CInit (order : Order) (conn port cp_port : bytes) (v : VersionStr)
| CAck (id : N) (cpv : VersionStr)
| CClose (id : N)
| CTry                       (* controller OnChanOpenTry / OnChanOpenConfirm / OnChanCloseInit: always an error *)
| CSendTx (signer owner conn : bytes) (timeout_ok : bool).

Definition ctrl_step (s : Ctrl) (o : COp) : Ctrl * Res :=
  match o with
  | CRegister owner conn v order => let '(s', r, _) := ctrl_register s owner conn v order in (s', r)
  | CInit order conn port cp v => let '(s', r, _) := ctrl_chan_open_init s order conn port cp v in (s', r)
  | CAck id cpv => ctrl_chan_open_ack s id cpv
  | CClose id => (ctrl_close s id, ROk)
  | CTry => (s, RErr)
  | CSendTx sg ow conn tok => (s, match ctrl_send_tx s sg ow conn tok with Some _ => ROk | None => RErr end)
  end.

Definition ctrl_run (s : Ctrl) (ops : list COp) : Ctrl := fold_left (fun s o => fst (ctrl_step s o)) ops s.

Inductive HOp :=
| HInit                      (* host OnChanOpenInit / OnChanOpenAck / OnChanCloseInit: always an error *)
| HTry (order : Order) (conn cp_port : bytes) (cpv : VersionStr) (gen : bytes)
| HConfirm (id : N)
| HClose (id : N).

Definition host_step (h : Host) (o : HOp) : Host * Res :=
  match o with
  | HInit => (h, RErr)
  | HTry order conn cp cpv gen => let '(h', r, _) := host_chan_open_try h order conn cp cpv gen in (h', r)
  | HConfirm id => host_chan_open_confirm h id
  | HClose id => (host_close h id, ROk)
  end.

Definition host_run (h : Host) (ops : list HOp) : Host := fold_left (fun h o => fst (host_step h o)) ops h.
