(** Proofs about the callbacks model (IcaGmp/Callbacks.v). *)
From Coq Require Import ZifyBool ZifyN.
From IBC Require Import Lib.Bytes Lib.Dec Lib.DecFacts IcaGmp.Callbacks.
Local Open Scope N_scope.

(** * Gas limits *)
Lemma commit_gas_limit_spec user maxg :
  commit_gas_limit user maxg = (if (user =? 0) || (maxg <? user) then maxg else user) /\
  (user = 0 \/ maxg < user -> commit_gas_limit user maxg = maxg) /\
  (user <> 0 -> user <= maxg -> commit_gas_limit user maxg = user) /\
  commit_gas_limit user maxg <= maxg.
Proof. unfold commit_gas_limit. repeat split; intros; destruct (user =? 0) eqn:E1, (maxg <? user) eqn:E2; simpl; lia. Qed.

Lemma exec_gas_limit_spec remaining commit :
  exec_gas_limit remaining commit = N.min remaining commit /\
  exec_gas_limit remaining commit <= remaining /\ exec_gas_limit remaining commit <= commit.
Proof. unfold exec_gas_limit. lia. Qed.

Lemma compute_limits_spec f remaining maxg exec commit :
  compute_limits f remaining maxg = Some (exec, commit) ->
  exists user, user_gas_limit f = Some user /\ user < two64 /\
               commit = commit_gas_limit user maxg /\ exec = N.min remaining commit /\
               exec <= remaining /\ exec <= commit /\ commit <= maxg.
Proof.
  unfold compute_limits. destruct (user_gas_limit f) as [u|] eqn:U; [|discriminate].
  intros [= <- <-]. exists u. repeat split; try (unfold exec_gas_limit; lia).
  - destruct f as [| |s]; simpl in U; try discriminate.
    + injection U as <-. reflexivity.
    + destruct s; [injection U as <-; reflexivity|]. now apply parse_bound in U.
  - apply commit_gas_limit_spec.
Qed.

Lemma allow_retry_spec exec commit : allow_retry exec commit = true <-> exec < commit.
Proof. unfold allow_retry. lia. Qed.

(** * Meters *)
Lemma consume_gas_ok m a :
  m_consumed m <= m_limit m -> m_limit m < two64 -> a <= gas_remaining m ->
  consume_gas m a = (mkMeter (m_limit m) (m_consumed m + a), None).
Proof.
  intros Hc Hl Ha. unfold gas_remaining, is_past_limit in Ha. unfold consume_gas, max_u64.
  destruct (m_limit m <? m_consumed m) eqn:P; [lia|].
  destruct (two64 - 1 - m_consumed m <? a) eqn:O; [lia|].
  destruct (m_limit m <? m_consumed m + a) eqn:Q; [lia|]. reflexivity.
Qed.

Lemma gas_consumed_to_limit_min exec used :
  gas_consumed_to_limit (mkMeter exec used) = N.min used exec.
Proof. unfold gas_consumed_to_limit, is_past_limit. simpl. destruct (exec <? used) eqn:E; lia. Qed.

(** * ProcessCallback *)
Section PC.
  Variable S : Type.
  Variable f : S -> N -> ExecRes S.

  (** the outer meter is sound and the execution limit was taken from its remaining gas *)
  Definition outer_ok (outer : Meter) (exec : N) : Prop :=
    m_consumed outer <= m_limit outer /\ m_limit outer < two64 /\ exec <= gas_remaining outer.

  Definition pc_outer (r : PCRes S) : Meter := match r with PCRet _ _ o => o | PCPanic _ o => o end.

  (** outer gas charged = min(consumed, exec), whatever the executor did; never an outer-meter panic *)
  Lemma pc_charge outer t exec commit st :
    outer_ok outer exec ->
    let r := process_callback outer t exec commit st f in
    pc_outer r = mkMeter (m_limit outer) (m_consumed outer + N.min (xr_used (f st exec)) exec) /\
    (forall g o, r <> PCPanic (PvOuterGas g) o) /\
    N.min (xr_used (f st exec)) exec <= exec.
  Proof.
    intros (Hc & Hl & He). cbv zeta. unfold process_callback.
    rewrite gas_consumed_to_limit_min.
    rewrite consume_gas_ok by (auto; lia).
    destruct (f st exec) as [e s' u|u]; simpl xr_used;
      repeat match goal with
             | |- context [if ?b then _ else _] => destruct b
             end; simpl; repeat split; try discriminate; try lia.
  Qed.

  (** success: the callback's writes are committed, nil returned *)
  Lemma pc_success outer t exec commit st s' u :
    outer_ok outer exec -> f st exec = XRet false s' u -> u <= exec ->
    process_callback outer t exec commit st f =
      PCRet None s' (mkMeter (m_limit outer) (m_consumed outer + u)).
  Proof.
    intros (Hc & Hl & He) E Hu. unfold process_callback. rewrite E. simpl xr_used.
    rewrite gas_consumed_to_limit_min, consume_gas_ok by (auto; lia).
    unfold is_past_limit. simpl. destruct (exec <? u) eqn:P; [lia|].
    replace (N.min u exec) with u by lia. reflexivity.
  Qed.

  (** error returned by the contract (within its limit): error value, state discarded *)
  Lemma pc_error outer t exec commit st s' u :
    outer_ok outer exec -> f st exec = XRet true s' u -> u <= exec ->
    process_callback outer t exec commit st f =
      PCRet (Some ECallback) st (mkMeter (m_limit outer) (m_consumed outer + u)).
  Proof.
    intros (Hc & Hl & He) E Hu. unfold process_callback. rewrite E. simpl xr_used.
    rewrite gas_consumed_to_limit_min, consume_gas_ok by (auto; lia).
    unfold is_past_limit. simpl. destruct (exec <? u) eqn:P; [lia|].
    replace (N.min u exec) with u by lia. reflexivity.
  Qed.

  (** contract panic (not out of gas), non-send callback: recovered, error value, state discarded *)
  Lemma pc_panic outer t exec commit st u :
    outer_ok outer exec -> t <> CbSend -> f st exec = XPanic u -> u <= exec ->
    process_callback outer t exec commit st f =
      PCRet (Some ECbPanic) st (mkMeter (m_limit outer) (m_consumed outer + u)).
  Proof.
    intros (Hc & Hl & He) Ht E Hu. unfold process_callback. rewrite E. simpl xr_used.
    rewrite gas_consumed_to_limit_min, consume_gas_ok by (auto; lia).
    unfold is_past_limit. simpl. destruct (exec <? u) eqn:P; [lia|].
    replace (N.min u exec) with u by lia. destruct t; simpl; congruence.
  Qed.

  (** send callback: a contract panic propagates *)
  Lemma pc_send_panic outer exec commit st u :
    outer_ok outer exec -> f st exec = XPanic u ->
    exists o, process_callback outer CbSend exec commit st f = PCPanic PvContract o.
  Proof.
    intros (Hc & Hl & He) E. unfold process_callback. rewrite E. simpl xr_used.
    rewrite gas_consumed_to_limit_min, consume_gas_ok by (auto; lia). simpl. eauto.
  Qed.

  (** out of gas with exec >= commit (the relayer reserved enough): error value, state discarded
      (for a panicking or error-returning executor), the whole execution limit is charged *)
  Lemma pc_oog_no_retry outer t exec commit st :
    outer_ok outer exec -> t <> CbSend -> exec < xr_used (f st exec) -> commit <= exec ->
    (forall s' u, f st exec <> XRet false s' u) ->
    process_callback outer t exec commit st f =
      PCRet (Some ECbOutOfGas) st (mkMeter (m_limit outer) (m_consumed outer + exec)).
  Proof.
    intros (Hc & Hl & He) Ht Hu Hcm Hnf. unfold process_callback.
    rewrite gas_consumed_to_limit_min, consume_gas_ok by (auto; lia).
    replace (N.min (xr_used (f st exec)) exec) with exec by lia.
    unfold is_past_limit, allow_retry. cbn [m_limit m_consumed].
    destruct (exec <? xr_used (f st exec)) eqn:P; [|lia].
    destruct (exec <? commit) eqn:Q; [lia|].
    destruct (f st exec) as [[|] s' u|u] eqn:E; simpl.
    - reflexivity.
    - exfalso. eapply Hnf. reflexivity.
    - destruct t; simpl; congruence.
  Qed.

  (** out of gas with exec < commit (the relayer supplied less than the committed limit):
      an OutOfGas panic leaves ProcessCallback, the transaction aborts and can be retried *)
  Lemma pc_oog_retry outer t exec commit st :
    outer_ok outer exec -> exec < xr_used (f st exec) -> exec < commit ->
    (t = CbSend -> forall u, f st exec <> XPanic u) ->
    process_callback outer t exec commit st f =
      PCPanic PvOutOfGasRetry (mkMeter (m_limit outer) (m_consumed outer + exec)).
  Proof.
    intros (Hc & Hl & He) Hu Hcm Hs. unfold process_callback.
    rewrite gas_consumed_to_limit_min, consume_gas_ok by (auto; lia).
    replace (N.min (xr_used (f st exec)) exec) with exec by lia.
    unfold is_past_limit, allow_retry. cbn [m_limit m_consumed].
    destruct (exec <? xr_used (f st exec)) eqn:P; [|lia].
    destruct (exec <? commit) eqn:Q; [|lia].
    destruct (f st exec) as [e s' u|u] eqn:E; simpl; [reflexivity|].
    destruct t; simpl; try reflexivity. exfalso. eapply Hs; eauto.
  Qed.

  (** The executor respects its meter: it cannot return nil after the inner meter went past the
      limit (the sdk meter panics at that point; returning nil would need a recover() in the contract
      keeper that swallows the out-of-gas panic and reports success). *)
  Definition meter_respecting : Prop := forall st l s' u, f st l = XRet false s' u -> u <= l.

  (** every returned error value means the callback's state was discarded *)
  Lemma pc_error_discards outer t exec commit st e s o :
    meter_respecting -> process_callback outer t exec commit st f = PCRet (Some e) s o -> s = st.
  Proof.
    intros MR. unfold process_callback.
    destruct (consume_gas outer _) as [o' [g|]]; [discriminate|].
    destruct (f st exec) as [[|] s' u|u] eqn:E; simpl.
    - destruct (is_past_limit _); [destruct (allow_retry _ _)|]; intros [= _ <- _]; reflexivity.
    - apply MR in E. unfold is_past_limit. cbn [m_limit m_consumed].
      destruct (exec <? u) eqn:P; [lia|]. discriminate.
    - destruct (cb_is_send t); simpl; [discriminate|].
      destruct (is_past_limit _); [destruct (allow_retry _ _)|]; try discriminate; intros [= _ <- _]; reflexivity.
  Qed.

  (** classification of everything ProcessCallback can do for a non-send callback *)
  Lemma pc_total outer t exec commit st :
    outer_ok outer exec -> t <> CbSend -> meter_respecting ->
    let used := xr_used (f st exec) in
    let o' := mkMeter (m_limit outer) (m_consumed outer + N.min used exec) in
    (exists s', process_callback outer t exec commit st f = PCRet None s' o' /\
                f st exec = XRet false s' used /\ used <= exec) \/
    (exists e, process_callback outer t exec commit st f = PCRet (Some e) st o' /\
               (exec < used -> commit <= exec)) \/
    (process_callback outer t exec commit st f = PCPanic PvOutOfGasRetry o' /\ exec < used /\ exec < commit).
  Proof.
    intros OK Ht MR. cbv zeta.
    destruct (f st exec) as [[|] s' u|u] eqn:E; simpl xr_used.
    - destruct (N.ltb_spec exec u) as [P|P].
      + destruct (N.ltb_spec exec commit) as [Q|Q].
        * right. right. replace (N.min u exec) with exec by lia. split; [|lia].
          apply pc_oog_retry; auto; rewrite ?E; simpl; auto; try (intros ->; now elim Ht).
        * right. left. exists ECbOutOfGas. replace (N.min u exec) with exec by lia. split; [|lia].
          apply pc_oog_no_retry; auto; rewrite ?E; simpl; auto; try discriminate.
      + right. left. exists ECallback. replace (N.min u exec) with u by lia. split; [|lia].
        eapply pc_error; eauto.
    - left. exists s'. pose proof (MR _ _ _ _ E). replace (N.min u exec) with u by lia.
      split; [|auto]. eapply pc_success; eauto.
    - destruct (N.ltb_spec exec u) as [P|P].
      + destruct (N.ltb_spec exec commit) as [Q|Q].
        * right. right. replace (N.min u exec) with exec by lia. split; [|lia].
          apply pc_oog_retry; auto; rewrite ?E; simpl; auto; try (intros ->; now elim Ht).
        * right. left. exists ECbOutOfGas. replace (N.min u exec) with exec by lia. split; [|lia].
          apply pc_oog_no_retry; auto; rewrite ?E; simpl; auto; try discriminate.
      + right. left. exists ECbPanic. replace (N.min u exec) with u by lia. split; [|lia].
        eapply pc_panic; eauto.
  Qed.
End PC.

(** The corner the [meter_respecting] hypothesis excludes, exhibited: an executor that swallows the
    out-of-gas panic and returns nil has its writes committed although an error value is returned. *)
Lemma pc_swallowed_oog_commits :
  exists (f : N -> N -> ExecRes N) outer exec commit st s o,
    outer_ok outer exec /\ process_callback outer CbAck exec commit st f = PCRet (Some ECbOutOfGas) s o /\ s <> st.
Proof.
  exists (fun st l => XRet false (st + 1) (l + 1)), (mkMeter 1000 0), 100, 100, 7, 8, (mkMeter 1000 100).
  split; [unfold outer_ok; repeat split; vm_compute; congruence|].
  split; [vm_compute; reflexivity|discriminate].
Qed.

(** * Middleware *)
Section MW.
  Variable S : Type.
  Variable maxg : N.
  Variable f : S -> N -> ExecRes S.
  Hypothesis MR : meter_respecting S f.

  Definition meter_ok (outer : Meter) : Prop := m_consumed outer <= m_limit outer /\ m_limit outer < two64.

  Lemma limits_outer_ok outer gf exec commit :
    meter_ok outer -> compute_limits gf (gas_remaining outer) maxg = Some (exec, commit) ->
    outer_ok outer exec /\ exec = N.min (gas_remaining outer) commit /\ commit <= maxg.
  Proof.
    intros [Hc Hl] C. apply compute_limits_spec in C. destruct C as (u & _ & _ & _ & He & Hr & _ & Hm).
    unfold outer_ok. auto.
  Qed.

  (** the gas a callback can cost the transaction: at most min(remaining, commit), commit <= max *)
  Lemma after_app_gas_bound t outer st gf exec commit oi pr :
    meter_ok outer -> compute_limits gf (gas_remaining outer) maxg = Some (exec, commit) ->
    let r := after_app S maxg t outer st (CbWanted gf) f oi pr in
    let o' := match r with MwRet _ _ o => o | MwPanic _ o => o end in
    m_limit o' = m_limit outer /\
    m_consumed o' = m_consumed outer + N.min (xr_used (f st exec)) exec /\
    m_consumed o' - m_consumed outer <= N.min (gas_remaining outer) commit /\ commit <= maxg.
  Proof.
    intros MO C. pose proof (limits_outer_ok _ _ _ _ MO C) as (OK & He & Hm).
    cbv zeta. unfold after_app. rewrite C.
    pose proof (pc_charge S f outer t exec commit st OK) as (Ho & _ & Hb). cbv zeta in Ho.
    destruct (process_callback outer t exec commit st f) as [e s o|v o]; simpl in Ho; subst o; simpl;
      repeat split; auto; lia.
  Qed.

  (** ack / timeout / async write-ack: the lifecycle step is never failed by the callback; the state
      is the application's (callback discarded) or the callback's own successful result; the only
      other outcome is the retry panic with exec < commit *)
  Lemma after_app_nonblocking t outer st gf oi :
    t <> CbSend -> meter_ok outer ->
    forall exec commit, compute_limits gf (gas_remaining outer) maxg = Some (exec, commit) ->
    let r := after_app S maxg t outer st (CbWanted gf) f oi false in
    (exists s' o, r = MwRet true s' o /\ f st exec = XRet false s' (xr_used (f st exec)) /\ xr_used (f st exec) <= exec) \/
    (exists o, r = MwRet true st o /\ (exec < xr_used (f st exec) -> commit <= exec)) \/
    (exists o, r = MwPanic PvOutOfGasRetry o /\ exec < xr_used (f st exec) /\ exec < commit).
  Proof.
    intros Ht MO exec commit C. pose proof (limits_outer_ok _ _ _ _ MO C) as (OK & _ & _).
    cbv zeta. unfold after_app. rewrite C.
    destruct (pc_total S f outer t exec commit st OK Ht MR) as [(s' & -> & E & U)|[(e & -> & U)|(-> & U)]].
    - left. eauto.
    - right. left. simpl. eauto.
    - right. right. eauto.
  Qed.

  (** send: every callback failure rejects the send; a contract panic propagates *)
  Lemma after_app_send outer st gf oi :
    meter_ok outer ->
    forall exec commit, compute_limits gf (gas_remaining outer) maxg = Some (exec, commit) ->
    let r := after_app S maxg CbSend outer st (CbWanted gf) f oi true in
    match f st exec with
    | XRet false s' u => exists o, r = MwRet true s' o
    | XRet true _ u => (exists o, r = MwRet false st o) \/ (exists o, r = MwPanic PvOutOfGasRetry o /\ exec < u /\ exec < commit)
    | XPanic _ => exists o, r = MwPanic PvContract o
    end.
  Proof.
    intros MO exec commit C. pose proof (limits_outer_ok _ _ _ _ MO C) as (OK & _ & _).
    cbv zeta. unfold after_app. rewrite C.
    destruct (f st exec) as [[|] s' u|u] eqn:E.
    - destruct (N.ltb_spec exec u) as [P|P].
      + destruct (N.ltb_spec exec commit) as [Q|Q].
        * right. rewrite pc_oog_retry; auto; rewrite ?E; simpl; eauto; try (intros _ u'; discriminate).
        * left. destruct OK as (Hc & Hl & He). unfold process_callback. rewrite E. simpl xr_used.
          rewrite gas_consumed_to_limit_min, consume_gas_ok by (auto; lia).
          unfold is_past_limit, allow_retry. simpl.
          destruct (exec <? u) eqn:P'; [|lia]. destruct (exec <? commit) eqn:Q'; [lia|]. simpl. eauto.
      + left. erewrite pc_error; eauto; simpl; eauto.
    - pose proof (MR _ _ _ _ E). erewrite pc_success; eauto; simpl; eauto.
    - destruct (pc_send_panic S f outer exec commit st u OK E) as [o ->]. eauto.
  Qed.

  (** destination callback: a failing callback yields an error acknowledgement and core RecvPacket
      keeps the state from before the application ran *)
  Lemma core_recv_failing_callback outer st0 st_app gf :
    meter_ok outer ->
    forall exec commit, compute_limits gf (gas_remaining outer) maxg = Some (exec, commit) ->
    (forall s' u, f st_app exec <> XRet false s' u) ->
    (exec < xr_used (f st_app exec) -> commit <= exec) ->
    exists o, core_recv S maxg outer st0 AckSuccess st_app (CbWanted gf) f = Some (st0, AckError, o).
  Proof.
    intros MO exec commit C Hnf Hg. pose proof (limits_outer_ok _ _ _ _ MO C) as (OK & _ & _).
    unfold core_recv, mw_recv, after_app. rewrite C.
    assert (Ht : CbRecv <> CbSend) by discriminate.
    destruct (pc_total S f outer CbRecv exec commit st_app OK Ht MR) as [(s' & _ & E & _)|[(e & -> & _)|(_ & U1 & U2)]].
    - exfalso. eapply Hnf; eauto.
    - simpl. eauto.
    - lia.
  Qed.

  Lemma core_recv_success outer st0 st_app gf s' u :
    meter_ok outer ->
    forall exec commit, compute_limits gf (gas_remaining outer) maxg = Some (exec, commit) ->
    f st_app exec = XRet false s' u ->
    exists o, core_recv S maxg outer st0 AckSuccess st_app (CbWanted gf) f = Some (s', AckSuccess, o).
  Proof.
    intros MO exec commit C E. pose proof (limits_outer_ok _ _ _ _ MO C) as (OK & _ & _).
    unfold core_recv, mw_recv, after_app. rewrite C.
    pose proof (MR _ _ _ _ E). erewrite pc_success; eauto; simpl; eauto.
  Qed.

  (** an application error acknowledgement never runs the callback and commits nothing *)
  Lemma core_recv_app_error outer st0 st_app d :
    core_recv S maxg outer st0 AckError st_app d f = Some (st0, AckError, outer).
  Proof. reflexivity. Qed.
End MW.
