(** A one-denomination bank used by the correspondence cases of the ICA host and GMP models:
    balances by raw address; MsgSend as a message step (fails on insufficient funds). *)
From IBC Require Import Lib.Bytes IcaGmp.Gmp.
Local Open Scope N_scope.

Definition Bank := list (bytes * N).

Fixpoint bal (b : Bank) (a : bytes) : N :=
  match b with
  | [] => 0
  | (k, v) :: b' => if bytes_eqb k a then v else bal b' a
  end.

Fixpoint set_bal (b : Bank) (a : bytes) (v : N) : Bank :=
  match b with
  | [] => [(a, v)]
  | (k, w) :: b' => if bytes_eqb k a then (k, v) :: b' else (k, w) :: set_bal b' a v
  end.

(** bank MsgSend: SubUnlockedCoins then AddCoins *)
Definition bank_send (from to : bytes) (amt : N) (b : Bank) : option Bank :=
  if bal b from <? amt then None
  else let b1 := set_bal b from (bal b from - amt) in Some (set_bal b1 to (bal b1 to + amt)).
