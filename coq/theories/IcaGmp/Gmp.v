(** ICS-27 GMP accounts (modules/apps/27-gmp).  Definitions only; proofs in GmpFacts.v.

    Sources modelled, in the order the code checks things:
    - types/account.go  BuildAddressPredictable, uint64LengthPrefix
    - cosmos-sdk types/address/hash.go  Module, Hash  (the hash is a Section variable [H]; the
      correspondence instantiates it with Lib.Sha256.sha256)
    - keeper/account.go getOrCreateICS27Account
    - keeper/relay.go   OnRecvPacket, executeTx, authenticateTx, executeMsg
    - ibc_module.go     OnSendPacket, OnRecvPacket;  core/04-channel/v2/keeper/msg_server.go RecvPacket
      (per-payload cache context, written unless the status is Failure) *)
From IBC Require Import Lib.Bytes Lib.Dec Lib.BE64.
Local Open Scope N_scope.

(** * strings.TrimSpace(s) == ""  (unicode.IsSpace on UTF-8; invalid sequences are not spaces) *)
Definition ascii_space (n : N) : bool :=
  (n =? 9) || (n =? 10) || (n =? 11) || (n =? 12) || (n =? 13) || (n =? 32).

Fixpoint blank (s : bytes) : bool :=
  match s with
  | [] => true
  | c :: r =>
      let n := N_of_ascii c in
      if ascii_space n then blank r
      else if n =? 194 then                                  (* U+0085, U+00A0 *)
        match r with
        | d :: r' => let m := N_of_ascii d in ((m =? 133) || (m =? 160)) && blank r'
        | _ => false
        end
      else if n =? 225 then                                  (* U+1680 *)
        match r with
        | d1 :: d2 :: r' => (N_of_ascii d1 =? 154) && (N_of_ascii d2 =? 128) && blank r'
        | _ => false
        end
      else if n =? 226 then                                  (* U+2000-200A, 2028, 2029, 202F, 205F *)
        match r with
        | d1 :: d2 :: r' =>
            let a := N_of_ascii d1 in let b := N_of_ascii d2 in
            (((a =? 128) && (((128 <=? b) && (b <=? 138)) || (b =? 168) || (b =? 169) || (b =? 175)))
             || ((a =? 129) && (b =? 159))) && blank r'
        | _ => false
        end
      else if n =? 227 then                                  (* U+3000 *)
        match r with
        | d1 :: d2 :: r' => (N_of_ascii d1 =? 128) && (N_of_ascii d2 =? 128) && blank r'
        | _ => false
        end
      else false
  end.

(** * 24-host ClientIdentifierValidator: not blank, no '/', 4..64 bytes, IsValidID character class *)
Definition id_char (c : ascii) : bool :=
  is_alnum c ||
  let n := N_of_ascii c in
  (n =? 46) || (n =? 95) || (n =? 43) || (n =? 45) || (n =? 35) || (n =? 91) || (n =? 93) || (n =? 60) || (n =? 62).

Definition lenN (s : bytes) : N := N.of_nat (length s).

Definition client_id_valid (id : bytes) : bool :=
  negb (blank id) && negb (existsb (Ascii.eqb slash) id) &&
  (4 <=? lenN id) && (lenN id <=? 64) && forallb id_char id.

(** * The derivation *)
Definition len_prefix (b : bytes) : bytes := be64 (lenN b) ++ b.

(** (len(clientId) | clientId | len(sender) | sender | len(salt) | salt) *)
Definition gmp_key (c s salt : bytes) : bytes := len_prefix c ++ len_prefix s ++ len_prefix salt.

Definition zero_byte : ascii := ascii_of_N 0.
Definition accounts_key : bytes := B "gmp-accounts".

(** address.Module(name, key) = Hash("module", name ‖ 0x00 ‖ key); Hash(typ, k) = H(H(typ) ‖ k) *)
Section Derivation.
  Variable H : bytes -> bytes.

  Definition module_preimage (name key : bytes) : bytes := H (B "module") ++ name ++ zero_byte :: key.
  Definition address_module (name key : bytes) : bytes := H (module_preimage name key).

  (** address.Module(accountsKey, key)[:AccountAddrLen] *)
  Definition gmp_address (c s salt : bytes) : bytes :=
    firstn 32 (address_module accounts_key (gmp_key c s salt)).

  (** BuildAddressPredictable: None = error *)
  Definition build_address (c s salt : bytes) : option bytes :=
    if negb (client_id_valid c) then None
    else if blank s then None
    else Some (gmp_address c s salt).
End Derivation.

(** * Keeper *)
Definition Triple : Type := (bytes * bytes * bytes)%type.
Definition has_nul (s : bytes) : bool := existsb (Ascii.eqb zero_byte) s.
Definition triple_eqb (a b : Triple) : bool :=
  let '(c, s, x) := a in let '(c', s', x') := b in bytes_eqb c c' && bytes_eqb s s' && bytes_eqb x x'.

Fixpoint acc_get (m : list (Triple * bytes)) (t : Triple) : option bytes :=
  match m with
  | [] => None
  | (k, v) :: m' => if triple_eqb k t then Some v else acc_get m' t
  end.

Inductive MsgOutcome (S : Type) := MOk (s : S) | MErr | MPanic.
Arguments MOk {S}. Arguments MErr {S}. Arguments MPanic {S}.

(** A message: the signers the codec's GetMsgV1Signers returns ([None] = it errors) and what
    ValidateBasic + router lookup + handler do to the (cached) state. The step is an arbitrary function. *)
Record Msg (S : Type) := mkMsg { m_url : bytes; m_signers : option (list bytes); m_step : S -> MsgOutcome S }.
Arguments mkMsg {S}. Arguments m_url {S}. Arguments m_signers {S}. Arguments m_step {S}.

Inductive Res := ROk | RErr | RPanic.
Definition res_eqb (a b : Res) : bool :=
  match a, b with ROk, ROk | RErr, RErr | RPanic, RPanic => true | _, _ => false end.

(** the message loop of executeTx on the cache context: every message in order, stop at the first failure *)
Fixpoint run_msgs {S} (msgs : list (Msg S)) (s : S) : MsgOutcome S :=
  match msgs with
  | [] => MOk s
  | m :: ms => match m_step m s with
               | MOk s' => run_msgs ms s'
               | MErr => MErr
               | MPanic => MPanic
               end
  end.

Section Keeper.
  Variable H : bytes -> bytes.
  Variable A : Type.                         (* everything outside the gmp store: bank, auth, ... *)
  Variable ensure_account : bytes -> A -> A. (* accountKeeper GetAccount / NewAccountWithAddress+SetAccount *)

  Record GState := mkG { g_accounts : list (Triple * bytes); g_rest : A }.

  (** getOrCreateICS27Account: a stored entry wins; otherwise derive, make sure the sdk account exists, store *)
  Definition get_or_create (g : GState) (t : Triple) : option (GState * bytes) :=
    (* k.Accounts.Get with collections.Join3(client, sender, salt): a string key part containing the
       0x00 delimiter cannot be encoded, the error is not ErrNotFound and is returned *)
    if has_nul (fst (fst t)) || has_nul (snd (fst t)) then None else
    match acc_get (g_accounts g) t with
    | Some a => Some (g, a)
    | None =>
        let '(c, s, salt) := t in
        match build_address H c s salt with
        | None => None
        | Some a => Some (mkG ((t, a) :: g_accounts g) (ensure_account a (g_rest g)), a)
        end
    end.

  (** authenticateTx: non-empty list, every message has exactly one signer and it is the account *)
  Definition gmp_auth_msg (acct : bytes) (m : Msg A) : bool :=
    match m_signers m with
    | Some [sg] => bytes_eqb sg acct
    | _ => false
    end.
  Definition gmp_authenticate (acct : bytes) (msgs : list (Msg A)) : bool :=
    match msgs with [] => false | _ => forallb (gmp_auth_msg acct) msgs end.

  (** keeper.OnRecvPacket + executeTx. [payload = None]: DeserializeCosmosTx fails.
      State writes made before the failure (the account entry) stay in [ctx] at this level. *)
  Definition keeper_recv (g : GState) (t : Triple) (payload : option (list (Msg A))) : GState * Res :=
    match get_or_create g t with
    | None => (g, RErr)
    | Some (g1, acct) =>
        match payload with
        | None => (g1, RErr)
        | Some msgs =>
            if negb (gmp_authenticate acct msgs) then (g1, RErr)
            else match run_msgs msgs (g_rest g1) with
                 | MOk r' => (mkG (g_accounts g1) r', ROk)        (* writeCache() *)
                 | MErr => (g1, RErr)
                 | MPanic => (g1, RPanic)
                 end
        end
    end.

  (** IBCModule.OnRecvPacket as run by channel-v2 RecvPacket: ports, version, unmarshal, ValidateBasic,
      keeper; a Failure status (or a panic, which aborts the transaction) discards the cache context. *)
  Record RecvIn := mkRecvIn {
    ri_src_port : bytes; ri_dst_port : bytes; ri_version : bytes;
    ri_dest_client : bytes;
    ri_data : option (bytes * bytes * N * N * N);   (* sender, salt, len receiver, len payload, len memo; None = unmarshal error *)
    ri_msgs : option (list (Msg A)) }.

  Definition gmp_port : bytes := B "gmpport".
  Definition gmp_version : bytes := B "ics27-2".

  Definition data_valid (sender salt : bytes) (lrecv lpay lmemo : N) : bool :=
    negb (blank sender) && (lenN sender <=? 2048) && (lrecv <=? 2048) && (lpay <=? 32768) &&
    (lenN salt <=? 32) && (lmemo <=? 32768).

  Definition module_recv (g : GState) (i : RecvIn) : GState * Res :=
    if negb (bytes_eqb (ri_src_port i) gmp_port && bytes_eqb (ri_dst_port i) gmp_port) then (g, RErr)
    else if negb (bytes_eqb (ri_version i) gmp_version) then (g, RErr)
    else match ri_data i with
         | None => (g, RErr)
         | Some (sender, salt, lr, lp, lm) =>
             if negb (data_valid sender salt lr lp lm) then (g, RErr)
             else match keeper_recv g (ri_dest_client i, sender, salt) (ri_msgs i) with
                  | (g', ROk) => (g', ROk)
                  | (_, r) => (g, r)                               (* cache context dropped *)
                  end
         end.

  (** IBCModule.OnSendPacket. [cids_ok]: clienttypes.IsValidClientID on both identifiers (02-client, C15);
      [data]: unmarshalled packet data with [sender_addr] = AccAddressFromBech32(data.Sender). *)
  Record SendIn := mkSendIn {
    si_src_port : bytes; si_dst_port : bytes; si_cids_ok : bool;
    si_data : option (bytes * bytes * N * N * N);
    si_sender_addr : option bytes;
    si_signer : bytes }.

  Definition module_send (i : SendIn) : bool :=
    bytes_eqb (si_src_port i) gmp_port && bytes_eqb (si_dst_port i) gmp_port &&
    si_cids_ok i &&
    match si_data i with
    | None => false
    | Some (sender, salt, lr, lp, lm) =>
        data_valid sender salt lr lp lm &&
        match si_sender_addr i with
        | None => false
        | Some a => bytes_eqb (si_signer i) a
        end
    end.

  (** histories *)
  Definition run_recvs (g : GState) (ops : list RecvIn) : GState :=
    fold_left (fun g i => fst (module_recv g i)) ops g.
  Definition run_keeper_recvs (g : GState) (ops : list (Triple * option (list (Msg A)))) : GState :=
    fold_left (fun g o => fst (keeper_recv g (fst o) (snd o))) ops g.
End Keeper.

Arguments mkG {A}. Arguments g_accounts {A}. Arguments g_rest {A}.
Arguments mkRecvIn {A}.
Arguments ri_src_port {A}. Arguments ri_dst_port {A}. Arguments ri_version {A}.
Arguments ri_dest_client {A}. Arguments ri_data {A}. Arguments ri_msgs {A}.
