(** ADR-8 callbacks middleware (modules/apps/callbacks).  Definitions only; proofs in CallbacksFacts.v.

    Sources modelled:
    - cosmos-sdk store/v2/types/gas.go  basicGasMeter (ConsumeGas, GasRemaining, GasConsumedToLimit, IsPastLimit)
    - types/callbacks.go   getUserDefinedGasLimit, computeExecAndCommitGasLimit, CallbackData.AllowRetry
    - internal/process.go  ProcessCallback  (cache context, limited meter, the deferred function in its
      written order: charge the outer meter, recover, out-of-gas test)
    - ibc_middleware.go / v2/ibc_middleware.go  SendPacket/OnSendPacket, OnAcknowledgementPacket,
      OnTimeoutPacket, OnRecvPacket, WriteAcknowledgement
    - core/keeper/msg_server.go RecvPacket and 04-channel/v2 RecvPacket: application writes are committed
      only for a nil/successful acknowledgement. *)
From IBC Require Import Lib.Bytes Lib.Dec.
Local Open Scope N_scope.

Definition max_u64 : N := two64 - 1.

(** * basicGasMeter *)
Record Meter := mkMeter { m_limit : N; m_consumed : N }.

Definition is_past_limit (m : Meter) : bool := m_limit m <? m_consumed m.
Definition gas_remaining (m : Meter) : N := if is_past_limit m then 0 else m_limit m - m_consumed m.
Definition gas_consumed_to_limit (m : Meter) : N := if is_past_limit m then m_limit m else m_consumed m.

Inductive GasPanic := GasOverflow | OutOfGas.

(** ConsumeGas: the consumed counter is updated before the panic *)
Definition consume_gas (m : Meter) (amount : N) : Meter * option GasPanic :=
  if max_u64 - m_consumed m <? amount then (mkMeter (m_limit m) max_u64, Some GasOverflow)
  else let c := m_consumed m + amount in
       (mkMeter (m_limit m) c, if m_limit m <? c then Some OutOfGas else None).

(** * Gas limits *)
(** getUserDefinedGasLimit: the "gas_limit" entry of the callback data *)
Inductive GasField :=
| GfAbsent                 (* no "gas_limit" key *)
| GfNotString              (* present but not a JSON string *)
| GfString (s : bytes).    (* a JSON string *)

Definition user_gas_limit (f : GasField) : option N :=      (* None = ErrInvalidCallbackData *)
  match f with
  | GfAbsent => Some 0
  | GfNotString => None
  | GfString s => match s with [] => Some 0 | _ => parse_uint64 s end
  end.

(** computeExecAndCommitGasLimit *)
Definition commit_gas_limit (user maxg : N) : N := if (user =? 0) || (maxg <? user) then maxg else user.
Definition exec_gas_limit (remaining commit : N) : N := N.min remaining commit.

Definition compute_limits (f : GasField) (remaining maxg : N) : option (N * N) :=
  match user_gas_limit f with
  | None => None
  | Some u => let c := commit_gas_limit u maxg in Some (exec_gas_limit remaining c, c)
  end.

Definition allow_retry (exec commit : N) : bool := exec <? commit.

(** * ProcessCallback *)
Inductive CbType := CbSend | CbAck | CbTimeout | CbRecv.   (* CbRecv also serves the async write-ack path *)
Definition cb_is_send (t : CbType) : bool := match t with CbSend => true | _ => false end.

(** What the contract keeper did with the cached context whose meter has limit [exec]:
    it returned (error or nil) leaving some state and some consumed gas on the inner meter, or it
    panicked (any value, including the inner meter's own ErrorOutOfGas). The executor is an arbitrary
    function of the state it starts from and of its gas limit. *)
Inductive ExecRes (S : Type) :=
| XRet (err : bool) (s' : S) (used : N)
| XPanic (used : N).
Arguments XRet {S}. Arguments XPanic {S}.

Definition xr_used {S} (r : ExecRes S) : N := match r with XRet _ _ u => u | XPanic u => u end.

Inductive CbErr := ECallback | ECbPanic | ECbOutOfGas.

Inductive PanicVal := PvContract | PvOutOfGasRetry | PvOuterGas (g : GasPanic).

Inductive PCRes (S : Type) :=
| PCRet (err : option CbErr) (s : S) (outer : Meter)     (* returned to the middleware *)
| PCPanic (v : PanicVal) (outer : Meter).                (* panic leaves ProcessCallback: the tx aborts *)
Arguments PCRet {S}. Arguments PCPanic {S}.

Definition process_callback {S} (outer : Meter) (t : CbType) (exec commit : N) (st : S)
           (f : S -> N -> ExecRes S) : PCRes S :=
  let r := f st exec in
  let inner := mkMeter exec (xr_used r) in
  (* err = callbackExecutor(cachedCtx); if err == nil { writeFn() } *)
  let st1 := match r with XRet false s' _ => s' | _ => st end in
  let err0 := match r with XRet true _ _ => Some ECallback | _ => None end in
  (* deferred: ctx.GasMeter().ConsumeGas(cachedCtx.GasMeter().GasConsumedToLimit()) *)
  match consume_gas outer (gas_consumed_to_limit inner) with
  | (outer', Some g) => PCPanic (PvOuterGas g) outer'
  | (outer', None) =>
      (* deferred: recover(); SendPacket re-panics *)
      let panicked := match r with XPanic _ => true | _ => false end in
      if panicked && cb_is_send t then PCPanic PvContract outer'
      else
        let err1 := if panicked then Some ECbPanic else err0 in
        (* deferred: out-of-gas test *)
        if is_past_limit inner then
          if allow_retry exec commit then PCPanic PvOutOfGasRetry outer'
          else PCRet (Some ECbOutOfGas) st1 outer'
        else PCRet err1 st1 outer'
  end.

(** * The middleware entry points *)
(** GetCallbackData outcome *)
Inductive CbData :=
| NotCbPacket                    (* no callback requested / packet data not parseable: pass through *)
| CbInvalid                      (* callback requested but malformed (isCbPacket, err) *)
| CbWanted (f : GasField).       (* address ok; limits still to be computed from the gas field *)

Inductive MwRes (S : Type) :=
| MwRet (ok : bool) (s : S) (outer : Meter)     (* ok = nil error / successful ack *)
| MwPanic (v : PanicVal) (outer : Meter).
Arguments MwRet {S}. Arguments MwPanic {S}.

Section Middleware.
  Variable S : Type.
  Variable maxg : N.                               (* maxCallbackGas, non-zero by construction *)

  (** common part after the underlying application succeeded on [st] *)
  Definition after_app (t : CbType) (outer : Meter) (st : S) (d : CbData) (f : S -> N -> ExecRes S)
             (on_invalid : bool) (propagate : bool) : MwRes S :=
    match d with
    | NotCbPacket => MwRet true st outer
    | CbInvalid => MwRet on_invalid st outer
    | CbWanted gf =>
        match compute_limits gf (gas_remaining outer) maxg with
        | None => MwRet on_invalid st outer
        | Some (exec, commit) =>
            match process_callback outer t exec commit st f with
            | PCPanic v o => MwPanic v o
            | PCRet e s o => MwRet (match e with None => true | Some _ => negb propagate end) s o
            end
        end
    end.

  (** SendPacket / OnSendPacket: app first; malformed callback data and every callback failure reject the send *)
  Definition mw_send (outer : Meter) (app : option S) (d : CbData) (f : S -> N -> ExecRes S) : option (MwRes S) :=
    match app with
    | None => None                                             (* underlying send failed: error returned *)
    | Some st => Some (after_app CbSend outer st d f false true)
    end.

  (** OnAcknowledgementPacket / OnTimeoutPacket: callback errors are dropped (return nil) *)
  Definition mw_ack (outer : Meter) (app : option S) (d : CbData) (f : S -> N -> ExecRes S) : option (MwRes S) :=
    match app with
    | None => None
    | Some st => Some (after_app CbAck outer st d f false false)
    end.
  Definition mw_timeout (outer : Meter) (app : option S) (d : CbData) (f : S -> N -> ExecRes S) : option (MwRes S) :=
    match app with
    | None => None
    | Some st => Some (after_app CbTimeout outer st d f false false)
    end.

  (** WriteAcknowledgement (async): the ack is written first; callback errors are dropped *)
  Definition mw_write_ack (outer : Meter) (st : S) (d : CbData) (f : S -> N -> ExecRes S) : MwRes S :=
    after_app CbRecv outer st d f false false.

  (** OnRecvPacket: [app = (success, st)] is the underlying application's acknowledgement and state;
      an unsuccessful or async ack is returned as is; a failing callback turns it into an error ack *)
  Inductive AppAck := AckSuccess | AckError | AckAsync.
  Definition mw_recv (outer : Meter) (a : AppAck) (st : S) (d : CbData) (f : S -> N -> ExecRes S) : MwRes S * AppAck :=
    match a with
    | AckSuccess =>
        match after_app CbRecv outer st d f false true with
        | MwRet true s o => (MwRet true s o, AckSuccess)
        | MwRet false s o => (MwRet false s o, AckError)
        | MwPanic v o => (MwPanic v o, AckError)
        end
    | _ => (MwRet true st outer, a)
    end.

  (** core RecvPacket around the middleware: [st0] is the state before the application callback ran on
      the cache context; it is committed for a nil (async) or successful acknowledgement only *)
  Definition core_recv (outer : Meter) (st0 : S) (a : AppAck) (st_app : S) (d : CbData)
             (f : S -> N -> ExecRes S) : option (S * AppAck * Meter) :=       (* None = panic, tx aborted *)
    match mw_recv outer a st_app d f with
    | (MwRet _ s o, AckError) => Some (st0, AckError, o)
    | (MwRet _ s o, a') => Some (s, a', o)
    | (MwPanic _ _, _) => None
    end.
End Middleware.
